(* C20 -- a scripted network simulation over the reference-count heap.

   script := stop arg order hold nmod mod* nlink link* ninj inj*
   mod    := parent npe nsend lp(selfd) lp(tasks) trig trign trigd ngates endsend
             parent: 0 = top level, j+1 = child of module j (j earlier)
             nsend: messages sent on gate 0 at every (re)start; selfd: delays of self messages
             tasks: d = 0 blocked on a receive for ever, d > 0 sleeps d ns and ends
             trig%4: 0 none 1 shutdown 2 shutdown+restart in trigd 3 panic -- when handling its trign-th message
             (trig/4)%6: 0 scripted Module, 1..5 a builder block of blocks.rs (see World.c_kind) for which trig%4 means
               AsyncFn: 1 the task returns 2 the task asks for shutdown+restart 3 the task fails (failable/io)
               ModuleFn::failable: 1 Continue 2 Restart 3 Panic; HandlerFn::failable: 3 Panic
             log kinds: 1 start 2 message 3 task finished 4 end 5 reset 6 task failed
             endsend: at_sim_end schedules one more self message (stays in the static event buffer)
   link   := ma ga mb gb chan       gate ga of module ma .connect( gate gb of module mb, channel? )
   inj    := kind m time            kind odd: add_message_onto(gate 0 of m), even: handle_message_on(m)
   stop%6 : 0 built, frozen, dropped  1 runtime built (+ injections), dropped  2 max_itr(arg)  3 max_time(arg)
            4 run to completion  5 start + dispatch_n_events(arg), dropped without finish
   order  : odd = the returned profiler (remaining events) is dropped before the Sim; bit 1 (order/2 odd): the runner
            drops everything BY UNWINDING (a panic while the Sim / runtime / result is alive).  The model does not
            read that bit: the same handles are released either way (Main.drop_path_irrelevant)
   hold   : odd = the caller keeps its GateRefs / ModuleRefs until everything else is dropped; bit 1 (hold/2 odd): the
            reference counts printed at the stopping point include the classes that need the hook
            fixes/hook_own_counts.diff (module context, processor, runtime, timer queue and slots, module tree)

   Output: the record
     ok res nrem time  created(proc elem task msg)  once(proc elem task msg)  notonce alive  nlog log*  ncnt cnt*
   cnt* = (strong, weak) reference counts at the stopping point, before anything is dropped (none when run()
   returned an error: everything is gone then): Globals; [hooked: module tree; per module: context, processor,
   runtime (twice: Arc<Runtime>, Rc<LocalSet>; one number each), timer queue, n, n pending slots]; every gate of
   every module; every channel in creation order
   twice (the second simulation in the same process must behave like the first), then one number:
   1 iff any object at all is still allocated after the drop
   No proofs in this file. *)
From Coq Require Import List NArith Arith Bool.
From DesVerif Require Import Common.Codec CQueue.Model CQueue.Spec Own.Heap Own.Shape Own.Safe Own.Ops Own.Check Own.World.
Import ListNotations.
Open Scope N_scope.

(* ---- building ---- *)
Definition tree_pos (order : list nat) (depths : list nat) (parent : nat) (pd : nat) : nat :=
  (* index after the last occurrence of [parent] and after everything deeper than it that follows *)
  let fix skip (l : list nat) (k : nat) : nat :=
    match l with
    | x :: r => if Nat.ltb pd (nth x depths 0%nat) then skip r (S k) else k
    | [] => k
    end in
  let fix go (l : list nat) (k : nat) (best : option nat) : option nat :=
    match l with
    | x :: r => go r (S k) (if Nat.eqb x parent then Some (skip r (S k)) else best)
    | [] => best
    end in
  match go order 0%nat None with Some p => p | None => length order end.

Definition insert_at {A} (l : list A) (p : nat) (x : A) : list A := firstn p l ++ x :: skipn p l.

Definition elem_ids (i : nat) (n : N) : list N := map (fun k => N.of_nat i * 8 + N.of_nat k) (seq 0 (N.to_nat n)).

Definition add_module (hold : bool) (w : world) (c : mcfg) : world :=
  let i := length (w_mods w) in
  let par := if c_parent c =? 0 then None
             else match nth_error (w_mods w) (N.to_nat (c_parent c) - 1) with
                  | Some p => Some (N.to_nat (c_parent c) - 1, p)%nat | None => None end in
  let depth := match par with Some (_, p) => S (m_depth p) | None => 1%nat end in
  let '(s1, ctx, proc, q) := new_module (w_st w) (w_tree w)
                               (match par with Some (_, p) => Some (m_ctx p, m_proc p) | None => None end)
                               depth (N.of_nat i) (elem_ids i (if c_kind c =? 0 then c_npe c else 0)) in
  (* the ModuleRef returned by `node` is kept by the caller, or dropped at once *)
  let s2 := if hold then s1 else p_release (p_release s1 ctx) proc in
  let r := {| m_cfg := c; m_ctx := ctx; m_proc := proc; m_queue := q; m_depth := depth; m_rt := None; m_gates := [];
              m_active := true; m_handled := 0; m_nw := None; m_slots := []; m_tasks := []; m_new := []; m_woken := [];
              m_shut := None |} in
  let depths := map m_depth (w_mods w) ++ [depth] in
  let order := match par with
               | Some (pi, p) => insert_at (w_order w) (tree_pos (w_order w) depths pi (m_depth p)) i
               | None => w_order w ++ [i]
               end in
  let w1 := wset_mods (wset_st w s2) (w_mods w ++ [r]) in
  wset_misc w1 order (w_chans w1) (w_gown w1) (w_eaux w1) (if hold then w_held w1 ++ [ctx; proc] else w_held w1).

Definition add_gates (hold : bool) (w : world) (i : nat) : world :=
  repeat_n (N.to_nat (c_ngates (m_cfg (getm w i))))
    (fun wa => let m := getm wa i in
               let '(s1, g) := new_gate (w_st wa) (m_ctx m) (m_proc m) in
               let s2 := if hold then s1 else p_release s1 g in
               let wb := updm (wset_st wa s2) i (fun r => mset_gates r (m_gates r ++ [g])) in
               wset_misc wb (w_order wb) (w_chans wb) ((g, i) :: w_gown wb) (w_eaux wb)
                         (if hold then w_held wb ++ [g] else w_held wb)) w.

Definition gate_ref (w : world) (m g : N) : option nat :=
  match nth_error (w_mods w) (N.to_nat m) with
  | Some r => nth_error (m_gates r) (N.to_nat g)
  | None => None
  end.

Definition add_link (w : world) (l : N * N * N * N * N) : world :=
  let '(ma, ga, mb, gb, ch) := l in
  match gate_ref w ma ga, gate_ref w mb gb with
  | Some a, Some b =>
      let '(s1, chs) := connect (w_st w) a b (negb (ch =? 0)) in
      let w1 := wset_st w s1 in
      match chs with
      | Some (c1, c2) => wset_chans w1 (w_chans w1 ++ [{| ch_id := c1; ch_busy := false; ch_q := [] |};
                                                      {| ch_id := c2; ch_busy := false; ch_q := [] |}])
      | None => w1
      end
  | _, _ => w
  end.

Definition add_inj (w : world) (j : N * N * N) : world :=
  let '(kind, m, t) := j in
  match nth_error (w_mods w) (N.to_nat m) with
  | Some r =>
      if N.odd kind then
        match m_gates r with
        | g :: _ =>
            if 2 <=? conn_count (whp w) g then w
            else let '(w1, msg) := fresh_msg w in
                 let '(s1, e) := ev_exit (w_st w1) g None msg in
                 fes_add (wset_eaux (wset_st w1 s1) ((e, 1) :: w_eaux w1)) e t
        | [] => w
        end
      else
        let '(w1, msg) := fresh_msg w in
        let '(s1, e) := ev_handle (w_st w1) (m_ctx r) (m_proc r) msg in
        fes_add (wset_st w1 s1) e t
  | None => w
  end.

(* ---- decoding ---- *)
Definition hd0 (l : list N) : N := match l with x :: _ => x | [] => 0 end.
Definition tl0 (l : list N) : list N := match l with _ :: r => r | [] => [] end.

Definition dec_mod (l : list N) : mcfg * list N :=
  let parent := hd0 l in let l := tl0 l in
  let npe := hd0 l in let l := tl0 l in
  let nsend := hd0 l in let l := tl0 l in
  let '(selfd, l) := take_lp l in
  let '(tasks, l) := take_lp l in
  let trig := hd0 l in let l := tl0 l in
  let trign := hd0 l in let l := tl0 l in
  let trigd := hd0 l in let l := tl0 l in
  let ngates := hd0 l in let l := tl0 l in
  let endsend := hd0 l in let l := tl0 l in
  ({| c_parent := parent; c_npe := N.min npe 2; c_nsend := N.min nsend 8; c_selfd := firstn 4 selfd; c_tasks := firstn 4 tasks;
      c_trig := trig; c_trign := trign; c_trigd := trigd; c_ngates := N.min ngates 3; c_endsend := N.odd endsend |}, l).

Fixpoint dec_n {A} (n : nat) (d : list N -> A * list N) (l : list N) : list A * list N :=
  match n with
  | O => ([], l)
  | S k => match l with
           | [] => ([], [])
           | _ => let '(a, r) := d l in let '(x, r') := dec_n k d r in (a :: x, r')
           end
  end.

Definition dec5 (l : list N) : (N * N * N * N * N) * list N :=
  ((hd0 l, hd0 (tl0 l), hd0 (tl0 (tl0 l)), hd0 (tl0 (tl0 (tl0 l))), hd0 (tl0 (tl0 (tl0 (tl0 l))))), tl0 (tl0 (tl0 (tl0 (tl0 l))))).
Definition dec3 (l : list N) : (N * N * N) * list N :=
  ((hd0 l, hd0 (tl0 l), hd0 (tl0 (tl0 l))), tl0 (tl0 (tl0 l))).

(* ---- running ---- *)
Definition world0 (pin : bool) : world :=
  let '(s, tree, glob) := new_sim (rs0 pin) in
  {| w_pin := pin; w_st := s; w_fes := sp_new; w_buf := []; w_clock := 0; w_itr := 0; w_mods := []; w_order := [];
     w_chans := []; w_gown := []; w_eaux := []; w_tree := tree; w_glob := glob; w_held := []; w_nmsg := 0; w_ntask := 0;
     w_log := []; w_err := false |}.

(* SimLifecycle::at_sim_start (runtime/mod.rs): every module, in tree order *)
Definition sim_start (w : world) : world :=
  fold_left (fun wa i => let w1 := activate wa i in
                         let w2 := at_sim_start w1 i in
                         buf_process (deactivate w2 i) i) (w_order w) w.

Definition peek_time (q : sp) : option N :=
  match s_zero q with x :: _ => Some (etime x) | [] => match s_rest q with x :: _ => Some (etime x) | [] => None end end.
Definition fetch (q : sp) : option (sp * nat * N) :=
  match sp_fetch q with
  | (q', OFetched p t) => Some (q', N.to_nat p, t)
  | _ => None
  end.

(* Runtime::dispatch_all under limit (max_itr, max_time) *)
Fixpoint dispatch_all (fuel : nat) (w : world) (max_itr max_time : option N) : world :=
  match fuel with
  | O => w
  | S f =>
      match peek_time (w_fes w) with
      | None => w
      | Some t =>
          if match max_itr with Some k => k <? w_itr w + 1 | None => false end
             || match max_time with Some mt => mt <? t | None => false end then w
          else match fetch (w_fes w) with
               | Some (q, e, t) => dispatch_all f (dispatch (wset_q w q (w_buf w) t (w_itr w + 1)) e) max_itr max_time
               | None => w
               end
      end
  end.

(* SimLifecycle::at_sim_end: every module, in tree order; no buf_process afterwards *)
Definition sim_end (w : world) : world :=
  fold_left (fun wa i =>
    let w1 := ensure_rt (activate wa i) i in
    let scripted := c_kind (m_cfg (getm w1 i)) =? 0 in
    let w2 := if scripted then wlog w1 i 4 0 else w1 in
    let w3 := if scripted && c_endsend (m_cfg (getm w2 i)) then do_schedule w2 i 1 else w2 in
    deactivate (poll_tasks w3 i) i) (w_order w) w.

Fixpoint drain (fuel : nat) (q : sp) : list nat :=
  match fuel with
  | O => []
  | S f => match fetch q with Some (q', e, _) => e :: drain f q' | None => [] end
  end.

Definition fes_events (w : world) : list nat := drain (S (N.to_nat (sp_len (w_fes w)))) (w_fes w).

Definition count_tag (p : tag -> bool) (h : heap) : N := N.of_nat (length (filter (fun ob => p (otag ob)) h)).
Definition count_once (p : tag -> bool) (s : st) : N :=
  N.of_nat (length (filter (fun o => match nth_error (hp s) o with
                                     | Some ob => p (otag ob) && Nat.eqb (count_occ Nat.eq_dec (freed s) o) 1
                                     | None => false end) (seq 0 (length (hp s))))).
Definition is_proc t := match t with TProc _ => true | _ => false end.
Definition is_elem t := match t with TElem _ => true | _ => false end.
Definition is_task t := match t with TTask _ => true | _ => false end.
Definition is_msg t := match t with TMsg _ => true | _ => false end.

Definition EVENT_FUEL : nat := 4000.

(* the simulation at its stopping point, and the handles that are then dropped, in drop order:
   the Sim (module tree, globals, the guard's event buffer), the events (with the runtime, or as
   the profiler's `remaining`), the caller's own references *)
Definition stop_world (pin : bool) (input : list N) : world * list nat * (N * N * N * bool) :=
  let stop := hd0 input mod 6 in let l := tl0 input in
  let arg := hd0 l in let l := tl0 l in
  let order := N.odd (hd0 l) in let l := tl0 l in
  let hooked := N.odd (hd0 l / 2) in
  let hold := N.odd (hd0 l) in let l := tl0 l in
  let nmod := N.min (hd0 l) 6 in let l := tl0 l in
  let '(cfgs, l) := dec_n (N.to_nat nmod) dec_mod l in
  let nlink := N.min (hd0 l) 12 in let l := tl0 l in
  let '(links, l) := dec_n (N.to_nat nlink) dec5 l in
  let ninj := N.min (hd0 l) 6 in let l := tl0 l in
  let '(injs, _) := dec_n (N.to_nat ninj) dec3 l in
  (* build *)
  let w := fold_left (add_module hold) cfgs (world0 pin) in
  let w := fold_left (fun wa i => add_gates hold wa i) (seq 0 (length (w_mods w))) w in
  let w := fold_left add_link links w in
  let w := if stop =? 0 then w else fold_left add_inj injs w in
  (* run *)
  let ran := (2 <=? stop) && (stop <=? 4) in
  let w := if (2 <=? stop) then sim_start w else w in
  let w := if stop =? 2 then dispatch_all EVENT_FUEL w (Some arg) None
           else if stop =? 3 then dispatch_all EVENT_FUEL w None (Some arg)
           else if stop =? 4 then dispatch_all EVENT_FUEL w None None
           else if stop =? 5 then dispatch_all EVENT_FUEL w (Some (w_itr w + arg)) None
           else w in
  let w := if ran then sim_end w else w in
  let res : N := if ran then (if w_err w then 2 else 1) else 0 in
  let pending := fes_events w in
  let nrem : N := if res =? 2 then 0 else N.of_nat (length pending) in
  let time : N := if (res =? 2) || (stop =? 0) then 0 else w_clock w in
  let sim_roots := [w_tree w; w_glob w] ++ map fst (w_buf w) in
  let want := (if (res =? 1) && order then pending ++ sim_roots else sim_roots ++ pending) ++ w_held w in
  (w, want, (res, nrem, time, hooked)).

(* the heap at the stopping point and the handles held then -- every handle the primitives have
   handed out and not taken back -- in the order in which the real program drops them *)
Definition list_eqb (a b : list nat) : bool := if list_eq_dec Nat.eq_dec a b then true else false.

(* ---- reference counts at the stopping point ---- *)
(* Weak handles to [x]: weak fields of live objects, plus [ext] held from outside the heap *)
Definition weak_in (h : heap) (x : nat) : N :=
  N.of_nat (length (filter (Nat.eqb x) (flat_map (fun ob => if live ob then map snd (weak ob) else []) h))).
Definition strong_of (h : heap) (x : nat) : N := match nth_error h x with Some ob => N.of_nat (rc ob) | None => 0 end.
Definition sw (h : heap) (x : nat) (ext : N) : list N :=
  if is_live h x then [strong_of h x; weak_in h x + ext] else [0; 0].

Definition counts (w : world) (hooked : bool) : list N :=
  let h := whp w in
  sw h (w_glob w) 1                                     (* BufferContext.globals: Weak<Globals> (runtime/ctx.rs:20) *)
  ++ (if hooked then
        sw h (w_tree w) 0
        ++ flat_map (fun m =>
             sw h (m_ctx m) 0 ++ sw h (m_proc m) 0
             ++ match m_rt m with Some r => [strong_of h r; strong_of h r] | None => [0; 0] end
             ++ sw h (m_queue m) 0 ++ [N.of_nat (length (m_slots m))]
             ++ flat_map (fun p => sw h (snd (fst p)) 0) (m_slots m)) (w_mods w)
      else [])
  ++ flat_map (fun m => flat_map (fun g => sw h g 0) (m_gates m)) (w_mods w)
  ++ flat_map (fun c => sw h (ch_id c) 0) (w_chans w).

(* the last components: do the handles handed out by the primitives coincide with what the
   simulation's own containers (Sim, event buffer, event set, caller) say is held -- i.e. no
   primitive ever refused a move; the reference counts *)
Definition stop_state (pin : bool) (input : list N) : st * list nat * (N * N * N * list N * bool * list N) :=
  let '(w, want, (res, nrem, time, hooked)) := stop_world pin input in
  (r_st (w_st w), reorder (r_roots (w_st w)) want,
   (res, nrem, time, w_log w, list_eqb (reorder (r_roots (w_st w)) want) want, if res =? 2 then [] else counts w hooked)).

Definition alive_users (h : heap) : N := N.of_nat (length (filter (fun ob => user_tag (otag ob) && live ob) h)).

(* what the model prints about the drop: created and dropped-exactly-once per class, instances
   dropped otherwise, user values still alive, anything at all still allocated *)
Definition verdict (s' : st) : list N * list N * N * N * N :=
  let h' := hp s' in
  let created := [count_tag is_proc h'; count_tag is_elem h'; count_tag is_task h'; count_tag is_msg h'] in
  let once := [count_once is_proc s'; count_once is_elem s'; count_once is_task s'; count_once is_msg s'] in
  let notonce := count_tag user_tag h' - (nth 0 once 0 + nth 1 once 0 + nth 2 once 0 + nth 3 once 0) in
  (created, once, notonce, alive_users h', b2n (existsb live h')).

Definition run_gen (pin : bool) (input : list N) : list N :=
  let '(s, roots, (res, nrem, time, lg, agree, cnts)) := stop_state pin input in
  let ok := goodb pin s roots && agree in
  let '(created, once, notonce, alive, grew) := verdict (release_all s roots) in
  let rec := [b2n ok; res; nrem; time] ++ created ++ once ++ [notonce; alive; N.of_nat (length lg / 4)] ++ lg
             ++ [N.of_nat (length cnts)] ++ cnts in
  (* the last number: is anything at all still allocated (the implementation: did the live heap
     grow between two further executions of the same simulation) *)
  rec ++ rec ++ [grew].

Definition run (input : list N) : list N := run_gen false input.
