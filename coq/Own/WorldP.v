(* C20 -- every runtime operation of Own/World.v keeps the heap of the world well formed. *)
From Coq Require Import List NArith Arith Bool.
From DesVerif Require Import Common.Codec CQueue.Model CQueue.Spec Own.Heap Own.Shape Own.Rank Own.Safe Own.SafeP Own.Ops Own.OpsP Own.World.
Import ListNotations.

Definition WI (pin : bool) (w : world) : Prop := G pin (w_st w).

Lemma WI_G pin w : WI pin w -> G pin (w_st w).
Proof. exact (fun H => H). Qed.
Lemma WI_wset_st pin w r : G pin r -> WI pin (wset_st w r).
Proof. exact (fun H => H). Qed.
Lemma WI_wset_q pin w a b c d : WI pin w -> WI pin (wset_q w a b c d).
Proof. exact (fun H => H). Qed.
Lemma WI_wset_mods pin w a : WI pin w -> WI pin (wset_mods w a).
Proof. exact (fun H => H). Qed.
Lemma WI_wset_misc pin w a b c d e : WI pin w -> WI pin (wset_misc w a b c d e).
Proof. exact (fun H => H). Qed.
Lemma WI_wset_cnt pin w a b c d : WI pin w -> WI pin (wset_cnt w a b c d).
Proof. exact (fun H => H). Qed.
Lemma WI_wlog pin w a b c : WI pin w -> WI pin (wlog w a b c).
Proof. exact (fun H => H). Qed.
Lemma WI_wset_buf pin w a : WI pin w -> WI pin (wset_buf w a).
Proof. exact (fun H => H). Qed.
Lemma WI_wset_fes pin w a : WI pin w -> WI pin (wset_fes w a).
Proof. exact (fun H => H). Qed.
Lemma WI_wset_chans pin w a : WI pin w -> WI pin (wset_chans w a).
Proof. exact (fun H => H). Qed.
Lemma WI_wset_eaux pin w a : WI pin w -> WI pin (wset_eaux w a).
Proof. exact (fun H => H). Qed.
Lemma WI_chan_set pin w a : WI pin w -> WI pin (chan_set w a).
Proof. exact (fun H => H). Qed.
Lemma WI_fes_add pin w a b : WI pin w -> WI pin (fes_add w a b).
Proof. exact (fun H => H). Qed.
Lemma WI_updm pin w i f : WI pin w -> WI pin (updm w i f).
Proof. intros H. unfold updm. destruct (nth_error (w_mods w) i); exact H. Qed.
Lemma WI_sink_add pin d w a b : WI pin w -> WI pin (sink_add d w a b).
Proof. intros H. unfold sink_add. destruct d; exact H. Qed.
Lemma WI_wst pin w f : WI pin w -> (forall r, G pin r -> G pin (f r)) -> WI pin (wst w f).
Proof. intros H Hf. apply Hf. exact H. Qed.
Lemma WI_wrel pin w o : WI pin w -> WI pin (wrel w o).
Proof. intros H. apply WI_wst; [exact H|]. intros r Hr. apply p_release_good. exact Hr. Qed.

Lemma fold_WI {A} pin (f : world -> A -> world) (l : list A) :
  (forall w x, WI pin w -> WI pin (f w x)) -> forall w, WI pin w -> WI pin (fold_left f l w).
Proof. intros H. induction l as [|x l IH]; intros w Hw; cbn [fold_left]; auto. Qed.
Lemma repeat_WI pin (f : world -> world) n :
  (forall w, WI pin w -> WI pin (f w)) -> forall w, WI pin w -> WI pin (repeat_n n f w).
Proof. intros H. induction n as [|n IH]; intros w Hw; cbn [repeat_n]; auto. Qed.

#[export] Hint Resolve WI_G WI_wset_st WI_wset_q WI_wset_mods WI_wset_misc WI_wset_cnt WI_wlog WI_wset_buf WI_wset_fes
  WI_wset_chans WI_wset_eaux WI_chan_set WI_fes_add WI_updm WI_sink_add WI_wrel : gdb.

(* take apart the let/match/if structure of an operation; every state or world that appears is
   shown well formed from the hints *)
Ltac wcase pin :=
  match goal with
  | |- WI _ (fst (_, _)) => cbn [fst]
  | |- G _ (fst (_, _)) => cbn [fst]
  | |- context [if ?c then _ else _] =>
      lazymatch c with
      | context [match _ with pair _ _ => _ end] => fail
      | _ => destruct c
      end
  | |- context [match ?x with Some _ => _ | None => _ end] =>
      lazymatch x with
      | context [match _ with pair _ _ => _ end] => fail
      | _ => destruct x
      end
  | |- context [match ?x with nil => _ | cons _ _ => _ end] =>
      lazymatch x with
      | context [match _ with pair _ _ => _ end] => fail
      | _ => destruct x
      end
  | |- context [match ?x with O => _ | S _ => _ end] =>
      lazymatch x with
      | context [match _ with pair _ _ => _ end] => fail
      | _ => destruct x
      end
  | |- context [match ?x with pair _ _ => _ end] =>
      lazymatch x with
      | context [match _ with pair _ _ => _ end] => fail
      | _ => idtac
      end;
      first [ let H := fresh "HG" in assert (H : G pin (fst x)) by (auto 30 with gdb);
              destruct x as [? ?]; cbn [fst snd] in *
            | let H := fresh "HW" in assert (H : WI pin (fst x)) by (auto 30 with gdb);
              destruct x as [? ?]; cbn [fst snd] in *
            | destruct x as [? ?] ]
  end.

Ltac ws :=
  cbv zeta;
  lazymatch goal with
  | |- WI ?pin _ => repeat (wcase pin; cbv zeta)
  | |- G ?pin _ => repeat (wcase pin; cbv zeta)
  end;
  auto 30 with gdb.

#[export] Hint Extern 2 (WI _ (wst _ _)) => apply WI_wst; [|intros; cbv beta; ws] : gdb.
#[export] Hint Extern 2 (WI _ (fold_left _ _ _)) => apply fold_WI; [intros; ws|] : gdb.
#[export] Hint Extern 2 (WI _ (repeat_n _ _ _)) => apply repeat_WI; [intros; ws|] : gdb.
#[export] Hint Extern 2 (G _ (fold_left _ _ _)) => apply fold_G; [intros; ws|] : gdb.

Section W.
  Variable pin : bool.

  Lemma chan_send_good d w c msg g eid : WI pin w -> WI pin (chan_send d w c msg g eid).
  Proof. intros H. unfold chan_send. ws. Qed.
  Hint Resolve chan_send_good : gdb.

  Lemma walk_good fuel : forall d w msg g eid, WI pin w -> WI pin (walk fuel d w msg g eid).
  Proof.
    induction fuel as [|f IH]; intros d w msg g eid H; cbn [walk]; [auto with gdb|].
    destruct (conn_at (whp w) g (if N.eqb eid 1 then 0%N else 1%N)) as [[[g2 eid2] ch]|].
    - assert (H1 : WI pin (wst w (fun s => set_last_gate s msg g2))) by (apply WI_wst; [assumption|intros; auto with gdb]).
      destruct (negb _); [auto with gdb|]. destruct ch; auto with gdb.
    - ws.
  Qed.
  Hint Resolve walk_good : gdb.

  Lemma exit_conn_good d w msg g eid : WI pin w -> WI pin (exit_conn d w msg g eid).
  Proof. intros H. unfold exit_conn. apply walk_good. apply WI_wst; [assumption|intros; auto with gdb]. Qed.
  Hint Resolve exit_conn_good : gdb.

  Lemma register_timer_good w i task dl : WI pin w -> WI pin (register_timer w i task dl).
  Proof. intros H. unfold register_timer. ws. Qed.
  Hint Resolve register_timer_good : gdb.

  Lemma poll_tasks_good w i : WI pin w -> WI pin (poll_tasks w i).
  Proof. intros H. unfold poll_tasks. ws. Qed.
  Hint Resolve poll_tasks_good : gdb.

  Lemma ensure_rt_good w i : WI pin w -> WI pin (ensure_rt w i).
  Proof. intros H. unfold ensure_rt. ws. Qed.
  Hint Resolve ensure_rt_good : gdb.

  Lemma activate_good w i : WI pin w -> WI pin (activate w i).
  Proof. intros H. unfold activate. ws. Qed.
  Hint Resolve activate_good : gdb.

  Lemma deactivate_good w i : WI pin w -> WI pin (deactivate w i).
  Proof. intros H. unfold deactivate. ws. Qed.
  Hint Resolve deactivate_good : gdb.

  Lemma fresh_msg_good w : WI pin w -> WI pin (fst (fresh_msg w)).
  Proof. intros H. unfold fresh_msg. ws. Qed.
  Hint Resolve fresh_msg_good : gdb.

  Lemma do_schedule_good w i d : WI pin w -> WI pin (do_schedule w i d).
  Proof. intros H. unfold do_schedule. ws. Qed.
  Hint Resolve do_schedule_good : gdb.

  Lemma do_send_good w i : WI pin w -> WI pin (do_send w i).
  Proof. intros H. unfold do_send. ws. Qed.
  Hint Resolve do_send_good : gdb.

  Lemma do_spawn_good w i d : WI pin w -> WI pin (do_spawn w i d).
  Proof. intros H. unfold do_spawn. ws. Qed.
  Hint Resolve do_spawn_good : gdb.

  Lemma drop_fn_state_good w i : WI pin w -> WI pin (drop_fn_state w i).
  Proof. intros H. unfold drop_fn_state. ws. Qed.
  Hint Resolve drop_fn_state_good : gdb.

  Lemma new_fn_state_good w i : WI pin w -> WI pin (new_fn_state w i).
  Proof. intros H. unfold new_fn_state. ws. Qed.
  Hint Resolve new_fn_state_good : gdb.

  Lemma end_block_task_good w i k : WI pin w -> WI pin (end_block_task w i k).
  Proof. intros H. unfold end_block_task. ws. Qed.
  Hint Resolve end_block_task_good : gdb.

  Lemma at_sim_start_good w i : WI pin w -> WI pin (at_sim_start w i).
  Proof. intros H. unfold at_sim_start. ws. Qed.
  Hint Resolve at_sim_start_good : gdb.

  Lemma buf_process_good w i : WI pin w -> WI pin (buf_process w i).
  Proof. intros H. unfold buf_process. ws. Qed.
  Hint Resolve buf_process_good : gdb.

  Lemma handle_message_good w i msg : WI pin w -> WI pin (handle_message w i msg).
  Proof. intros H. unfold handle_message. ws. Qed.
  Hint Resolve handle_message_good : gdb.

  Lemma take_field_good w e f : WI pin w -> WI pin (fst (take_field w e f)).
  Proof. intros H. unfold take_field. ws. Qed.
  Hint Resolve take_field_good : gdb.

  Lemma dispatch_good w e : WI pin w -> WI pin (dispatch w e).
  Proof. intros H. unfold dispatch. ws. Qed.
End W.

#[export] Hint Resolve chan_send_good walk_good exit_conn_good register_timer_good poll_tasks_good ensure_rt_good activate_good
  deactivate_good fresh_msg_good do_schedule_good do_send_good do_spawn_good at_sim_start_good buf_process_good
  handle_message_good take_field_good dispatch_good drop_fn_state_good new_fn_state_good end_block_task_good : gdb.
