(* C20 -- the state of a scripted network simulation over the reference-count heap and the
   runtime operations of des as updates of that state: event sinks, channels, the gate walk of
   MessageExitingConnection, timers and tasks, activate/deactivate, buf_process, the scripted
   module, NetEvents::handle.  The script format and the driver are in Own/Model.v.
   No proofs in this file. *)
From Coq Require Import List NArith Arith Bool.
From DesVerif Require Import Common.Codec CQueue.Model CQueue.Spec Own.Heap Own.Shape Own.Safe Own.Ops.
Import ListNotations.
Open Scope N_scope.

Definition B_NS : N := 1000000000.     (* transmission time of every message (bitrate = its length in bits per second) *)
Definition L_NS : N := 100000000.      (* channel latency *)

Record mcfg := { c_parent : N; c_npe : N; c_nsend : N; c_selfd : list N; c_tasks : list N;
                 c_trig : N; c_trign : N; c_trigd : N; c_ngates : N; c_endsend : bool }.

(* what the module is built from: 0 the scripted Module; builder blocks of net/runtime/blocks.rs:
   1 AsyncFn::new  2 AsyncFn::failable  3 AsyncFn::io  4 ModuleFn::failable  5 HandlerFn::failable.
   A block module has no processing elements of its own, sends nothing and spawns nothing but the
   block's own task. *)
Definition c_kind (c : mcfg) : N := (c_trig c / 4) mod 6.
Definition is_async_kind (k : N) : bool := (1 <=? k) && (k <=? 3).

Record modrec := {
  m_cfg : mcfg; m_ctx : nat; m_proc : nat; m_queue : nat; m_depth : nat;
  m_rt : option nat;                       (* the module's tokio runtime, once built *)
  m_gates : list nat;
  m_active : bool;
  m_handled : N;
  m_nw : option N;                         (* Driver.next_wakeup; None = SimTime::MAX *)
  m_slots : list (N * nat * list nat);     (* TimerQueue.pending: (time, slot, sleeping tasks), by time *)
  m_tasks : list (nat * N * N);            (* live tasks: object, capture id, sleep duration *)
  m_new : list nat;                        (* spawned, not polled yet *)
  m_woken : list nat;                      (* waker fired, not polled yet *)
  m_shut : option (option N) }.            (* ModuleContext.shutdown_task *)

Record chanrec := { ch_id : nat; ch_busy : bool; ch_q : list (nat * nat * N) }.   (* queue: msg, gate, endpoint_id *)

Record world := {
  w_pin : bool;
  w_st : rs; w_fes : sp; w_buf : list (nat * N); w_clock : N; w_itr : N;
  w_mods : list modrec; w_order : list nat;
  w_chans : list chanrec; w_gown : list (nat * nat); w_eaux : list (nat * N);
  w_tree : nat; w_glob : nat; w_held : list nat;
  w_nmsg : N; w_ntask : N; w_log : list N; w_err : bool }.

(* ---- setters ---- *)
Definition wset_st (w : world) (s : rs) : world :=
  {| w_pin := w_pin w; w_st := s; w_fes := w_fes w; w_buf := w_buf w; w_clock := w_clock w; w_itr := w_itr w;
     w_mods := w_mods w; w_order := w_order w; w_chans := w_chans w; w_gown := w_gown w; w_eaux := w_eaux w;
     w_tree := w_tree w; w_glob := w_glob w; w_held := w_held w; w_nmsg := w_nmsg w; w_ntask := w_ntask w;
     w_log := w_log w; w_err := w_err w |}.
Definition wset_q (w : world) (q : sp) (buf : list (nat * N)) (clock itr : N) : world :=
  {| w_pin := w_pin w; w_st := w_st w; w_fes := q; w_buf := buf; w_clock := clock; w_itr := itr;
     w_mods := w_mods w; w_order := w_order w; w_chans := w_chans w; w_gown := w_gown w; w_eaux := w_eaux w;
     w_tree := w_tree w; w_glob := w_glob w; w_held := w_held w; w_nmsg := w_nmsg w; w_ntask := w_ntask w;
     w_log := w_log w; w_err := w_err w |}.
Definition wset_mods (w : world) (ms : list modrec) : world :=
  {| w_pin := w_pin w; w_st := w_st w; w_fes := w_fes w; w_buf := w_buf w; w_clock := w_clock w; w_itr := w_itr w;
     w_mods := ms; w_order := w_order w; w_chans := w_chans w; w_gown := w_gown w; w_eaux := w_eaux w;
     w_tree := w_tree w; w_glob := w_glob w; w_held := w_held w; w_nmsg := w_nmsg w; w_ntask := w_ntask w;
     w_log := w_log w; w_err := w_err w |}.
Definition wset_misc (w : world) (order : list nat) (chans : list chanrec) (gown : list (nat * nat)) (eaux : list (nat * N))
  (held : list nat) : world :=
  {| w_pin := w_pin w; w_st := w_st w; w_fes := w_fes w; w_buf := w_buf w; w_clock := w_clock w; w_itr := w_itr w;
     w_mods := w_mods w; w_order := order; w_chans := chans; w_gown := gown; w_eaux := eaux;
     w_tree := w_tree w; w_glob := w_glob w; w_held := held; w_nmsg := w_nmsg w; w_ntask := w_ntask w;
     w_log := w_log w; w_err := w_err w |}.
Definition wset_cnt (w : world) (nmsg ntask : N) (lg : list N) (err : bool) : world :=
  {| w_pin := w_pin w; w_st := w_st w; w_fes := w_fes w; w_buf := w_buf w; w_clock := w_clock w; w_itr := w_itr w;
     w_mods := w_mods w; w_order := w_order w; w_chans := w_chans w; w_gown := w_gown w; w_eaux := w_eaux w;
     w_tree := w_tree w; w_glob := w_glob w; w_held := w_held w; w_nmsg := nmsg; w_ntask := ntask;
     w_log := lg; w_err := err |}.

Definition wlog (w : world) (m : nat) (kind pay : N) : world :=
  wset_cnt w (w_nmsg w) (w_ntask w) (w_log w ++ [w_clock w; N.of_nat m; kind; pay]) (w_err w).
Definition wset_buf (w : world) (b : list (nat * N)) : world := wset_q w (w_fes w) b (w_clock w) (w_itr w).
Definition wset_fes (w : world) (q : sp) : world := wset_q w q (w_buf w) (w_clock w) (w_itr w).
Definition wset_chans (w : world) (c : list chanrec) : world := wset_misc w (w_order w) c (w_gown w) (w_eaux w) (w_held w).
Definition wset_eaux (w : world) (a : list (nat * N)) : world := wset_misc w (w_order w) (w_chans w) (w_gown w) a (w_held w).

Definition mset (r : modrec) (rt : option nat) (active : bool) (handled : N) (nw : option N)
  (slots : list (N * nat * list nat)) (tasks : list (nat * N * N)) (nw_tasks woken : list nat) (shut : option (option N)) : modrec :=
  {| m_cfg := m_cfg r; m_ctx := m_ctx r; m_proc := m_proc r; m_queue := m_queue r; m_depth := m_depth r;
     m_rt := rt; m_gates := m_gates r; m_active := active; m_handled := handled; m_nw := nw;
     m_slots := slots; m_tasks := tasks; m_new := nw_tasks; m_woken := woken; m_shut := shut |}.
Definition mset_gates (r : modrec) (g : list nat) : modrec :=
  {| m_cfg := m_cfg r; m_ctx := m_ctx r; m_proc := m_proc r; m_queue := m_queue r; m_depth := m_depth r;
     m_rt := m_rt r; m_gates := g; m_active := m_active r; m_handled := m_handled r; m_nw := m_nw r;
     m_slots := m_slots r; m_tasks := m_tasks r; m_new := m_new r; m_woken := m_woken r; m_shut := m_shut r |}.
Definition mset_rt r x := mset r x (m_active r) (m_handled r) (m_nw r) (m_slots r) (m_tasks r) (m_new r) (m_woken r) (m_shut r).
Definition mset_active r x := mset r (m_rt r) x (m_handled r) (m_nw r) (m_slots r) (m_tasks r) (m_new r) (m_woken r) (m_shut r).
Definition mset_handled r x := mset r (m_rt r) (m_active r) x (m_nw r) (m_slots r) (m_tasks r) (m_new r) (m_woken r) (m_shut r).
Definition mset_nw r x := mset r (m_rt r) (m_active r) (m_handled r) x (m_slots r) (m_tasks r) (m_new r) (m_woken r) (m_shut r).
Definition mset_slots r x := mset r (m_rt r) (m_active r) (m_handled r) (m_nw r) x (m_tasks r) (m_new r) (m_woken r) (m_shut r).
Definition mset_tasks r t n k := mset r (m_rt r) (m_active r) (m_handled r) (m_nw r) (m_slots r) t n k (m_shut r).
Definition mset_shut r x := mset r (m_rt r) (m_active r) (m_handled r) (m_nw r) (m_slots r) (m_tasks r) (m_new r) (m_woken r) x.

Definition dummy_cfg : mcfg := {| c_parent := 0; c_npe := 0; c_nsend := 0; c_selfd := []; c_tasks := []; c_trig := 0;
                                  c_trign := 0; c_trigd := 0; c_ngates := 0; c_endsend := false |}.
Definition dummy_mod : modrec :=
  {| m_cfg := dummy_cfg; m_ctx := 0; m_proc := 0; m_queue := 0; m_depth := 0; m_rt := None; m_gates := []; m_active := false;
     m_handled := 0; m_nw := None; m_slots := []; m_tasks := []; m_new := []; m_woken := []; m_shut := None |}.
Definition getm (w : world) (i : nat) : modrec := nth i (w_mods w) dummy_mod.
Definition updm (w : world) (i : nat) (f : modrec -> modrec) : world :=
  match nth_error (w_mods w) i with
  | Some r => wset_mods w (upd (w_mods w) i (f r))
  | None => w
  end.

(* lift a heap operation *)
Definition wst (w : world) (f : rs -> rs) : world := wset_st w (f (w_st w)).
Definition wrel (w : world) (o : nat) : world := wst w (fun s => p_release s o).
Definition whp (w : world) : heap := rhp (w_st w).

(* ---- the event sink: the runtime's event set, or the static buffer BUF_CTX.events ---- *)
Definition fes_add (w : world) (e : nat) (t : N) : world :=
  wset_fes w (fst (fst (sp_add (w_fes w) t (N.of_nat e)))).
Definition sink_add (direct : bool) (w : world) (e : nat) (t : N) : world :=
  if direct then fes_add w e t else wset_buf w (w_buf w ++ [(e, t)]).

Definition owner_of (w : world) (g : nat) : nat :=
  match find (fun p => Nat.eqb (fst p) g) (w_gown w) with Some p => snd p | None => 0%nat end.

Definition chan_get (w : world) (c : nat) : chanrec :=
  match find (fun r => Nat.eqb (ch_id r) c) (w_chans w) with
  | Some r => r | None => {| ch_id := c; ch_busy := false; ch_q := [] |} end.
Definition chan_set (w : world) (r : chanrec) : world :=
  wset_chans w (map (fun x => if Nat.eqb (ch_id x) (ch_id r) then r else x) (w_chans w)).

(* Channel::send_message (channel.rs:199-253) *)
Definition chan_send (direct : bool) (w : world) (c msg g : nat) (eid : N) : world :=
  let r := chan_get w c in
  if ch_busy r then
    (* ChannelDropBehaviour::Queue(None): buffer.enqueue(msg, via) *)
    let w1 := wst w (fun s => enqueue s c msg g) in
    chan_set w1 {| ch_id := c; ch_busy := true; ch_q := ch_q r ++ [(msg, g, eid)] |}
  else
    (* the exit of the message is scheduled before the unbusy notification (fix f99a7c7) *)
    let '(s1, ex) := ev_exit (w_st w) g (Some c) msg in
    let w1 := wset_eaux (wset_st w s1) ((ex, eid) :: w_eaux w) in
    let w2 := sink_add direct w1 ex (w_clock w + B_NS + L_NS) in
    let w3 := chan_set w2 {| ch_id := c; ch_busy := true; ch_q := ch_q r |} in
    let '(s2, eu) := ev_unbusy (w_st w3) c in
    sink_add direct (wset_st w3 s2) eu (w_clock w + B_NS).

(* MessageExitingConnection::handle_with_sink (events.rs:62-129): the message is at gate [g],
   which it entered through slot [eid] *)
Fixpoint walk (fuel : nat) (direct : bool) (w : world) (msg g : nat) (eid : N) : world :=
  match fuel with
  | O => wrel w msg
  | S f =>
      let idx := if eid =? 1 then 0 else 1 in
      match conn_at (whp w) g idx with
      | Some (g2, eid2, ch) =>
          let w1 := wst w (fun s => set_last_gate s msg g2) in
          if negb (m_active (getm w1 (owner_of w1 g))) then wrel w1 msg     (* owner inactive: drop(msg) *)
          else match ch with
               | Some c => chan_send direct w1 c msg g2 eid2
               | None => walk f direct w1 msg g2 eid2
               end
      | None =>
          let m := getm w (owner_of w g) in
          let '(s1, e) := ev_handle (w_st w) (m_ctx m) (m_proc m) msg in
          sink_add direct (wset_st w s1) e (w_clock w)
      end
  end.

Definition gate_fuel (w : world) : nat := S (length (w_gown w)).

(* the first step of handle_with_sink: msg.header.last_gate = Some(self.con.endpoint.clone()) *)
Definition exit_conn (direct : bool) (w : world) (msg g : nat) (eid : N) : world :=
  walk (gate_fuel w) direct (wst w (fun s => set_last_gate s msg g)) msg g eid.

(* ---- timers ---- *)
Fixpoint slot_insert (t : N) (task : nat) (mk : unit -> nat) (l : list (N * nat * list nat)) : list (N * nat * list nat) * bool :=
  match l with
  | [] => ([(t, mk tt, [task])], true)
  | (t0, sl, es) :: r =>
      if t0 =? t then ((t0, sl, es ++ [task]) :: r, false)
      else if t <? t0 then ((t, mk tt, [task]) :: l, true)
      else let x := slot_insert t task mk r in ((t0, sl, es) :: fst x, snd x)
  end.

(* Sleep's first poll: TimerQueue::add (driver.rs:100-130) *)
Definition register_timer (w : world) (i : nat) (task : nat) (deadline : N) : world :=
  let m := getm w i in
  let next_id := length (whp w) in            (* the slot object, if one has to be created *)
  let x := slot_insert deadline task (fun _ => next_id) (m_slots m) in
  let w1 := if snd x then wst w (fun s => fst (new_slot s (m_queue m))) else w in
  let sl := match find (fun p => fst (fst p) =? deadline) (fst x) with Some p => snd (fst p) | None => 0%nat end in
  let w2 := wst w1 (fun s => p_weak s task 0 sl) in
  updm w2 i (fun r => mset_slots r (fst x)).

Fixpoint insert_sorted (x : nat * N) (l : list (nat * N)) : list (nat * N) :=
  match l with
  | [] => [x]
  | y :: r => if snd x <? snd y then x :: l else y :: insert_sorted x r
  end.

(* what Harness::exec does after the callback: `yield_now().await` lets every runnable task run.
   New tasks reach their first await; tasks whose timer fired run to their end. *)
Definition poll_tasks (w : world) (i : nat) : world :=
  let m := getm w i in
  let w1 := fold_left (fun wa t =>
              match find (fun x => Nat.eqb (fst (fst x)) t) (m_tasks m) with
              | Some (_, _, d) => if d =? 0 then wa else register_timer wa i t (w_clock wa + d)
              | None => wa
              end) (m_new m) w in
  let fin := fold_right (fun t acc => match find (fun x => Nat.eqb (fst (fst x)) t) (m_tasks m) with
                                      | Some (_, c, _) => insert_sorted (t, c) acc | None => acc end) [] (m_woken m) in
  let w2 := fold_left (fun wa tc =>
              let wb := wlog wa i 3 (snd tc) in
              match m_rt (getm wb i) with
              | Some r => wst wb (fun s => drop_edge s r (fst tc))       (* the finished future is dropped *)
              | None => wb
              end) fin w1 in
  updm w2 i (fun r => mset_tasks r (filter (fun x => negb (existsb (Nat.eqb (fst (fst x))) (m_woken m))) (m_tasks r)) [] []).

(* Rt::current (rt.rs:79-98): the runtime is built on first use *)
Definition ensure_rt (w : world) (i : nat) : world :=
  match m_rt (getm w i) with
  | Some _ => w
  | None => let '(s1, r) := new_runtime (w_st w) (m_ctx (getm w i)) in
            updm (wset_st w s1) i (fun x => mset_rt x (Some r))
  end.

(* ModuleRef::activate (refs.rs:194-216) *)
Definition activate (w : world) (i : nat) : world :=
  let m := getm w i in
  let w1 := wst w (fun s => p_clone s (m_ctx m)) in                   (* MOD_CTX <- Arc::clone(&self.ctx) *)
  (* Driver::bump: every slot with time <= now is unwrapped, its wakers fire, the slot is dropped *)
  let due := filter (fun p => fst (fst p) <=? w_clock w) (m_slots m) in
  let rest := filter (fun p => negb (fst (fst p) <=? w_clock w)) (m_slots m) in
  let w2 := fold_left (fun wa p => wst wa (fun s => drop_edge s (m_queue m) (snd (fst p)))) due w1 in
  let nw := match m_nw m with Some t => if t <=? w_clock w then None else Some t | None => None end in
  updm w2 i (fun r => mset r (m_rt r) (m_active r) (m_handled r) nw rest (m_tasks r) (m_new r)
                           (m_woken r ++ flat_map (fun p => snd p) due) (m_shut r)).

Fixpoint drop_empty_front (l : list (N * nat * list nat)) : list nat * list (N * nat * list nat) :=
  match l with
  | (t, sl, []) :: r => let x := drop_empty_front r in (sl :: fst x, snd x)
  | _ => ([], l)
  end.

(* ModuleRef::deactivate (refs.rs:221-258) with an event set as the sink *)
Definition deactivate (w : world) (i : nat) : world :=
  let m := getm w i in
  let x := drop_empty_front (m_slots m) in                          (* TimerQueue::next pops emptied front slots *)
  let w1 := fold_left (fun wa sl => wst wa (fun s => drop_edge s (m_queue m) sl)) (fst x) w in
  let w2 := updm w1 i (fun r => mset_slots r (snd x)) in
  let w3 := match snd x with
            | (t, _, _) :: _ =>
                if match m_nw m with Some nw => t <? nw | None => true end then
                  let '(s1, e) := ev_module (w_st w2) 4 (m_ctx m) (m_proc m) in
                  fes_add (updm (wset_st w2 s1) i (fun r => mset_nw r (Some t))) e t
                else w2
            | [] => w2
            end in
  wrel w3 (m_ctx m).                                                 (* let _ = ModuleContext::take() *)

(* ---- the scripted module ---- *)
Definition fresh_msg (w : world) : world * nat :=
  let '(s1, m) := new_msg (w_st w) (w_nmsg w) in
  (wset_cnt (wset_st w s1) (w_nmsg w + 1) (w_ntask w) (w_log w) (w_err w), m).

(* schedule_in(msg, d): buf_schedule_at (runtime/ctx.rs:95-108) *)
Definition do_schedule (w : world) (i : nat) (d : N) : world :=
  let '(w1, msg) := fresh_msg w in
  let m := getm w1 i in
  let '(s1, e) := ev_handle (w_st w1) (m_ctx m) (m_proc m) msg in
  sink_add false (wset_st w1 s1) e (w_clock w1 + d).

(* send(msg, "g0"): buf_send_at with send_time = now (runtime/ctx.rs:63-93) *)
Definition do_send (w : world) (i : nat) : world :=
  match m_gates (getm w i) with
  | g :: _ =>
      if 2 <=? conn_count (whp w) g then w          (* the script never sends on a transit gate *)
      else let '(w1, msg) := fresh_msg w in exit_conn false w1 msg g 1
  | [] => w
  end.

Definition do_spawn (w : world) (i : nat) (d : N) : world :=
  match m_rt (getm w i) with
  | Some r =>
      let '(s1, t) := new_task (w_st w) r (w_ntask w) in
      let w1 := wset_cnt (wset_st w s1) (w_nmsg w) (w_ntask w + 1) (w_log w) (w_err w) in
      updm w1 i (fun x => mset_tasks x (m_tasks x ++ [(t, w_ntask w, d)]) (m_new x ++ [t]) (m_woken x))
  | None => w
  end.

Fixpoint repeat_n {A} (n : nat) (f : A -> A) (a : A) : A := match n with O => a | S k => repeat_n k f (f a) end.

(* ModuleFn: `self.current = Some((self.gen)())` (blocks.rs:221-223): the new state is stored, the
   old one (if any) dropped; reset: `self.current = None` (blocks.rs:217-219) *)
Definition drop_fn_state (w : world) (i : nat) : world :=
  match p_detach (w_st w) (m_proc (getm w i)) (fun e => kf (ek e) 0) with
  | (s1, Some x) => wset_st w (p_release s1 x)
  | (s1, None) => wset_st w s1
  end.
Definition new_fn_state (w : world) (i : nat) : world :=
  let '(s1, el) := p_alloc (w_st w) (TElem (N.of_nat i * 8 + 7)) in
  let w1 := drop_fn_state (wset_st w s1) i in
  wst w1 (fun s => p_move_in s (m_proc (getm w i)) (KField 0) el).

(* Module::at_sim_start(0), inside Harness::exec.  AsyncFn (blocks.rs:399-415): the generated
   future is spawned on the module's runtime; it waits on the block's receiver.  The future holds
   no handle to the module context: `current()` is only called in the error path
   (blocks.rs:355). *)
Definition at_sim_start (w : world) (i : nat) : world :=
  let c := m_cfg (getm w i) in
  let w0 := ensure_rt w i in
  let k := c_kind c in
  if k =? 0 then
    let w1 := wlog w0 i 1 0 in
    let w2 := repeat_n (N.to_nat (c_nsend c)) (fun wa => do_send wa i) w1 in
    let w3 := fold_left (fun wa d => do_schedule wa i d) (c_selfd c) w2 in
    let w4 := fold_left (fun wa d => do_spawn wa i d) (c_tasks c) w3 in
    poll_tasks w4 i
  else if is_async_kind k then poll_tasks (do_spawn (wlog w0 i 1 0) i 0) i
  else if k =? 4 then poll_tasks (new_fn_state (wlog w0 i 1 0) i) i
  else poll_tasks w0 i.

(* buf_process (runtime/ctx.rs:110-153) *)
Definition buf_process (w : world) (i : nat) : world :=
  let w1 := fold_left (fun wa et => fes_add wa (fst et) (snd et)) (w_buf w) (wset_buf w []) in
  match m_shut (getm w1 i) with
  | None => w1
  | Some restart =>
      let m := getm w1 i in
      (* async_ext.rt.shutdown(): the runtime and every task of the module are dropped; a dropped
         Sleep takes its entry out of its slot (TimerSlotEntryHandle::drop, driver.rs:43-52) *)
      let w2 := match m_rt m with
                | Some r => wst w1 (fun s => drop_edge s (m_ctx m) r)
                | None => w1 end in
      let w3 := updm w2 i (fun r => mset r None false (m_handled r) (m_nw r)
                                     (map (fun p => (fst p, @nil nat)) (m_slots r)) [] [] [] None) in
      (* module.activate(); module.reset(); module.deactivate(rt) *)
      let w4 := activate w3 i in
      let k := c_kind (m_cfg m) in
      let w4r := ensure_rt w4 i in
      let w5 := poll_tasks (if k =? 0 then wlog w4r i 5 0 else if k =? 4 then drop_fn_state w4r i else w4r) i in
      let w6 := deactivate w5 i in
      match restart with
      | Some t => let m6 := getm w6 i in
                  let '(s1, e) := ev_module (w_st w6) 3 (m_ctx m6) (m_proc m6) in
                  fes_add (wset_st w6 s1) e t
      | None => w6
      end
  end.

(* the block's task ends: the runtime drops the finished (or panicked) future *)
Definition end_block_task (w : world) (i : nat) (kind : N) : world :=
  match m_tasks (getm w i) with
  | (t, cap, _) :: _ =>
      let w1 := wlog w i kind cap in
      let w2 := match m_rt (getm w1 i) with
                | Some r => wst w1 (fun s => drop_edge s r t)
                | None => w1 end in
      updm w2 i (fun r => mset_tasks r [] [] [])
  | [] => w
  end.

(* ModuleRef::handle_message (events.rs:275-303) with the scripted handler, or with a builder block:
   AsyncFn::handle_message = tx.try_send(msg) (blocks.rs:417-421), the task receives it in the same
   executor turn; ModuleFn / HandlerFn call the user's handler (blocks.rs:225-230, 76-78), the
   failable variants apply their FailabilityPolicy (blocks.rs:54-68, 125-141) *)
Definition handle_message (w : world) (i : nat) (msg : nat) : world :=
  let m := getm w i in
  if negb (m_active m) then wrel w msg
  else
    let w0 := ensure_rt w i in
    let c := m_cfg m in
    let k := c_kind c in
    if is_async_kind k && match m_tasks m with [] => true | _ => false end then
      poll_tasks (wrel w0 msg) i            (* the receiver is gone: try_send fails, the message is dropped *)
    else
    let pay := match tag_of (whp w0) msg with Some (TMsg p) => p | _ => 0 end in
    let w1 := wrel (wlog w0 i 2 pay) msg in
    let n := m_handled m + 1 in
    let w2 := updm w1 i (fun r => mset_handled r n) in
    let panic w2 := (* Harness::catch marks the module inactive; HOST stereotype: the error is kept *)
      let w3 := updm w2 i (fun r => mset_active r false) in
      wset_cnt w3 (w_nmsg w3) (w_ntask w3) (w_log w3) true in
    if n =? c_trign c then
      let tr := N.to_nat (c_trig c mod 4) in
      if k =? 0 then
        match tr with
        | 1%nat => poll_tasks (updm w2 i (fun r => mset_shut r (Some None))) i
        | 2%nat => poll_tasks (updm w2 i (fun r => mset_shut r (Some (Some (w_clock w + c_trigd c))))) i
        | 3%nat => panic w2
        | _ => poll_tasks w2 i
        end
      else if is_async_kind k then
        match tr with
        | 1%nat => poll_tasks (end_block_task w2 i 3) i                       (* the future returns *)
        | 2%nat => poll_tasks (updm w2 i (fun r => mset_shut r (Some (Some (w_clock w + c_trigd c))))) i
        | 3%nat => if k =? 1 then poll_tasks (end_block_task w2 i 3) i
                   else (* the future returns Err: the wrapper panics inside the task; the JoinHandle
                           reports it at the end of the simulation *)
                     let w3 := end_block_task w2 i 6 in
                     poll_tasks (wset_cnt w3 (w_nmsg w3) (w_ntask w3) (w_log w3) true) i
        | _ => poll_tasks w2 i
        end
      else if k =? 4 then
        match tr with
        | 2%nat => poll_tasks (updm w2 i (fun r => mset_shut r (Some (Some (w_clock w))))) i   (* Restart: shutdow_and_restart_in(ZERO) *)
        | 3%nat => panic w2
        | _ => poll_tasks w2 i                                                                   (* Continue / no error *)
        end
      else
        match tr with
        | 3%nat => panic w2
        | _ => poll_tasks w2 i
        end
    else poll_tasks w2 i.

Definition take_field (w : world) (e : nat) (f : N) : world * option nat :=
  let '(s1, r) := p_detach (w_st w) e (fun x => kf (ek x) f) in (wset_st w s1, r).

Definition mod_of_ctx (w : world) (c : nat) : nat :=
  let fix go (l : list modrec) (i : nat) : nat :=
    match l with [] => 0%nat | r :: t => if Nat.eqb (m_ctx r) c then i else go t (S i) end in
  go (w_mods w) 0%nat.

Definition event_module (w : world) (e : nat) : nat :=
  match find (fun x => kf (ek x) 3) (edges_of (whp w) e) with
  | Some x => mod_of_ctx w (et x) | None => 0%nat end.

(* NetEvents::handle.  The event value is consumed: whatever it still holds is dropped at the end. *)
Definition dispatch (w : world) (e : nat) : world :=
  let kind := match tag_of (whp w) e with Some (TEvent k) => k | _ => 9 end in
  match N.to_nat kind with
  | 0%nat => (* MessageExitingConnection: handle_with_sink(rt) *)
      let eid := match find (fun p => Nat.eqb (fst p) e) (w_eaux w) with Some p => snd p | None => 1 end in
      let g := match find (fun x => kf (ek x) 0) (edges_of (whp w) e) with Some x => et x | None => 0%nat end in
      let '(w1, msg) := take_field w e 2 in
      let w2 := match msg with Some m => exit_conn true w1 m g eid | None => w1 end in
      wrel w2 e
  | 1%nat => (* HandleMessageEvent *)
      let i := event_module w e in
      let '(w1, msg) := take_field w e 2 in
      let w2 := activate w1 i in
      let w3 := match msg with Some m => handle_message w2 i m | None => w2 end in
      wrel (buf_process (deactivate w3 i) i) e
  | 2%nat => (* ChannelUnbusyNotif: Channel::unbusy (channel.rs:256-272) *)
      let c := match find (fun x => kf (ek x) 1) (edges_of (whp w) e) with Some x => et x | None => 0%nat end in
      let r := chan_get w c in
      let w1 := match ch_q r with
                | (_, g, eid) :: rest =>
                    let wa := chan_set w {| ch_id := c; ch_busy := false; ch_q := rest |} in
                    let '(s1, m) := dequeue (w_st wa) c in
                    match m with Some m => chan_send true (wset_st wa s1) c m g eid | None => wset_st wa s1 end
                | [] => chan_set w {| ch_id := c; ch_busy := false; ch_q := [] |}
                end in
      wrel w1 e
  | 3%nat => (* ModuleRestartEvent: module_restart (events.rs:262-273) *)
      let i := event_module w e in
      let w1 := activate w i in
      let w2 := at_sim_start (updm w1 i (fun r => mset_active r true)) i in
      wrel (buf_process (deactivate w2 i) i) e
  | 4%nat => (* AsyncWakeupEvent: async_wakeup (events.rs:250-260) *)
      let i := event_module w e in
      let w1 := activate w i in
      let w2 := if m_active (getm w1 i) then poll_tasks (ensure_rt w1 i) i else w1 in
      wrel (buf_process (deactivate w2 i) i) e
  | _ => w
  end.

