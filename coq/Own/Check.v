(* C20 -- a boolean well-formedness checker and its soundness.  The model
   evaluates [goodb] on the graph it has built before it releases the roots
   and reports the verdict in its output, so every run is a run on a graph for
   which Own/Rank.v applies. *)
From Coq Require Import List NArith Arith Bool Lia.
From DesVerif Require Import Own.Heap Own.Frame Own.Inv Own.Shape Own.Rank.
Import ListNotations.

Fixpoint nodupb (l : list nat) : bool :=
  match l with
  | [] => true
  | x :: r => negb (existsb (Nat.eqb x) r) && nodupb r
  end.

Definition obj_okb (ob : obj) : bool :=
  if live ob then 1 <=? rc ob
  else (rc ob =? 0) && match strong ob with [] => true | _ => false end.

Definition invb (s : st) (todo : list nat) : bool :=
  let h := hp s in
  forallb (fun o => rc_of h o =? cnt o (targets h) + cnt o todo) (seq 0 (length h))
  && forallb (fun o => o <? length h) (targets h ++ todo)
  && forallb obj_okb h
  && nodupb (freed s)
  && forallb (fun o => (o <? length h) && negb (is_live h o)) (freed s)
  && forallb (fun o => is_live h o || existsb (Nat.eqb o) (freed s)) (seq 0 (length h))
  && match bad s with [] => true | _ => false end.

Definition goodb (pin : bool) (s : st) (todo : list nat) : bool :=
  invb s todo && typedb pin (hp s) && ownedb (hp s).

Lemma existsb_eqb x l : existsb (Nat.eqb x) l = true <-> In x l.
Proof.
  rewrite existsb_exists. split.
  - intros (y & Hy & E). apply Nat.eqb_eq in E. subst. assumption.
  - intros H. exists x. split; [assumption|apply Nat.eqb_refl].
Qed.

Lemma nodupb_sound l : nodupb l = true -> NoDup l.
Proof.
  induction l as [|x r IH]; cbn [nodupb]; intros H; constructor.
  - apply andb_true_iff in H. destruct H as [H _]. apply negb_true_iff in H.
    intros Hin. apply existsb_eqb in Hin. congruence.
  - apply IH. apply andb_true_iff in H. apply H.
Qed.

Lemma forallb_seq f n : forallb f (seq 0 n) = true -> forall o, o < n -> f o = true.
Proof. intros H o Ho. rewrite forallb_forall in H. apply H. apply in_seq. lia. Qed.

Theorem invb_sound s todo : invb s todo = true -> inv s todo.
Proof.
  unfold invb. intros H.
  repeat (apply andb_true_iff in H; let H' := fresh "H" in destruct H as [H H']).
  constructor.
  - intros o Ho. apply Nat.eqb_eq. eapply forallb_seq in H; eassumption.
  - intros o Ho. rewrite forallb_forall in H5. apply Nat.ltb_lt. apply H5. apply in_or_app. assumption.
  - intros o ob E L. rewrite forallb_forall in H4. specialize (H4 ob (nth_error_In _ _ E)).
    unfold obj_okb in H4. rewrite L in H4. apply andb_true_iff in H4. destruct H4 as [A B].
    apply Nat.eqb_eq in A. destruct (strong ob); [auto|discriminate].
  - intros o ob E L. rewrite forallb_forall in H4. specialize (H4 ob (nth_error_In _ _ E)).
    unfold obj_okb in H4. rewrite L in H4. apply Nat.leb_le. assumption.
  - apply nodupb_sound. assumption.
  - intros o. unfold dead_in. split.
    + intros Hin. rewrite forallb_forall in H2. specialize (H2 o Hin). apply andb_true_iff in H2.
      destruct H2 as [A B]. apply Nat.ltb_lt in A. apply negb_true_iff in B.
      destruct (nth_lt_some _ _ A) as (ob & E). exists ob. split; [assumption|].
      unfold is_live in B. rewrite E in B. assumption.
    + intros (ob & E & L). pose proof (forallb_seq _ _ H1 o (nth_some_lt _ _ _ E)) as A. cbn beta in A.
      unfold is_live in A. rewrite E, L in A. cbn [orb] in A. apply existsb_eqb. assumption.
  - destruct (bad s); [reflexivity|discriminate].
Qed.

Theorem typedb_sound pin h : typedb pin h = true -> typed pin h.
Proof.
  unfold typedb. intros H o ob e E Hin. rewrite forallb_forall in H.
  specialize (H ob (nth_error_In _ _ E)). rewrite forallb_forall in H. specialize (H e Hin).
  destruct (nth_error h (et e)) as [tb|]; [|discriminate]. eauto.
Qed.

Lemma ownedb_from_sound own : forall r g0, ownedb_from own r g0 = true ->
  forall i ob e, nth_error r i = Some ob -> In e (strong ob) -> is_conn (ek e) = true -> In (g0 + i) own.
Proof.
  induction r as [|x r IH]; intros g0 H i ob e E Hin C; [destruct i; discriminate|].
  cbn [ownedb_from] in H. apply andb_true_iff in H. destruct H as [A B].
  destruct i as [|i]; cbn [nth_error] in E.
  - injection E as ->. rewrite Nat.add_0_r. apply orb_true_iff in A. destruct A as [A|A].
    + apply negb_true_iff in A. assert (existsb (fun e0 => is_conn (ek e0)) (strong ob) = true); [|congruence].
      apply existsb_exists. eauto.
    + apply existsb_eqb. assumption.
  - replace (g0 + S i) with (S g0 + i) by lia. eapply IH; eassumption.
Qed.

Theorem ownedb_sound h : ownedb h = true -> owned h.
Proof.
  unfold ownedb. intros H g ob e E Hin C.
  pose proof (ownedb_from_sound _ _ _ H g ob e E Hin C) as Hg. cbn [Nat.add] in Hg.
  unfold ctx_targets in Hg. apply in_flat_map in Hg. destruct Hg as (oc & Hoc & Hg).
  destruct (is_ctx (otag oc)) eqn:Ic; [|destruct Hg].
  apply In_nth_error in Hoc. destruct Hoc as (c & Ec). eauto 10.
Qed.

Theorem goodb_sound pin s todo : goodb pin s todo = true -> good pin s todo.
Proof.
  unfold goodb. intros H. apply andb_true_iff in H. destruct H as [H C]. apply andb_true_iff in H. destruct H as [A B].
  split; [apply invb_sound|apply typedb_sound|apply ownedb_sound]; assumption.
Qed.
