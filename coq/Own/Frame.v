(* C20 -- basic facts about the heap operations: updates, the multiset of edge
   targets, and what Gate::dissolve_paths does to a heap (it only removes
   connection edges, and hands back exactly the handles it removed). *)
From Coq Require Import List NArith Arith Bool Lia.
From DesVerif Require Import Own.Heap.
Import ListNotations.

Lemma upd_length {A} (l : list A) i x : length (upd l i x) = length l.
Proof. revert i; induction l as [|y l IH]; intros [|i]; cbn [upd length]; auto. Qed.

Lemma nth_upd_eq {A} (l : list A) i x : i < length l -> nth_error (upd l i x) i = Some x.
Proof.
  revert i; induction l as [|y l IH]; intros [|i] Hi; cbn [upd length nth_error] in *; try lia; auto.
  apply IH; lia.
Qed.

Lemma nth_upd_neq {A} (l : list A) i j x : i <> j -> nth_error (upd l i x) j = nth_error l j.
Proof.
  revert i j; induction l as [|y l IH]; intros [|i] [|j] Hn; cbn [upd nth_error]; auto; try congruence.
Qed.

Lemma nth_some_lt {A} (l : list A) i x : nth_error l i = Some x -> i < length l.
Proof. intros H. apply nth_error_Some. congruence. Qed.

Lemma nth_lt_some {A} (l : list A) i : i < length l -> exists x, nth_error l i = Some x.
Proof. intros H. destruct (nth_error l i) eqn:E; eauto. apply nth_error_None in E. lia. Qed.

(* ---- additive functionals on handle lists (instantiated with "occurrences
   of o" and with "length") ---- *)
Definition cnt (o : nat) (l : list nat) : nat := count_occ Nat.eq_dec l o.

Lemma cnt_app o a b : cnt o (a ++ b) = cnt o a + cnt o b.
Proof. apply count_occ_app. Qed.
Lemma cnt_nil o : cnt o [] = 0.
Proof. reflexivity. Qed.
Lemma cnt_cons_eq o l : cnt o (o :: l) = S (cnt o l).
Proof. unfold cnt. apply count_occ_cons_eq. reflexivity. Qed.
Lemma cnt_cons_neq o x l : x <> o -> cnt o (x :: l) = cnt o l.
Proof. intros. unfold cnt. apply count_occ_cons_neq. assumption. Qed.
Lemma cnt_pos_in o l : 0 < cnt o l <-> In o l.
Proof. unfold cnt. pose proof (count_occ_In Nat.eq_dec l o) as H. unfold gt in H. split; apply H. Qed.

Section Additive.
  Variable m : list nat -> nat.
  Hypothesis m_app : forall a b, m (a ++ b) = m a + m b.
  Hypothesis m_nil : m [] = 0.

  Definition tg (ob : obj) : list nat := map et (strong ob).

  Lemma m_targets_cons ob h : m (targets (ob :: h)) = m (tg ob) + m (targets h).
  Proof. unfold targets. cbn [flat_map]. apply m_app. Qed.

  Lemma m_targets_app h1 h2 : m (targets (h1 ++ h2)) = m (targets h1) + m (targets h2).
  Proof. unfold targets. rewrite flat_map_app. apply m_app. Qed.

  Lemma m_targets_upd h i ob ob' :
    nth_error h i = Some ob ->
    m (targets (upd h i ob')) + m (tg ob) = m (targets h) + m (tg ob').
  Proof.
    revert i; induction h as [|y h IH]; intros [|i] H; cbn [nth_error upd] in H |- *; try discriminate.
    - injection H as ->. rewrite !m_targets_cons. lia.
    - rewrite !m_targets_cons. specialize (IH _ H). lia.
  Qed.

  Lemma m_filter_split (f : edge -> bool) (es : list edge) :
    m (map et es) = m (map et (filter f es)) + m (map et (filter (fun e => negb (f e)) es)).
  Proof.
    induction es as [|e es IH]; cbn [filter map]; [rewrite m_nil; reflexivity|].
    change (et e :: map et es) with ([et e] ++ map et es). rewrite m_app, IH.
    destruct (f e); cbn [negb map];
      [change (et e :: map et (filter f es)) with ([et e] ++ map et (filter f es))
      |change (et e :: map et (filter (fun e0 => negb (f e0)) es)) with ([et e] ++ map et (filter (fun e0 => negb (f e0)) es))];
      rewrite m_app; lia.
  Qed.

  (* dissolve returns exactly the handles it removed *)
  Lemma m_dissolve_fold f locked g cs :
    (forall g' h1, m (targets h1) = m (targets (fst (dissolve f (g :: locked) g' h1))) + m (snd (dissolve f (g :: locked) g' h1))) ->
    forall acc x,
      x = m (targets (fst acc)) + m (snd acc) + m (map et cs) ->
      let r := fold_left
            (fun (acc : heap * list nat) (e : edge) =>
               match ek e with
               | KConn _ _ =>
                   let r := dissolve f (g :: locked) (et e) (fst acc) in
                   (fst r, snd acc ++ snd r ++ [et e])
               | _ => (fst acc, snd acc ++ [et e])
               end) cs acc in
      x = m (targets (fst r)) + m (snd r).
  Proof.
    intros IH. induction cs as [|e cs IHcs]; intros acc x Hx; cbn [fold_left map] in *.
    - rewrite m_nil in Hx. lia.
    - apply IHcs. change (et e :: map et cs) with ([et e] ++ map et cs) in Hx. rewrite m_app in Hx.
      destruct (ek e); cbn [fst snd]; rewrite ?m_app; try lia.
      specialize (IH (et e) (fst acc)). lia.
  Qed.

  Lemma m_dissolve fuel : forall locked g h,
    m (targets h) = m (targets (fst (dissolve fuel locked g h))) + m (snd (dissolve fuel locked g h)).
  Proof.
    induction fuel as [|f IH]; intros locked g h; cbn [dissolve].
    - cbn [fst snd]. rewrite m_nil. lia.
    - destruct (existsb (Nat.eqb g) locked); [cbn [fst snd]; rewrite m_nil; lia|].
      destruct (nth_error h g) as [ob|] eqn:E; [|cbn [fst snd]; rewrite m_nil; lia].
      apply m_dissolve_fold; [intros; apply IH|]. cbn [fst snd]. rewrite m_nil.
      pose proof (m_targets_upd h g ob (set_strong ob (plain_edges ob)) E) as H.
      unfold tg in H. cbn [set_strong strong] in H.
      pose proof (m_filter_split (fun e => is_conn (ek e)) (strong ob)) as H2.
      unfold conn_edges, plain_edges in *. lia.
  Qed.

  Lemma m_dissolve_all gs : forall (h0 : heap) acc x,
    x = m (targets (fst acc)) + m (snd acc) ->
    let r := fold_left
      (fun (acc : heap * list nat) (g : nat) =>
         let r := dissolve (S (length h0)) [] g (fst acc) in (fst r, snd acc ++ snd r)) gs acc in
    x = m (targets (fst r)) + m (snd r).
  Proof.
    induction gs as [|g gs IH]; intros h0 acc x Hx; cbn [fold_left]; [assumption|].
    apply IH. cbn [fst snd]. rewrite m_app.
    pose proof (m_dissolve (S (length h0)) [] g (fst acc)). lia.
  Qed.
End Additive.

Lemma length_app_nat (a b : list nat) : length (a ++ b) = length a + length b.
Proof. apply app_length. Qed.

Lemma cnt_dissolve_all o h gs :
  cnt o (targets h) = cnt o (targets (fst (dissolve_all h gs))) + cnt o (snd (dissolve_all h gs)).
Proof.
  unfold dissolve_all. apply (m_dissolve_all (cnt o) (cnt_app o) (cnt_nil o)). cbn [fst snd]. rewrite cnt_nil. lia.
Qed.

Lemma len_dissolve_all h gs :
  length (targets h) = length (targets (fst (dissolve_all h gs))) + length (snd (dissolve_all h gs)).
Proof.
  unfold dissolve_all. apply (m_dissolve_all (@length nat) length_app_nat eq_refl). cbn [fst snd length]. lia.
Qed.

Lemma cnt_targets_upd o h i ob ob' :
  nth_error h i = Some ob ->
  cnt o (targets (upd h i ob')) + cnt o (tg ob) = cnt o (targets h) + cnt o (tg ob').
Proof. intros H. eapply (m_targets_upd (cnt o)); eauto using cnt_app, cnt_nil. Qed.

Lemma len_targets_upd h i ob ob' :
  nth_error h i = Some ob ->
  length (targets (upd h i ob')) + length (tg ob) = length (targets h) + length (tg ob').
Proof. intros H. eapply (m_targets_upd (@length nat)); eauto using length_app_nat. Qed.

(* ---- dissolve changes nothing but the connection edges ---- *)
Definition shrunk (a b : obj) : Prop :=
  otag b = otag a /\ rc b = rc a /\ live b = live a /\ weak b = weak a /\
  (strong b = strong a \/ strong b = plain_edges a).

Definition shr (h h' : heap) : Prop :=
  length h' = length h /\
  forall i a, nth_error h i = Some a -> exists b, nth_error h' i = Some b /\ shrunk a b.

Lemma plain_idem ob : filter (fun e => negb (is_conn (ek e))) (plain_edges ob) = plain_edges ob.
Proof.
  unfold plain_edges. induction (strong ob) as [|e es IH]; cbn [filter]; [reflexivity|].
  destruct (negb (is_conn (ek e))) eqn:E; cbn [filter]; [rewrite E, IH; reflexivity|assumption].
Qed.

Lemma shrunk_refl a : shrunk a a.
Proof. unfold shrunk; auto 10. Qed.

Lemma shrunk_plain a b : shrunk a b -> plain_edges b = plain_edges a.
Proof.
  intros (_ & _ & _ & _ & [H|H]); unfold plain_edges at 1; rewrite H; [reflexivity|apply plain_idem].
Qed.

Lemma shrunk_trans a b c : shrunk a b -> shrunk b c -> shrunk a c.
Proof.
  intros Hab Hbc. pose proof (shrunk_plain _ _ Hab) as Hp.
  destruct Hab as (T1 & R1 & L1 & W1 & S1), Hbc as (T2 & R2 & L2 & W2 & S2).
  unfold shrunk. repeat split; try congruence.
  destruct S2 as [S2|S2]; [destruct S1; [left|right]; congruence|right; congruence].
Qed.

Lemma shr_refl h : shr h h.
Proof. split; [reflexivity|]. intros i a H. exists a. split; [assumption|apply shrunk_refl]. Qed.

Lemma shr_trans h1 h2 h3 : shr h1 h2 -> shr h2 h3 -> shr h1 h3.
Proof.
  intros [L1 H1] [L2 H2]. split; [congruence|]. intros i a Ha.
  destruct (H1 _ _ Ha) as (b & Hb & Sab). destruct (H2 _ _ Hb) as (c & Hc & Sbc).
  exists c. split; [assumption|eapply shrunk_trans; eassumption].
Qed.

Lemma shr_upd_plain h g ob : nth_error h g = Some ob -> shr h (upd h g (set_strong ob (plain_edges ob))).
Proof.
  intros E. split; [apply upd_length|]. intros i a Ha. destruct (Nat.eq_dec g i) as [->|Hn].
  - rewrite nth_upd_eq by (eapply nth_some_lt; eassumption). eexists. split; [reflexivity|].
    assert (a = ob) by congruence. subst a. unfold shrunk; cbn [set_strong otag rc live weak strong]. auto 10.
  - rewrite nth_upd_neq by assumption. exists a. split; [assumption|apply shrunk_refl].
Qed.

Lemma shr_dissolve fuel : forall locked g h, shr h (fst (dissolve fuel locked g h)).
Proof.
  induction fuel as [|f IH]; intros locked g h; cbn [dissolve]; [apply shr_refl|].
  destruct (existsb (Nat.eqb g) locked); [apply shr_refl|].
  destruct (nth_error h g) as [ob|] eqn:E; [|apply shr_refl].
  pose proof (shr_upd_plain h g ob E) as H0.
  set (acc0 := (upd h g (set_strong ob (plain_edges ob)), @nil nat)).
  change (upd h g (set_strong ob (plain_edges ob))) with (fst acc0) in H0.
  generalize dependent acc0. induction (conn_edges ob) as [|e cs IHcs]; intros acc0 H0; cbn [fold_left]; [assumption|].
  apply IHcs. destruct (ek e); cbn [fst]; try assumption.
  eapply shr_trans; [exact H0|apply IH].
Qed.

Lemma shr_dissolve_all h gs : shr h (fst (dissolve_all h gs)).
Proof.
  unfold dissolve_all. pose proof (shr_refl h) as H0.
  set (acc0 := (h, @nil nat)) in *. change h with (fst acc0) in H0 at 2.
  generalize (S (length h)) as fu. intros fu.
  generalize dependent acc0. induction gs as [|g gs IH]; intros acc0 H0; cbn [fold_left]; [assumption|].
  apply IH. cbn [fst]. eapply shr_trans; [exact H0|apply shr_dissolve].
Qed.

(* a top-level dissolve_paths empties the gate it is called on *)
Lemma fold_keeps_locked f locked g cs :
  (forall g' h1 ob, nth_error h1 g = Some ob -> nth_error (fst (dissolve f (g :: locked) g' h1)) g = Some ob) ->
  forall acc ob, nth_error (fst acc) g = Some ob ->
    nth_error (fst (fold_left
            (fun (acc : heap * list nat) (e : edge) =>
               match ek e with
               | KConn _ _ =>
                   let r := dissolve f (g :: locked) (et e) (fst acc) in
                   (fst r, snd acc ++ snd r ++ [et e])
               | _ => (fst acc, snd acc ++ [et e])
               end) cs acc)) g = Some ob.
Proof.
  intros IH. induction cs as [|e cs IHcs]; intros acc ob H; cbn [fold_left]; [assumption|].
  apply IHcs. destruct (ek e); cbn [fst]; auto.
Qed.

Lemma dissolve_frame_locked fuel : forall locked g x h ob,
  In x locked -> nth_error h x = Some ob -> nth_error (fst (dissolve fuel locked g h)) x = Some ob.
Proof.
  induction fuel as [|f IH]; intros locked g x h ob Hin Hx; cbn [dissolve]; [assumption|].
  destruct (existsb (Nat.eqb g) locked) eqn:Eg; [assumption|].
  destruct (nth_error h g) as [og|] eqn:E; [|assumption].
  assert (Hne : g <> x).
  { intros ->. assert (existsb (Nat.eqb x) locked = true); [|congruence].
    apply existsb_exists. exists x. split; [assumption|apply Nat.eqb_refl]. }
  set (acc0 := (upd h g (set_strong og (plain_edges og)), @nil nat)).
  assert (H0 : nth_error (fst acc0) x = Some ob) by (cbn [fst acc0]; rewrite nth_upd_neq; assumption).
  generalize dependent acc0. induction (conn_edges og) as [|e cs IHcs]; intros acc0 H0; cbn [fold_left]; [assumption|].
  apply IHcs. destruct (ek e); cbn [fst]; try assumption.
  apply IH; [right; assumption|assumption].
Qed.

Lemma dissolve_clears fuel locked g h ob :
  existsb (Nat.eqb g) locked = false -> nth_error h g = Some ob ->
  nth_error (fst (dissolve (S fuel) locked g h)) g = Some (set_strong ob (plain_edges ob)).
Proof.
  intros Eg E. cbn [dissolve]. rewrite Eg, E.
  apply fold_keeps_locked.
  - intros g' h1 ob1 H1. apply dissolve_frame_locked; [left; reflexivity|assumption].
  - cbn [fst]. apply nth_upd_eq. eapply nth_some_lt; eassumption.
Qed.
