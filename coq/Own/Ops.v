(* C20 -- builder / runtime operations of des as graph updates, written with the
   primitives of Own/Safe.v only (allocate behind a handle, clone, move into a
   field, move out, drop).  Every function corresponds to one place in /repo
   that creates, clones, moves or drops a reference; the simulation that calls
   them is Own/World.v + Own/Model.v.  No proofs in this file. *)
From Coq Require Import List NArith Arith Bool.
From DesVerif Require Import Own.Heap Own.Shape Own.Safe.
Import ListNotations.

(* drop the handle to [t] stored in [src] (VecDeque::pop_front / Vec::remove / Option::take, then drop) *)
Definition drop_edge (r : rs) (src t : nat) : rs :=
  match p_detach r src (fun e => Nat.eqb (et e) t) with
  | (r1, Some x) => p_release r1 x
  | (r1, None) => r1
  end.

(* Sim::new (runtime/mod.rs:165-177): Globals::default() allocates the module tree;
   Sim keeps a clone of that handle and the handle to the globals *)
Definition new_sim (r : rs) : rs * nat * nat :=
  let '(r1, tree) := p_alloc r TTree in
  let '(r2, glob) := p_alloc r1 TGlobals in
  let r3 := p_move_in r2 glob (KField 0) tree in     (* Globals.modules *)
  let r4 := p_clone r3 tree in                           (* Sim.modules = globals.modules.clone() *)
  (r4, tree, glob).

(* SimBuilder::raw (runtime/mod.rs): ModuleContext::standalone / child_of (ctx/mod.rs:81-145),
   ModuleRef::new (refs.rs:60-75), ModuleTree::add.  Returns ctx, proc, queue; the caller still
   holds the returned ModuleRef (one handle to ctx, one to proc). *)
Definition new_module (r : rs) (tree : nat) (parent : option (nat * nat)) (depth : nat) (state : N) (elems : list N)
  : rs * nat * nat * nat :=
  let '(r1, ctx) := p_alloc r (TCtx depth) in
  let '(r2, q) := p_alloc r1 TQueue in
  let r3 := p_move_in r2 ctx (KField 2) q in              (* AsyncCoreExt::new: driver: Some(Driver::new()) *)
  let '(r4, proc) := p_alloc r3 (TProc state) in
  let r5 := fold_left (fun ra e => let '(rb, el) := p_alloc ra (TElem e) in p_move_in rb proc (KField 0) el) elems r4 in
  let r6 := p_weak (p_weak r5 ctx 0 ctx) ctx 1 proc in        (* ctx.me *)
  let r7 := match parent with
            | Some (pc, pp) =>
                let ra := p_weak (p_weak r6 ctx 2 pc) ctx 3 pp in                    (* ctx.parent *)
                p_edge (p_edge ra pc (KField 3) ctx) pc (KField 4) proc      (* parent.children.insert(name, this.clone()) *)
            | None => r6
            end in
  let r8 := p_edge (p_edge r7 tree (KField 0) ctx) tree (KField 1) proc in   (* mods.add(ctx.clone()) *)
  (r8, ctx, proc, q).

(* ModuleRef::create_raw_gate (refs.rs:278-282): Gate::new + gates.push(gate.clone()); the caller
   holds the returned GateRef *)
Definition new_gate (r : rs) (ctx proc : nat) : rs * nat :=
  let '(r1, g) := p_alloc r TGate in
  let r2 := p_weak (p_weak r1 g 0 ctx) g 1 proc in            (* Gate.owner *)
  (p_edge r2 ctx (KField 0) g, g).

Definition conn_count (h : heap) (g : nat) : N :=
  N.of_nat (length (filter (fun e => kconn (ek e)) (edges_of h g))).
Definition connected_to (h : heap) (g t : nat) : bool :=
  existsb (fun e => kconn (ek e) && Nat.eqb (et e) t) (edges_of h g).

(* Gate::connect (gate.rs:262-297).  Returns the two channel objects if a channel was given:
   the duplicate stored at [a] (direction a -> b) and the original stored at [b]. *)
Definition connect (r : rs) (a b : nat) (chan : bool) : rs * option (nat * nat) :=
  if Nat.eqb a b then (r, None)                                   (* assert: panics before anything changes *)
  else if connected_to (rhp r) a b then (r, None)                 (* already connected: return *)
  else
    let pa := conn_count (rhp r) a in
    let pb := conn_count (rhp r) b in
    if (2 <=? pa)%N || (2 <=? pb)%N then (r, None)                (* assert: panics before anything changes *)
    else
      let r1 := p_edge r a (KConn pa pb) b in                 (* conns.put(Connection { endpoint: other.clone(), endpoint_id: other_conns_pos, .. *)
      let '(r2, chs) :=
        if chan then
          let '(ra, c1) := p_alloc r1 TChannel in                 (* ch1 = Arc::new(c.dup()) *)
          let rb := p_move_in ra a (KConnCh pa) c1 in
          let '(rc, c2) := p_alloc rb TChannel in                 (* ch2 = channel *)
          (rc, Some (c1, c2))
        else (r1, None) in
      let r3 := p_edge r2 b (KConn pb pa) a in                (* other_conns.put(Connection { endpoint: self.clone(), endpoint_id: conns_pos, .. *)
      let r4 := match chs with Some (_, c2) => p_move_in r3 b (KConnCh pb) c2 | None => r3 end in
      (r4, chs).

(* connections[idx] of gate g: peer, slot used at the peer, channel *)
Definition conn_at (h : heap) (g : nat) (idx : N) : option (nat * N * option nat) :=
  match find (fun e => match ek e with KConn s _ => N.eqb s idx | _ => false end) (edges_of h g) with
  | Some e =>
      let eid := match ek e with KConn _ i => i | _ => 0%N end in
      let ch := match find (fun e => match ek e with KConnCh s => N.eqb s idx | _ => false end) (edges_of h g) with
                | Some c => Some (et c) | None => None end in
      Some (et e, eid, ch)
  | None => None
  end.

(* a new message held by a local variable *)
Definition new_msg (r : rs) (pay : N) : rs * nat := p_alloc r (TMsg pay).

(* msg.header.last_gate = Some(gate.clone()) (events.rs:66,76): the old value is dropped *)
Definition set_last_gate (r : rs) (m g : nat) : rs :=
  let '(r1, old) := p_detach r m (fun e => kf (ek e) 0) in
  let r2 := p_edge r1 m (KField 0) g in
  match old with Some o => p_release r2 o | None => r2 end.

(* a new event value held by whoever builds it *)
Definition new_event (r : rs) (kind : N) : rs * nat := p_alloc r (TEvent kind).

(* HandleMessageEvent { module: <ModuleRef clone>, message } (events.rs:121-127, runtime/ctx.rs:100-106) *)
Definition ev_handle (r : rs) (ctx proc msg : nat) : rs * nat :=
  let '(r1, e) := new_event r 1 in
  (p_move_in (p_edge (p_edge r1 e (KField 3) ctx) e (KField 4) proc) e (KField 2) msg, e).
(* ModuleRestartEvent / AsyncWakeupEvent { module: module.clone() } *)
Definition ev_module (r : rs) (kind : N) (ctx proc : nat) : rs * nat :=
  let '(r1, e) := new_event r kind in
  (p_edge (p_edge r1 e (KField 3) ctx) e (KField 4) proc, e).
(* ChannelUnbusyNotif { channel: self.clone() } (channel.rs) *)
Definition ev_unbusy (r : rs) (ch : nat) : rs * nat :=
  let '(r1, e) := new_event r 2 in (p_edge r1 e (KField 1) ch, e).
(* MessageExitingConnection { con: Connection { endpoint, channel }, msg } (channel.rs, runtime/mod.rs:600-603) *)
Definition ev_exit (r : rs) (gate : nat) (ch : option nat) (msg : nat) : rs * nat :=
  let '(r1, e) := new_event r 0 in
  let r2 := p_edge r1 e (KField 0) gate in
  let r3 := match ch with Some c => p_edge r2 e (KField 1) c | None => r2 end in
  (p_move_in r3 e (KField 2) msg, e).

(* Buffer::enqueue (channel.rs:41-49); pinned schema: the connection keeps `channel: Some(self)` (before 6ce5d8e) *)
Definition enqueue (r : rs) (ch msg gate : nat) : rs :=
  let r1 := p_move_in r ch (KField 0) msg in
  let r2 := p_edge r1 ch (KField 1) gate in
  if r_pin r then p_edge r2 ch (KField 2) ch else r2.
(* Buffer::dequeue (channel.rs:51-55): the message moves out, the connection's handles are dropped
   when `send_message` has rebuilt the connection *)
Definition dequeue (r : rs) (ch : nat) : rs * option nat :=
  let '(r1, m) := p_detach r ch (fun e => kf (ek e) 0) in
  let '(r2, g) := p_detach r1 ch (fun e => kf (ek e) 1) in
  let r3 := match g with Some g => p_release r2 g | None => r2 end in
  let r4 := if r_pin r then match p_detach r3 ch (fun e => kf (ek e) 2) with
                        | (ra, Some c) => p_release ra c
                        | (ra, None) => ra end
            else r3 in
  (r4, m).

(* tokio::spawn: the runtime owns the future *)
Definition new_task (r : rs) (rt : nat) (cap : N) : rs * nat :=
  let '(r1, t) := p_alloc r (TTask cap) in (p_move_in r1 rt (KField 0) t, t).

(* TimerQueue::add, Err(insert_at) branch (driver.rs:116-127): TimerSlot::new(time, <handle to self>),
   pending.insert(.., Arc::new(slot)) *)
Definition new_slot (r : rs) (q : nat) : rs * nat :=
  let '(r1, sl) := p_alloc r TSlot in
  let r2 := p_move_in r1 q (KField 0) sl in
  (* the slot's way back to its queue: Arc::downgrade(self) (driver.rs:117); self.clone() before 012bc88 *)
  (if r_pin r then p_edge r2 sl (KField 0) q else p_weak r2 sl 0 q, sl).

(* a fresh tokio runtime for a module: Rt::current (rt.rs:79-93) / AsyncCoreExt::reset (rt.rs:67-77) *)
Definition new_runtime (r : rs) (ctx : nat) : rs * nat :=
  let '(r1, x) := p_alloc r TRuntime in (p_move_in r1 ctx (KField 1) x, x).
