(* C20 -- the statements of Properties/C20.v, assembled from Inv.v, Rank.v, Check.v, Cycle.v
   and Reach.v, and what they mean for the numbers the model prints. *)
From Coq Require Import List NArith Arith Bool Lia.
From DesVerif Require Import Common.Codec Own.Heap Own.Frame Own.Inv Own.Shape Own.Rank Own.Check Own.Cycle Own.Safe Own.SafeP
  Own.World Own.Model Own.Reach.
Import ListNotations.
Local Open Scope nat_scope.

Theorem no_release_after_free s roots : inv s roots ->
  bad (release_all s roots) = [] /\ NoDup (freed (release_all s roots)) /\ inv (release_all s roots) [].
Proof.
  intros I. pose proof (release_all_inv _ _ I) as I'. split; [apply (i_bad _ _ I')|]. split; [apply (i_nodup _ _ I')|assumption].
Qed.

Theorem user_objects_freed_exactly_once s roots : good false s roots ->
  forall o t, tag_of (hp s) o = Some t -> user_tag t = true ->
    cnt o (freed (release_all s roots)) = 1 /\ is_live (hp (release_all s roots)) o = false.
Proof.
  intros G o t Ht U.
  assert (Ho : o < length (hp s)).
  { unfold tag_of in Ht. destruct (nth_error (hp s) o) eqn:E; [|discriminate]. eapply nth_some_lt; eassumption. }
  split; [apply freed_exactly_once; assumption|].
  unfold is_live. destruct (nth_error (hp (release_all s roots)) o) as [ob|] eqn:E; [|reflexivity].
  exact (all_freed s roots G o ob E).
Qed.

(* ---- the printed verdict ---- *)
Lemma release_all_length s roots : length (hp (release_all s roots)) = length (hp s).
Proof.
  destruct (Nat.lt_trichotomy (length (hp (release_all s roots))) (length (hp s))) as [H|[H|H]]; [exfalso|assumption|exfalso].
  - pose proof (release_all_tag s roots (length (hp (release_all s roots)))) as E. unfold tag_of in E.
    destruct (nth_lt_some _ _ H) as (x & Ex). rewrite Ex in E.
    assert (N0 : nth_error (hp (release_all s roots)) (length (hp (release_all s roots))) = None) by (apply nth_error_None; lia).
    rewrite N0 in E. discriminate.
  - pose proof (release_all_tag s roots (length (hp s))) as E. unfold tag_of in E.
    destruct (nth_lt_some _ _ H) as (x & Ex). rewrite Ex in E.
    assert (N0 : nth_error (hp s) (length (hp s)) = None) by (apply nth_error_None; lia).
    rewrite N0 in E. discriminate.
Qed.

Lemma filter_seq_nth (q : obj -> bool) : forall h : heap,
  length (filter (fun o => match nth_error h o with Some ob => q ob | None => false end) (seq 0 (length h)))
  = length (filter q h).
Proof.
  induction h as [|x h IH] using rev_ind; [reflexivity|].
  rewrite app_length. cbn [length]. rewrite Nat.add_1_r, seq_S, !filter_app, !app_length. cbn [Nat.add filter].
  rewrite nth_error_app2 by lia. rewrite Nat.sub_diag. cbn [nth_error]. f_equal.
  - rewrite <- IH. f_equal. apply filter_ext_in. intros o Ho. apply in_seq in Ho. rewrite nth_error_app1 by lia. reflexivity.
  - destruct (q x); reflexivity.
Qed.

Lemma count_once_all (p : tag -> bool) s' :
  (forall o, o < length (hp s') -> cnt o (freed s') = 1) -> count_once p s' = count_tag p (hp s').
Proof.
  intros H. unfold count_once, count_tag. f_equal.
  rewrite <- (filter_seq_nth (fun ob => p (otag ob)) (hp s')). f_equal. apply filter_ext_in. intros o Ho. apply in_seq in Ho.
  destruct (nth_error (hp s') o); [|reflexivity]. unfold cnt in H. rewrite H by lia. cbn. apply andb_true_r.
Qed.

Lemma count_user_split h :
  (count_tag user_tag h = count_tag is_proc h + count_tag is_elem h + count_tag is_task h + count_tag is_msg h)%N.
Proof.
  unfold count_tag. induction h as [|x h IH]; [reflexivity|]. cbn [filter].
  destruct (otag x); cbn [user_tag is_proc is_elem is_task is_msg length]; rewrite ?Nat2N.inj_succ; lia.
Qed.

Lemma all_dead_filter (q : obj -> bool) (h : heap) :
  (forall ob, In ob h -> live ob = false) -> filter (fun ob => q ob && live ob) h = [].
Proof.
  induction h as [|x h IH]; intros H; [reflexivity|]. cbn [filter].
  rewrite (H x (or_introl eq_refl)), andb_false_r. apply IH. intros ob Hin. apply H. right. assumption.
Qed.

Lemma all_dead_existsb (h : heap) : (forall ob, In ob h -> live ob = false) -> existsb live h = false.
Proof.
  induction h as [|x h IH]; intros H; [reflexivity|]. cbn [existsb].
  rewrite (H x (or_introl eq_refl)). apply IH. intros ob Hin. apply H. right. assumption.
Qed.

(* if nothing is alive and everything is in the log once, the model prints: once = created,
   0 instances dropped otherwise, 0 alive, nothing allocated *)
Lemma verdict_all_freed s' :
  (forall o ob, nth_error (hp s') o = Some ob -> live ob = false) ->
  (forall o, o < length (hp s') -> cnt o (freed s') = 1) ->
  verdict s' = ([count_tag is_proc (hp s'); count_tag is_elem (hp s'); count_tag is_task (hp s'); count_tag is_msg (hp s')],
                [count_tag is_proc (hp s'); count_tag is_elem (hp s'); count_tag is_task (hp s'); count_tag is_msg (hp s')],
                0, 0, 0)%N.
Proof.
  intros Hd Ho. unfold verdict. rewrite !(count_once_all _ _ Ho). cbn [nth].
  assert (Hin : forall ob, In ob (hp s') -> live ob = false).
  { intros ob H. apply In_nth_error in H. destruct H as (o & E). eapply Hd; eassumption. }
  pose proof (all_dead_filter (fun ob => user_tag (otag ob)) _ Hin) as Hl. pose proof (all_dead_existsb _ Hin) as He.
  unfold alive_users. rewrite Hl, He, count_user_split. cbn [length b2n N.of_nat]. f_equal. f_equal. f_equal. lia.
Qed.

(* END TO END: every script, every stopping point.  The graph the simulation has reached is
   well formed (Reach.v), hence (Rank.v) dropping the handles held then frees every object
   exactly once, and the model's verdict is forced. *)
Theorem every_simulation_releases_everything input :
  let '(s, roots, _) := stop_state false input in
  let s' := release_all s roots in
  good false s roots /\
  (forall o ob, nth_error (hp s') o = Some ob -> live ob = false) /\
  (forall o, o < length (hp s) -> cnt o (freed s') = 1) /\
  bad s' = [] /\
  exists created, verdict s' = (created, created, 0, 0, 0)%N.
Proof.
  pose proof (stop_state_good false input) as Gd. destruct (stop_state false input) as [[s roots] info]. cbv zeta.
  pose proof (all_freed s roots Gd) as Hd. pose proof (freed_exactly_once s roots Gd) as Ho.
  split; [assumption|]. split; [assumption|]. split; [assumption|]. split.
  - destruct Gd as [I _ _]. apply (no_release_after_free _ _ I).
  - eexists. apply verdict_all_freed; [assumption|]. intros o H. apply Ho. rewrite release_all_length in H. assumption.
Qed.

(* the same for the line the model prints *)
Theorem run_prints_all_freed input :
  exists ok res nrem time created lg cnts,
    run input = ([ok; res; nrem; time] ++ created ++ created ++ [0; 0; N.of_nat (length lg / 4)] ++ lg ++ cnts
                 ++ [ok; res; nrem; time] ++ created ++ created ++ [0; 0; N.of_nat (length lg / 4)] ++ lg ++ cnts ++ [0])%N.
Proof.
  unfold run, run_gen. pose proof (every_simulation_releases_everything input) as H.
  destruct (stop_state false input) as [[s roots] [[[[[res nrem] time] lg] agree] cnts]]. cbv zeta in H.
  destruct H as (_ & _ & _ & _ & created & Hv). rewrite Hv.
  exists (b2n (goodb false s roots && agree)), res, nrem, time, created, lg, ([N.of_nat (length cnts)] ++ cnts)%N.
  rewrite <- !app_assoc. cbn [app]. reflexivity.
Qed.

(* Whether the simulation is dropped by leaving scopes or by a panic unwinding through their owner
   (bit 1 of the script's `order` field, read by the implementation runner only) is not an input of
   the release: the same graph, the same handles, the same verdict. *)
Theorem drop_path_irrelevant pin stop arg o rest :
  stop_state pin (stop :: arg :: (o + 2) :: rest)%N = stop_state pin (stop :: arg :: o :: rest)
  /\ run_gen pin (stop :: arg :: (o + 2) :: rest)%N = run_gen pin (stop :: arg :: o :: rest).
Proof.
  assert (H : stop_world pin (stop :: arg :: (o + 2) :: rest)%N = stop_world pin (stop :: arg :: o :: rest)).
  { unfold stop_world. cbn [hd0 tl0]. change 2%N with (2 * 1)%N. rewrite N.odd_add_mul_2. reflexivity. }
  unfold run_gen, stop_state. rewrite H. split; reflexivity.
Qed.

(* The strong count the model prints for an object at a stopping point ([Model.strong_of]) is, in
   every reachable graph, the number of strong edges into the object plus the number of handles
   to it held from outside the heap (Sim, statics, event set, caller) -- nothing else. *)
Theorem counts_are_in_degrees pin input :
  let '(s, roots, _) := stop_state pin input in
  forall o, o < length (hp s) ->
    strong_of (hp s) o = N.of_nat (cnt o (targets (hp s)) + cnt o roots).
Proof.
  pose proof (stop_state_good pin input) as Gd. destruct (stop_state pin input) as [[s roots] info].
  intros o Ho. destruct Gd as [I _ _]. pose proof (i_cnt _ _ I o Ho) as H. unfold rc_of in H. unfold strong_of.
  destruct (nth_error (hp s) o); [rewrite H; reflexivity|]. rewrite <- H. reflexivity.
Qed.
