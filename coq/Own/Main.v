(* C20 -- the statements of Properties/C20.v, assembled from Inv.v, Rank.v,
   Check.v and Cycle.v, and the link to the scripted simulations of Model.v. *)
From Coq Require Import List NArith Arith Bool Lia.
From DesVerif Require Import Own.Heap Own.Frame Own.Inv Own.Shape Own.Rank Own.Check Own.Cycle Own.World Own.Model.
Import ListNotations.

Theorem no_release_after_free s roots : inv s roots ->
  bad (release_all s roots) = [] /\ NoDup (freed (release_all s roots)) /\ inv (release_all s roots) [].
Proof.
  intros I. pose proof (release_all_inv _ _ I) as I'. split; [apply (i_bad _ _ I')|]. split; [apply (i_nodup _ _ I')|assumption].
Qed.

Theorem user_objects_freed_exactly_once s roots : good false s roots ->
  forall o t, tag_of (hp s) o = Some t -> user_tag t = true ->
    cnt o (freed (release_all s roots)) = 1%nat /\ is_live (hp (release_all s roots)) o = false.
Proof.
  intros G o t Ht U.
  assert (Ho : (o < length (hp s))%nat).
  { unfold tag_of in Ht. destruct (nth_error (hp s) o) eqn:E; [|discriminate]. eapply nth_some_lt; eassumption. }
  split; [apply freed_exactly_once; assumption|].
  unfold is_live. destruct (nth_error (hp (release_all s roots)) o) as [ob|] eqn:E; [|reflexivity].
  exact (all_freed s roots G o ob E).
Qed.

(* What the model prints: if the first number of [run_gen false script] is 1, the graph the
   simulation has reached at its stopping point is one to which the theorems apply, and the
   counters that follow are then forced: nothing alive at all. *)
Theorem run_ok_means_all_freed input :
  let '(w, roots, _) := stop_state false input in
  goodb false (w_st w) roots = true -> alive_users (hp (release_all (w_st w) roots)) = 0%N.
Proof.
  destruct (stop_state false input) as [[w roots] x]. intros Hg. apply goodb_sound in Hg.
  unfold alive_users.
  assert (H : filter (fun ob => user_tag (otag ob) && live ob) (hp (release_all (w_st w) roots)) = []); [|rewrite H; reflexivity].
  destruct (filter _ _) as [|ob l] eqn:E; [reflexivity|exfalso].
  assert (Hin : In ob (filter (fun ob => user_tag (otag ob) && live ob) (hp (release_all (w_st w) roots)))) by (rewrite E; left; reflexivity).
  apply filter_In in Hin. destruct Hin as [Hin Hb]. apply andb_true_iff in Hb. destruct Hb as [U L].
  apply In_nth_error in Hin. destruct Hin as (o & Eo).
  pose proof (all_freed _ _ Hg o ob Eo) as Tm. congruence.
Qed.

(* the graph of an empty simulation (Sim::new, nothing else) is well formed *)
Theorem empty_sim_good : let '(w, roots, _) := stop_state false [] in good false (w_st w) roots.
Proof. apply goodb_sound. vm_compute. reflexivity. Qed.
