(* C20 -- what is NOT freed: a set of objects each of which is the target of
   an ordinary (non-connection) strong edge from a member of the set stays
   allocated for ever, whatever handles are released.  This is why the schema
   has to be acyclic apart from gate connections.  Instances, both in the
   pinned schema only: a TimerQueue with a pending TimerSlot that holds an
   Arc to it (before fix 012bc88), and a channel whose buffer holds a
   connection to itself (before fix 6ce5d8e). *)
From Coq Require Import List NArith Arith Bool Lia.
From DesVerif Require Import Own.Heap Own.Frame Own.Inv Own.Shape Own.Rank.
Import ListNotations.

Definition supported (S : nat -> Prop) (h : heap) : Prop :=
  forall o, S o -> exists p pb e, S p /\ nth_error h p = Some pb /\ In e (strong pb) /\ et e = o /\ is_conn (ek e) = false.

Lemma supported_has_edge S h o : supported S h -> S o -> In o (targets h).
Proof.
  intros Sup So. destruct (Sup o So) as (p & pb & e & _ & Ep & Hin & Het & _).
  unfold targets. apply in_flat_map. exists pb. split; [eapply nth_error_In; eassumption|].
  apply in_map_iff. eauto.
Qed.

Lemma supported_step S s o r : inv s (o :: r) -> supported S (hp s) -> supported S (hp (fst (step s o))).
Proof.
  intros I Sup. destruct (step_cases s o) as [Hb|ob ob1 E L R1 E1 Sh|ob E L R2]; cbn [fst hp]; [assumption| |].
  - (* the freed object has no incoming edge at all, so it is not a member *)
    assert (Hno : ~ S o).
    { intros So. pose proof (supported_has_edge _ _ _ Sup So) as Hin. apply cnt_pos_in in Hin.
      pose proof (i_cnt _ _ I o (nth_some_lt _ _ _ E)) as Hc. unfold rc_of in Hc. rewrite E, cnt_cons_eq in Hc. lia. }
    pose proof (pre_free_shr s ob) as Shr. assert (Ho1 : o < length (fst (pre_free s ob))) by (eapply nth_some_lt; eassumption).
    intros x Sx. destruct (Sup x Sx) as (p & pb & e & Sp & Ep & Hin & Het & C).
    destruct Shr as [_ Hs]. destruct (Hs _ _ Ep) as (pb' & Ep' & Spb).
    exists p, pb', e. split; [assumption|]. split.
    + rewrite nth_upd_neq; [assumption|]. intros ->. contradiction.
    + split; [eapply shrunk_keeps_plain; eassumption|auto].
  - assert (Ho : o < length (hp s)) by (eapply nth_some_lt; eassumption).
    intros x Sx. destruct (Sup x Sx) as (p & pb & e & Sp & Ep & Hin & Het & C).
    destruct (Nat.eq_dec o p) as [<-|Hn].
    + exists o, (set_rc ob (rc ob - 1)), e. rewrite nth_upd_eq by assumption.
      assert (pb = ob) by congruence. subst pb. auto 10.
    + exists p, pb, e. rewrite nth_upd_neq by assumption. auto 10.
Qed.

Lemma supported_run S fuel : forall s todo, inv s todo -> supported S (hp s) ->
  supported S (hp (fst (run_release fuel s todo))).
Proof.
  induction fuel as [|f IH]; intros s todo I Sup; destruct todo as [|o r]; cbn [run_release fst]; try assumption.
  apply IH; [apply inv_step; assumption|eapply supported_step; eassumption].
Qed.

(* members of a supported set are still allocated after any release sequence *)
Theorem supported_survives S s roots : inv s roots -> supported S (hp s) ->
  forall o, S o -> is_live (hp (release_all s roots)) o = true.
Proof.
  intros I Sup o So. pose proof (release_all_inv _ _ I) as I'.
  pose proof (supported_run S (Datatypes.S (measure (hp s) roots)) s roots I Sup) as Sup'. fold (release_all s roots) in Sup'.
  pose proof (supported_has_edge _ _ _ Sup' So) as Hin.
  assert (Ho : o < length (hp (release_all s roots))) by (apply (i_rng _ _ I'); left; assumption).
  destruct (nth_lt_some _ _ Ho) as (ob & E). unfold is_live. rewrite E.
  destruct (live ob) eqn:L; [reflexivity|exfalso].
  destruct (i_dead _ _ I' _ _ E L) as [R0 _].
  pose proof (i_cnt _ _ I' o Ho) as Hc. unfold rc_of in Hc. rewrite E, cnt_nil in Hc. apply cnt_pos_in in Hin. lia.
Qed.

(* the timer instance (pinned schema): a queue [q] that lists slot [sl] as pending, which holds a strong handle back *)
Definition timer_pair (h : heap) (q sl : nat) : Prop :=
  (exists qb e, nth_error h q = Some qb /\ In e (strong qb) /\ et e = sl /\ is_conn (ek e) = false) /\
  (exists sb e, nth_error h sl = Some sb /\ In e (strong sb) /\ et e = q /\ is_conn (ek e) = false).

Theorem timer_pair_survives s roots q sl : inv s roots -> timer_pair (hp s) q sl ->
  is_live (hp (release_all s roots)) q = true /\ is_live (hp (release_all s roots)) sl = true.
Proof.
  intros I [(qb & e1 & Eq & H1 & T1 & C1) (sb & e2 & Es & H2 & T2 & C2)].
  assert (Sup : supported (fun x => x = q \/ x = sl) (hp s)).
  { intros o [Hq | Hs]; subst o; [exists sl, sb, e2|exists q, qb, e1]; auto 10. }
  split; (eapply supported_survives; [exact I|exact Sup|]); [left|right]; reflexivity.
Qed.

