(* C20 -- the ownership schema of a des network simulation, read off the struct
   definitions in /repo/des/src (one line per reference-carrying field), and the
   well-formedness predicate [wf] for which Own/Rank.v proves that releasing the
   roots frees everything.

   STRONG EDGES (source tag, label, target tag)
   Globals  KField 0  Tree      net/runtime/mod.rs:701  Globals.modules: Arc<Mutex<ModuleTree>> (same Arc as Sim.modules, :83)
   Tree     KField 0  Ctx       net/runtime/mod.rs:725  ModuleTree.modules: Vec<ModuleRef>; ModuleRef.ctx: Arc<ModuleContext> (module/refs.rs:47)
   Tree     KField 1  Proc      net/runtime/mod.rs:725  ... ModuleRef.processing: Arc<RefCell<Processor>> (module/refs.rs:48)
   Ctx      KField 0  Gate      net/module/ctx/mod.rs:55  gates: RwLock<Vec<GateRef>>
   Ctx      KField 1  Runtime   net/module/ctx/rt.rs:12,22  async_ext.rt = Rt::Runtime((Arc<Runtime>, Rc<LocalSet>))
   Ctx      KField 2  Queue     net/module/ctx/rt.rs:13 + time/driver.rs:14  async_ext.driver: Option<Driver>, Driver.queue: Arc<TimerQueue>
   Ctx      KField 3  Ctx       net/module/ctx/mod.rs:65  children: FxHashMap<String, ModuleRef> (.ctx); the child's path is one longer (:115,:132)
   Ctx      KField 4  Proc      net/module/ctx/mod.rs:65  children (.processing)
   Proc     KField 0  Elem      net/processing.rs:197,258  Processor.stack.items: Vec<Box<dyn ProcessingElement>>
                                (Processor.handler: Box<dyn Module>, :198, is the payload of the Proc tag)
   Gate     KConn s i Gate      net/gate.rs:46,53  connections[s] = Some(Connection { endpoint: GateRef, endpoint_id: i, .. })
   Gate     KConnCh s Channel   net/gate.rs:46,57  connections[s] = Some(Connection { channel: Some(ChannelRef), .. })
   Channel  KField 0  Msg       net/channel.rs:30,36  inner.buffer.packets: VecDeque<(Message, Connection)> (.0)
   Channel  KField 1  Gate      net/channel.rs:36 + net/gate.rs:53  buffered Connection.endpoint
   Channel  KField 2  Channel   net/channel.rs:36 + net/gate.rs:57  buffered Connection.channel -- ONLY BEFORE fix 6ce5d8e
                                (channel.rs:41-45 now stores None); allowed by [edge_ok true] only
   Msg      KField 0  Gate      net/message/header.rs:38  header.last_gate: Option<GateRef>
   Event 0  KField 0  Gate      net/runtime/events.rs:53  MessageExitingConnection.con.endpoint
   Event 0  KField 1  Channel   net/runtime/events.rs:53  MessageExitingConnection.con.channel
   Event 0  KField 2  Msg       net/runtime/events.rs:54  MessageExitingConnection.msg
   Event 1  KField 3  Ctx       net/runtime/events.rs:142 HandleMessageEvent.module (.ctx)
   Event 1  KField 4  Proc      net/runtime/events.rs:142 HandleMessageEvent.module (.processing)
   Event 1  KField 2  Msg       net/runtime/events.rs:143 HandleMessageEvent.message
   Event 2  KField 1  Channel   net/runtime/events.rs:221 ChannelUnbusyNotif.channel
   Event 3  KField 3/4 Ctx/Proc net/runtime/events.rs:171 ModuleRestartEvent.module
   Event 4  KField 3/4 Ctx/Proc net/runtime/events.rs:196 AsyncWakeupEvent.module
   Runtime  KField 0  Task      tokio: the runtime / LocalSet owns every spawned future (modelled, not read off des)
   Queue    KField 0  Slot      time/driver.rs:20  TimerQueue.pending: VecDeque<Arc<TimerSlot>>
   Slot     KField 0  Queue     time/driver.rs:30  TimerSlot.queue -- ONLY BEFORE fix 012bc88, when it was an
                                Arc<TimerQueue> and closed a strong cycle with the line above (now a Weak, see
                                below); allowed by [edge_ok true] only

   WEAK EDGES (never counted): TimerSlot.queue: Weak<TimerQueue> (driver.rs:30,117), Ctx.me, Ctx.parent (ctx/mod.rs:52,64; refs.rs:18-19), Gate.owner (gate.rs:18),
   TimerSlotEntryHandle.handle: Weak<TimerSlot> held by a sleeping task (driver.rs:40), the Waker in
   TimerSlotEntry (driver.rs:32; tokio drops the future on runtime shutdown whatever wakers exist),
   BufferContext.globals: Weak<Globals> (runtime/ctx.rs:20).

   ROOT HANDLES (outside the heap): Sim.modules and Sim.globals (mod.rs:83-84), the static MOD_CTX
   (ctx/mod.rs:22, cleared by Sim::drop mod.rs:221-229 and SimStaticsGuard::drop guard.rs:34-39),
   BUF_CTX.events (runtime/ctx.rs:18, cleared by the guard), Runtime.future_event_set and
   Profiler.remaining (runtime/mod.rs:125,130), GateRef/ModuleRef values held by the caller. *)
From Coq Require Import List NArith Arith Bool Lia.
From DesVerif Require Import Own.Heap.
Import ListNotations.

Definition kf (k : ekind) (n : N) : bool := match k with KField f => N.eqb f n | _ => false end.
Definition kconn (k : ekind) : bool := match k with KConn _ _ => true | _ => false end.
Definition kconnch (k : ekind) : bool := match k with KConnCh _ => true | _ => false end.

(* [pin] = true: the schema of the pinned tree (before the fixes 6ce5d8e and 012bc88) *)
Definition edge_ok (pin : bool) (a : tag) (k : ekind) (b : tag) : bool :=
  match a, b with
  | TGlobals, TTree => kf k 0
  | TTree, TCtx _ => kf k 0
  | TTree, TProc _ => kf k 1
  | TCtx _, TGate => kf k 0
  | TCtx _, TRuntime => kf k 1
  | TCtx _, TQueue => kf k 2
  | TCtx d, TCtx d' => kf k 3 && (d <? d')
  | TCtx _, TProc _ => kf k 4
  | TProc _, TElem _ => kf k 0
  | TGate, TGate => kconn k
  | TGate, TChannel => kconnch k
  | TChannel, TMsg _ => kf k 0
  | TChannel, TGate => kf k 1
  | TChannel, TChannel => pin && kf k 2
  | TMsg _, TGate => kf k 0
  | TEvent e, TGate => kf k 0 && N.eqb e 0
  | TEvent e, TChannel => kf k 1 && (N.eqb e 0 || N.eqb e 2)
  | TEvent e, TMsg _ => kf k 2 && (N.eqb e 0 || N.eqb e 1)
  | TEvent e, TCtx _ => kf k 3 && (N.eqb e 1 || N.eqb e 3 || N.eqb e 4)
  | TEvent e, TProc _ => kf k 4 && (N.eqb e 1 || N.eqb e 3 || N.eqb e 4)
  | TRuntime, TTask _ => kf k 0
  | TQueue, TSlot => kf k 0
  | TSlot, TQueue => pin && kf k 0
  | _, _ => false
  end.

(* the rank on object types; module contexts are ranked among themselves by path length *)
Definition trank (t : tag) : nat :=
  match t with
  | TGlobals => 12 | TTree => 11 | TEvent _ => 10 | TCtx _ => 9 | TProc _ => 8 | TElem _ => 7
  | TRuntime => 6 | TTask _ => 5 | TChannel => 4 | TMsg _ => 3 | TGate => 2 | TQueue => 1 | TSlot => 0
  end.
Definition tdepth (t : tag) : nat := match t with TCtx d => d | _ => 0 end.

(* what a user can observe being dropped *)
Definition user_tag (t : tag) : bool :=
  match t with TProc _ | TElem _ | TMsg _ | TTask _ => true | _ => false end.

(* ---- well-formedness ---- *)
Definition typed (pin : bool) (h : heap) : Prop :=
  forall o ob e, nth_error h o = Some ob -> In e (strong ob) ->
    exists tb, nth_error h (et e) = Some tb /\ edge_ok pin (otag ob) (ek e) (otag tb) = true.

(* every gate that still has a connection is listed in the [gates] of a module context *)
Definition owned (h : heap) : Prop :=
  forall g ob e, nth_error h g = Some ob -> In e (strong ob) -> is_conn (ek e) = true ->
    exists c oc, nth_error h c = Some oc /\ is_ctx (otag oc) = true /\ In g (map et (strong oc)).

(* boolean versions, evaluated by the model on every graph it builds *)
Definition typedb (pin : bool) (h : heap) : bool :=
  forallb (fun ob => forallb (fun e =>
     match nth_error h (et e) with
     | Some tb => edge_ok pin (otag ob) (ek e) (otag tb)
     | None => false
     end) (strong ob)) h.

Definition ctx_targets (h : heap) : list nat :=
  flat_map (fun oc => if is_ctx (otag oc) then map et (strong oc) else []) h.

Fixpoint ownedb_from (own : list nat) (h : heap) (g : nat) : bool :=
  match h with
  | [] => true
  | ob :: r => (negb (existsb (fun e => is_conn (ek e)) (strong ob)) || existsb (Nat.eqb g) own)
               && ownedb_from own r (S g)
  end.
Definition ownedb (h : heap) : bool := ownedb_from (ctx_targets h) h 0.

(* ================================================================== *)
(* Builder / runtime operations as graph updates.  Every function here
   corresponds to one place in /repo that creates, clones, moves or drops a
   reference; the simulation that calls them is Own/Model.v. *)

Definition with_hp (s : st) (h : heap) : st := {| hp := h; freed := freed s; bad := bad s |}.
Definition st_alloc (s : st) (t : tag) : st * nat := (with_hp s (fst (alloc (hp s) t)), snd (alloc (hp s) t)).
Definition st_edge (s : st) (src : nat) (k : ekind) (t : nat) : st := with_hp s (add_edge (hp s) src k t).
Definition st_root (s : st) (t : nat) : st := with_hp s (add_root (hp s) t).
Definition st_move_in (s : st) (src : nat) (k : ekind) (t : nat) : st := with_hp s (move_in (hp s) src k t).
Definition st_move_out (s : st) (src : nat) (k : ekind -> bool) : st * option nat :=
  (with_hp s (fst (move_out (hp s) src k)), snd (move_out (hp s) src k)).
Definition st_weak (s : st) (src : nat) (l : N) (t : nat) : st := with_hp s (add_weak (hp s) src l t).

(* take the handle to [t] out of [src] (VecDeque::pop_front / Vec::remove / Option::take) *)
Fixpoint take_to (t : nat) (es : list edge) : option (list edge) :=
  match es with
  | [] => None
  | e :: r => if Nat.eqb (et e) t then Some r
              else match take_to t r with Some r' => Some (e :: r') | None => None end
  end.
Definition st_take_to (s : st) (src t : nat) : st * bool :=
  match nth_error (hp s) src with
  | Some so => match take_to t (strong so) with
               | Some r => (with_hp s (upd (hp s) src (set_strong so r)), true)
               | None => (s, false)
               end
  | None => (s, false)
  end.
(* ... and drop it *)
Definition st_drop_edge (s : st) (src t : nat) : st :=
  let r := st_take_to s src t in if snd r then release (fst r) t else fst r.

(* Sim::new (runtime/mod.rs:165-177): Globals::default() allocates the module
   tree; Sim keeps one handle to each *)
Definition new_sim (s : st) : st * nat * nat :=
  let '(s1, tree) := st_alloc s TTree in
  let '(s2, glob) := st_alloc s1 TGlobals in
  let s3 := st_edge s2 glob (KField 0) tree in     (* Globals.modules *)
  let s4 := st_root s3 tree in                     (* Sim.modules = globals.modules.clone() *)
  let s5 := st_root s4 glob in                     (* Sim.globals *)
  (s5, tree, glob).

(* SimBuilder::raw (runtime/mod.rs): ModuleContext::standalone / child_of
   (ctx/mod.rs:81-145), ModuleRef::new (refs.rs:60-75), ModuleTree::add.
   Returns ctx, proc, queue.  [elems]: payloads of the processing elements. *)
Definition new_module (s : st) (tree : nat) (parent : option (nat * nat)) (depth : nat) (state : N) (elems : list N)
  : st * nat * nat * nat :=
  let '(s1, ctx) := st_alloc s (TCtx depth) in
  let '(s2, q) := st_alloc s1 TQueue in
  let s3 := st_edge s2 ctx (KField 2) q in                     (* AsyncCoreExt::new: driver: Some(Driver::new()) *)
  let '(s4, proc) := st_alloc s3 (TProc state) in
  let s5 := fold_left (fun sa e => let '(sb, el) := st_alloc sa (TElem e) in st_edge sb proc (KField 0) el) elems s4 in
  let s6 := st_weak (st_weak s5 ctx 0 ctx) ctx 1 proc in       (* ctx.me *)
  let s7 := match parent with
            | Some (pc, pp) =>
                let sa := st_weak (st_weak s6 ctx 2 pc) ctx 3 pp in               (* ctx.parent *)
                st_edge (st_edge sa pc (KField 3) ctx) pc (KField 4) proc         (* parent.children.insert(name, this.clone()) *)
            | None => s6
            end in
  let s8 := st_edge (st_edge s7 tree (KField 0) ctx) tree (KField 1) proc in      (* mods.add(ctx.clone()) *)
  (s8, ctx, proc, q).

(* ModuleRef::create_raw_gate (refs.rs:278-282): Gate::new + gates.push(gate.clone()) *)
Definition new_gate (s : st) (ctx proc : nat) : st * nat :=
  let '(s1, g) := st_alloc s TGate in
  let s2 := st_weak (st_weak s1 g 0 ctx) g 1 proc in           (* Gate.owner *)
  (st_edge s2 ctx (KField 0) g, g).

Definition conn_count (h : heap) (g : nat) : N :=
  N.of_nat (length (filter (fun e => kconn (ek e)) (edges_of h g))).
Definition connected_to (h : heap) (g t : nat) : bool :=
  existsb (fun e => kconn (ek e) && Nat.eqb (et e) t) (edges_of h g).

(* Gate::connect (gate.rs:262-297).  Returns the two channel objects if a channel was given:
   the duplicate stored at [a] (direction a -> b) and the original stored at [b]. *)
Definition connect (s : st) (a b : nat) (chan : bool) : st * option (nat * nat) :=
  if Nat.eqb a b then (s, None)                                   (* assert: panics before anything changes *)
  else if connected_to (hp s) a b then (s, None)                  (* already connected: return *)
  else
    let pa := conn_count (hp s) a in
    let pb := conn_count (hp s) b in
    if (2 <=? pa)%N || (2 <=? pb)%N then (s, None)                (* assert: panics before anything changes *)
    else
      let s1 := st_edge s a (KConn pa pb) b in                    (* conns.put(Connection { endpoint: other.clone(), endpoint_id: other_conns_pos, .. *)
      let '(s2, chs) :=
        if chan then
          let '(sa, c1) := st_alloc s1 TChannel in                (* ch1 = Arc::new(c.dup()) *)
          let sb := st_edge sa a (KConnCh pa) c1 in
          let '(sc, c2) := st_alloc sb TChannel in                (* ch2 = channel *)
          (sc, Some (c1, c2))
        else (s1, None) in
      let s3 := st_edge s2 b (KConn pb pa) a in                   (* other_conns.put(Connection { endpoint: self.clone(), endpoint_id: conns_pos, .. *)
      let s4 := match chs with Some (_, c2) => st_edge s3 b (KConnCh pb) c2 | None => s3 end in
      (s4, chs).

(* connections[idx] of gate g: peer, slot used at the peer, channel *)
Definition conn_at (h : heap) (g : nat) (idx : N) : option (nat * N * option nat) :=
  match find (fun e => match ek e with KConn s _ => N.eqb s idx | _ => false end) (edges_of h g) with
  | Some e =>
      let eid := match ek e with KConn _ i => i | _ => 0%N end in
      let ch := match find (fun e => match ek e with KConnCh s => N.eqb s idx | _ => false end) (edges_of h g) with
                | Some c => Some (et c) | None => None end in
      Some (et e, eid, ch)
  | None => None
  end.

(* a new message held by a local variable *)
Definition new_msg (s : st) (pay : N) : st * nat :=
  let '(s1, m) := st_alloc s (TMsg pay) in (st_root s1 m, m).

(* msg.header.last_gate = Some(gate.clone()) (events.rs:66,76): the old value is dropped *)
Definition set_last_gate (s : st) (m g : nat) : st :=
  let '(s1, old) := st_move_out s m (fun k => kf k 0) in
  let s2 := st_edge s1 m (KField 0) g in
  match old with Some o => release s2 o | None => s2 end.

(* a new event value held by whoever builds it *)
Definition new_event (s : st) (kind : N) : st * nat :=
  let '(s1, e) := st_alloc s (TEvent kind) in (st_root s1 e, e).

(* HandleMessageEvent { module: <ModuleRef clone>, message } (events.rs:121-127, runtime/ctx.rs:100-106) *)
Definition ev_handle (s : st) (ctx proc msg : nat) : st * nat :=
  let '(s1, e) := new_event s 1 in
  (st_move_in (st_edge (st_edge s1 e (KField 3) ctx) e (KField 4) proc) e (KField 2) msg, e).
(* ModuleRestartEvent / AsyncWakeupEvent { module: module.clone() } *)
Definition ev_module (s : st) (kind : N) (ctx proc : nat) : st * nat :=
  let '(s1, e) := new_event s kind in
  (st_edge (st_edge s1 e (KField 3) ctx) e (KField 4) proc, e).
(* ChannelUnbusyNotif { channel: self.clone() } (channel.rs:227-232) *)
Definition ev_unbusy (s : st) (ch : nat) : st * nat :=
  let '(s1, e) := new_event s 2 in (st_edge s1 e (KField 1) ch, e).
(* MessageExitingConnection { con: Connection { endpoint, channel }, msg } (channel.rs:237-247, runtime/mod.rs:600-603) *)
Definition ev_exit (s : st) (gate : nat) (ch : option nat) (msg : nat) : st * nat :=
  let '(s1, e) := new_event s 0 in
  let s2 := st_edge s1 e (KField 0) gate in
  let s3 := match ch with Some c => st_edge s2 e (KField 1) c | None => s2 end in
  (st_move_in s3 e (KField 2) msg, e).

(* Buffer::enqueue (channel.rs:41-49); [pin]: the connection keeps `channel: Some(self)` (before 6ce5d8e) *)
Definition enqueue (pin : bool) (s : st) (ch msg gate : nat) : st :=
  let s1 := st_move_in s ch (KField 0) msg in
  let s2 := st_edge s1 ch (KField 1) gate in
  if pin then st_edge s2 ch (KField 2) ch else s2.
(* Buffer::dequeue (channel.rs:51-55): the message moves out, the connection's handles are dropped
   when `send_message` has rebuilt the connection *)
Definition dequeue (pin : bool) (s : st) (ch : nat) : st * option nat :=
  let '(s1, m) := st_move_out s ch (fun k => kf k 0) in
  let '(s2, g) := st_move_out s1 ch (fun k => kf k 1) in
  let s3 := match g with Some g => release s2 g | None => s2 end in
  let s4 := if pin then match st_move_out s3 ch (fun k => kf k 2) with
                        | (sa, Some c) => release sa c
                        | (sa, None) => sa end
            else s3 in
  (s4, m).

(* tokio::spawn: the runtime owns the future *)
Definition new_task (s : st) (rt : nat) (cap : N) : st * nat :=
  let '(s1, t) := st_alloc s (TTask cap) in (st_edge s1 rt (KField 0) t, t).

(* TimerQueue::add, Err(insert_at) branch (driver.rs:116-127): TimerSlot::new(time, <handle to self>),
   pending.insert(.., Arc::new(slot)) *)
Definition new_slot (pin : bool) (s : st) (q : nat) : st * nat :=
  let '(s1, sl) := st_alloc s TSlot in
  let s2 := st_edge s1 q (KField 0) sl in
  (* the slot's way back to its queue: Arc::downgrade(self) (driver.rs:117); self.clone() before 012bc88 *)
  (if pin then st_edge s2 sl (KField 0) q else st_weak s2 sl 0 q, sl).

(* a fresh tokio runtime for a module: Rt::current (rt.rs:79-93) / AsyncCoreExt::reset (rt.rs:67-77) *)
Definition new_runtime (s : st) (ctx : nat) : st * nat :=
  let '(s1, r) := st_alloc s TRuntime in (st_edge s1 ctx (KField 1) r, r).
