(* C20 -- the ownership schema of a des network simulation, read off the struct
   definitions in /repo/des/src (one line per reference-carrying field), and the
   well-formedness predicate [wf] for which Own/Rank.v proves that releasing the
   roots frees everything.

   STRONG EDGES (source tag, label, target tag)
   Globals  KField 0  Tree      net/runtime/mod.rs:701  Globals.modules: Arc<Mutex<ModuleTree>> (same Arc as Sim.modules, :83)
   Tree     KField 0  Ctx       net/runtime/mod.rs:725  ModuleTree.modules: Vec<ModuleRef>; ModuleRef.ctx: Arc<ModuleContext> (module/refs.rs:47)
   Tree     KField 1  Proc      net/runtime/mod.rs:725  ... ModuleRef.processing: Arc<RefCell<Processor>> (module/refs.rs:48)
   Ctx      KField 0  Gate      net/module/ctx/mod.rs:55  gates: RwLock<Vec<GateRef>>
   Ctx      KField 1  Runtime   net/module/ctx/rt.rs:12,22  async_ext.rt = Rt::Runtime((Arc<Runtime>, Rc<LocalSet>))
   Ctx      KField 2  Queue     net/module/ctx/rt.rs:13 + time/driver.rs:14  async_ext.driver: Option<Driver>, Driver.queue: Arc<TimerQueue>
   Ctx      KField 3  Ctx       net/module/ctx/mod.rs:65  children: FxHashMap<String, ModuleRef> (.ctx); the child's path is one longer (:115,:132)
   Ctx      KField 4  Proc      net/module/ctx/mod.rs:65  children (.processing)
   Proc     KField 0  Elem      net/processing.rs:197,258  Processor.stack.items: Vec<Box<dyn ProcessingElement>>
                                (Processor.handler: Box<dyn Module>, :198, is the payload of the Proc tag)
   Gate     KConn s i Gate      net/gate.rs:46,53  connections[s] = Some(Connection { endpoint: GateRef, endpoint_id: i, .. })
   Gate     KConnCh s Channel   net/gate.rs:46,57  connections[s] = Some(Connection { channel: Some(ChannelRef), .. })
   Channel  KField 0  Msg       net/channel.rs:30,36  inner.buffer.packets: VecDeque<(Message, Connection)> (.0)
   Channel  KField 1  Gate      net/channel.rs:36 + net/gate.rs:53  buffered Connection.endpoint
   Channel  KField 2  Channel   net/channel.rs:36 + net/gate.rs:57  buffered Connection.channel -- ONLY BEFORE fix 6ce5d8e
                                (channel.rs:41-45 now stores None); allowed by [edge_ok true] only
   Msg      KField 0  Gate      net/message/header.rs:38  header.last_gate: Option<GateRef>
   Event 0  KField 0  Gate      net/runtime/events.rs:53  MessageExitingConnection.con.endpoint
   Event 0  KField 1  Channel   net/runtime/events.rs:53  MessageExitingConnection.con.channel
   Event 0  KField 2  Msg       net/runtime/events.rs:54  MessageExitingConnection.msg
   Event 1  KField 3  Ctx       net/runtime/events.rs:142 HandleMessageEvent.module (.ctx)
   Event 1  KField 4  Proc      net/runtime/events.rs:142 HandleMessageEvent.module (.processing)
   Event 1  KField 2  Msg       net/runtime/events.rs:143 HandleMessageEvent.message
   Event 2  KField 1  Channel   net/runtime/events.rs:221 ChannelUnbusyNotif.channel
   Event 3  KField 3/4 Ctx/Proc net/runtime/events.rs:171 ModuleRestartEvent.module
   Event 4  KField 3/4 Ctx/Proc net/runtime/events.rs:196 AsyncWakeupEvent.module
   Runtime  KField 0  Task      tokio: the runtime / LocalSet owns every spawned future (modelled, not read off des)
   Task     --        (none)    net/runtime/blocks.rs:345-360,399-415  the future AsyncFn spawns (new/failable/io) owns the
                                receiver and what the user's future captured; it calls current() only inside the error
                                path (:355) and keeps NO Arc<ModuleContext>: a Task -> Ctx edge would close the cycle
                                Ctx -> Runtime -> Task -> Ctx (nothing shuts the module's runtime down on drop);
                                [edge_ok] rejects every edge out of a Task, in both variants
   Queue    KField 0  Slot      time/driver.rs:20  TimerQueue.pending: VecDeque<Arc<TimerSlot>>
   Slot     KField 0  Queue     time/driver.rs:30  TimerSlot.queue -- ONLY BEFORE fix 012bc88, when it was an
                                Arc<TimerQueue> and closed a strong cycle with the line above (now a Weak, see
                                below); allowed by [edge_ok true] only

   WEAK EDGES (never counted): TimerSlot.queue: Weak<TimerQueue> (driver.rs:30,117), Ctx.me, Ctx.parent (ctx/mod.rs:52,64; refs.rs:18-19), Gate.owner (gate.rs:18),
   TimerSlotEntryHandle.handle: Weak<TimerSlot> held by a sleeping task (driver.rs:40), the Waker in
   TimerSlotEntry (driver.rs:32; tokio drops the future on runtime shutdown whatever wakers exist),
   BufferContext.globals: Weak<Globals> (runtime/ctx.rs:20).

   ROOT HANDLES (outside the heap): Sim.modules and Sim.globals (mod.rs:83-84), the static MOD_CTX
   (ctx/mod.rs:22, cleared by Sim::drop mod.rs:221-229 and SimStaticsGuard::drop guard.rs:34-39),
   BUF_CTX.events (runtime/ctx.rs:18, cleared by the guard), Runtime.future_event_set and
   Profiler.remaining (runtime/mod.rs:125,130), GateRef/ModuleRef values held by the caller. *)
From Coq Require Import List NArith Arith Bool Lia.
From DesVerif Require Import Own.Heap.
Import ListNotations.

Definition kf (k : ekind) (n : N) : bool := match k with KField f => N.eqb f n | _ => false end.
Definition kconn (k : ekind) : bool := match k with KConn _ _ => true | _ => false end.
Definition kconnch (k : ekind) : bool := match k with KConnCh _ => true | _ => false end.

(* [pin] = true: the schema of the pinned tree (before the fixes 6ce5d8e and 012bc88) *)
Definition edge_ok (pin : bool) (a : tag) (k : ekind) (b : tag) : bool :=
  match a, b with
  | TGlobals, TTree => kf k 0
  | TTree, TCtx _ => kf k 0
  | TTree, TProc _ => kf k 1
  | TCtx _, TGate => kf k 0
  | TCtx _, TRuntime => kf k 1
  | TCtx _, TQueue => kf k 2
  | TCtx d, TCtx d' => kf k 3 && (d <? d')
  | TCtx _, TProc _ => kf k 4
  | TProc _, TElem _ => kf k 0
  | TGate, TGate => kconn k
  | TGate, TChannel => kconnch k
  | TChannel, TMsg _ => kf k 0
  | TChannel, TGate => kf k 1
  | TChannel, TChannel => pin && kf k 2
  | TMsg _, TGate => kf k 0
  | TEvent e, TGate => kf k 0 && N.eqb e 0
  | TEvent e, TChannel => kf k 1 && (N.eqb e 0 || N.eqb e 2)
  | TEvent e, TMsg _ => kf k 2 && (N.eqb e 0 || N.eqb e 1)
  | TEvent e, TCtx _ => kf k 3 && (N.eqb e 1 || N.eqb e 3 || N.eqb e 4)
  | TEvent e, TProc _ => kf k 4 && (N.eqb e 1 || N.eqb e 3 || N.eqb e 4)
  | TRuntime, TTask _ => kf k 0
  | TQueue, TSlot => kf k 0
  | TSlot, TQueue => pin && kf k 0
  | _, _ => false
  end.

(* the rank on object types; module contexts are ranked among themselves by path length *)
Definition trank (t : tag) : nat :=
  match t with
  | TGlobals => 12 | TTree => 11 | TEvent _ => 10 | TCtx _ => 9 | TProc _ => 8 | TElem _ => 7
  | TRuntime => 6 | TTask _ => 5 | TChannel => 4 | TMsg _ => 3 | TGate => 2 | TQueue => 1 | TSlot => 0
  end.
Definition tdepth (t : tag) : nat := match t with TCtx d => d | _ => 0 end.

(* what a user can observe being dropped *)
Definition user_tag (t : tag) : bool :=
  match t with TProc _ | TElem _ | TMsg _ | TTask _ => true | _ => false end.

(* ---- well-formedness ---- *)
Definition typed (pin : bool) (h : heap) : Prop :=
  forall o ob e, nth_error h o = Some ob -> In e (strong ob) ->
    exists tb, nth_error h (et e) = Some tb /\ edge_ok pin (otag ob) (ek e) (otag tb) = true.

(* every gate that still has a connection is listed in the [gates] of a module context *)
Definition owned (h : heap) : Prop :=
  forall g ob e, nth_error h g = Some ob -> In e (strong ob) -> is_conn (ek e) = true ->
    exists c oc, nth_error h c = Some oc /\ is_ctx (otag oc) = true /\ In g (map et (strong oc)).

(* boolean versions, evaluated by the model on every graph it builds *)
Definition typedb (pin : bool) (h : heap) : bool :=
  forallb (fun ob => forallb (fun e =>
     match nth_error h (et e) with
     | Some tb => edge_ok pin (otag ob) (ek e) (otag tb)
     | None => false
     end) (strong ob)) h.

Definition ctx_targets (h : heap) : list nat :=
  flat_map (fun oc => if is_ctx (otag oc) then map et (strong oc) else []) h.

Fixpoint ownedb_from (own : list nat) (h : heap) (g : nat) : bool :=
  match h with
  | [] => true
  | ob :: r => (negb (existsb (fun e => is_conn (ek e)) (strong ob)) || existsb (Nat.eqb g) own)
               && ownedb_from own r (S g)
  end.
Definition ownedb (h : heap) : bool := ownedb_from (ctx_targets h) h 0.
