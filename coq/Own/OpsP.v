(* C20 -- every builder / runtime operation of Own/Ops.v keeps the state well formed:
   one preservation lemma per operation, each a composition of the primitive lemmas of
   Own/SafeP.v. *)
From Coq Require Import List NArith Arith Bool.
From DesVerif Require Import Own.Heap Own.Shape Own.Rank Own.Safe Own.SafeP Own.Ops.
Import ListNotations.

Lemma fold_G {A} pin (f : rs -> A -> rs) (l : list A) :
  (forall r x, G pin r -> G pin (f r x)) -> forall r, G pin r -> G pin (fold_left f l r).
Proof. intros H. induction l as [|x l IH]; intros r Hr; cbn [fold_left]; auto. Qed.

Create HintDb gdb.
#[export] Hint Resolve p_alloc_good p_clone_good p_move_in_good p_edge_good p_detach_good p_release_good p_weak_good : gdb.

(* take apart the let/match/if structure of an operation; every state that appears is shown
   well formed from the hints *)
Ltac gs pin :=
  repeat match goal with
         | |- G _ (fst (_, _)) => cbn [fst]
         | |- G _ (fst (fst (_, _))) => cbn [fst]
         | |- G _ (fst (fst (fst (_, _)))) => cbn [fst]
         | |- context [if ?c then _ else _] => destruct c
         | |- context [match ?x with Some _ => _ | None => _ end] =>
             lazymatch x with
             | context [match _ with pair _ _ => _ end] => fail
             | _ => destruct x
             end
         | |- context [match ?x with pair _ _ => _ end] =>
             lazymatch x with
             | context [match _ with pair _ _ => _ end] => fail
             | _ => idtac
             end;
             first [ let H := fresh "HG" in assert (H : G pin (fst x)) by (auto 30 with gdb);
                     destruct x as [? ?]; cbn [fst snd] in *
                   | let H := fresh "HG" in assert (H : G pin (fst (fst x))) by (auto 30 with gdb);
                     destruct x as [[? ?] ?]; cbn [fst snd] in *
                   | let H := fresh "HG" in assert (H : G pin (fst (fst (fst x)))) by (auto 30 with gdb);
                     destruct x as [[[? ?] ?] ?]; cbn [fst snd] in *
                   | destruct x as [? ?] ]
         end;
  auto 30 with gdb.

Section Ops.
  Variable pin : bool.

  Lemma drop_edge_good r src t : G pin r -> G pin (drop_edge r src t).
  Proof. intros H. unfold drop_edge. gs pin. Qed.
  Hint Resolve drop_edge_good : gdb.

  Lemma new_sim_good r : G pin r -> G pin (fst (fst (new_sim r))).
  Proof. intros H. unfold new_sim. gs pin. Qed.

  Lemma new_module_good r tree parent depth state elems :
    G pin r -> G pin (fst (fst (fst (new_module r tree parent depth state elems)))).
  Proof.
    intros H. unfold new_module.
    destruct (p_alloc r (TCtx depth)) as [r1 ctx] eqn:E1.
    assert (H1 : G pin r1) by (pose proof (p_alloc_good pin r (TCtx depth) H) as X; rewrite E1 in X; exact X).
    destruct (p_alloc r1 TQueue) as [r2 q] eqn:E2.
    assert (H2 : G pin r2) by (pose proof (p_alloc_good pin r1 TQueue H1) as X; rewrite E2 in X; exact X).
    destruct (p_alloc (p_move_in r2 ctx (KField 2) q) (TProc state)) as [r4 proc] eqn:E4.
    assert (H4 : G pin r4).
    { pose proof (p_alloc_good pin (p_move_in r2 ctx (KField 2) q) (TProc state)) as X. rewrite E4 in X. apply X. auto with gdb. }
    assert (H5 : G pin (fold_left (fun ra e => let '(rb, el) := p_alloc ra (TElem e) in p_move_in rb proc (KField 0) el) elems r4)).
    { apply fold_G; [|assumption]. intros ra e Hra. gs pin. }
    cbn [fst]. destruct parent as [[pc pp]|]; auto 30 with gdb.
  Qed.

  Lemma new_gate_good r ctx proc : G pin r -> G pin (fst (new_gate r ctx proc)).
  Proof. intros H. unfold new_gate. gs pin. Qed.

  Lemma connect_good r a b chan : G pin r -> G pin (fst (connect r a b chan)).
  Proof.
    intros H. unfold connect. destruct (Nat.eqb a b); [assumption|]. destruct (connected_to (rhp r) a b); [assumption|].
    destruct (_ || _)%bool; [assumption|]. destruct chan; gs pin.
  Qed.

  Lemma new_msg_good r pay : G pin r -> G pin (fst (new_msg r pay)).
  Proof. intros H. unfold new_msg. gs pin. Qed.

  Lemma set_last_gate_good r m g : G pin r -> G pin (set_last_gate r m g).
  Proof. intros H. unfold set_last_gate. gs pin. Qed.

  Lemma new_event_good r k : G pin r -> G pin (fst (new_event r k)).
  Proof. intros H. unfold new_event. gs pin. Qed.
  Hint Resolve new_event_good : gdb.

  Lemma ev_handle_good r ctx proc msg : G pin r -> G pin (fst (ev_handle r ctx proc msg)).
  Proof. intros H. unfold ev_handle. gs pin. Qed.

  Lemma ev_module_good r k ctx proc : G pin r -> G pin (fst (ev_module r k ctx proc)).
  Proof. intros H. unfold ev_module. gs pin. Qed.

  Lemma ev_unbusy_good r ch : G pin r -> G pin (fst (ev_unbusy r ch)).
  Proof. intros H. unfold ev_unbusy. gs pin. Qed.

  Lemma ev_exit_good r gate ch msg : G pin r -> G pin (fst (ev_exit r gate ch msg)).
  Proof. intros H. unfold ev_exit. gs pin. Qed.

  Lemma enqueue_good r ch msg gate : G pin r -> G pin (enqueue r ch msg gate).
  Proof. intros H. unfold enqueue. gs pin. Qed.

  Lemma dequeue_good r ch : G pin r -> G pin (fst (dequeue r ch)).
  Proof. intros H. unfold dequeue. gs pin. Qed.

  Lemma new_task_good r rt cap : G pin r -> G pin (fst (new_task r rt cap)).
  Proof. intros H. unfold new_task. gs pin. Qed.

  Lemma new_slot_good r q : G pin r -> G pin (fst (new_slot r q)).
  Proof. intros H. unfold new_slot. gs pin. Qed.

  Lemma new_runtime_good r ctx : G pin r -> G pin (fst (new_runtime r ctx)).
  Proof. intros H. unfold new_runtime. gs pin. Qed.
End Ops.

#[export] Hint Resolve drop_edge_good new_sim_good new_module_good new_gate_good connect_good new_msg_good set_last_gate_good
  new_event_good ev_handle_good ev_module_good ev_unbusy_good ev_exit_good enqueue_good dequeue_good new_task_good
  new_slot_good new_runtime_good : gdb.
