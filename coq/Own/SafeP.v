(* C20 -- every primitive of Own/Safe.v keeps the state well formed. *)
From Coq Require Import List NArith Arith Bool Lia.
From DesVerif Require Import Own.Heap Own.Frame Own.Inv Own.Shape Own.Rank Own.Safe.
Import ListNotations.

Definition G (pin : bool) (r : rs) : Prop := r_pin r = pin /\ good pin (r_st r) (r_roots r).

(* ---- small facts ---- *)
Lemma cnt_remove_one x l : In x l -> forall o, cnt o (remove_one x l) + (if Nat.eqb o x then 1 else 0) = cnt o l.
Proof.
  induction l as [|y l IH]; intros Hin o; [destruct Hin|]. cbn [remove_one].
  destruct (Nat.eqb x y) eqn:E.
  - apply Nat.eqb_eq in E. subst y. destruct (Nat.eqb o x) eqn:E2.
    + apply Nat.eqb_eq in E2. subst o. rewrite cnt_cons_eq. lia.
    + apply Nat.eqb_neq in E2. rewrite cnt_cons_neq by congruence. lia.
  - apply Nat.eqb_neq in E. destruct Hin as [Hin|Hin]; [congruence|]. specialize (IH Hin o).
    destruct (Nat.eq_dec y o) as [->|Hn]; [rewrite !cnt_cons_eq|rewrite !cnt_cons_neq by assumption]; lia.
Qed.

Lemma holds_in r x : holds r x = true -> In x (r_roots r).
Proof.
  unfold holds. intros H. apply existsb_exists in H. destruct H as (y & Hy & E). apply Nat.eqb_eq in E. subst. assumption.
Qed.

Lemma cnt_single o x : cnt o [x] = if Nat.eqb o x then 1 else 0.
Proof.
  destruct (Nat.eqb o x) eqn:E.
  - apply Nat.eqb_eq in E. subst. apply cnt_cons_eq.
  - apply Nat.eqb_neq in E. rewrite cnt_cons_neq by congruence. reflexivity.
Qed.

Lemma cnt_cons o x l : cnt o (x :: l) = (if Nat.eqb o x then 1 else 0) + cnt o l.
Proof. change (x :: l) with ([x] ++ l). rewrite cnt_app, cnt_single. reflexivity. Qed.

Lemma cnt_tg_snoc o ob k x : cnt o (tg (set_strong ob (strong ob ++ [{| ek := k; et := x |}]))) = cnt o (tg ob) + (if Nat.eqb o x then 1 else 0).
Proof. unfold tg. cbn [set_strong strong]. rewrite map_app, cnt_app. cbn [map et]. rewrite cnt_single. reflexivity. Qed.

Lemma take_edge_split p es e rest : take_edge p es = Some (e, rest) ->
  exists l1 l2, es = l1 ++ e :: l2 /\ rest = l1 ++ l2.
Proof.
  revert e rest; induction es as [|y es IH]; intros e rest H; cbn [take_edge] in H; [discriminate|].
  destruct (p y).
  - injection H as <- <-. exists [], es. auto.
  - destruct (take_edge p es) as [[x r']|]; [|discriminate]. injection H as <- <-.
    destruct (IH _ _ eq_refl) as (l1 & l2 & -> & ->). exists (y :: l1), l2. auto.
Qed.

(* ---- a generic "one object is rewritten" step ---- *)
Lemma nth_upd_case {A} (l : list A) i x o : i < length l ->
  nth_error (upd l i x) o = if Nat.eqb o i then Some x else nth_error l o.
Proof.
  intros Hi. destruct (Nat.eqb o i) eqn:E.
  - apply Nat.eqb_eq in E. subst. apply nth_upd_eq. assumption.
  - apply Nat.eqb_neq in E. apply nth_upd_neq. congruence.
Qed.

Lemma inv_upd s R R' i a b :
  inv s R -> nth_error (hp s) i = Some a -> live a = true -> live b = true -> 1 <= rc b ->
  (forall o, (if Nat.eqb o i then rc b else rc_of (hp s) o) + cnt o (tg a) + cnt o R
             = rc_of (hp s) o + cnt o (tg b) + cnt o R') ->
  (forall o, In o (tg b) -> o < length (hp s)) -> (forall o, In o R' -> o < length (hp s)) ->
  inv {| hp := upd (hp s) i b; freed := freed s; bad := bad s |} R'.
Proof.
  intros [Icnt Irng Idead Ilive Ind Ifr Ibad] E La Lb Rb Bal Tb Rr.
  assert (Hi : i < length (hp s)) by (eapply nth_some_lt; eassumption).
  constructor; cbn [hp freed bad]; try assumption.
  - intros o Ho. rewrite upd_length in Ho. pose proof (cnt_targets_upd o _ _ _ b E) as H1. specialize (Bal o).
    specialize (Icnt o Ho). unfold rc_of at 1. rewrite nth_upd_case by assumption.
    destruct (Nat.eqb o i) eqn:Eo; [|fold (rc_of (hp s) o)]; lia.
  - intros o Ho. rewrite upd_length. destruct Ho as [Ho|Ho]; [|auto].
    destruct (in_dec Nat.eq_dec o (tg b)) as [Hb|Hb]; [auto|]. apply Irng. left.
    apply cnt_pos_in. apply cnt_pos_in in Ho. pose proof (cnt_targets_upd o _ _ _ b E) as H1.
    assert (cnt o (tg b) = 0) by (destruct (cnt o (tg b)) eqn:Z; [reflexivity|exfalso; apply Hb; apply cnt_pos_in; lia]). lia.
  - intros o ob Eo Lo. rewrite nth_upd_case in Eo by assumption. destruct (Nat.eqb o i); [injection Eo as <-; congruence|eauto].
  - intros o ob Eo Lo. rewrite nth_upd_case in Eo by assumption. destruct (Nat.eqb o i); [injection Eo as <-; assumption|eauto].
  - intros o. rewrite Ifr. unfold dead_in. rewrite nth_upd_case by assumption. destruct (Nat.eqb o i) eqn:Eo; [|reflexivity].
    apply Nat.eqb_eq in Eo. subst o. split; intros (x & Ex & Lx); exfalso; congruence.
Qed.

Lemma typed_upd2 pin h i a b :
  nth_error h i = Some a -> otag b = otag a -> typed pin h ->
  (forall e, In e (strong b) -> In e (strong a) \/
     exists tb, nth_error h (et e) = Some tb /\ edge_ok pin (otag a) (ek e) (otag tb) = true) ->
  typed pin (upd h i b).
Proof.
  intros Ea Tg T Hb x ob e Ex Hin. assert (Hi : i < length h) by (eapply nth_some_lt; eassumption).
  assert (Hsrc : exists tb, nth_error h (et e) = Some tb /\ edge_ok pin (otag ob) (ek e) (otag tb) = true).
  { rewrite nth_upd_case in Ex by assumption. destruct (Nat.eqb x i) eqn:Exi.
    - injection Ex as <-. rewrite Tg. destruct (Hb e Hin) as [H|H]; [eapply T; eassumption|assumption].
    - eapply T; eassumption. }
  destruct Hsrc as (tb & Et & Ok). rewrite nth_upd_case by assumption. destruct (Nat.eqb (et e) i) eqn:Ee.
  - apply Nat.eqb_eq in Ee. exists b. split; [reflexivity|]. rewrite Ee in Et. assert (tb = a) by congruence. subst tb.
    rewrite Tg. assumption.
  - exists tb. auto.
Qed.

Lemma owned_upd pin h i a b :
  nth_error h i = Some a -> otag b = otag a -> typed pin h -> owned h ->
  (forall e, In e (strong b) -> is_conn (ek e) = true -> In e (strong a) \/ listed h i = true) ->
  (is_ctx (otag a) = true -> conn_free b /\
     forall g, In g (map et (strong a)) -> In g (map et (strong b)) \/ has_conn h g = false) ->
  owned (upd h i b).
Proof.
  intros Ea Tg T O Hconn Hctx g gb e Eg Hin C. assert (Hi : i < length h) by (eapply nth_some_lt; eassumption).
  (* a listing context of g in h *)
  assert (Hl : exists c oc, nth_error h c = Some oc /\ is_ctx (otag oc) = true /\ In g (map et (strong oc))).
  { rewrite nth_upd_case in Eg by assumption. destruct (Nat.eqb g i) eqn:Egi.
    - apply Nat.eqb_eq in Egi. subst g. injection Eg as <-. destruct (Hconn e Hin C) as [H|H]; [eapply O; eassumption|].
      unfold listed in H. apply existsb_exists in H. destruct H as (y & Hy & Ey). apply Nat.eqb_eq in Ey. subst y.
      unfold ctx_targets in Hy. apply in_flat_map in Hy. destruct Hy as (oc & Hoc & Hy).
      destruct (is_ctx (otag oc)) eqn:Ic; [|destruct Hy]. apply In_nth_error in Hoc. destruct Hoc as (c & Ec). eauto 10.
    - eapply O; eassumption. }
  destruct Hl as (c & oc & Ec & Ic & Hgc).
  destruct (Nat.eq_dec c i) as [->|Hn].
  - assert (oc = a) by congruence. subst oc. destruct (Hctx Ic) as [Fb Hkeep].
    exists i, b. rewrite nth_upd_eq by assumption. split; [reflexivity|]. split; [rewrite Tg; assumption|].
    destruct (Hkeep g Hgc) as [H|H]; [assumption|exfalso].
    (* g has a connection edge in h *)
    rewrite nth_upd_case in Eg by assumption. destruct (Nat.eqb g i) eqn:Egi.
    + injection Eg as <-. specialize (Fb e Hin). congruence.
    + unfold has_conn, edges_of in H. rewrite Eg in H.
      assert (existsb (fun e0 => is_conn (ek e0)) (strong gb) = true); [|congruence].
      apply existsb_exists. eauto.
  - exists c, oc. rewrite nth_upd_neq by congruence. auto.
Qed.

(* a module context has no connection edges in a typed heap *)
Lemma ctx_conn_free pin h c oc : typed pin h -> nth_error h c = Some oc -> is_ctx (otag oc) = true -> conn_free oc.
Proof.
  intros T Ec Ic e Hin. destruct (is_conn (ek e)) eqn:C; [|reflexivity].
  destruct (T _ _ _ Ec Hin) as (tb & _ & Ok). pose proof (edge_ok_conn _ _ _ _ Ok C) as H. rewrite H in Ic. discriminate.
Qed.

(* ---- the primitives ---- *)
Lemma nth_app_old (h : heap) n o : o < length h -> nth_error (h ++ [n]) o = nth_error h o.
Proof. intros H. apply nth_error_app1. assumption. Qed.

Lemma targets_snoc_empty h n : strong n = [] -> targets (h ++ [n]) = targets h.
Proof. intros H. unfold targets. rewrite flat_map_app. cbn [flat_map]. rewrite H. cbn [map app]. rewrite !app_nil_r. reflexivity. Qed.

Theorem p_alloc_good pin r t : G pin r -> G pin (fst (p_alloc r t)).
Proof.
  unfold G, p_alloc, rset, rhp. cbn [fst r_st r_roots r_pin]. intros [Hp [I T O]]. split; [assumption|].
  destruct I as [Icnt Irng Idead Ilive Ind Ifr Ibad].
  remember (hp (r_st r)) as h eqn:Hh.
  set (n := {| otag := t; rc := 1; live := true; strong := []; weak := [] |}).
  assert (Hrng : forall o, In o (targets h) \/ In o (r_roots r) -> o < length h) by exact Irng.
  assert (Hnew0 : cnt (length h) (targets h) = 0 /\ cnt (length h) (r_roots r) = 0).
  { split; (destruct (cnt (length h) _) eqn:Z; [reflexivity|exfalso]).
    - assert (H : In (length h) (targets h)) by (apply cnt_pos_in; lia). specialize (Hrng _ (or_introl H)). lia.
    - assert (H : In (length h) (r_roots r)) by (apply cnt_pos_in; lia). specialize (Hrng _ (or_intror H)). lia. }
  destruct Hnew0 as [Z1 Z2].
  split.
  - constructor; cbn [hp freed bad]; try assumption.
    + intros o Ho. rewrite app_length in Ho. cbn [length] in Ho. rewrite (targets_snoc_empty h n eq_refl), cnt_cons.
      destruct (Nat.eq_dec o (length h)) as [->|Hn].
      * unfold rc_of. rewrite nth_error_app2 by lia. rewrite Nat.sub_diag. cbn [nth_error n rc]. rewrite Nat.eqb_refl. lia.
      * unfold rc_of. rewrite nth_app_old by lia. fold (rc_of h o). rewrite Icnt by lia.
        assert (E : Nat.eqb o (length h) = false) by (apply Nat.eqb_neq; assumption). rewrite E. lia.
    + intros o Ho. rewrite app_length. cbn [length]. rewrite (targets_snoc_empty h n eq_refl) in Ho.
      destruct Ho as [Ho|[Ho|Ho]]; [specialize (Irng o (or_introl Ho))|subst o|specialize (Irng o (or_intror Ho))]; lia.
    + intros o ob Eo Lo. destruct (Nat.lt_ge_cases o (length h)) as [Hlt|Hge].
      * rewrite nth_app_old in Eo by assumption. eauto.
      * rewrite nth_error_app2 in Eo by assumption. destruct (o - length h) as [|k]; cbn [nth_error] in Eo; [injection Eo as <-; discriminate|destruct k; discriminate].
    + intros o ob Eo Lo. destruct (Nat.lt_ge_cases o (length h)) as [Hlt|Hge].
      * rewrite nth_app_old in Eo by assumption. eauto.
      * rewrite nth_error_app2 in Eo by assumption. destruct (o - length h) as [|k]; cbn [nth_error] in Eo; [injection Eo as <-; cbn; lia|destruct k; discriminate].
    + intros o. rewrite Ifr. unfold dead_in. destruct (Nat.lt_ge_cases o (length h)) as [Hlt|Hge].
      * rewrite nth_app_old by assumption. reflexivity.
      * split; intros (x & Ex & Lx); exfalso.
        -- apply nth_some_lt in Ex. lia.
        -- rewrite nth_error_app2 in Ex by assumption. destruct (o - length h) as [|k]; cbn [nth_error] in Ex; [injection Ex as <-; discriminate|destruct k; discriminate].
  - intros o ob e Eo Hin. cbn [hp] in *. destruct (Nat.lt_ge_cases o (length h)) as [Hlt|Hge].
    + rewrite nth_app_old in Eo by assumption. destruct (T _ _ _ Eo Hin) as (tb & Et & Ok).
      exists tb. rewrite nth_app_old by (eapply nth_some_lt; eassumption). auto.
    + rewrite nth_error_app2 in Eo by assumption. destruct (o - length h) as [|k]; cbn [nth_error] in Eo; [injection Eo as <-; destruct Hin|destruct k; discriminate].
  - intros g gb e Eg Hin C. cbn [hp] in *. destruct (Nat.lt_ge_cases g (length h)) as [Hlt|Hge].
    + rewrite nth_app_old in Eg by assumption. destruct (O _ _ _ Eg Hin C) as (c & oc & Ec & Ic & Hgc).
      exists c, oc. rewrite nth_app_old by (eapply nth_some_lt; eassumption). auto.
    + rewrite nth_error_app2 in Eg by assumption. destruct (g - length h) as [|k]; cbn [nth_error] in Eg; [injection Eg as <-; destruct Hin|destruct k; discriminate].
Qed.

Theorem p_clone_good pin r x : G pin r -> G pin (p_clone r x).
Proof.
  unfold G, p_clone, rhp. intros Gd. destruct (nth_error (hp (r_st r)) x) as [xo|] eqn:E; [|assumption].
  destruct (live xo) eqn:L; [|assumption]. destruct Gd as [Hp [I T O]]. unfold rset. cbn [r_st r_roots r_pin]. split; [assumption|].
  assert (Hx : x < length (hp (r_st r))) by (eapply nth_some_lt; eassumption).
  split.
  - apply (inv_upd _ (r_roots r) _ x xo); try assumption; try reflexivity.
    + cbn [set_rc rc]. lia.
    + intros o. rewrite tg_set_rc, cnt_cons. cbn [set_rc rc]. destruct (Nat.eqb o x) eqn:Eo; [|lia].
      apply Nat.eqb_eq in Eo. subst o. unfold rc_of. rewrite E. lia.
    + intros o Ho. rewrite tg_set_rc in Ho. apply (i_rng _ _ I). left. unfold targets. apply in_flat_map.
      exists xo. split; [eapply nth_error_In; eassumption|assumption].
    + intros o [<-|Ho]; [assumption|]. apply (i_rng _ _ I). auto.
  - cbn [hp]. apply (typed_upd2 pin _ x xo); auto.
  - cbn [hp]. apply (owned_upd pin _ x xo); auto.
    intros Ic. split; [exact (ctx_conn_free _ _ _ _ T E Ic)|auto].
Qed.

Lemma can_attach_spec pin h src k x : can_attach pin h src k x = true ->
  exists so xo, nth_error h src = Some so /\ nth_error h x = Some xo /\ live so = true /\
    edge_ok pin (otag so) k (otag xo) = true /\ (is_conn k = true -> listed h src = true).
Proof.
  unfold can_attach. destruct (nth_error h src) as [so|]; [|discriminate]. destruct (nth_error h x) as [xo|]; [|discriminate].
  intros H. apply andb_true_iff in H. destruct H as [H C]. apply andb_true_iff in H. destruct H as [L Ok].
  exists so, xo. repeat split; try assumption. intros Ck. rewrite Ck in C. cbn in C. assumption.
Qed.

Theorem p_move_in_good pin r src k x : G pin r -> G pin (p_move_in r src k x).
Proof.
  unfold G, p_move_in, rhp. intros Gd. destruct Gd as [Hp Gd]. rewrite Hp.
  destruct (holds r x && can_attach pin (hp (r_st r)) src k x) eqn:Ck; [|split; assumption].
  apply andb_true_iff in Ck. destruct Ck as [Hh Ca]. apply holds_in in Hh.
  destruct (can_attach_spec _ _ _ _ _ Ca) as (so & xo & Es & Ex & Ls & Ok & Hl). rewrite Es.
  destruct Gd as [I T O]. unfold rset. cbn [r_st r_roots r_pin]. split; [assumption|].
  set (b := set_strong so (strong so ++ [{| ek := k; et := x |}])).
  split.
  - apply (inv_upd _ (r_roots r) _ src so); try assumption; try reflexivity.
    + cbn [b set_strong rc]. apply (i_live _ _ I _ _ Es Ls).
    + intros o. unfold b. rewrite cnt_tg_snoc. cbn [set_strong rc]. pose proof (cnt_remove_one x _ Hh o) as H.
      assert (E : (if Nat.eqb o src then rc so else rc_of (hp (r_st r)) o) = rc_of (hp (r_st r)) o).
      { destruct (Nat.eqb o src) eqn:Eo; [|reflexivity]. apply Nat.eqb_eq in Eo. subst o. unfold rc_of. rewrite Es. reflexivity. }
      rewrite E. lia.
    + intros o Ho. unfold b, tg in Ho. cbn [set_strong strong] in Ho. rewrite map_app in Ho. apply in_app_or in Ho.
      destruct Ho as [Ho|[<-|[]]]; [|eapply nth_some_lt; eassumption].
      apply (i_rng _ _ I). left. unfold targets. apply in_flat_map. exists so. split; [eapply nth_error_In; eassumption|assumption].
    + intros o Ho. apply (i_rng _ _ I). right.
      apply cnt_pos_in. apply cnt_pos_in in Ho. pose proof (cnt_remove_one x _ Hh o). lia.
  - cbn [hp]. apply (typed_upd2 pin _ src so); auto. intros e Hin. cbn [b set_strong strong] in Hin.
    apply in_app_or in Hin. destruct Hin as [Hin|[<-|[]]]; [auto|]. right. cbn [ek et]. eauto.
  - cbn [hp]. apply (owned_upd pin _ src so); auto.
    + intros e Hin C. cbn [b set_strong strong] in Hin. apply in_app_or in Hin. destruct Hin as [Hin|[<-|[]]]; [auto|].
      right. apply Hl. assumption.
    + intros Ic. split.
      * intros e Hin. cbn [b set_strong strong] in Hin. apply in_app_or in Hin. destruct Hin as [Hin|[<-|[]]].
        -- exact (ctx_conn_free _ _ _ _ T Es Ic e Hin).
        -- cbn [ek]. destruct (is_conn k) eqn:C; [|reflexivity]. pose proof (edge_ok_conn _ _ _ _ Ok C) as H.
           rewrite H in Ic. discriminate.
      * intros g Hg. left. cbn [b set_strong strong]. rewrite map_app. apply in_or_app. auto.
Qed.

Theorem p_edge_good pin r src k x : G pin r -> G pin (p_edge r src k x).
Proof.
  unfold p_edge. intros Gd. destruct (can_attach (r_pin r) (rhp r) src k x); [|assumption].
  apply p_move_in_good. apply p_clone_good. assumption.
Qed.

Theorem p_detach_good pin r src p : G pin r -> G pin (fst (p_detach r src p)).
Proof.
  unfold G, p_detach, rhp. intros Gd. destruct (nth_error (hp (r_st r)) src) as [so|] eqn:Es; [|assumption].
  destruct (take_edge p (strong so)) as [[e rest]|] eqn:Et; [|assumption].
  destruct (is_ctx (otag so) && has_conn (hp (r_st r)) (et e)) eqn:Ck; [assumption|]. cbn [fst].
  destruct (take_edge_split _ _ _ _ Et) as (l1 & l2 & Hs & Hr).
  destruct Gd as [Hp [I T O]]. unfold rset. cbn [r_st r_roots r_pin]. split; [assumption|].
  assert (Ls : live so = true).
  { destruct (live so) eqn:L; [reflexivity|]. destruct (i_dead _ _ I _ _ Es L) as [_ H]. rewrite H in Hs. destruct l1; discriminate. }
  assert (Hsub : forall e', In e' rest -> In e' (strong so)).
  { intros e' H. rewrite Hs, Hr in *. apply in_app_or in H. apply in_or_app. destruct H; [left|right; right]; assumption. }
  assert (Htg : forall o, cnt o (tg so) = cnt o (tg (set_strong so rest)) + (if Nat.eqb o (et e) then 1 else 0)).
  { intros o. unfold tg. cbn [set_strong strong]. rewrite Hs, Hr, !map_app, !cnt_app. cbn [map]. rewrite cnt_cons. lia. }
  split.
  - apply (inv_upd _ (r_roots r) _ src so); try assumption; try reflexivity.
    + cbn [set_strong rc]. apply (i_live _ _ I _ _ Es Ls).
    + intros o. rewrite cnt_cons, (Htg o). cbn [set_strong rc].
      assert (E : (if Nat.eqb o src then rc so else rc_of (hp (r_st r)) o) = rc_of (hp (r_st r)) o).
      { destruct (Nat.eqb o src) eqn:Eo; [|reflexivity]. apply Nat.eqb_eq in Eo. subst o. unfold rc_of. rewrite Es. reflexivity. }
      rewrite E. lia.
    + intros o Ho. apply (i_rng _ _ I). left. unfold targets. apply in_flat_map. exists so. split; [eapply nth_error_In; eassumption|].
      unfold tg in *. cbn [set_strong strong] in Ho. apply in_map_iff in Ho. destruct Ho as (e' & <- & He'). apply in_map. auto.
    + intros o [<-|Ho]; apply (i_rng _ _ I); [left|right; assumption].
      unfold targets. apply in_flat_map. exists so. split; [eapply nth_error_In; eassumption|].
      apply in_map. rewrite Hs. apply in_or_app. right. left. reflexivity.
  - cbn [hp]. apply (typed_upd2 pin _ src so); auto.
  - cbn [hp]. apply (owned_upd pin _ src so); auto. intros Ic. split.
    + intros e' H. exact (ctx_conn_free _ _ _ _ T Es Ic e' (Hsub e' H)).
    + intros g Hg. cbn [set_strong strong]. rewrite Ic in Ck. cbn [andb] in Ck.
      rewrite Hs, map_app in Hg. apply in_app_or in Hg. rewrite Hr, map_app.
      destruct Hg as [Hg|[Hg|Hg]]; [left; apply in_or_app; auto|right; cbn [et] in Hg; rewrite <- Hg; assumption|left; apply in_or_app; auto].
Qed.

Theorem p_release_good pin r x : G pin r -> G pin (p_release r x).
Proof.
  unfold G, p_release. intros Gd. destruct (holds r x) eqn:Hh; [|assumption]. apply holds_in in Hh. cbn [r_st r_roots r_pin].
  destruct Gd as [Hp Gd]. split; [assumption|]. apply good_release_frame. eapply good_cnt_ext; [eassumption|].
  intros o. cbn [app]. rewrite cnt_cons. pose proof (cnt_remove_one x _ Hh o). lia.
Qed.

(* weak edges are not part of anything that is counted or typed *)
Lemma add_weak_core h src l t o :
  match nth_error (add_weak h src l t) o, nth_error h o with
  | Some b, Some a => otag b = otag a /\ rc b = rc a /\ live b = live a /\ strong b = strong a
  | None, None => True
  | _, _ => False
  end.
Proof.
  unfold add_weak. destruct (nth_error h src) as [so|] eqn:Es.
  - rewrite nth_upd_case by (eapply nth_some_lt; eassumption). destruct (Nat.eqb o src) eqn:E.
    + apply Nat.eqb_eq in E. subst o. rewrite Es. cbn. auto.
    + destruct (nth_error h o); auto.
  - destruct (nth_error h o); auto.
Qed.

Lemma same_core_good pin s R h' :
  length h' = length (hp s) ->
  (forall o, match nth_error h' o, nth_error (hp s) o with
             | Some b, Some a => otag b = otag a /\ rc b = rc a /\ live b = live a /\ strong b = strong a
             | None, None => True
             | _, _ => False
             end) ->
  good pin s R -> good pin {| hp := h'; freed := freed s; bad := bad s |} R.
Proof.
  intros Ln Hc [I T O].
  assert (Hb : forall o b, nth_error h' o = Some b -> exists a, nth_error (hp s) o = Some a /\ otag b = otag a /\ rc b = rc a /\ live b = live a /\ strong b = strong a).
  { intros o b Eb. specialize (Hc o). rewrite Eb in Hc. destruct (nth_error (hp s) o) as [a|]; [eauto|destruct Hc]. }
  assert (Hf : forall o a, nth_error (hp s) o = Some a -> exists b, nth_error h' o = Some b /\ otag b = otag a /\ rc b = rc a /\ live b = live a /\ strong b = strong a).
  { intros o a Ea. specialize (Hc o). rewrite Ea in Hc. destruct (nth_error h' o) as [b|]; [eauto|destruct Hc]. }
  assert (Ht : targets h' = targets (hp s)).
  { unfold targets. clear -Ln Hc. revert h' Ln Hc. induction (hp s) as [|a h IH]; intros [|b h'] Ln Hc; try discriminate; [reflexivity|].
    cbn [flat_map]. pose proof (Hc 0) as H0. cbn [nth_error] in H0. destruct H0 as (_ & _ & _ & S0). rewrite S0. f_equal.
    apply IH; [cbn [length] in Ln; lia|]. intros o. exact (Hc (S o)). }
  split.
  - destruct I as [Icnt Irng Idead Ilive Ind Ifr Ibad]. constructor; cbn [hp freed bad]; try assumption.
    + intros o Ho. rewrite Ht. rewrite Ln in Ho. rewrite <- (Icnt o Ho). unfold rc_of.
      destruct (nth_error h' o) as [b|] eqn:Eb.
      * destruct (Hb _ _ Eb) as (a & -> & _ & Rr & _). assumption.
      * specialize (Hc o). rewrite Eb in Hc. destruct (nth_error (hp s) o); [destruct Hc|reflexivity].
    + intros o Ho. rewrite Ln. rewrite Ht in Ho. auto.
    + intros o b Eb Lb. destruct (Hb _ _ Eb) as (a & Ea & _ & Rr & Ll & Ss). rewrite Rr, Ss. apply (Idead _ _ Ea). congruence.
    + intros o b Eb Lb. destruct (Hb _ _ Eb) as (a & Ea & _ & Rr & Ll & Ss). rewrite Rr. apply (Ilive _ _ Ea). congruence.
    + intros o. rewrite Ifr. unfold dead_in. split.
      * intros (a & Ea & La). destruct (Hf _ _ Ea) as (b & Eb & _ & _ & Ll & _). exists b. split; [assumption|congruence].
      * intros (b & Eb & Lb). destruct (Hb _ _ Eb) as (a & Ea & _ & _ & Ll & _). exists a. split; [assumption|congruence].
  - intros o b e Eb Hin. cbn [hp] in *. destruct (Hb _ _ Eb) as (a & Ea & Tg & _ & _ & Ss). rewrite Ss in Hin.
    destruct (T _ _ _ Ea Hin) as (tb & Et & Ok). destruct (Hf _ _ Et) as (tb' & Et' & Tg' & _). exists tb'. rewrite Tg, Tg'. auto.
  - intros g gb e Eg Hin C. cbn [hp] in *. destruct (Hb _ _ Eg) as (ga & Ega & _ & _ & _ & Ss). rewrite Ss in Hin.
    destruct (O _ _ _ Ega Hin C) as (c & oc & Ec & Ic & Hgc). destruct (Hf _ _ Ec) as (oc' & Ec' & Tg' & _ & _ & Ss').
    exists c, oc'. rewrite Tg', Ss'. auto.
Qed.

Theorem p_weak_good pin r src l t : G pin r -> G pin (p_weak r src l t).
Proof.
  unfold G, p_weak, rset, rhp. cbn [r_st r_roots r_pin]. intros [Hp Gd]. split; [assumption|]. apply same_core_good; [|apply add_weak_core|assumption].
  unfold add_weak. destruct (nth_error (hp (r_st r)) src); [apply upd_length|reflexivity].
Qed.

Lemma nth_nil_none (o : nat) (ob : obj) : nth_error (@nil obj) o = Some ob -> False.
Proof. destruct o; discriminate. Qed.

Theorem rs0_good pin : G pin (rs0 pin).
Proof.
  unfold G, rs0. cbn [r_st r_roots r_pin]. split; [reflexivity|]. split.
  - constructor; cbn [hp freed bad].
    + intros o Ho. cbn [length] in Ho. lia.
    + intros o [H|H]; destruct H.
    + intros o ob E. destruct (nth_nil_none _ _ E).
    + intros o ob E. destruct (nth_nil_none _ _ E).
    + constructor.
    + intros o. split; [intros []|intros (ob & E & _); destruct (nth_nil_none _ _ E)].
    + reflexivity.
  - intros o ob e E. destruct (nth_nil_none _ _ E).
  - intros g ob e E. destruct (nth_nil_none _ _ E).
Qed.

(* the final handle list is a rearrangement of the handles held *)
Lemma reorder_cnt want : forall held o, cnt o (reorder held want) = cnt o held.
Proof.
  induction want as [|x w IH]; intros held o; cbn [reorder]; [reflexivity|].
  destruct (existsb (Nat.eqb x) held) eqn:E; [|apply IH].
  rewrite cnt_cons, IH. assert (Hin : In x held).
  { apply existsb_exists in E. destruct E as (y & Hy & Ey). apply Nat.eqb_eq in Ey. subst. assumption. }
  pose proof (cnt_remove_one x _ Hin o). lia.
Qed.

Theorem reorder_good pin r want : G pin r -> good pin (r_st r) (reorder (r_roots r) want).
Proof. intros [_ Gd]. eapply good_cnt_ext; [exact Gd|]. intros o. symmetry. apply reorder_cnt. Qed.
