(* C20 -- an executable reference-count heap.

   Objects carry a type tag, a strong count [rc], a liveness flag and the list
   of their outgoing strong edges in field (= Rust drop) order; weak edges are
   recorded but never counted.  A handle is released with [release]: the count
   is decremented, and when it reaches zero the object is freed -- it is
   appended to the [freed] log, its fields are dropped in order (each strong
   edge is released in turn, depth first, exactly like Rust's drop glue), and
   it keeps no edges afterwards.  Freeing a [TCtx] first runs
   [Gate::dissolve_paths] on every gate of the module (ModuleContext::drop,
   des/src/net/module/ctx/mod.rs:481-487), which takes the connections out of
   the whole gate chain (des/src/net/gate.rs:364-373).

   Releasing a handle to an object that is already freed, or whose count is
   already zero, is what a use-after-free / double drop would be in the real
   program; the model records it in [bad] and leaves the heap alone.

   No proofs in this file. *)
From Coq Require Import List NArith Arith Bool.
Import ListNotations.

Inductive tag :=
| TGlobals                (* net::runtime::Globals *)
| TTree                   (* Arc<Mutex<ModuleTree>> shared by Sim and Globals *)
| TCtx (depth : nat)      (* ModuleContext; [depth] = length of its path (children are one deeper) *)
| TProc (st : N)          (* RefCell<Processor>: stack + Box<dyn Module> = the user state [st] *)
| TElem (e : N)           (* Box<dyn ProcessingElement> *)
| TGate
| TChannel
| TMsg (pay : N)          (* Message with a user payload *)
| TEvent (kind : N)       (* a NetEvents value owned by the event set / a buffer *)
| TRuntime                (* (Arc<tokio Runtime>, Rc<LocalSet>) of one module *)
| TTask (cap : N)         (* a spawned future and the state it captured *)
| TSlot                   (* time::driver::TimerSlot *)
| TQueue.                 (* time::driver::TimerQueue *)

(* Edge labels.  [KConn]/[KConnCh] are the two reference-carrying fields of a
   [Connection] stored in a gate's [connections] array: the peer gate (with
   the slot index used at the peer) and the optional channel.  They are the
   edges [dissolve_paths] removes.  Everything else is an ordinary field. *)
Inductive ekind :=
| KField (f : N)
| KConn (slot : N) (eid : N)
| KConnCh (slot : N).

Definition is_conn (k : ekind) : bool :=
  match k with KField _ => false | _ => true end.

Record edge := { ek : ekind; et : nat }.

Record obj := {
  otag : tag;
  rc : nat;                         (* strong count *)
  live : bool;
  strong : list edge;               (* outgoing strong edges, in field order *)
  weak : list (N * nat) }.          (* outgoing weak edges (label, target): informational *)

Definition heap := list obj.

Record st := {
  hp : heap;
  freed : list nat;                 (* destructor log, in order *)
  bad : list nat }.                 (* handles released after the free / below zero *)

Fixpoint upd {A} (l : list A) (i : nat) (x : A) : list A :=
  match l, i with
  | [], _ => []
  | _ :: r, O => x :: r
  | y :: r, S j => y :: upd r j x
  end.

Definition set_strong (ob : obj) (es : list edge) : obj :=
  {| otag := otag ob; rc := rc ob; live := live ob; strong := es; weak := weak ob |}.
Definition set_rc (ob : obj) (n : nat) : obj :=
  {| otag := otag ob; rc := n; live := live ob; strong := strong ob; weak := weak ob |}.
Definition dead_of (ob : obj) : obj :=
  {| otag := otag ob; rc := 0; live := false; strong := []; weak := weak ob |}.

Definition conn_edges (ob : obj) : list edge := filter (fun e => is_conn (ek e)) (strong ob).
Definition plain_edges (ob : obj) : list edge := filter (fun e => negb (is_conn (ek e))) (strong ob).

(* Gate::dissolve_paths (gate.rs:364-373).  [locked] are the gates whose
   connection mutex is held further up the recursion: try_lock fails on them
   and the call returns at once.  Both slots of [g] are emptied (nobody else
   can touch them while g is locked); for every connection taken, the peer is
   dissolved first and the connection value dropped afterwards (endpoint, then
   channel).  Returns the heap and the handles dropped, in drop order. *)
Fixpoint dissolve (fuel : nat) (locked : list nat) (g : nat) (h : heap) : heap * list nat :=
  match fuel with
  | O => (h, [])
  | S f =>
      if existsb (Nat.eqb g) locked then (h, []) else
      match nth_error h g with
      | None => (h, [])
      | Some ob =>
          fold_left
            (fun (acc : heap * list nat) (e : edge) =>
               match ek e with
               | KConn _ _ =>
                   let r := dissolve f (g :: locked) (et e) (fst acc) in
                   (fst r, snd acc ++ snd r ++ [et e])
               | _ => (fst acc, snd acc ++ [et e])
               end)
            (conn_edges ob)
            (upd h g (set_strong ob (plain_edges ob)), [])
      end
  end.

(* ModuleContext::drop: `for gate in self.gates() { gate.dissolve_paths() }`.
   Every strong field of the context is offered; objects without connection
   edges are left as they are. *)
Definition dissolve_all (h : heap) (gs : list nat) : heap * list nat :=
  fold_left
    (fun (acc : heap * list nat) (g : nat) =>
       let r := dissolve (S (length h)) [] g (fst acc) in
       (fst r, snd acc ++ snd r))
    gs (h, []).

Definition is_ctx (t : tag) : bool := match t with TCtx _ => true | _ => false end.

(* One step of the release machine: the head of [todo] is the handle being
   dropped now; the fields of a freed object go to the front of the list, so
   that they are dropped before whatever was pending (depth first). *)
Definition step (s : st) (o : nat) : st * list nat :=
  match nth_error (hp s) o with
  | None => ({| hp := hp s; freed := freed s; bad := bad s ++ [o] |}, [])
  | Some ob =>
      if negb (live ob) || (rc ob =? 0) then
        ({| hp := hp s; freed := freed s; bad := bad s ++ [o] |}, [])
      else if rc ob =? 1 then
        let r := if is_ctx (otag ob) then dissolve_all (hp s) (map et (strong ob)) else (hp s, []) in
        (* the fields are read after Drop::drop has run *)
        match nth_error (fst r) o with
        | Some ob1 =>
            ({| hp := upd (fst r) o (dead_of ob1); freed := freed s ++ [o]; bad := bad s |},
             snd r ++ map et (strong ob1))
        | None => ({| hp := hp s; freed := freed s; bad := bad s ++ [o] |}, [])
        end
      else
        ({| hp := upd (hp s) o (set_rc ob (rc ob - 1)); freed := freed s; bad := bad s |}, [])
  end.

Fixpoint run_release (fuel : nat) (s : st) (todo : list nat) : st * list nat :=
  match fuel, todo with
  | _, [] => (s, [])
  | O, _ => (s, todo)
  | S f, o :: r => let x := step s o in run_release f (fst x) (snd x ++ r)
  end.


Definition targets (h : heap) : list nat := flat_map (fun ob => map et (strong ob)) h.

(* enough fuel for every heap: each step either consumes a pending handle or
   frees an object and trades it and its edges for pending handles *)
Definition live_total (h : heap) : nat := fold_right (fun ob n => (if live ob then 1 else 0) + n) 0 h.
Definition measure (h : heap) (todo : list nat) : nat := length todo + length (targets h) + live_total h.

(* drop the handles [roots], one after the other *)
Definition release_all (s : st) (roots : list nat) : st :=
  fst (run_release (S (measure (hp s) roots)) s roots).

Definition release (s : st) (o : nat) : st := release_all s [o].

(* ---- construction ---- *)
Definition new_obj (t : tag) : obj := {| otag := t; rc := 0; live := true; strong := []; weak := [] |}.

(* allocate; the caller must take a handle (edge or root) to it *)
Definition alloc (h : heap) (t : tag) : heap * nat := (h ++ [new_obj t], length h).

(* a new strong handle to [t] stored in a field of [src] (Arc::clone / a value moved in) *)
Definition add_edge (h : heap) (src : nat) (k : ekind) (t : nat) : heap :=
  match nth_error h src, nth_error h t with
  | Some so, Some _ =>
      let h1 := upd h src (set_strong so (strong so ++ [{| ek := k; et := t |}])) in
      match nth_error h1 t with
      | Some to => upd h1 t (set_rc to (S (rc to)))
      | None => h1
      end
  | _, _ => h
  end.

(* a new strong handle held from outside the heap (a local, a static, the event set) *)
Definition add_root (h : heap) (t : nat) : heap :=
  match nth_error h t with
  | Some to => upd h t (set_rc to (S (rc to)))
  | None => h
  end.

Definition add_weak (h : heap) (src : nat) (l : N) (t : nat) : heap :=
  match nth_error h src with
  | Some so => upd h src {| otag := otag so; rc := rc so; live := live so; strong := strong so; weak := weak so ++ [(l, t)] |}
  | None => h
  end.

(* take the first edge with label [k] out of [src] without touching the count:
   the handle is moved to the caller *)
Fixpoint take_first (k : ekind -> bool) (es : list edge) : option (edge * list edge) :=
  match es with
  | [] => None
  | e :: r => if k (ek e) then Some (e, r)
              else match take_first k r with
                   | Some (x, r') => Some (x, e :: r')
                   | None => None
                   end
  end.

Definition move_out (h : heap) (src : nat) (k : ekind -> bool) : heap * option nat :=
  match nth_error h src with
  | Some so => match take_first k (strong so) with
               | Some (e, r) => (upd h src (set_strong so r), Some (et e))
               | None => (h, None)
               end
  | None => (h, None)
  end.

(* store a handle the caller already owns in a field of [src] (a move: no count change) *)
Definition move_in (h : heap) (src : nat) (k : ekind) (t : nat) : heap :=
  match nth_error h src with
  | Some so => upd h src (set_strong so (strong so ++ [{| ek := k; et := t |}]))
  | None => h
  end.

Definition tag_of (h : heap) (o : nat) : option tag :=
  match nth_error h o with Some ob => Some (otag ob) | None => None end.
Definition is_live (h : heap) (o : nat) : bool :=
  match nth_error h o with Some ob => live ob | None => false end.
Definition edges_of (h : heap) (o : nat) : list edge :=
  match nth_error h o with Some ob => strong ob | None => [] end.
