(* C20 -- the only ways in which the simulation model touches the heap.

   A state [rs] is a heap together with the multiset of handles that are held
   from outside it (locals, statics, the event set, the caller).  Each
   primitive below corresponds to one thing Rust code can do with a handle --
   allocate an object behind a new handle, clone a handle, move a handle into
   a field, move it out again, drop it -- and each checks, before it changes
   anything, that the handle exists and that the resulting edge is one the
   schema of Own/Shape.v allows; otherwise it does nothing.  Own/SafeP.v
   proves that every primitive keeps the state well formed ([good]), so any
   program written with them can only reach well-formed graphs.
   No proofs in this file. *)
From Coq Require Import List NArith Arith Bool.
From DesVerif Require Import Own.Heap Own.Shape.
Import ListNotations.

(* [r_pin]: which schema the checks use (true = the pinned tree's, see Own/Shape.v) *)
Record rs := { r_pin : bool; r_st : st; r_roots : list nat }.

Definition rhp (r : rs) : heap := hp (r_st r).
Definition rset (r : rs) (h : heap) (roots : list nat) : rs :=
  {| r_pin := r_pin r; r_st := {| hp := h; freed := freed (r_st r); bad := bad (r_st r) |}; r_roots := roots |}.

Fixpoint remove_one (x : nat) (l : list nat) : list nat :=
  match l with
  | [] => []
  | y :: r => if Nat.eqb x y then r else y :: remove_one x r
  end.

Definition holds (r : rs) (x : nat) : bool := existsb (Nat.eqb x) (r_roots r).
Definition listed (h : heap) (g : nat) : bool := existsb (Nat.eqb g) (ctx_targets h).
Definition has_conn (h : heap) (g : nat) : bool := existsb (fun e => is_conn (ek e)) (edges_of h g).

(* Arc::new(..) / Box::new(..) / a value on the stack: a new object behind one new handle *)
Definition p_alloc (r : rs) (t : tag) : rs * nat :=
  (rset r (rhp r ++ [{| otag := t; rc := 1; live := true; strong := []; weak := [] |}]) (length (rhp r) :: r_roots r),
   length (rhp r)).

(* Arc::clone of a live object into a local *)
Definition p_clone (r : rs) (x : nat) : rs :=
  match nth_error (rhp r) x with
  | Some xo => if live xo then rset r (upd (rhp r) x (set_rc xo (S (rc xo)))) (x :: r_roots r) else r
  | None => r
  end.

Definition can_attach (pin : bool) (h : heap) (src : nat) (k : ekind) (x : nat) : bool :=
  match nth_error h src, nth_error h x with
  | Some so, Some xo => live so && edge_ok pin (otag so) k (otag xo) && (negb (is_conn k) || listed h src)
  | _, _ => false
  end.

(* a handle the caller holds is moved into a field of [src] *)
Definition p_move_in (r : rs) (src : nat) (k : ekind) (x : nat) : rs :=
  if holds r x && can_attach (r_pin r) (rhp r) src k x then
    match nth_error (rhp r) src with
    | Some so => rset r (upd (rhp r) src (set_strong so (strong so ++ [{| ek := k; et := x |}]))) (remove_one x (r_roots r))
    | None => r
    end
  else r.

(* a clone of a handle is stored in a field of [src] *)
Definition p_edge (r : rs) (src : nat) (k : ekind) (x : nat) : rs :=
  if can_attach (r_pin r) (rhp r) src k x then p_move_in (p_clone r x) src k x else r.

Fixpoint take_edge (p : edge -> bool) (es : list edge) : option (edge * list edge) :=
  match es with
  | [] => None
  | e :: r => if p e then Some (e, r)
              else match take_edge p r with
                   | Some (x, r') => Some (x, e :: r')
                   | None => None
                   end
  end.

(* the first handle matching [p] is moved out of the fields of [src] into a local
   (Option::take, VecDeque::pop_front, destructuring an event).  A module context does not
   give up a gate that still has connections. *)
Definition p_detach (r : rs) (src : nat) (p : edge -> bool) : rs * option nat :=
  match nth_error (rhp r) src with
  | Some so =>
      match take_edge p (strong so) with
      | Some (e, rest) =>
          if is_ctx (otag so) && has_conn (rhp r) (et e) then (r, None)
          else (rset r (upd (rhp r) src (set_strong so rest)) (et e :: r_roots r), Some (et e))
      | None => (r, None)
      end
  | None => (r, None)
  end.

(* a handle the caller holds is dropped *)
Definition p_release (r : rs) (x : nat) : rs :=
  if holds r x then {| r_pin := r_pin r; r_st := release_all (r_st r) [x]; r_roots := remove_one x (r_roots r) |} else r.

(* a Weak is recorded (never counted) *)
Definition p_weak (r : rs) (src : nat) (l : N) (t : nat) : rs := rset r (add_weak (rhp r) src l t) (r_roots r).

(* the handles in the order [want] asks for, as far as they are held; then the others *)
Fixpoint reorder (held want : list nat) : list nat :=
  match want with
  | [] => held
  | x :: w => if existsb (Nat.eqb x) held then x :: reorder (remove_one x held) w else reorder held w
  end.

Definition rs0 (pin : bool) : rs := {| r_pin := pin; r_st := {| hp := []; freed := []; bad := [] |}; r_roots := [] |}.
