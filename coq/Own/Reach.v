(* C20 -- every graph that a scripted simulation reaches is well formed: the builder
   operations, the start-up, the event loop under every limit, the tear-down.  With
   Own/Rank.v: every simulation releases everything, exactly once. *)
From Coq Require Import List NArith Arith Bool Lia.
From DesVerif Require Import Common.Codec CQueue.Model CQueue.Spec Own.Heap Own.Frame Own.Inv Own.Shape Own.Rank Own.Safe Own.SafeP
  Own.Ops Own.OpsP Own.Check Own.World Own.WorldP Own.Model.
Import ListNotations.

Section R.
  Variable pin : bool.

  Lemma add_module_good hold w c : WI pin w -> WI pin (add_module hold w c).
  Proof.
    intros H. unfold add_module. cbv zeta.
    match goal with |- context [new_module ?a ?b ?c ?d ?e ?f] =>
      assert (HG : G pin (fst (fst (fst (new_module a b c d e f))))) by (apply new_module_good; exact H);
      destruct (new_module a b c d e f) as [[[s1 ctx] proc] q] end.
    cbn [fst] in HG. destruct hold; ws.
  Qed.

  Lemma add_gates_good hold w i : WI pin w -> WI pin (add_gates hold w i).
  Proof. intros H. unfold add_gates. ws. Qed.

  Lemma add_link_good w l : WI pin w -> WI pin (add_link w l).
  Proof. intros H. unfold add_link. destruct l as [[[[ma ga] mb] gb] ch]. ws. Qed.

  Lemma add_inj_good w j : WI pin w -> WI pin (add_inj w j).
  Proof. intros H. unfold add_inj. destruct j as [[kind m] t]. ws. Qed.

  Lemma world0_good : WI pin (world0 pin).
  Proof.
    unfold world0. pose proof (new_sim_good pin (rs0 pin) (rs0_good pin)) as H.
    destruct (new_sim (rs0 pin)) as [[s tree] glob]. exact H.
  Qed.

  Lemma sim_start_good w : WI pin w -> WI pin (sim_start w).
  Proof. intros H. unfold sim_start. ws. Qed.

  Lemma dispatch_all_good fuel : forall w mi mt, WI pin w -> WI pin (dispatch_all fuel w mi mt).
  Proof.
    induction fuel as [|f IH]; intros w mi mt H; cbn [dispatch_all]; [assumption|].
    destruct (peek_time (w_fes w)); [|assumption]. destruct (_ || _)%bool; [assumption|].
    destruct (fetch (w_fes w)) as [[[q e] t]|]; [|assumption].
    apply IH. apply dispatch_good. exact H.
  Qed.

  Lemma sim_end_good w : WI pin w -> WI pin (sim_end w).
  Proof. intros H. unfold sim_end. ws. Qed.

  Lemma stop_world_good input : WI pin (fst (fst (stop_world pin input))).
  Proof.
    unfold stop_world. cbv zeta.
    repeat match goal with |- context [match ?x with pair _ _ => _ end] =>
             lazymatch x with context [match _ with pair _ _ => _ end] => fail | _ => destruct x as [? ?] end end.
    cbn [fst].
    repeat match goal with
           | |- WI _ (if ?c then _ else _) => destruct c
           | |- WI _ (sim_end _) => apply sim_end_good
           | |- WI _ (sim_start _) => apply sim_start_good
           | |- WI _ (dispatch_all _ _ _ _) => apply dispatch_all_good
           | |- WI _ (fold_left add_inj _ _) => apply fold_WI; [intros; apply add_inj_good; assumption|]
           | |- WI _ (fold_left add_link _ _) => apply fold_WI; [intros; apply add_link_good; assumption|]
           | |- WI _ (fold_left (add_module _) _ _) => apply fold_WI; [intros; apply add_module_good; assumption|]
           | |- WI _ (fold_left _ _ _) => apply fold_WI; [intros; apply add_gates_good; assumption|]
           | |- WI _ (world0 _) => apply world0_good
           end.
  Qed.

  (* THE REACHABILITY THEOREM: for every script, the heap at the stopping point with the
     handles that are dropped then is well formed *)
  Theorem stop_state_good input : let '(s, roots, _) := stop_state pin input in good pin s roots.
  Proof.
    unfold stop_state. pose proof (stop_world_good input) as H.
    destruct (stop_world pin input) as [[w want] [[[res nrem] time] hooked]]. cbn [fst] in H.
    apply reorder_good. exact H.
  Qed.
End R.
