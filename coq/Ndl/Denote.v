(* What a description denotes, read off the description top-down: no dependency order, no
   archetype table, no cloning.  [den_node k] is the module tree of type [k]: its own gate
   clusters and submodule fields followed by those of its `inherit` chain, every submodule
   expanded recursively, and the connection statements (inherited ones first) expanded against
   exactly those fields.  [den_mods / den_gates / den_conns] flatten such a tree into the three
   sets the property speaks about: module paths with symbols, gates per path, and connections
   between absolute gate positions with their link parameters.

   Generic definitions denote a tree with open type parameters: a field of parameter type is the
   bound's tree labelled with the parameter; an instantiation `G(A1..An)` is G's tree with every such
   field replaced by the tree of the corresponding argument, which must conform to the bound. *)
From Coq Require Import List NArith Bool.
From DesVerif Require Import Ndl.Bytes Ndl.Grammar Ndl.Def Ndl.Transform Ndl.Build.
Import ListNotations.
Open Scope N_scope.

Definition find_entry (d : Def) (k : ident) : option (TypClause Generic * ModuleDef) :=
  find (fun im => beq (tc_ident (fst im)) k) (d_modules d).

Fixpoint map_opt {A B} (f : A -> option B) (l : list A) : option (list B) :=
  match l with
  | [] => Some []
  | a :: r => match f a, map_opt f r with Some b, Some bs => Some (b :: bs) | _, _ => None end
  end.

(* one submodule field, given what the other definitions denote ([look]) *)
Section Field.
  Variable look : ident -> option (Node * list Generic).

  (* the substitution `G(A1..An)` denotes: A_i must not be a parameter of the enclosing definition, must be a
     definition without parameters of its own, and must conform to the bound of G's i-th parameter *)
  Fixpoint den_sigma (self_args reqs : list Generic) (args : list ident) : option (list (ident * Node)) :=
    match reqs with
    | [] => Some []
    | gb :: reqs' =>
      match args with
      | [] => None
      | name :: args' =>
        if is_binding self_args name then None else
        match look name, look (g_bound gb) with
        | Some (repl, []), Some (iface, _) =>
          if conform_to repl iface then option_map (cons (g_binding gb, repl)) (den_sigma self_args reqs' args') else None
        | _, _ => None
        end
      end
    end.

  (* `f: T` with T a parameter: the bound's tree labelled T;  `f: M`: M's tree;
     `f: G(A1..An)`: G's tree with every field of parameter type replaced by the argument's tree *)
  Definition den_field (self_args : list Generic) (st : FieldDef * TypClause ident) : option (FieldDef * Node) :=
    let (field, typ) := st in
    if kard_eqb (fd_kard field) (Cluster 0) then None else
    match tc_args typ with
    | [] =>
      match look (inner_ty_to_outer_ty self_args (tc_ident typ)) with
      | Some (n, []) => Some (field, set_typ n (tc_ident typ))
      | _ => None
      end
    | _ :: _ =>
      if is_binding self_args (tc_ident typ) then None else
      match look (tc_ident typ) with
      | Some (node, reqs) =>
        if Nat.eqb (length reqs) (length (tc_args typ)) then
          match den_sigma self_args reqs (tc_args typ) with
          | Some sigma => Some (field, mkNode (n_typ node) (map (subst_field sigma) (n_subs node)) (n_gates node) (n_conns node))
          | None => None
          end
        else None
      | None => None
      end
    end.
End Field.

(* the tree (with its open type parameters) a definition denotes *)
Fixpoint den_node (d : Def) (fuel : nat) (k : ident) : option (Node * list Generic) :=
  match fuel with
  | O => None
  | S f =>
    match find_entry d k with
    | None => None
    | Some (self, m) =>
      if has_dup_binding (tc_args self) || existsb (fun v => kard_eqb (fd_kard v) (Cluster 0)) (md_gates m) then None else
      match map_opt (den_field (den_node d f) (tc_args self)) (md_subs m),
            match md_inherit m with None => Some (mkNode [] [] [] [], []) | Some p => den_node d f p end with
      | Some subs_own, Some (parent, _) =>
        let gates := set_extend (set_extend [] (md_gates m)) (n_gates parent) in
        let subs := subs_own ++ n_subs parent in
        if has_dup_field subs then None else
        match transform_connections (n_conns parent) (md_conns m) subs gates (d_links d) with
        | Ok conns => Some (mkNode k subs gates conns, tc_args self)
        | _ => None
        end
      | _, _ => None
      end
    end
  end.

Definition denote_tree (d : Def) : option Node :=
  option_map fst (den_node d (S (length (d_modules d))) (d_entry d)).

(* ---- flattening ---- *)

Fixpoint den_mods (n : Node) (p : path) : list (path * ident) :=
  match n with
  | mkNode typ subs _ _ =>
    (p, typ) ::
    (fix go (l : list (FieldDef * Node)) : list (path * ident) :=
       match l with
       | [] => []
       | (f, sn) :: r => flat_map (fun sp => den_mods sn sp) (sub_paths p f) ++ go r
       end) subs
  end.

Definition own_gates (n : Node) (p : path) : list (path * ident * N * N) :=
  flat_map (fun g => map (fun k => (p, fd_ident g, as_size (fd_kard g), k)) (rangeN (as_size (fd_kard g)))) (n_gates n).

Fixpoint den_gates (n : Node) (p : path) : list (path * ident * N * N) :=
  match n with
  | mkNode typ subs gates conns =>
    own_gates (mkNode typ subs gates conns) p ++
    (fix go (l : list (FieldDef * Node)) : list (path * ident * N * N) :=
       match l with
       | [] => []
       | (f, sn) :: r => flat_map (fun sp => den_gates sn sp) (sub_paths p f) ++ go r
       end) subs
  end.

(* the absolute position an endpoint names, seen from the module at [p] *)
Definition abs_gate (p : path) (e : Endpoint) : gate_pos :=
  match rev e with
  | [] => (p, [], 0)
  | last :: init_rev => (p ++ rev init_rev, ac_name last, match ac_index last with Some i => i | None => 0 end)
  end.

Definition own_conns (n : Node) (p : path) : list (gate_pos * gate_pos * option Link) :=
  map (fun c => (abs_gate p (cn_l c), abs_gate p (cn_r c), cn_link c)) (n_conns n).

(* in the order the build connects: children first, then the module's own statements *)
Fixpoint den_conns (n : Node) (p : path) : list (gate_pos * gate_pos * option Link) :=
  match n with
  | mkNode typ subs gates conns =>
    (fix go (l : list (FieldDef * Node)) : list (gate_pos * gate_pos * option Link) :=
       match l with
       | [] => []
       | (f, sn) :: r => flat_map (fun sp => den_conns sn sp) (sub_paths p f) ++ go r
       end) subs ++
    own_conns (mkNode typ subs gates conns) p
  end.

(* the connection set a list of connection statements denotes: both directions; a pair that is
   connected twice counts once, with the link of the first statement (Gate::connect ignores the repeat) *)
Definition half_edge := (gate_pos * gate_pos * option Link)%type.
Definition gate_pos_eqb (a b : gate_pos) : bool :=
  let '(p, n, k) := a in let '(q, m, j) := b in path_eqb p q && beq n m && (k =? j).
Fixpoint conn_set (l : list half_edge) (acc : list half_edge) : list half_edge :=
  match l with
  | [] => acc
  | (a, b, k) :: r =>
    if existsb (fun e => gate_pos_eqb (fst (fst e)) a && gate_pos_eqb (snd (fst e)) b) acc then conn_set r acc
    else conn_set r (acc ++ [(a, b, k); (b, a, k)])
  end.

(* the three sets of the property *)
Definition denotation (n : Node) : list (path * ident) * list (path * ident * N * N) * list half_edge :=
  (den_mods n [], den_gates n [], conn_set (den_conns n []) []).
