(* Data of the NDL elaborator: the description (des-net-utils/src/ndl/def.rs: Def, ModuleDef,
   ConnectionDef, LinkDef), the elaborated tree (tree.rs: Node, Submodule, Connection,
   ConnectionEndpoint, ConnectionEndpointAccessor), the error kinds of error.rs and the
   panic sites of mod.rs.  Identifiers are byte strings.  FxHashMap / FxHashSet become
   lists in document order (association lists, sets without repetition); link parameters are
   natural numbers (latency and jitter in microseconds, bitrate in bit/s). *)
From Coq Require Import List NArith Bool.
From DesVerif Require Import Ndl.Bytes Ndl.Grammar.
Import ListNotations.
Open Scope N_scope.

Definition ident := bytes.

Record Link := { l_lat : N; l_jit : N; l_rate : N }.
Record ConnDef := { cd_lhs : list FieldDef; cd_rhs : list FieldDef; cd_link : option ident }.
Record ModuleDef := {
  md_inherit : option ident;
  md_gates : list FieldDef;
  md_subs : list (FieldDef * TypClause ident);
  md_conns : list ConnDef }.
Record Def := {
  d_entry : ident;
  d_modules : list (TypClause Generic * ModuleDef);
  d_links : list (ident * Link) }.

Record Accessor := { ac_name : ident; ac_index : option N }.
Definition Endpoint := list Accessor.
Record Conn := { cn_l : Endpoint; cn_r : Endpoint; cn_link : option Link }.
Inductive Node := mkNode (typ : ident) (subs : list (FieldDef * Node)) (gates : list FieldDef) (conns : list Conn).

Definition n_typ (n : Node) := let 'mkNode t _ _ _ := n in t.
Definition n_subs (n : Node) := let 'mkNode _ s _ _ := n in s.
Definition n_gates (n : Node) := let 'mkNode _ _ g _ := n in g.
Definition n_conns (n : Node) := let 'mkNode _ _ _ c := n in c.
Definition set_typ (n : Node) (t : ident) : Node := mkNode t (n_subs n) (n_gates n) (n_conns n).

(* ErrorKind, numbered in declaration order of error.rs *)
Definition K_OTHER : N := 0.                 Definition K_MISSING_REGISTRY_SYMBOL : N := 1.
Definition K_SYMBOL_ALREADY_DEFINED : N := 2. Definition K_IO : N := 3.
Definition K_UNKNOWN_LINK : N := 4.          Definition K_UNKNOWN_MODULE : N := 5.
Definition K_UNRESOLVABLE_DEPENDENCY : N := 6. Definition K_INVALID_GATE : N := 7.
Definition K_INVALID_SUBMODULE : N := 8.     Definition K_UNKNOWN_GATE_IN_CONNECTION : N := 9.
Definition K_UNKNOWN_SUBMODULE_IN_CONNECTION : N := 10.
Definition K_CONNECTION_INDEX_OUT_OF_BOUNDS : N := 11.
Definition K_UNEQUAL_PEERS : N := 12.        Definition K_INVALID_TYP_STATEMENT : N := 13.
Definition K_GENERIC_PASSED_AS_TYP_ARGUMENT : N := 14.
Definition K_DOES_NOT_CONFORM : N := 15.

(* panic sites of des-net-utils/src/ndl/mod.rs *)
Definition P_INHERIT_LOOKUP : N := 10.       (* transform_module: nodes.get(parent).expect(..) *)
Definition P_SUBMODULE_TYP_LOOKUP : N := 11. (* transform_submodule, no arguments: nodes.get(typ_ident_processed).expect(..) *)
Definition P_GENERIC_BASE_LOOKUP : N := 12.  (* transform_submodule, arguments: nodes.get(&typ.ident).expect(..) *)
Definition P_REPLACEMENT_LOOKUP : N := 13.   (* nodes.get(concrete_replacement_name).expect(..) *)
Definition P_ASSERT_REPLACEMENT_DEPS : N := 14. (* assert!(replacement_deps.is_empty()) (pinned code) *)
Definition P_INTERFACE_LOOKUP : N := 15.     (* nodes.get(&generic_binding.bound).expect(..) *)
Definition P_ACCESSORS_EMPTY : N := 16.      (* assert!(!accessors.is_empty()) *)
Definition P_ORDER_INDEX : N := 17.          (* modules[idx], modules.swap(idx, next) *)
Definition P_TYP_ARGS_INDEX : N := 18.       (* typ.args[i] *)

(* ---- equality (derive(PartialEq) of tree.rs; FxHashSet equality is set equality) ---- *)
Definition opt_eqb {A} (e : A -> A -> bool) (a b : option A) : bool :=
  match a, b with Some x, Some y => e x y | None, None => true | _, _ => false end.
Fixpoint list_eqb {A} (e : A -> A -> bool) (a b : list A) : bool :=
  match a, b with
  | [], [] => true
  | x :: a', y :: b' => e x y && list_eqb e a' b'
  | _, _ => false
  end.
Definition acc_eqb (a b : Accessor) : bool := beq (ac_name a) (ac_name b) && opt_eqb N.eqb (ac_index a) (ac_index b).
Definition link_eqb (a b : Link) : bool := (l_lat a =? l_lat b) && (l_jit a =? l_jit b) && (l_rate a =? l_rate b).
Definition conn_eqb (a b : Conn) : bool :=
  list_eqb acc_eqb (cn_l a) (cn_l b) && list_eqb acc_eqb (cn_r a) (cn_r b) && opt_eqb link_eqb (cn_link a) (cn_link b).

Definition mem_field (g : FieldDef) (l : list FieldDef) : bool := existsb (field_eqb g) l.
Definition subset_fields (a b : list FieldDef) : bool := forallb (fun g => mem_field g b) a.
Definition set_eqb (a b : list FieldDef) : bool := subset_fields a b && subset_fields b a.

Fixpoint node_eqb (a b : Node) : bool :=
  match a, b with
  | mkNode ta sa ga ca, mkNode tb sb gb cb =>
    beq ta tb &&
    (fix subs_eqb (x y : list (FieldDef * Node)) : bool :=
       match x, y with
       | [], [] => true
       | (fa, na) :: x', (fb, nb) :: y' => field_eqb fa fb && node_eqb na nb && subs_eqb x' y'
       | _, _ => false
       end) sa sb &&
    set_eqb ga gb && list_eqb conn_eqb ca cb
  end.
Definition sub_eqb (a b : FieldDef * Node) : bool := field_eqb (fst a) (fst b) && node_eqb (snd a) (snd b).

(* Node::conform_to (tree.rs) *)
Definition conform_to (self iface : Node) : bool :=
  subset_fields (n_gates iface) (n_gates self) &&
  forallb (fun s => existsb (fun o => sub_eqb o s) (n_subs self)) (n_subs iface) &&
  forallb (fun c => existsb (fun o => conn_eqb o c) (n_conns self)) (n_conns iface).

(* FxHashSet<Gate>: insertion keeps one copy of equal elements *)
Definition set_add (g : FieldDef) (l : list FieldDef) : list FieldDef := if mem_field g l then l else l ++ [g].
Definition set_extend (l : list FieldDef) (more : list FieldDef) : list FieldDef := fold_left (fun acc g => set_add g acc) more l.

Fixpoint lookup {V} (k : ident) (l : list (ident * V)) : option V :=
  match l with
  | [] => None
  | (k', v) :: r => if beq k k' then Some v else lookup k r
  end.
Definition mem_ident (k : ident) (l : list ident) : bool := existsb (beq k) l.

(* 0 .. n-1 *)
Definition rangeN (n : N) : list N := map N.of_nat (seq 0 (N.to_nat n)).
