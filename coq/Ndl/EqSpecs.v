(* Boolean equality tests of Def.v / Build.v decide equality. *)
From Coq Require Import List NArith Bool.
From DesVerif Require Import Ndl.Bytes Ndl.BytesProps Ndl.Grammar Ndl.Def Ndl.Build.
Import ListNotations.

Lemma list_eqb_eq : forall {A} (e : A -> A -> bool), (forall x y, e x y = true <-> x = y) ->
  forall a b, list_eqb e a b = true <-> a = b.
Proof.
  intros A e He. induction a as [|x a IH]; intros [|y b]; cbn [list_eqb]; split; intros H; try reflexivity; try discriminate.
  - apply andb_true_iff in H as [H1 H2]. apply He in H1. apply IH in H2. congruence.
  - injection H as -> ->. apply andb_true_iff. split; [apply He; reflexivity|apply IH; reflexivity].
Qed.

Lemma opt_eqb_eq : forall {A} (e : A -> A -> bool), (forall x y, e x y = true <-> x = y) ->
  forall a b, opt_eqb e a b = true <-> a = b.
Proof.
  intros A e He [x|] [y|]; cbn [opt_eqb]; split; intros H; try reflexivity; try discriminate.
  - apply He in H. congruence.
  - injection H as ->. apply He. reflexivity.
Qed.

Lemma acc_eqb_eq : forall a b, acc_eqb a b = true <-> a = b.
Proof.
  intros [n1 i1] [n2 i2]. unfold acc_eqb. cbn [ac_name ac_index]. rewrite andb_true_iff, beq_eq, (opt_eqb_eq N.eqb N.eqb_eq).
  split; [intros [-> ->]; reflexivity|intros H; injection H as -> ->; split; reflexivity].
Qed.

Lemma path_eqb_eq : forall a b, path_eqb a b = true <-> a = b.
Proof. apply list_eqb_eq. exact acc_eqb_eq. Qed.
