(* des-net-utils/src/ndl/mod.rs, function by function: required_symbols (def.rs), the
   dependency-ordering loop of [transform], transform_module / _gates / _submodules /
   _submodule / _connections / _connection / _connection_endpoint(_inner) and
   iter_for_kardinality_access.  [fx = true] is the code as it is now; [fx = false] is the
   pinned code: before fix: 5295e98 (its expect/assert sites are reachable) and before
   fix: a6f4ffc (two submodule fields of one name and shape were not rejected). *)
From Coq Require Import List NArith Bool.
From DesVerif Require Import Ndl.Bytes Ndl.Grammar Ndl.Def.
Import ListNotations.
Open Scope N_scope.

Definition archetypes := list (ident * (Node * list Generic)).

(* TypClause<ModuleGenericsDef>::inner_ty_to_outer_ty *)
Fixpoint inner_ty_to_outer_ty (args : list Generic) (s : ident) : ident :=
  match args with
  | [] => s
  | a :: r => if beq (g_binding a) s then g_bound a else inner_ty_to_outer_ty r s
  end.

Definition is_binding (args : list Generic) (s : ident) : bool := existsb (fun a => beq (g_binding a) s) args.

(* ModuleDef::required_symbols *)
Definition required_symbols (typ : TypClause Generic) (m : ModuleDef) : list ident :=
  let s0 := map (fun st => tc_ident (snd st)) (md_subs m) ++ flat_map (fun st => tc_args (snd st)) (md_subs m) in
  let s1 := filter (fun x => negb (is_binding (tc_args typ) x)) s0 in
  s1 ++ map g_bound (tc_args typ) ++ match md_inherit m with Some p => [p] | None => [] end.

(* ---- (0) the ordering loop ---- *)
Definition entry := (TypClause Generic * ModuleDef * list ident)%type.
Definition e_ident (e : entry) : ident := tc_ident (fst (fst e)).

Fixpoint position {A} (f : A -> bool) (l : list A) : option nat :=
  match l with
  | [] => None
  | a :: r => if f a then Some O else option_map S (position f r)
  end.

(* slice.swap(0, k) on the remaining part modules[idx..] *)
Definition swap0 {A} (k : nat) (l : list A) : option (list A) :=
  match k, l with
  | O, _ :: _ => Some l
  | S k', a :: r =>
    match nth_error r k' with
    | Some b => Some (b :: firstn k' r ++ a :: skipn (S k') r)
    | None => None
    end
  | _, [] => None
  end.

Definition resolvable (prov : list ident) (e : entry) : bool := forallb (fun s => mem_ident s prov) (snd e).

Fixpoint order_loop (fuel : nat) (done : list entry) (rest : list entry) (prov : list ident) : res (list entry) :=
  match rest with
  | [] => Ok (rev done)
  | _ :: _ =>
    match fuel with
    | O => OutOfFuel
    | S f =>
      match position (resolvable prov) rest with
      | None => Err K_UNRESOLVABLE_DEPENDENCY
      | Some next =>
        match swap0 next rest with
        | Some (m :: tl) => order_loop f (m :: done) tl (e_ident m :: prov)
        | _ => Panic P_ORDER_INDEX
        end
      end
    end
  end.

(* ---- (1) gates ---- *)
Definition transform_gates (defs : list FieldDef) : res (list FieldDef) :=
  if existsb (fun v => kard_eqb (fd_kard v) (Cluster 0)) defs then Err K_INVALID_GATE
  else Ok (set_extend [] defs).

(* ---- (2) submodules ---- *)
Definition replace_subs (binding : ident) (repl : Node) (subs : list (FieldDef * Node)) : list (FieldDef * Node) :=
  map (fun s => if beq (n_typ (snd s)) binding then (fst s, repl) else s) subs.

(* the same per field: one field through a substitution (parameter, node), parameter by parameter *)
Definition subst1 (s : FieldDef * Node) (br : ident * Node) : FieldDef * Node :=
  if beq (n_typ (snd s)) (fst br) then (fst s, snd br) else s.
Definition subst_field (sigma : list (ident * Node)) (s : FieldDef * Node) : FieldDef * Node :=
  fold_left subst1 sigma s.

Fixpoint replace_loop (fx : bool) (self_args : list Generic) (nodes : archetypes)
         (req_args : list Generic) (args : list ident) (node : Node) : res Node :=
  match req_args with
  | [] => Ok node
  | gb :: req' =>
    match args with
    | [] => Panic P_TYP_ARGS_INDEX
    | name :: args' =>
      if fx && is_binding self_args name then Err K_GENERIC_PASSED_AS_TYP_ARGUMENT else
      match lookup name nodes with
      | None => Panic P_REPLACEMENT_LOOKUP
      | Some (repl, repl_deps) =>
        match repl_deps with
        | _ :: _ => if fx then Err K_INVALID_TYP_STATEMENT else Panic P_ASSERT_REPLACEMENT_DEPS
        | [] =>
          match lookup (g_bound gb) nodes with
          | None => Panic P_INTERFACE_LOOKUP
          | Some (iface, _) =>
            if negb (conform_to repl iface) then Err K_DOES_NOT_CONFORM
            else replace_loop fx self_args nodes req' args'
                              (mkNode (n_typ node) (replace_subs (g_binding gb) repl (n_subs node)) (n_gates node) (n_conns node))
          end
        end
      end
    end
  end.

Definition transform_submodule (fx : bool) (field : FieldDef) (self : TypClause Generic) (typ : TypClause ident)
           (nodes : archetypes) : res (FieldDef * Node) :=
  if kard_eqb (fd_kard field) (Cluster 0) then Err K_INVALID_SUBMODULE else
  match tc_args typ with
  | [] =>
    match lookup (inner_ty_to_outer_ty (tc_args self) (tc_ident typ)) nodes with
    | None => Panic P_SUBMODULE_TYP_LOOKUP
    | Some (node, reqs) =>
      match reqs with
      | [] => Ok (field, set_typ node (tc_ident typ))
      | _ :: _ => Err K_INVALID_TYP_STATEMENT
      end
    end
  | _ :: _ =>
    if fx && is_binding (tc_args self) (tc_ident typ) then Err K_INVALID_TYP_STATEMENT else
    match lookup (tc_ident typ) nodes with
    | None => Panic P_GENERIC_BASE_LOOKUP
    | Some (node, req_args) =>
      if negb (Nat.eqb (length req_args) (length (tc_args typ))) then Err K_INVALID_TYP_STATEMENT
      else do node' <- replace_loop fx (tc_args self) nodes req_args (tc_args typ) node; Ok (field, node')
    end
  end.

Definition transform_submodules (fx : bool) (self : TypClause Generic) (defs : list (FieldDef * TypClause ident))
           (nodes : archetypes) : res (list (FieldDef * Node)) :=
  collect (fun ft => transform_submodule fx (fst ft) self (snd ft) nodes) defs.

(* ---- (5) connections ---- *)
Definition iter_for_kardinality_access (def access : FieldDef) : res (list Accessor) :=
  let name := fd_ident access in
  match fd_kard def, fd_kard access with
  | Atom, Atom => Ok [{| ac_name := name; ac_index := None |}]
  | Cluster n, Cluster i => if i <? n then Ok [{| ac_name := name; ac_index := Some i |}]
                            else Err K_CONNECTION_INDEX_OUT_OF_BOUNDS
  | Atom, Cluster _ => Err K_CONNECTION_INDEX_OUT_OF_BOUNDS
  | Cluster n, Atom => Ok (map (fun i => {| ac_name := name; ac_index := Some i |}) (rangeN n))
  end.

Fixpoint collect_concat {A B} (f : A -> res (list B)) (l : list A) : res (list B) :=
  match l with
  | [] => Ok []
  | a :: r => do x <- f a; do y <- collect_concat f r; Ok (x ++ y)
  end.

Fixpoint transform_connection_endpoint_inner (pos : list Accessor) (accessors : list FieldDef)
         (subs : list (FieldDef * Node)) (gates : list FieldDef) : res (list Endpoint) :=
  match accessors with
  | [] => Panic P_ACCESSORS_EMPTY
  | accessor :: rest =>
    match rest with
    | [] =>
      match find (fun g => beq (fd_ident g) (fd_ident accessor)) gates with
      | None => Err K_UNKNOWN_GATE_IN_CONNECTION
      | Some gate_def => do it <- iter_for_kardinality_access gate_def accessor;
                         Ok (map (fun fin => pos ++ [fin]) it)
      end
    | _ :: _ =>
      match find (fun s => beq (fd_ident (fst s)) (fd_ident accessor)) subs with
      | None => Err K_UNKNOWN_SUBMODULE_IN_CONNECTION
      | Some (sname, snode) =>
        do it <- iter_for_kardinality_access sname accessor;
        collect_concat (fun lm => transform_connection_endpoint_inner (pos ++ [lm]) rest (n_subs snode) (n_gates snode)) it
      end
    end
  end.

Definition transform_connection_endpoint (accessors : list FieldDef) subs gates : res (list Endpoint) :=
  transform_connection_endpoint_inner [] accessors subs gates.

Definition transform_connection (def : ConnDef) subs gates (links : list (ident * Link)) : res (list Conn) :=
  do lhs <- transform_connection_endpoint (cd_lhs def) subs gates;
  do rhs <- transform_connection_endpoint (cd_rhs def) subs gates;
  if negb (Nat.eqb (length lhs) (length rhs)) then Err K_UNEQUAL_PEERS else
  do link <- match cd_link def with
             | None => Ok None
             | Some l => match lookup l links with Some v => Ok (Some v) | None => Err K_UNKNOWN_LINK end
             end;
  Ok (map (fun lr => {| cn_l := fst lr; cn_r := snd lr; cn_link := link |}) (combine lhs rhs)).

Definition transform_connections (initial : list Conn) (defs : list ConnDef) subs gates links : res (list Conn) :=
  do more <- collect_concat (fun d => transform_connection d subs gates links) defs;
  Ok (initial ++ more).

(* ---- transform_module ---- *)
Fixpoint has_dup_binding (args : list Generic) : bool :=
  match args with
  | [] => false
  | a :: r => is_binding r (g_binding a) || has_dup_binding r
  end.

(* (4b) two submodule fields of one name and shape (both atoms or both clusters) *)
Definition same_shape (a b : Kard) : bool :=
  match a, b with Atom, Atom => true | Cluster _, Cluster _ => true | _, _ => false end.
Fixpoint has_dup_field (subs : list (FieldDef * Node)) : bool :=
  match subs with
  | [] => false
  | s :: r => existsb (fun o => beq (fd_ident (fst s)) (fd_ident (fst o)) && same_shape (fd_kard (fst s)) (fd_kard (fst o))) r
              || has_dup_field r
  end.

Definition transform_module (fx : bool) (self : TypClause Generic) (def : ModuleDef) (nodes : archetypes)
           (links : list (ident * Link)) : res (Node * list Generic) :=
  if has_dup_binding (tc_args self) then Err K_SYMBOL_ALREADY_DEFINED else
  do gates <- transform_gates (md_gates def);
  do subs <- transform_submodules fx self (md_subs def) nodes;
  do inh <- match md_inherit def with
            | None => Ok (gates, subs, [])
            | Some parent =>
              match lookup parent nodes with
              | None => Panic P_INHERIT_LOOKUP
              | Some (arch, _) => Ok (set_extend gates (n_gates arch), subs ++ n_subs arch, n_conns arch)
              end
            end;
  let '(gates, subs, conns0) := inh in
  if fx && has_dup_field subs then Err K_SYMBOL_ALREADY_DEFINED else
  do conns <- transform_connections conns0 (md_conns def) subs gates links;
  Ok (mkNode (tc_ident self) subs gates conns, tc_args self).

(* ---- transform ---- *)
Fixpoint elaborate (fx : bool) (ordered : list entry) (arch : archetypes) (links : list (ident * Link)) : res archetypes :=
  match ordered with
  | [] => Ok arch
  | e :: r => do a <- transform_module fx (fst (fst e)) (snd (fst e)) arch links;
              elaborate fx r ((e_ident e, a) :: arch) links
  end.

Definition entries (d : Def) : list entry := map (fun im => (im, required_symbols (fst im) (snd im))) (d_modules d).

Definition transform (fx : bool) (d : Def) : res Node :=
  do ordered <- order_loop (S (length (d_modules d))) [] (entries d) [];
  do arch <- elaborate fx ordered [] (d_links d);
  match lookup (d_entry d) arch with
  | Some (n, _) => Ok n
  | None => Err K_UNKNOWN_MODULE
  end.

(* ---- every error the hash-map iteration order could surface ----
   The code walks FxHashMaps (module definitions, submodule fields); which of several faulty
   items it meets first is an artefact of the hash.  [cands] lists the kind of every item
   that can be met first: every faulty submodule field of a module, for every faulty module
   all of whose dependencies elaborate. *)
Definition module_cands (fx : bool) (self : TypClause Generic) (def : ModuleDef) (nodes : archetypes) links : list N :=
  if has_dup_binding (tc_args self) then [K_SYMBOL_ALREADY_DEFINED] else
  match transform_gates (md_gates def) with
  | Err k => [k]
  | _ =>
    let es := flat_map (fun ft => match transform_submodule fx (fst ft) self (snd ft) nodes with Err k => [k] | _ => [] end) (md_subs def) in
    match es with
    | _ :: _ => es
    | [] => match transform_module fx self def nodes links with Err k => [k] | _ => [] end
    end
  end.

Fixpoint elaborate_all (fx : bool) (ordered : list entry) (arch : archetypes) (failed : list ident) links : archetypes * list N :=
  match ordered with
  | [] => (arch, [])
  | e :: r =>
    if existsb (fun s => mem_ident s failed) (snd e) then elaborate_all fx r arch (e_ident e :: failed) links
    else match transform_module fx (fst (fst e)) (snd (fst e)) arch links with
         | Ok a => elaborate_all fx r ((e_ident e, a) :: arch) failed links
         | _ => let '(arch', ks) := elaborate_all fx r arch (e_ident e :: failed) links in
                (arch', module_cands fx (fst (fst e)) (snd (fst e)) arch links ++ ks)
         end
  end.

Definition cands (fx : bool) (d : Def) : list N :=
  match order_loop (S (length (d_modules d))) [] (entries d) [] with
  | Ok ordered =>
    let '(arch, ks) := elaborate_all fx ordered [] [] (d_links d) in
    match ks with
    | _ :: _ => ks
    | [] => match lookup (d_entry d) arch with Some _ => [] | None => [K_UNKNOWN_MODULE] end
    end
  | Err k => [k]
  | _ => []
  end.
