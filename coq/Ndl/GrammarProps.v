(* Totality of the FromStr / Display impls of def.rs (no input string panics) and
   from_str (display v) = Ok v on well-formed values. *)
From Coq Require Import List NArith Bool Lia ZifyBool.
From DesVerif Require Import Ndl.Bytes Ndl.BytesProps Ndl.Grammar.
Import ListNotations.
Open Scope N_scope.

(* the function returned: Ok or Err, no panic, no fuel exhaustion *)
Definition returns {A} (r : res A) : Prop := match r with Ok _ | Err _ => True | _ => False end.

Lemma returns_bind : forall {A B} (r : res A) (f : A -> res B),
  returns r -> (forall a, returns (f a)) -> returns (bind r f).
Proof. intros A B [a|e|s|] f Hr Hf; cbn in *; auto. Qed.

Lemma collect_returns : forall {A B} (f : A -> res B) l, (forall a, returns (f a)) -> returns (collect f l).
Proof.
  intros A B f l Hf. induction l as [|a l IH]; cbn [collect]; [exact I|].
  apply returns_bind; [apply Hf|]. intros b. apply returns_bind; [exact IH|]. intros bs. exact I.
Qed.

(* ---- no input string panics (the code as it is now) ---- *)
Lemma typclause_from_str_returns : forall {A} (arg : bytes -> res A) s,
  (forall x, returns (arg x)) -> returns (typclause_from_str true arg s).
Proof.
  intros A arg s Harg. unfold typclause_from_str.
  destruct (split_once_char LPAREN s) as [[ident rem]|]; [|exact I].
  destruct (negb (last_is RPAREN rem)); [exact I|].
  apply returns_bind; [apply collect_returns; exact Harg|]. intros args. exact I.
Qed.

Lemma generic_from_str_returns : forall s, returns (generic_from_str s).
Proof. intros s. unfold generic_from_str. destruct (split_once_2 LT MINUS s) as [[a b]|]; exact I. Qed.

Lemma field_from_str_returns : forall s, returns (field_from_str s).
Proof.
  intros s. unfold field_from_str. destruct (last_is RBRACK s); [|exact I].
  destruct (split_once_char LBRACK s) as [[a b]|]; [|exact I].
  destruct (parse_usize _); exact I.
Qed.

Lemma endpoint_from_str_returns : forall s, returns (endpoint_from_str s).
Proof. intros s. apply collect_returns. exact field_from_str_returns. Qed.

Lemma typclause_display_returns : forall {A} (d : A -> bytes) t, returns (typclause_display d t).
Proof.
  intros A d t. unfold typclause_display. destruct (tc_args t) as [|a r]; [exact I|].
  cbn [map reduce_args bind]. exact I.
Qed.

(* an endpoint that parses has at least one accessor (transform's assert!(!accessors.is_empty())) *)
Lemma split_char_acc_nonempty : forall c s cur, split_char_acc c cur s <> [].
Proof.
  intros c s. induction s as [|x s IH]; intros cur; cbn [split_char_acc]; [discriminate|].
  destruct (x =? c); [discriminate|apply IH].
Qed.

Lemma collect_length : forall {A B} (f : A -> res B) l v, collect f l = Ok v -> length v = length l.
Proof.
  intros A B f l. induction l as [|a l IH]; intros v H; cbn [collect] in H.
  - injection H as <-. reflexivity.
  - destruct (f a) as [b| | |]; cbn [bind] in H; try discriminate.
    destruct (collect f l) as [bs| | |]; cbn [bind] in H; try discriminate.
    injection H as <-. cbn [length]. f_equal. apply IH. reflexivity.
Qed.

Lemma endpoint_from_str_nonempty : forall s e, endpoint_from_str s = Ok e -> e <> [].
Proof.
  intros s e H. apply collect_length in H. intros ->. cbn [length] in H.
  unfold split_char in H. pose proof (split_char_acc_nonempty SLASH s []) as Hn.
  destruct (split_char_acc SLASH [] s); [congruence|discriminate].
Qed.

(* ---- round trips ---- *)
Definition wf_kard (k : Kard) : Prop := match k with Atom => True | Cluster n => n <= USIZE_MAX end.
Definition wf_field (f : FieldDef) : Prop := wf_name (fd_ident f) /\ wf_kard (fd_kard f).
Definition wf_generic (g : Generic) : Prop := wf_name (g_binding g) /\ wf_name (g_bound g).

Lemma field_roundtrip : forall f, wf_field f -> field_from_str (field_display f) = Ok f.
Proof.
  intros [ident k] [Hn Hk]. cbn [fd_ident fd_kard] in *. unfold field_from_str, field_display. cbn [fd_ident fd_kard].
  destruct k as [|n].
  - rewrite last_is_false; [reflexivity|]. apply wf_name_not_in; [exact Hn|reflexivity].
  - cbn [wf_kard] in Hk. destruct (to_dec_spec n) as (_ & Hd & _).
    replace (ident ++ [LBRACK] ++ to_dec n ++ [RBRACK]) with ((ident ++ [LBRACK] ++ to_dec n) ++ [RBRACK])
      by (rewrite <- !app_assoc; reflexivity).
    rewrite last_is_snoc, N.eqb_refl. rewrite <- !app_assoc. cbn [app].
    rewrite split_once_char_app by (apply wf_name_not_in; [exact Hn|reflexivity]).
    rewrite trim_end_matches_snoc.
    2:{ intros Hi. rewrite Forall_forall in Hd. apply Hd in Hi. apply digit_not in Hi. tauto. }
    rewrite parse_usize_to_dec by exact Hk. reflexivity.
Qed.

Lemma generic_roundtrip : forall g, wf_generic g -> generic_from_str (generic_display g) = Ok g.
Proof.
  intros [a b] [Ha Hb]. cbn [g_binding g_bound] in *. unfold generic_from_str, generic_display. cbn [g_binding g_bound].
  replace (a ++ [SPACE; LT; MINUS; SPACE] ++ b) with ((a ++ [SPACE]) ++ LT :: MINUS :: (SPACE :: b))
    by (rewrite <- app_assoc; reflexivity).
  rewrite split_once_2_app.
  2:{ intros Hi. apply in_app_or in Hi as [Hi|[Hi|[]]]; [|discriminate].
      revert Hi. apply wf_name_not_in; [exact Ha|reflexivity]. }
  f_equal. f_equal.
  - apply (trim_spec [] a [SPACE]); [constructor|apply wf_name_no_ws; exact Ha|repeat constructor].
  - pose proof (trim_spec [SPACE] b []) as E. rewrite app_nil_r in E.
    apply E; [repeat constructor|apply wf_name_no_ws; exact Hb|constructor].
Qed.

Lemma collect_map_roundtrip : forall {A} (parse : bytes -> res A) (disp : A -> bytes) l,
  Forall (fun a => parse (disp a) = Ok a) l -> collect parse (map disp l) = Ok l.
Proof.
  intros A parse disp l H. induction H as [|a l Ha _ IH]; cbn [map collect]; [reflexivity|].
  rewrite Ha. cbn [bind]. rewrite IH. reflexivity.
Qed.

(* TypClause<Arg>: the displayed arguments must not contain the separator's comma *)
Lemma typclause_roundtrip : forall {A} (parse : bytes -> res A) (disp : A -> bytes) (t : TypClause A),
  wf_name (tc_ident t) ->
  Forall (fun a => parse (disp a) = Ok a /\ ~ In COMMA (disp a) /\ ~ In RPAREN (disp a)) (tc_args t) ->
  exists s, typclause_display disp t = Ok s /\ typclause_from_str true parse s = Ok t.
Proof.
  intros A parse disp [ident args] Hn Hargs. cbn [tc_ident tc_args] in *.
  unfold typclause_display. cbn [tc_ident tc_args]. destruct args as [|a r].
  - exists ident. split; [reflexivity|]. unfold typclause_from_str.
    rewrite split_once_char_none; [reflexivity|]. apply wf_name_not_in; [exact Hn|reflexivity].
  - set (l := map disp (a :: r)). assert (Hl : l <> []) by discriminate.
    assert (Hred : reduce_args l = Ok (join [COMMA; SPACE] l)) by (unfold l; reflexivity).
    rewrite Hred. cbn [bind]. eexists. split; [reflexivity|].
    unfold typclause_from_str. change ([LPAREN] ++ join [COMMA; SPACE] l ++ [RPAREN]) with (LPAREN :: (join [COMMA; SPACE] l ++ [RPAREN])).
    rewrite split_once_char_app by (apply wf_name_not_in; [exact Hn|reflexivity]).
    assert (Hjoin : ~ In RPAREN (join [COMMA; SPACE] l)).
    { assert (Hall : Forall (fun x => ~ In RPAREN x) l).
      { unfold l. apply Forall_forall. intros x Hx. apply in_map_iff in Hx as (y & <- & Hy).
        rewrite Forall_forall in Hargs. apply Hargs in Hy. tauto. }
      clear - Hall. induction l as [|x l IH]; [intros []|].
      inversion Hall; subst. destruct l as [|y l]; [assumption|].
      change (join [COMMA; SPACE] (x :: y :: l)) with (x ++ [COMMA; SPACE] ++ join [COMMA; SPACE] (y :: l)).
      intros Hi. apply in_app_or in Hi as [Hi|Hi]; [tauto|]. apply in_app_or in Hi as [Hi|Hi].
      - destruct Hi as [Hi|[Hi|[]]]; discriminate.
      - apply IH in Hi; assumption. }
    rewrite last_is_snoc, N.eqb_refl. cbn [negb].
    rewrite trim_end_matches_snoc by exact Hjoin.
    rewrite split_2_join; [|exact Hl|].
    2:{ unfold l. apply Forall_forall. intros x Hx. apply in_map_iff in Hx as (y & <- & Hy).
        rewrite Forall_forall in Hargs. apply Hargs in Hy. tauto. }
    unfold l. rewrite collect_map_roundtrip.
    2:{ eapply Forall_impl; [|exact Hargs]. cbn. tauto. }
    cbn [bind]. rewrite trim_id by (apply wf_name_no_ws; exact Hn). reflexivity.
Qed.

Lemma string_arg_ok : forall s, wf_name s ->
  string_from_str s = Ok s /\ ~ In COMMA s /\ ~ In RPAREN s.
Proof.
  intros s H. split; [reflexivity|]. split; apply wf_name_not_in; try exact H; reflexivity.
Qed.

Lemma generic_arg_ok : forall g, wf_generic g ->
  generic_from_str (generic_display g) = Ok g /\ ~ In COMMA (generic_display g) /\ ~ In RPAREN (generic_display g).
Proof.
  intros g Hg. split; [apply generic_roundtrip; exact Hg|]. destruct Hg as [Ha Hb]. unfold generic_display.
  split; intros Hi; apply in_app_or in Hi as [Hi|Hi];
    try (revert Hi; apply wf_name_not_in; [eassumption|reflexivity]);
    apply in_app_or in Hi as [Hi|Hi];
    try (revert Hi; apply wf_name_not_in; [eassumption|reflexivity]);
    destruct Hi as [Hi|[Hi|[Hi|[Hi|[]]]]]; discriminate.
Qed.

Lemma endpoint_roundtrip : forall e, e <> [] -> Forall wf_field e -> endpoint_from_str (endpoint_display e) = Ok e.
Proof.
  intros e Hne Hf. unfold endpoint_from_str, endpoint_display.
  rewrite split_char_join.
  - apply collect_map_roundtrip. eapply Forall_impl; [|exact Hf]. intros f. apply field_roundtrip.
  - destruct e; [congruence|discriminate].
  - apply Forall_forall. intros x Hx. apply in_map_iff in Hx as (f & <- & Hfi).
    rewrite Forall_forall in Hf. destruct (Hf f Hfi) as [Hn Hk]. unfold field_display.
    destruct (fd_kard f) as [|n]; [apply wf_name_not_in; [exact Hn|reflexivity]|].
    intros Hi. apply in_app_or in Hi as [Hi|Hi]; [revert Hi; apply wf_name_not_in; [exact Hn|reflexivity]|].
    apply in_app_or in Hi as [Hi|Hi]; [destruct Hi as [Hi|[]]; discriminate|].
    apply in_app_or in Hi as [Hi|Hi]; [|destruct Hi as [Hi|[]]; discriminate].
    destruct (to_dec_spec n) as (_ & Hd & _). rewrite Forall_forall in Hd. apply Hd in Hi. apply digit_not in Hi. tauto.
Qed.

(* ---- the pinned code: the assert! fires ---- *)
Lemma pinned_unclosed_clause_panics :
  typclause_from_str false generic_from_str [65; 40; 84; 32; 60; 45; 32; 73] = Panic P_ASSERT_ENDS_WITH_PAREN.
Proof. reflexivity. Qed.
