(* Known finding F11c.  The replacement loop of transform_submodule recognises placeholders by their symbol
   only.  A generic definition that inherits a submodule whose (global) type is named like one of its own
   type parameters gets that submodule replaced at every instantiation as well; inherited connections into
   it may then name gates the argument does not have, so the elaborated tree has an endpoint that does
   not resolve and the build panics at access_gate(..).expect("gate" / "child").

   [KnownClass d]: the description elaborates to a tree that is not [tree_ok].
   [f11c_shape d]: the narrow syntactic shape of the finding (what tools/props/c18.py `known_class` tests):
   some definition G with a type parameter T has, along its `inherit` chain, a definition with a submodule
   field of type `T` (no arguments); or an instantiation `G(A1..An)` passes an argument named like a later type
   parameter of G.  Every KnownClass description met by the check has this shape (the
   monitor raises a violation otherwise); KnownClass d -> f11c_shape d = true is not proved. *)
From Coq Require Import List NArith Bool.
From DesVerif Require Import Ndl.Bytes Ndl.Grammar Ndl.Def Ndl.Transform Ndl.Build Ndl.Denote Ndl.Realisable Ndl.BuildTotal.
Import ListNotations.

Definition KnownClass (d : Def) : Prop := exists n, transform true d = Ok n /\ tree_ok n = false.

Fixpoint chain_uses (d : Def) (fuel : nat) (binds : list Generic) (k : option ident) : bool :=
  match fuel, k with
  | S f, Some name =>
    match find_entry d name with
    | Some (_, m) =>
      existsb (fun st => match tc_args (snd st) with [] => is_binding binds (tc_ident (snd st)) | _ => false end) (md_subs m)
      || chain_uses d f binds (md_inherit m)
    | None => false
    end
  | _, _ => false
  end.

(* second shape, same cause: in `x: G(A1..An)` an earlier argument A_i is named like a LATER type parameter of G; after
   A_i's tree has been substituted its symbol matches that parameter and the loop replaces it again *)
Fixpoint arg_named_like_later (reqs : list Generic) (args : list ident) : bool :=
  match reqs, args with
  | _ :: reqs', a :: args' => is_binding reqs' a || arg_named_like_later reqs' args'
  | _, _ => false
  end.

Definition f11c_shape (d : Def) : bool :=
  existsb (fun im => match tc_args (fst im) with
                     | [] => false
                     | binds => chain_uses d (length (d_modules d)) binds (md_inherit (snd im))
                     end) (d_modules d) ||
  existsb (fun im => existsb (fun st => match find_entry d (tc_ident (snd st)) with
                                        | Some (g, _) => arg_named_like_later (tc_args g) (tc_args (snd st))
                                        | None => false
                                        end) (md_subs (snd im))) (d_modules d).

(* outside the known class: when elaboration succeeds, every symbol is registered and the wiring is realisable
   (no statement connects a gate position to itself or gives one a third peer), the build succeeds *)
Theorem build_succeeds_when_realisable : forall registered d n,
  ~ KnownClass d -> transform true d = Ok n ->
  forallb (fun m => registered (snd m)) (den_mods n []) = true -> wiring_ok (den_conns n []) [] = true ->
  exists st, build registered n = Ok st.
Proof.
  intros registered d n Hk Ht Hr Hw. apply realisable_builds. unfold realisable.
  destruct (tree_ok n) eqn:E; [rewrite Hr, Hw; reflexivity|]. exfalso. apply Hk. exists n. split; assumption.
Qed.
