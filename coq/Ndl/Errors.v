(* errors_classified: each malformation named by the property yields its ErrorKind.  One lemma
   per kind, each with an explicit syntactic hypothesis, stated at the function of mod.rs that
   detects it; [elaborate_first_error] / [transform_reports] lift a definition's error to
   `transform`.  [fx] is arbitrary unless the check exists only in the current code. *)
From Coq Require Import List NArith Bool Lia Arith.
From DesVerif Require Import Ndl.Bytes Ndl.BytesProps Ndl.Grammar Ndl.GrammarProps Ndl.Def Ndl.Transform Ndl.Order Ndl.Total.
Import ListNotations.
Local Open Scope nat_scope.

(* ---- unresolvable or cyclic dependencies; unknown type ---- *)
Theorem blocked_unresolvable : forall fx d C, blocked (entries d) C ->
  transform fx d = Err K_UNRESOLVABLE_DEPENDENCY.
Proof.
  intros fx d C H. unfold transform.
  replace (length (d_modules d)) with (length (entries d)) by (unfold entries; apply map_length).
  rewrite (order_loop_blocked _ _ H). reflexivity.
Qed.

(* a submodule type, type argument, generic bound or `inherit` that names no definition *)
Theorem unknown_type_unresolvable : forall fx d im s,
  In im (d_modules d) -> In s (required_symbols (fst im) (snd im)) ->
  (forall im', In im' (d_modules d) -> tc_ident (fst im') <> s) ->
  transform fx d = Err K_UNRESOLVABLE_DEPENDENCY.
Proof.
  intros fx d im s Him Hs Hno. apply (blocked_unresolvable fx d [(im, required_symbols (fst im) (snd im))]).
  split; [discriminate|]. split.
  - intros e [<-|[]]. unfold entries. apply in_map_iff. exists im. split; [reflexivity|exact Him].
  - intros e [<-|[]]. exists s. split; [exact Hs|]. intros e' He' Ee'. exfalso.
    unfold entries in He'. apply in_map_iff in He' as (im' & <- & Him'). exact (Hno im' Him' Ee').
Qed.

(* `inherit` is required whatever the module's own generic bindings are called: the parent is added AFTER the
   bindings are subtracted (def.rs required_symbols, step 3), so `Host(P <- Iface)` with `inherit: P` waits for a
   global definition P *)
Lemma inherit_is_required : forall self m p, md_inherit m = Some p -> In p (required_symbols self m).
Proof.
  intros self m p H. unfold required_symbols. apply in_or_app. right. apply in_or_app. right. rewrite H. left. reflexivity.
Qed.

(* the bound of EVERY type parameter is required, whatever the parameters are called: bounds are added after all
   bindings have been subtracted (def.rs required_symbols: pass (1) removes the bindings, pass (2) adds the bounds), so in
   `Lan(Host <- Node, Node <- Switch)` the global module Node stays required although a later parameter is called Node *)
Lemma bounds_are_required : forall self m g, In g (tc_args self) -> In (g_bound g) (required_symbols self m).
Proof.
  intros self m g Hg. unfold required_symbols. apply in_or_app. right. apply in_or_app. left. apply in_map. exact Hg.
Qed.

(* ... and everything else a submodule names is required unless the module binds that name itself *)
Lemma unbound_names_are_required : forall self m f t s,
  In (f, t) (md_subs m) -> (s = tc_ident t \/ In s (tc_args t)) -> is_binding (tc_args self) s = false ->
  In s (required_symbols self m).
Proof.
  intros self m f t s Hin Hs Hnb. unfold required_symbols. apply in_or_app. left.
  apply filter_In. split; [|rewrite Hnb; reflexivity].
  apply in_or_app. destruct Hs as [->|Hs].
  - left. apply in_map_iff. exists (f, t). split; [reflexivity|exact Hin].
  - right. apply in_flat_map. exists (f, t). split; [exact Hin|exact Hs].
Qed.

Theorem shadowed_bound_unresolvable : forall fx d im g,
  In im (d_modules d) -> In g (tc_args (fst im)) ->
  (forall im', In im' (d_modules d) -> tc_ident (fst im') <> g_bound g) ->
  transform fx d = Err K_UNRESOLVABLE_DEPENDENCY.
Proof.
  intros fx d im g Him Hg Hno. eapply unknown_type_unresolvable; [exact Him|apply bounds_are_required; exact Hg|exact Hno].
Qed.

Theorem inherit_of_own_binding_unresolvable : forall fx d im p,
  In im (d_modules d) -> md_inherit (snd im) = Some p -> is_binding (tc_args (fst im)) p = true ->
  (forall im', In im' (d_modules d) -> tc_ident (fst im') <> p) ->
  transform fx d = Err K_UNRESOLVABLE_DEPENDENCY.
Proof.
  intros fx d im p Him Hinh _ Hno. eapply unknown_type_unresolvable; [exact Him|apply inherit_is_required; exact Hinh|exact Hno].
Qed.

(* a dependency cycle: definitions each of which requires the name of one of them, the names being
   defined nowhere else *)
Theorem dependency_cycle_unresolvable : forall fx d (C : list (TypClause Generic * ModuleDef)),
  C <> [] -> incl C (d_modules d) ->
  (forall im, In im C -> exists im', In im' C /\ In (tc_ident (fst im')) (required_symbols (fst im) (snd im))) ->
  (forall im im', In im C -> In im' (d_modules d) -> tc_ident (fst im') = tc_ident (fst im) -> In im' C) ->
  transform fx d = Err K_UNRESOLVABLE_DEPENDENCY.
Proof.
  intros fx d C Hne Hincl Hdep Hclosed.
  apply (blocked_unresolvable fx d (map (fun im => (im, required_symbols (fst im) (snd im))) C)).
  split; [destruct C; [congruence|discriminate]|]. split.
  - intros e He. apply in_map_iff in He as (im & <- & Him). unfold entries. apply in_map_iff.
    exists im. split; [reflexivity|apply Hincl; exact Him].
  - intros e He. apply in_map_iff in He as (im & <- & Him). destruct (Hdep im Him) as (im' & Him' & Hreq).
    exists (tc_ident (fst im')). split; [exact Hreq|]. intros e' He' Ee'.
    unfold entries in He'. apply in_map_iff in He' as (im'' & <- & Him'').
    apply (in_map (fun im0 => (im0, required_symbols (fst im0) (snd im0)))). exact (Hclosed im' im'' Him' Him'' Ee').
Qed.

(* ---- per definition ---- *)
Theorem duplicate_binding_error : forall fx self m nodes links, has_dup_binding (tc_args self) = true ->
  transform_module fx self m nodes links = Err K_SYMBOL_ALREADY_DEFINED.
Proof. intros fx self m nodes links H. unfold transform_module. rewrite H. reflexivity. Qed.

Theorem zero_sized_gate_cluster_error : forall fx self m nodes links g,
  has_dup_binding (tc_args self) = false -> In g (md_gates m) -> fd_kard g = Cluster 0 ->
  transform_module fx self m nodes links = Err K_INVALID_GATE.
Proof.
  intros fx self m nodes links g Hd Hin Hk. unfold transform_module, transform_gates. rewrite Hd.
  assert (E : existsb (fun v => kard_eqb (fd_kard v) (Cluster 0)) (md_gates m) = true).
  { apply existsb_exists. exists g. split; [exact Hin|]. rewrite Hk. reflexivity. }
  rewrite E. reflexivity.
Qed.

Theorem zero_sized_submodule_cluster_error : forall fx field self typ nodes, fd_kard field = Cluster 0 ->
  transform_submodule fx field self typ nodes = Err K_INVALID_SUBMODULE.
Proof. intros fx field self typ nodes H. unfold transform_submodule. rewrite H. reflexivity. Qed.

(* two submodule fields of one name and shape, own or inherited (fix a6f4ffc): rejected, so that the build
   never creates two nodes at one path *)
Theorem duplicate_submodule_field_error : forall self m nodes links gates subs,
  has_dup_binding (tc_args self) = false -> transform_gates (md_gates m) = Ok gates ->
  transform_submodules true self (md_subs m) nodes = Ok subs ->
  has_dup_field (subs ++ match md_inherit m with
                         | Some p => match lookup p nodes with Some (arch, _) => n_subs arch | None => [] end
                         | None => [] end) = true ->
  (forall p, md_inherit m = Some p -> lookup p nodes <> None) ->
  transform_module true self m nodes links = Err K_SYMBOL_ALREADY_DEFINED.
Proof.
  intros self m nodes links gates subs Hd Hg Hs Hdup Hp. unfold transform_module. rewrite Hd, Hg. cbn [bind]. rewrite Hs. cbn [bind].
  destruct (md_inherit m) as [p|].
  - destruct (lookup p nodes) as [[arch ga]|] eqn:El; [|exfalso; exact (Hp p eq_refl El)].
    cbn [bind andb]. rewrite Hdup. reflexivity.
  - cbn [bind andb]. rewrite app_nil_r in Hdup. rewrite Hdup. reflexivity.
Qed.

(* the check is over ALL pairs: two fields of one name and shape are found wherever they sit among the own and
   inherited fields -- next to each other or with any other fields (e.g. an odd-shaped field of the same name) between *)
Lemma has_dup_field_any_position : forall pre a mid b post,
  fd_ident (fst a) = fd_ident (fst b) -> same_shape (fd_kard (fst a)) (fd_kard (fst b)) = true ->
  has_dup_field (pre ++ a :: mid ++ b :: post) = true.
Proof.
  intros pre a mid b post Hn Hs. induction pre as [|x pre IH]; cbn [app has_dup_field].
  - apply orb_true_iff. left. apply existsb_exists. exists b. split; [apply in_or_app; right; left; reflexivity|].
    rewrite Hn, beq_refl, Hs. reflexivity.
  - rewrite IH. apply orb_true_r.
Qed.

(* one atom and one cluster of a name are not a duplicate: `x` next to `x[2]` is legal and denotes x, x[0], x[1] *)
Lemma atom_and_cluster_no_dup : forall f k (na nb : Node),
  has_dup_field [({| fd_ident := f; fd_kard := Atom |}, na); ({| fd_ident := f; fd_kard := Cluster k |}, nb)] = false.
Proof. intros. cbn. rewrite andb_false_r. reflexivity. Qed.

Definition nonzero (f : FieldDef) : Prop := kard_eqb (fd_kard f) (Cluster 0) = false.

(* `x: G` where G still has generics *)
Theorem missing_type_arguments_error : forall fx field self typ nodes node g gs,
  nonzero field -> tc_args typ = [] ->
  lookup (inner_ty_to_outer_ty (tc_args self) (tc_ident typ)) nodes = Some (node, g :: gs) ->
  transform_submodule fx field self typ nodes = Err K_INVALID_TYP_STATEMENT.
Proof. intros fx field self typ nodes node g gs Hz Ha Hl. unfold transform_submodule. rewrite Hz, Ha, Hl. reflexivity. Qed.

(* `x: G(A, B)` with a number of arguments different from G's generics (in particular arguments for a plain type) *)
Theorem wrong_number_of_type_arguments_error : forall fx field self typ nodes node reqs,
  nonzero field -> tc_args typ <> [] -> is_binding (tc_args self) (tc_ident typ) = false ->
  lookup (tc_ident typ) nodes = Some (node, reqs) -> length reqs <> length (tc_args typ) ->
  transform_submodule fx field self typ nodes = Err K_INVALID_TYP_STATEMENT.
Proof.
  intros fx field self typ nodes node reqs Hz Ha Hb Hl Hlen. unfold transform_submodule. rewrite Hz.
  destruct (tc_args typ) as [|a0 r0] eqn:E; [congruence|]. rewrite Hb, andb_false_r, Hl.
  apply Nat.eqb_neq in Hlen. rewrite Hlen. reflexivity.
Qed.

(* `x: T(A)` where T is a generic parameter of the enclosing definition (fix 5295e98, case d) *)
Theorem arguments_on_generic_parameter_error : forall field self typ nodes,
  nonzero field -> tc_args typ <> [] -> is_binding (tc_args self) (tc_ident typ) = true ->
  transform_submodule true field self typ nodes = Err K_INVALID_TYP_STATEMENT.
Proof.
  intros field self typ nodes Hz Ha Hb. unfold transform_submodule. rewrite Hz.
  destruct (tc_args typ); [congruence|]. rewrite Hb. reflexivity.
Qed.

(* the first type argument is a generic parameter of the enclosing definition (case b) *)
Theorem generic_passed_on_error : forall self_args nodes gb req name args node,
  is_binding self_args name = true ->
  replace_loop true self_args nodes (gb :: req) (name :: args) node = Err K_GENERIC_PASSED_AS_TYP_ARGUMENT.
Proof. intros. cbn [replace_loop]. rewrite H. reflexivity. Qed.

(* the first type argument is a type that has generics itself (case c) *)
Theorem generic_type_as_argument_error : forall self_args nodes gb req name args node repl d ds,
  is_binding self_args name = false -> lookup name nodes = Some (repl, d :: ds) ->
  replace_loop true self_args nodes (gb :: req) (name :: args) node = Err K_INVALID_TYP_STATEMENT.
Proof. intros. cbn [replace_loop]. rewrite H, H0. reflexivity. Qed.

Theorem non_conforming_argument_error : forall fx self_args nodes gb req name args node repl iface gi,
  is_binding self_args name = false -> lookup name nodes = Some (repl, []) ->
  lookup (g_bound gb) nodes = Some (iface, gi) -> conform_to repl iface = false ->
  replace_loop fx self_args nodes (gb :: req) (name :: args) node = Err K_DOES_NOT_CONFORM.
Proof. intros. cbn [replace_loop]. rewrite H, andb_false_r, H0, H1, H2. reflexivity. Qed.

(* conformance compares the inlined subtrees: a submodule of the interface must be matched by a submodule of the argument
   that is equal as a TREE (field, symbol, gates as a set, submodules and connections recursively) -- an equal field name
   and type symbol are not enough (`x: B(C1)` and `x: B(C2)` both carry the symbol B) *)
Lemma deep_mismatch_not_conform : forall repl iface s,
  In s (n_subs iface) -> (forall o, In o (n_subs repl) -> sub_eqb o s = false) -> conform_to repl iface = false.
Proof.
  intros repl iface s Hs Hno. unfold conform_to. apply andb_false_iff. left. apply andb_false_iff. right.
  apply not_true_is_false. intros H. rewrite forallb_forall in H. specialize (H s Hs).
  apply existsb_exists in H as (o & Ho & E). rewrite (Hno o Ho) in E. discriminate.
Qed.

Lemma sub_eqb_needs_equal_subtrees : forall f f' t t' subs subs' g g' c c',
  sub_eqb (f, mkNode t subs g c) (f', mkNode t' subs' g' c') = true ->
  length subs = length subs' /\ forall i a b, nth_error subs i = Some a -> nth_error subs' i = Some b -> sub_eqb a b = true.
Proof.
  intros f f' t t' subs subs' g g' c c' H. unfold sub_eqb in H. cbn [fst snd node_eqb] in H.
  apply andb_true_iff in H as [_ H]. apply andb_true_iff in H as [H _]. apply andb_true_iff in H as [H _].
  apply andb_true_iff in H as [_ H]. revert subs' H. induction subs as [|[fa na] subs IH]; intros [|[fb nb] subs'] H; try discriminate.
  - split; [reflexivity|]. intros [|i] a b Ha; discriminate.
  - apply andb_true_iff in H as [H Hr]. destruct (IH subs' Hr) as [Hl Hn]. split; [cbn [length]; f_equal; exact Hl|].
    intros [|i] a b Ha Hb; cbn [nth_error] in Ha, Hb.
    + injection Ha as <-. injection Hb as <-. unfold sub_eqb. cbn [fst snd]. exact H.
    + exact (Hn i a b Ha Hb).
Qed.

(* a conforming first argument is substituted and the loop goes on with the next one *)
Theorem conforming_argument_step : forall fx self_args nodes gb req name args node repl iface gi,
  is_binding self_args name = false -> lookup name nodes = Some (repl, []) ->
  lookup (g_bound gb) nodes = Some (iface, gi) -> conform_to repl iface = true ->
  replace_loop fx self_args nodes (gb :: req) (name :: args) node =
  replace_loop fx self_args nodes req args
               (mkNode (n_typ node) (replace_subs (g_binding gb) repl (n_subs node)) (n_gates node) (n_conns node)).
Proof. intros. cbn [replace_loop]. rewrite H, andb_false_r, H0, H1, H2. reflexivity. Qed.

Lemma replace_error_lifts : forall fx field self typ nodes node reqs k,
  nonzero field -> tc_args typ <> [] -> is_binding (tc_args self) (tc_ident typ) = false ->
  lookup (tc_ident typ) nodes = Some (node, reqs) -> length reqs = length (tc_args typ) ->
  replace_loop fx (tc_args self) nodes reqs (tc_args typ) node = Err k ->
  transform_submodule fx field self typ nodes = Err k.
Proof.
  intros fx field self typ nodes node reqs k Hz Ha Hb Hl Hlen Hr. unfold transform_submodule. rewrite Hz.
  destruct (tc_args typ) as [|a0 r0] eqn:E; [congruence|]. rewrite Hb, andb_false_r, Hl.
  apply Nat.eqb_eq in Hlen. rewrite Hlen. cbn [negb]. rewrite Hr. reflexivity.
Qed.

(* ---- connections ---- *)
Theorem unknown_gate_error : forall pos acc subs gates,
  (forall g, In g gates -> fd_ident g <> fd_ident acc) ->
  transform_connection_endpoint_inner pos [acc] subs gates = Err K_UNKNOWN_GATE_IN_CONNECTION.
Proof.
  intros pos acc subs gates H. cbn [transform_connection_endpoint_inner].
  destruct (find _ gates) as [g|] eqn:E; [|reflexivity].
  apply find_some in E as [Hin Hb]. apply beq_eq in Hb. exfalso. exact (H g Hin Hb).
Qed.

Theorem unknown_submodule_error : forall pos acc b rest subs gates,
  (forall s, In s subs -> fd_ident (fst s) <> fd_ident acc) ->
  transform_connection_endpoint_inner pos (acc :: b :: rest) subs gates = Err K_UNKNOWN_SUBMODULE_IN_CONNECTION.
Proof.
  intros pos acc b rest subs gates H. cbn [transform_connection_endpoint_inner].
  destruct (find _ subs) as [[sn snode]|] eqn:E; [|reflexivity].
  apply find_some in E as [Hin Hb]. apply beq_eq in Hb. exfalso. exact (H _ Hin Hb).
Qed.

Theorem index_out_of_bounds_error : forall def access n i,
  fd_kard def = Cluster n -> fd_kard access = Cluster i -> (n <= i)%N ->
  iter_for_kardinality_access def access = Err K_CONNECTION_INDEX_OUT_OF_BOUNDS.
Proof.
  intros def access n i Hd Ha Hle. unfold iter_for_kardinality_access. rewrite Hd, Ha.
  destruct (N.ltb_spec i n); [lia|reflexivity].
Qed.

Theorem index_into_atom_error : forall def access i,
  fd_kard def = Atom -> fd_kard access = Cluster i ->
  iter_for_kardinality_access def access = Err K_CONNECTION_INDEX_OUT_OF_BOUNDS.
Proof. intros def access i Hd Ha. unfold iter_for_kardinality_access. rewrite Hd, Ha. reflexivity. Qed.

(* an access error of the gate / of the first submodule on the way surfaces from the endpoint *)
Lemma gate_access_error_lifts : forall pos acc subs gates gd k,
  find (fun g => beq (fd_ident g) (fd_ident acc)) gates = Some gd -> iter_for_kardinality_access gd acc = Err k ->
  transform_connection_endpoint_inner pos [acc] subs gates = Err k.
Proof. intros. cbn [transform_connection_endpoint_inner]. rewrite H, H0. reflexivity. Qed.

Lemma submodule_access_error_lifts : forall pos acc b rest subs gates sn snode k,
  find (fun s => beq (fd_ident (fst s)) (fd_ident acc)) subs = Some (sn, snode) -> iter_for_kardinality_access sn acc = Err k ->
  transform_connection_endpoint_inner pos (acc :: b :: rest) subs gates = Err k.
Proof. intros. cbn [transform_connection_endpoint_inner]. rewrite H, H0. reflexivity. Qed.

Theorem unequal_cluster_sizes_error : forall def subs gates links lhs rhs,
  transform_connection_endpoint (cd_lhs def) subs gates = Ok lhs ->
  transform_connection_endpoint (cd_rhs def) subs gates = Ok rhs ->
  length lhs <> length rhs ->
  transform_connection def subs gates links = Err K_UNEQUAL_PEERS.
Proof.
  intros def subs gates links lhs rhs Hl Hr Hne. unfold transform_connection. rewrite Hl, Hr. cbn [bind].
  apply Nat.eqb_neq in Hne. rewrite Hne. reflexivity.
Qed.

Theorem unknown_link_error : forall def subs gates links lhs rhs l,
  transform_connection_endpoint (cd_lhs def) subs gates = Ok lhs ->
  transform_connection_endpoint (cd_rhs def) subs gates = Ok rhs ->
  length lhs = length rhs -> cd_link def = Some l -> lookup l links = None ->
  transform_connection def subs gates links = Err K_UNKNOWN_LINK.
Proof.
  intros def subs gates links lhs rhs l Hl Hr He Hk Hn. unfold transform_connection. rewrite Hl, Hr. cbn [bind].
  apply Nat.eqb_eq in He. rewrite He. cbn [negb]. rewrite Hk, Hn. reflexivity.
Qed.

(* ---- lifting a definition's error to transform ---- *)
Lemma elaborate_app : forall fx pre post arch links,
  elaborate fx (pre ++ post) arch links = do a <- elaborate fx pre arch links; elaborate fx post a links.
Proof.
  intros fx pre. induction pre as [|e pre IH]; intros post arch links; cbn [app elaborate bind]; [reflexivity|].
  destruct (transform_module fx _ _ arch links) as [a| | |]; cbn [bind]; try reflexivity. apply IH.
Qed.

Theorem elaborate_first_error : forall fx pre e post arch arch' links k,
  elaborate fx pre arch links = Ok arch' ->
  transform_module fx (fst (fst e)) (snd (fst e)) arch' links = Err k ->
  elaborate fx (pre ++ e :: post) arch links = Err k.
Proof.
  intros fx pre e post arch arch' links k Hp He. rewrite elaborate_app, Hp. cbn [bind elaborate]. rewrite He. reflexivity.
Qed.

(* ---- unknown entry ---- *)
Lemma elaborate_keys : forall fx l arch links arch', elaborate fx l arch links = Ok arch' ->
  forall k v, lookup k arch' = Some v -> lookup k arch <> None \/ exists e, In e l /\ e_ident e = k.
Proof.
  intros fx l. induction l as [|e l IH]; intros arch links arch' H k v Hk; cbn [elaborate] in H.
  - injection H as <-. left. congruence.
  - destruct (transform_module fx _ _ arch links) as [a| | |]; cbn [bind] in H; try discriminate.
    destruct (IH _ _ _ H k v Hk) as [Hl|(e' & He' & Ee')].
    + cbn [lookup] in Hl. destruct (beq k (e_ident e)) eqn:Eb.
      * right. exists e. split; [left; reflexivity|]. apply beq_eq in Eb. congruence.
      * left. exact Hl.
    + right. exists e'. split; [right; exact He'|exact Ee'].
Qed.

Theorem unknown_entry_error : forall fx d,
  (forall im, In im (d_modules d) -> tc_ident (fst im) <> d_entry d) ->
  forall n, transform fx d <> Ok n.
Proof.
  intros fx d Hno n H. unfold transform in H.
  pose proof (order_loop_spec (S (length (d_modules d))) [] (entries d) []) as Ho.
  assert (Hlen : length (entries d) < S (length (d_modules d))) by (unfold entries; rewrite map_length; lia).
  specialize (Ho Hlen).
  destruct (order_loop _ [] (entries d) []) as [ordered| | |]; cbn [bind] in H; try discriminate.
  destruct Ho as (l' & -> & _ & Hin). cbn [rev app] in H.
  destruct (elaborate fx l' [] (d_links d)) as [arch| | |] eqn:Ee; cbn [bind] in H; try discriminate.
  destruct (lookup (d_entry d) arch) as [[n' g]|] eqn:El; [|discriminate].
  destruct (elaborate_keys _ _ _ _ _ Ee _ _ El) as [Hl|(e & He & Ei)]; [cbn in Hl; congruence|].
  apply Hin in He. unfold entries in He. apply in_map_iff in He as (im & <- & Him). exact (Hno im Him Ei).
Qed.

(* with no definition of that name, the only outcomes are errors; if every definition elaborates it is UnknownModule *)
Theorem unknown_entry_kind : forall fx d ordered arch,
  order_loop (S (length (d_modules d))) [] (entries d) [] = Ok ordered ->
  elaborate fx ordered [] (d_links d) = Ok arch -> lookup (d_entry d) arch = None ->
  transform fx d = Err K_UNKNOWN_MODULE.
Proof. intros fx d ordered arch Ho He Hl. unfold transform. rewrite Ho. cbn [bind]. rewrite He. cbn [bind]. rewrite Hl. reflexivity. Qed.
