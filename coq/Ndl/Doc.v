(* From the document to the description: every string goes through its FromStr (Model.parse_doc).
   Parsing returns (never panics), what it returns satisfies [wf_parsed], hence parsing followed by
   elaboration is total. *)
From Coq Require Import List NArith Bool.
From DesVerif Require Import Ndl.Bytes Ndl.Grammar Ndl.GrammarProps Ndl.Def Ndl.Transform Ndl.Total Ndl.Build Ndl.Denote Ndl.Model.
Import ListNotations.

Lemma io_returns : forall {A} (r : res A), returns r -> returns (io r).
Proof. intros A [a|e|s|] H; cbn in *; auto. Qed.

Lemma io_ok : forall {A} (r : res A) a, io r = Ok a -> r = Ok a.
Proof. intros A [x|e|s|] a H; cbn in H; congruence. Qed.

Lemma collect_in : forall {A B} (f : A -> res B) l v, collect f l = Ok v ->
  forall b, In b v -> exists a, In a l /\ f a = Ok b.
Proof.
  intros A B f l. induction l as [|a l IH]; intros v H b Hb; cbn [collect] in H.
  - injection H as <-. destruct Hb.
  - destruct (f a) as [b0| | |] eqn:Ea; cbn [bind] in H; try discriminate.
    destruct (collect f l) as [bs| | |] eqn:Ec; cbn [bind] in H; try discriminate.
    injection H as <-. destruct Hb as [<-|Hb].
    + exists a. split; [left; reflexivity|exact Ea].
    + destruct (IH bs eq_refl b Hb) as (a' & Ha' & Ef). exists a'. split; [right; exact Ha'|exact Ef].
Qed.

Lemma parse_module_returns : forall m, returns (parse_module true m).
Proof.
  intros m. unfold parse_module.
  apply returns_bind; [apply io_returns, typclause_from_str_returns, generic_from_str_returns|]. intros key.
  apply returns_bind; [apply io_returns, collect_returns, field_from_str_returns|]. intros gates.
  apply returns_bind.
  { apply io_returns, collect_returns. intros ab.
    apply returns_bind; [apply field_from_str_returns|]. intros f.
    apply returns_bind; [apply typclause_from_str_returns; intros x; exact I|]. intros t. exact I. }
  intros subs. apply returns_bind.
  { apply io_returns, collect_returns. intros c.
    apply returns_bind; [apply endpoint_from_str_returns|]. intros a.
    apply returns_bind; [apply endpoint_from_str_returns|]. intros b. exact I. }
  intros conns. exact I.
Qed.

Lemma parse_doc_returns : forall rd, returns (parse_doc true rd).
Proof.
  intros rd. unfold parse_doc. apply returns_bind; [apply collect_returns, parse_module_returns|]. intros ms. exact I.
Qed.

Lemma parse_module_wf : forall fx m im, parse_module fx m = Ok im -> wf_module (snd im).
Proof.
  intros fx m im H. unfold parse_module in H.
  destruct (io (typclause_from_str fx generic_from_str (rm_key m))) as [key| | |]; cbn [bind] in H; try discriminate.
  destruct (io (collect field_from_str (rm_gates m))) as [gates| | |]; cbn [bind] in H; try discriminate.
  match type of H with context [io (collect ?f (rm_subs m))] =>
    destruct (io (collect f (rm_subs m))) as [subs| | |]; cbn [bind] in H; try discriminate end.
  match type of H with context [io (collect ?f (rm_conns m))] =>
    destruct (io (collect f (rm_conns m))) as [conns| | |] eqn:Ec; cbn [bind] in H; try discriminate end.
  injection H as <-. cbn [snd]. unfold wf_module. cbn [md_conns].
  apply io_ok in Ec. apply Forall_forall. intros c Hc.
  destruct (collect_in _ _ _ Ec c Hc) as (raw & _ & Hraw).
  destruct (endpoint_from_str (fst (fst raw))) as [a| | |] eqn:Ea; cbn [bind] in Hraw; try discriminate.
  destruct (endpoint_from_str (snd (fst raw))) as [b| | |] eqn:Eb; cbn [bind] in Hraw; try discriminate.
  injection Hraw as <-. split; cbn [cd_lhs cd_rhs]; eapply endpoint_from_str_nonempty; eassumption.
Qed.

Lemma parse_doc_wf : forall fx rd d, parse_doc fx rd = Ok d -> wf_parsed d.
Proof.
  intros fx rd d H. unfold parse_doc in H.
  destruct (collect (parse_module fx) (rd_modules rd)) as [ms| | |] eqn:Ec; cbn [bind] in H; try discriminate.
  injection H as <-. unfold wf_parsed. cbn [d_modules]. apply Forall_forall. intros im Him.
  destruct (collect_in _ _ _ Ec im Him) as (m & _ & Hm). eapply parse_module_wf. exact Hm.
Qed.

(* parsing and elaborating a document: Ok or a descriptive error, never a panic, never out of fuel *)
Definition elaborate_document (fx : bool) (rd : raw_doc) : res Node := do d <- parse_doc fx rd; transform fx d.

Theorem document_total : forall rd, returns (elaborate_document true rd).
Proof.
  intros rd. unfold elaborate_document. pose proof (parse_doc_returns rd) as Hp.
  destruct (parse_doc true rd) as [d|k| |] eqn:E; cbn [bind]; try exact Hp.
  apply transform_total. eapply parse_doc_wf. exact E.
Qed.
