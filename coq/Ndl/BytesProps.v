(* Facts about the byte-string functions of Bytes.v that the grammar theorems need. *)
From Coq Require Import List NArith Bool Lia ZifyBool.
From DesVerif Require Import Ndl.Bytes.
Import ListNotations.
Open Scope N_scope.

Lemma beq_refl : forall a, beq a a = true.
Proof. induction a as [|x a IH]; cbn [beq]; [reflexivity|]. rewrite N.eqb_refl, IH. reflexivity. Qed.

Lemma beq_eq : forall a b, beq a b = true <-> a = b.
Proof.
  induction a as [|x a IH]; intros [|y b]; cbn [beq]; split; intros H; try reflexivity; try discriminate.
  - apply andb_true_iff in H as [H1 H2]. apply N.eqb_eq in H1. apply IH in H2. congruence.
  - injection H as -> ->. rewrite N.eqb_refl. cbn [andb]. apply IH. reflexivity.
Qed.

(* ---- split_once ---- *)
Lemma split_once_char_app : forall c a b, ~ In c a -> split_once_char c (a ++ c :: b) = Some (a, b).
Proof.
  intros c a b. induction a as [|x a IH]; intros Hn; cbn [app split_once_char].
  - rewrite N.eqb_refl. reflexivity.
  - destruct (N.eqb_spec x c) as [->|_]; [exfalso; apply Hn; left; reflexivity|].
    rewrite IH; [reflexivity|]. intros Hi. apply Hn. right. exact Hi.
Qed.

Lemma split_once_char_none : forall c s, ~ In c s -> split_once_char c s = None.
Proof.
  intros c s. induction s as [|x s IH]; intros Hn; cbn [split_once_char]; [reflexivity|].
  destruct (N.eqb_spec x c) as [->|_]; [exfalso; apply Hn; left; reflexivity|].
  rewrite IH; [reflexivity|]. intros Hi. apply Hn. right. exact Hi.
Qed.

Lemma split_once_2_step : forall p1 p2 x s, (x =? p1) = false -> s <> [] ->
  split_once_2 p1 p2 (x :: s) = match split_once_2 p1 p2 s with Some (a, b) => Some (x :: a, b) | None => None end.
Proof. intros p1 p2 x [|y t] Hx Hs; [congruence|]. cbn [split_once_2]. rewrite Hx. reflexivity. Qed.

Lemma split_once_2_app : forall p1 p2 a b, ~ In p1 a -> split_once_2 p1 p2 (a ++ p1 :: p2 :: b) = Some (a, b).
Proof.
  intros p1 p2 a b. induction a as [|x a IH]; intros Hn.
  - cbn [app split_once_2]. rewrite !N.eqb_refl. reflexivity.
  - assert (Hx : (x =? p1) = false) by (apply N.eqb_neq; intros ->; apply Hn; left; reflexivity).
    assert (Hn' : ~ In p1 a) by (intros Hi; apply Hn; right; exact Hi).
    change ((x :: a) ++ p1 :: p2 :: b) with (x :: (a ++ p1 :: p2 :: b)).
    rewrite split_once_2_step by (try exact Hx; destruct a; discriminate).
    rewrite (IH Hn'). reflexivity.
Qed.

(* ---- split ---- *)
Lemma split_char_acc_none : forall c a cur, ~ In c a -> split_char_acc c cur a = [rev cur ++ a].
Proof.
  intros c a. induction a as [|x a IH]; intros cur Hn; cbn [split_char_acc].
  - rewrite app_nil_r. reflexivity.
  - destruct (N.eqb_spec x c) as [->|_]; [exfalso; apply Hn; left; reflexivity|].
    rewrite IH by (intros Hi; apply Hn; right; exact Hi). cbn [rev]. rewrite <- app_assoc. reflexivity.
Qed.

Lemma split_char_acc_app : forall c a r cur, ~ In c a ->
  split_char_acc c cur (a ++ c :: r) = (rev cur ++ a) :: split_char_acc c [] r.
Proof.
  intros c a r. induction a as [|x a IH]; intros cur Hn; cbn [app split_char_acc].
  - rewrite N.eqb_refl, app_nil_r. reflexivity.
  - destruct (N.eqb_spec x c) as [->|_]; [exfalso; apply Hn; left; reflexivity|].
    rewrite IH by (intros Hi; apply Hn; right; exact Hi). cbn [rev]. rewrite <- app_assoc. reflexivity.
Qed.

Lemma split_char_join : forall c l, l <> [] -> Forall (fun a => ~ In c a) l -> split_char c (join [c] l) = l.
Proof.
  intros c l. unfold split_char. induction l as [|a l IH]; intros Hne Hf; [congruence|].
  inversion Hf as [|? ? Ha Hl]; subst. destruct l as [|b l].
  - cbn [join]. rewrite split_char_acc_none by exact Ha. reflexivity.
  - change (join [c] (a :: b :: l)) with (a ++ [c] ++ join [c] (b :: l)). cbn [app].
    rewrite split_char_acc_app by exact Ha. cbn [rev app]. f_equal. apply IH; [discriminate|exact Hl].
Qed.

Lemma split_2_acc_none : forall p1 p2 a cur, ~ In p1 a -> split_2_acc p1 p2 cur a = [rev cur ++ a].
Proof.
  intros p1 p2 a. induction a as [|x a IH]; intros cur Hn; cbn [split_2_acc].
  - rewrite app_nil_r. reflexivity.
  - assert (Hx : (x =? p1) = false) by (apply N.eqb_neq; intros ->; apply Hn; left; reflexivity).
    destruct a as [|y r]; [reflexivity|]. rewrite Hx. cbn [andb].
    rewrite IH by (intros Hi; apply Hn; right; exact Hi). cbn [rev]. rewrite <- app_assoc. reflexivity.
Qed.

Lemma split_2_acc_step : forall p1 p2 x s cur, (x =? p1) = false -> s <> [] ->
  split_2_acc p1 p2 cur (x :: s) = split_2_acc p1 p2 (x :: cur) s.
Proof. intros p1 p2 x [|y t] cur Hx Hs; [congruence|]. cbn [split_2_acc]. rewrite Hx. reflexivity. Qed.

Lemma split_2_acc_app : forall p1 p2 a r cur, ~ In p1 a ->
  split_2_acc p1 p2 cur (a ++ p1 :: p2 :: r) = (rev cur ++ a) :: split_2_acc p1 p2 [] r.
Proof.
  intros p1 p2 a r. induction a as [|x a IH]; intros cur Hn.
  - cbn [app split_2_acc]. rewrite !N.eqb_refl, app_nil_r. reflexivity.
  - assert (Hx : (x =? p1) = false) by (apply N.eqb_neq; intros ->; apply Hn; left; reflexivity).
    change ((x :: a) ++ p1 :: p2 :: r) with (x :: (a ++ p1 :: p2 :: r)).
    rewrite split_2_acc_step by (try exact Hx; destruct a; discriminate).
    rewrite IH by (intros Hi; apply Hn; right; exact Hi).
    cbn [rev]. rewrite <- app_assoc. reflexivity.
Qed.

Lemma split_2_join : forall p1 p2 l, l <> [] -> Forall (fun a => ~ In p1 a) l ->
  split_2 p1 p2 (join [p1; p2] l) = l.
Proof.
  intros p1 p2 l. unfold split_2. induction l as [|a l IH]; intros Hne Hf; [congruence|].
  inversion Hf as [|? ? Ha Hl]; subst. destruct l as [|b l].
  - cbn [join]. rewrite split_2_acc_none by exact Ha. reflexivity.
  - change (join [p1; p2] (a :: b :: l)) with (a ++ [p1; p2] ++ join [p1; p2] (b :: l)). cbn [app].
    rewrite split_2_acc_app by exact Ha. cbn [rev app]. f_equal. apply IH; [discriminate|exact Hl].
Qed.

(* ---- ends_with / trim_end_matches / trim ---- *)
Lemma last_is_snoc : forall c s x, last_is c (s ++ [x]) = (x =? c).
Proof. intros c s x. unfold last_is. rewrite rev_app_distr. reflexivity. Qed.

Lemma last_is_false : forall c s, ~ In c s -> last_is c s = false.
Proof.
  intros c s Hn. unfold last_is. destruct (rev s) as [|x r] eqn:E; [reflexivity|].
  apply N.eqb_neq. intros ->. apply Hn. apply in_rev. rewrite E. left. reflexivity.
Qed.

Lemma drop_while_none : forall f s, Forall (fun b => f b = false) s -> drop_while f s = s.
Proof. intros f s H. destruct H as [|x s Hx Hs]; cbn [drop_while]; [reflexivity|]. rewrite Hx. reflexivity. Qed.

Lemma drop_while_all : forall f pre s, Forall (fun b => f b = true) pre -> drop_while f (pre ++ s) = drop_while f s.
Proof. intros f pre s H. induction H as [|x pre Hx _ IH]; cbn [app drop_while]; [reflexivity|]. rewrite Hx. exact IH. Qed.

Lemma trim_end_matches_snoc : forall c s, ~ In c s -> trim_end_matches c (s ++ [c]) = s.
Proof.
  intros c s Hn. unfold trim_end_matches. rewrite rev_app_distr. cbn [rev app drop_while].
  rewrite N.eqb_refl. rewrite drop_while_none; [apply rev_involutive|].
  apply Forall_forall. intros x Hx. apply N.eqb_neq. intros <-. apply Hn. apply in_rev. exact Hx.
Qed.

Lemma drop_while_stop : forall f s, (forall x r, s = x :: r -> f x = false) -> drop_while f s = s.
Proof. intros f [|x r] H; cbn [drop_while]; [reflexivity|]. rewrite (H x r eq_refl). reflexivity. Qed.

Lemma trim_spec : forall pre core suf,
  Forall (fun b => is_ws b = true) pre -> Forall (fun b => is_ws b = false) core -> Forall (fun b => is_ws b = true) suf ->
  trim (pre ++ core ++ suf) = core.
Proof.
  intros pre core suf Hp Hc Hs. unfold trim. rewrite (drop_while_all _ _ _ Hp).
  destruct core as [|x core].
  - cbn [app]. assert (E : drop_while is_ws suf = []).
    { rewrite <- (app_nil_r suf). rewrite (drop_while_all _ _ _ Hs). reflexivity. }
    rewrite E. reflexivity.
  - rewrite (drop_while_stop _ ((x :: core) ++ suf)).
    2:{ intros y r E. cbn [app] in E. injection E as <- _. inversion Hc; assumption. }
    rewrite rev_app_distr. rewrite drop_while_all by (apply Forall_rev; exact Hs).
    rewrite drop_while_stop; [apply rev_involutive|].
    intros y r E. assert (Hin : In y (x :: core)) by (apply in_rev; rewrite E; left; reflexivity).
    rewrite Forall_forall in Hc. apply Hc. exact Hin.
Qed.

Lemma trim_id : forall s, Forall (fun b => is_ws b = false) s -> trim s = s.
Proof.
  intros s H. pose proof (trim_spec [] s [] (Forall_nil _) H (Forall_nil _)) as E.
  cbn [app] in E. rewrite app_nil_r in E. exact E.
Qed.

(* ---- decimal numbers ---- *)
Definition val (ds : bytes) : N := fold_left (fun a d => a * 10 + (d - 48)) ds 0.

Lemma fold_val_app : forall ds a d, fold_left (fun a d => a * 10 + (d - 48)) (ds ++ [d]) a
                                    = fold_left (fun a d => a * 10 + (d - 48)) ds a * 10 + (d - 48).
Proof. intros ds a d. rewrite fold_left_app. reflexivity. Qed.

Lemma to_dec_fuel_acc : forall f n acc, to_dec_fuel f n acc = to_dec_fuel f n [] ++ acc.
Proof.
  induction f as [|f IH]; intros n acc; cbn [to_dec_fuel]; [reflexivity|].
  destruct (n <? 10); [reflexivity|].
  rewrite (IH (n / 10) (_ :: acc)), (IH (n / 10) [_]). rewrite <- app_assoc. reflexivity.
Qed.

Lemma digit_ok : forall r, r < 10 -> is_digit (48 + r) = true.
Proof. intros r H. unfold is_digit. lia. Qed.

Lemma to_dec_fuel_S : forall f n acc,
  to_dec_fuel (S f) n acc = if n <? 10 then (48 + n mod 10) :: acc else to_dec_fuel f (n / 10) ((48 + n mod 10) :: acc).
Proof. reflexivity. Qed.

Lemma to_dec_fuel_spec : forall f n, n < 2 ^ N.of_nat f ->
  val (to_dec_fuel (S f) n []) = n /\ Forall (fun b => is_digit b = true) (to_dec_fuel (S f) n []) /\ to_dec_fuel (S f) n [] <> [].
Proof.
  induction f as [|f IH]; intros n Hn.
  - cbn in Hn. assert (n = 0) by lia. subst. cbn. repeat split; [repeat constructor|discriminate].
  - rewrite to_dec_fuel_S. destruct (N.ltb_spec n 10) as [Hlt|Hge].
    + unfold val. cbn [fold_left]. rewrite (N.mod_small n 10) by exact Hlt. repeat split; [lia| |discriminate].
      constructor; [|constructor]. apply digit_ok. exact Hlt.
    + rewrite to_dec_fuel_acc.
      assert (Hd : n / 10 < 2 ^ N.of_nat f).
      { apply N.div_lt_upper_bound; [lia|]. rewrite Nat2N.inj_succ, N.pow_succ_r' in Hn. lia. }
      destruct (IH _ Hd) as (Hv & Hdig & Hne). repeat split.
      * unfold val in *. rewrite fold_val_app, Hv.
        assert (n mod 10 < 10) by (apply N.mod_lt; lia).
        pose proof (N.div_mod n 10 ltac:(lia)) as Hdm.
        replace (48 + n mod 10 - 48) with (n mod 10) by (rewrite N.add_comm, N.add_sub; reflexivity).
        rewrite (N.mul_comm (n / 10) 10). symmetry. exact Hdm.
      * apply Forall_app. split; [exact Hdig|]. constructor; [|constructor].
        apply digit_ok. apply N.mod_lt. lia.
      * intros E. apply app_eq_nil in E as [_ E]. discriminate.
Qed.

Lemma to_dec_spec : forall n,
  val (to_dec n) = n /\ Forall (fun b => is_digit b = true) (to_dec n) /\ to_dec n <> [].
Proof.
  intros n. unfold to_dec. apply to_dec_fuel_spec. rewrite N2Nat.id. apply N.size_gt.
Qed.

Lemma fold_val_mono : forall ds a, a <= fold_left (fun a d => a * 10 + (d - 48)) ds a.
Proof.
  induction ds as [|d ds IH]; intros a; cbn [fold_left]; [lia|].
  specialize (IH (a * 10 + (d - 48))). lia.
Qed.

Lemma digits_value_spec : forall ds a, Forall (fun b => is_digit b = true) ds ->
  fold_left (fun a d => a * 10 + (d - 48)) ds a <= USIZE_MAX ->
  digits_value a ds = Some (fold_left (fun a d => a * 10 + (d - 48)) ds a).
Proof.
  induction ds as [|d ds IH]; intros a Hd Hle; cbn [digits_value fold_left]; [reflexivity|].
  inversion Hd as [|? ? Hd1 Hd2]; subst. rewrite Hd1. cbn [fold_left] in Hle.
  pose proof (fold_val_mono ds (a * 10 + (d - 48))) as Hm.
  destruct (N.leb_spec (a * 10 + (d - 48)) USIZE_MAX) as [_|Hgt]; [|lia].
  apply IH; assumption.
Qed.

Lemma parse_usize_to_dec : forall n, n <= USIZE_MAX -> parse_usize (to_dec n) = Some n.
Proof.
  intros n Hn. destruct (to_dec_spec n) as (Hv & Hd & Hne).
  unfold parse_usize. destruct (to_dec n) as [|x r] eqn:E; [congruence|].
  assert (Hx : (x =? PLUS) = false).
  { inversion Hd as [|? ? Hx _]; subst. unfold is_digit, PLUS in *. lia. }
  rewrite Hx. rewrite digits_value_spec; [unfold val in Hv; rewrite Hv; reflexivity|exact Hd|].
  unfold val in Hv. rewrite Hv. exact Hn.
Qed.

(* ---- identifier characters are none of the grammar's separators ---- *)
Definition wf_name (s : bytes) : Prop := Forall (fun b => name_char b = true) s.

Lemma name_char_not : forall b, name_char b = true ->
  b <> LPAREN /\ b <> RPAREN /\ b <> COMMA /\ b <> SPACE /\ b <> LBRACK /\ b <> RBRACK /\ b <> SLASH /\ b <> LT /\
  b <> MINUS /\ b <> PLUS /\ is_ws b = false.
Proof.
  intros b H. unfold name_char, is_digit, is_ws, LPAREN, RPAREN, COMMA, SPACE, LBRACK, RBRACK, SLASH, LT, MINUS, PLUS in *.
  repeat split; lia.
Qed.

Lemma wf_name_not_in : forall s c, wf_name s -> name_char c = false -> ~ In c s.
Proof.
  intros s c H Hc Hi. unfold wf_name in H. rewrite Forall_forall in H. apply H in Hi. congruence.
Qed.

Lemma wf_name_no_ws : forall s, wf_name s -> Forall (fun b => is_ws b = false) s.
Proof.
  intros s H. unfold wf_name in H. rewrite Forall_forall in *. intros x Hx. apply (name_char_not x (H x Hx)).
Qed.

Lemma digit_not : forall b, is_digit b = true -> b <> RBRACK /\ b <> SLASH /\ b <> LBRACK /\ b <> COMMA.
Proof. intros b H. unfold is_digit, RBRACK, SLASH, LBRACK, COMMA in *. repeat split; lia. Qed.
