(* An executable reading of "the described wiring is realisable", on the elaborated tree:
   [tree_ok]     every connection endpoint names a submodule field chain (indices fitting the fields'
                 shapes) and a gate position of the tree, and no node has two submodule fields of one
                 name and shape (what transform guarantees apart from known finding F11c);
   [registered]  every symbol of the tree is known to the registry;
   [wiring_ok]   going through the connection statements in build order, no statement connects a
                 position to itself and none gives a position a third peer (a repeated pair is skipped,
                 as Gate::connect does). *)
From Coq Require Import List NArith Bool.
From DesVerif Require Import Ndl.Bytes Ndl.Grammar Ndl.Def Ndl.Transform Ndl.Build Ndl.Denote.
Import ListNotations.
Open Scope N_scope.

Definition index_fits (k : Kard) (i : option N) : bool :=
  match k, i with
  | Atom, None => true
  | Cluster n, Some j => j <? n
  | _, _ => false
  end.
Definition acc_pos (a : Accessor) : N := match ac_index a with Some i => i | None => 0 end.

Fixpoint resolves (e : Endpoint) (n : Node) {struct e} : bool :=
  match e with
  | [] => false
  | a :: rest =>
    match rest with
    | [] => existsb (fun g => beq (fd_ident g) (ac_name a) && (acc_pos a <? as_size (fd_kard g))) (n_gates n)
    | _ :: _ => existsb (fun s => beq (fd_ident (fst s)) (ac_name a) && index_fits (fd_kard (fst s)) (ac_index a) &&
                                  resolves rest (snd s)) (n_subs n)
    end
  end.

Fixpoint tree_ok (n : Node) : bool :=
  match n with
  | mkNode t subs g c =>
    forallb (fun x => resolves (cn_l x) (mkNode t subs g c) && resolves (cn_r x) (mkNode t subs g c)) c &&
    negb (has_dup_field subs) &&
    (fix go (l : list (FieldDef * Node)) : bool :=
       match l with [] => true | s :: r => tree_ok (snd s) && go r end) subs
  end.

Definition from_pos (a : gate_pos) (e : half_edge) : bool := gate_pos_eqb (fst (fst e)) a.
Definition degree (a : gate_pos) (acc : list half_edge) : nat := length (filter (from_pos a) acc).
Definition connected (a b : gate_pos) (acc : list half_edge) : bool :=
  existsb (fun e => gate_pos_eqb (fst (fst e)) a && gate_pos_eqb (snd (fst e)) b) acc.

Fixpoint wiring_ok (l : list half_edge) (acc : list half_edge) : bool :=
  match l with
  | [] => true
  | (a, b, k) :: r =>
    if gate_pos_eqb a b then false
    else if connected a b acc then wiring_ok r acc
    else if Nat.leb 2 (degree a acc) || Nat.leb 2 (degree b acc) then false
    else wiring_ok r (acc ++ [(a, b, k); (b, a, k)])
  end.

Definition realisable (registered : ident -> bool) (n : Node) : bool :=
  tree_ok n && forallb (fun m => registered (snd m)) (den_mods n []) && wiring_ok (den_conns n []) [].
