(* The dependency-ordering loop of `transform` (mod.rs:45-89): it terminates within
   (number of definitions + 1) iterations, never indexes out of bounds, returns either
   UnresolvableDependency or the definitions rearranged so that every definition comes
   after everything it requires; and it fails whenever a group of definitions can never
   become resolvable (unknown symbols, cycles). *)
From Coq Require Import List NArith Bool Lia Arith.
From DesVerif Require Import Ndl.Bytes Ndl.BytesProps Ndl.Grammar Ndl.Def Ndl.Transform.
Import ListNotations.
Local Open Scope nat_scope.

Inductive DepOrdered : list ident -> list entry -> Prop :=
| DO_nil : forall prov, DepOrdered prov []
| DO_cons : forall prov e l, resolvable prov e = true -> DepOrdered (e_ident e :: prov) l -> DepOrdered prov (e :: l).

Lemma position_spec : forall {A} (f : A -> bool) l k, position f l = Some k ->
  exists a, nth_error l k = Some a /\ f a = true.
Proof.
  intros A f l. induction l as [|a l IH]; intros k H; cbn [position] in H; [discriminate|].
  destruct (f a) eqn:Ea.
  - injection H as <-. exists a. split; [reflexivity|exact Ea].
  - destruct (position f l) as [k'|]; cbn [option_map] in H; [|discriminate].
    injection H as <-. destruct (IH k' eq_refl) as (b & Hb & Hf). exists b. split; assumption.
Qed.

Lemma swap0_spec : forall {A} k (l : list A) a, nth_error l k = Some a ->
  exists tl, swap0 k l = Some (a :: tl) /\ length tl = pred (length l) /\
             (forall x, In x (a :: tl) <-> In x l).
Proof.
  intros A k l a H. destruct k as [|k'].
  - destruct l as [|b r]; cbn [nth_error] in H; [discriminate|]. injection H as ->.
    exists r. cbn [swap0]. repeat split; auto.
  - destruct l as [|b r]; cbn [nth_error] in H; [discriminate|].
    cbn [swap0]. rewrite H. exists (firstn k' r ++ b :: skipn (S k') r). split; [reflexivity|].
    assert (Hlen : k' < length r) by (apply nth_error_Some; congruence).
    pose proof (nth_error_split r k' H) as (l1 & l2 & Er & El1).
    assert (Ef : firstn k' r = l1).
    { rewrite Er. rewrite <- El1. rewrite firstn_app, Nat.sub_diag, firstn_all. cbn [firstn]. apply app_nil_r. }
    assert (Es : skipn (S k') r = l2).
    { rewrite Er. rewrite <- El1. rewrite skipn_app. rewrite skipn_all2 by lia.
      replace (S (length l1) - length l1) with 1 by lia. reflexivity. }
    rewrite Ef, Es. split.
    + cbn [length]. rewrite Er. rewrite !app_length. cbn [length]. lia.
    + intros x. rewrite Er. cbn [In]. rewrite !in_app_iff. cbn [In]. tauto.
Qed.

Lemma mem_ident_In : forall s l, mem_ident s l = true <-> In s l.
Proof.
  intros s l. unfold mem_ident. rewrite existsb_exists. split.
  - intros (x & Hx & Hb). apply beq_eq in Hb. subst. exact Hx.
  - intros H. exists s. split; [exact H|apply beq_refl].
Qed.

(* one run of the loop: outcome and shape *)
Lemma order_loop_spec : forall fuel done rest prov, length rest < fuel ->
  match order_loop fuel done rest prov with
  | Ok l => exists l', l = rev done ++ l' /\ DepOrdered prov l' /\ (forall x, In x l' <-> In x rest)
  | Err k => k = K_UNRESOLVABLE_DEPENDENCY
  | _ => False
  end.
Proof.
  induction fuel as [|f IH]; intros done rest prov Hlen; [lia|].
  destruct rest as [|r0 rest']; cbn [order_loop].
  - exists []. rewrite app_nil_r. repeat split; auto; constructor.
  - destruct (position (resolvable prov) (r0 :: rest')) as [next|] eqn:Ep; [|reflexivity].
    destruct (position_spec _ _ _ Ep) as (m & Hn & Hres).
    destruct (swap0_spec _ _ _ Hn) as (tl & Hs & Hl & Hin). rewrite Hs.
    cbn [length pred] in Hl.
    specialize (IH (m :: done) tl (e_ident m :: prov) ltac:(cbn [length] in Hlen; lia)).
    destruct (order_loop f (m :: done) tl (e_ident m :: prov)) as [l|k| |]; try exact IH.
    destruct IH as (l' & El & Hdo & Hin'). exists (m :: l'). split; [|split].
    + rewrite El. cbn [rev]. rewrite <- app_assoc. reflexivity.
    + constructor; assumption.
    + intros x. rewrite <- Hin. cbn [In]. rewrite Hin'. tauto.
Qed.

(* a group of definitions none of which can ever be placed *)
Definition blocked (all : list entry) (C : list entry) : Prop :=
  C <> [] /\ incl C all /\
  forall e, In e C -> exists s, In s (snd e) /\ forall e', In e' all -> e_ident e' = s -> In e' C.

Lemma dep_ordered_avoids : forall all C prov l,
  DepOrdered prov l -> incl l all ->
  (forall e, In e C -> exists s, In s (snd e) /\ ~ In s prov /\ forall e', In e' all -> e_ident e' = s -> In e' C) ->
  forall e, In e l -> ~ In e C.
Proof.
  intros all C prov l H. induction H as [prov|prov e0 l Hres Hdo IH]; intros Hincl HC e Hin; [destruct Hin|].
  assert (H0 : ~ In e0 C).
  { intros Hc. destruct (HC _ Hc) as (s & Hs & Hnp & _). apply Hnp.
    unfold resolvable in Hres. rewrite forallb_forall in Hres. apply mem_ident_In. apply Hres. exact Hs. }
  destruct Hin as [<-|Hin]; [exact H0|].
  apply IH; [intros x Hx; apply Hincl; right; exact Hx| |exact Hin].
  intros e' He'. destruct (HC _ He') as (s & Hs & Hnp & Hcl). exists s. split; [exact Hs|]. split; [|exact Hcl].
  intros [E|Hp]; [|exact (Hnp Hp)]. apply H0. apply Hcl; [apply Hincl; left; reflexivity|exact E].
Qed.

Lemma order_loop_blocked : forall all C, blocked all C ->
  order_loop (S (length all)) [] all [] = Err K_UNRESOLVABLE_DEPENDENCY.
Proof.
  intros all C (Hne & Hincl & HC).
  pose proof (order_loop_spec (S (length all)) [] all [] ltac:(lia)) as H.
  destruct (order_loop (S (length all)) [] all []) as [l|k| |]; try contradiction; [|congruence].
  exfalso. destruct H as (l' & _ & Hdo & Hin).
  destruct C as [|c C']; [congruence|].
  assert (Hc : In c l') by (apply Hin; apply Hincl; left; reflexivity).
  refine (dep_ordered_avoids all (c :: C') [] l' Hdo _ _ c Hc (or_introl eq_refl)).
  - intros x Hx. apply Hin. exact Hx.
  - intros e He. destruct (HC _ He) as (s & Hs & Hcl). exists s. repeat split; auto.
Qed.

Lemma order_loop_length : forall fuel done rest prov l,
  order_loop fuel done rest prov = Ok l -> length l = length done + length rest.
Proof.
  induction fuel as [|f IH]; intros done rest prov l H.
  - destruct rest; cbn [order_loop] in H; [|discriminate]. injection H as <-. rewrite rev_length. cbn [length]. lia.
  - destruct rest as [|r0 rest']; cbn [order_loop] in H.
    + injection H as <-. rewrite rev_length. cbn [length]. lia.
    + destruct (position (resolvable prov) (r0 :: rest')) as [next|] eqn:Ep; [|discriminate].
      destruct (position_spec _ _ _ Ep) as (m & Hn & _).
      destruct (swap0_spec _ _ _ Hn) as (tl & Hs & Hl & _). rewrite Hs in H.
      apply IH in H. rewrite H. cbn [length pred] in *. lia.
Qed.
