(* des/src/net/ndl/mod.rs: instantiation of an elaborated tree (SimBuilderScoped::ndl,
   SimBuilder::raw_ndl, access_gate) on top of Gate::connect (des/src/net/gate.rs).

   [plan] lists, in the order the code performs them, the effects of `ndl(node)` at a scope:
   create the module (raw_ndl), create its gate clusters, instantiate the submodules
   (recursively, clusters index by index), then connect.  [exec] performs the effects on a
   state: the module tree with symbols, the gates with identities, and per gate the (at most
   two) connections.  Panics of the build (module path exists, missing gate / child,
   gate connected to itself, third connection) are [Panic] outcomes; a symbol the registry
   does not know is [Err K_MISSING_REGISTRY_SYMBOL]. *)
From Coq Require Import List NArith Bool.
From DesVerif Require Import Ndl.Bytes Ndl.Grammar Ndl.Def.
Import ListNotations.
Open Scope N_scope.

Definition path := list Accessor.   (* "a.b[2].c" = [(a,None); (b,Some 2); (c,None)] *)
Definition path_eqb (a b : path) : bool := list_eqb acc_eqb a b.

Inductive action :=
| ACreateModule (p : path) (symbol : ident)
| ACreateGate (p : path) (name : ident) (size pos : N)
| AConnect (p : path) (from to : Endpoint) (link : option Link).

(* Kardinality::as_size *)
Definition as_size (k : Kard) : N := match k with Atom => 1 | Cluster n => n end.

Definition sub_paths (p : path) (f : FieldDef) : list path :=
  match fd_kard f with
  | Atom => [p ++ [{| ac_name := fd_ident f; ac_index := None |}]]
  | Cluster n => map (fun k => p ++ [{| ac_name := fd_ident f; ac_index := Some k |}]) (rangeN n)
  end.

Fixpoint plan (n : Node) (p : path) : list action :=
  match n with
  | mkNode typ subs gates conns =>
    ACreateModule p typ ::
    flat_map (fun g => map (fun k => ACreateGate p (fd_ident g) (as_size (fd_kard g)) k) (rangeN (as_size (fd_kard g)))) gates ++
    (fix plan_subs (l : list (FieldDef * Node)) : list action :=
       match l with
       | [] => []
       | (f, sn) :: r => flat_map (fun sp => plan sn sp) (sub_paths p f) ++ plan_subs r
       end) subs ++
    map (fun c => AConnect p (cn_l c) (cn_r c) (cn_link c)) conns
  end.

Record gate_rec := { gr_id : N; gr_path : path; gr_name : ident; gr_size : N; gr_pos : N }.
Record bstate := {
  bs_mods : list (path * ident);
  bs_gates : list gate_rec;                            (* in creation order; gr_id = position *)
  bs_conns : list (N * list (N * option Link)) }.      (* gate id -> its connections, slot 0 first *)

Definition state_gates (st : bstate) : list (path * ident * N * N) :=
  map (fun g => (gr_path g, gr_name g, gr_size g, gr_pos g)) (bs_gates st).

(* reading the simulation: an absolute gate position is (owner path, gate name, position in the cluster);
   [state_edges] lists, for every gate and every connection slot of it, (this gate, peer gate, link) *)
Definition gate_pos := (path * ident * N)%type.
Definition pos_of (st : bstate) (id : N) : gate_pos :=
  match find (fun g => gr_id g =? id) (bs_gates st) with
  | Some g => (gr_path g, gr_name g, gr_pos g)
  | None => ([], [], 0)
  end.
Definition id_edges (st : bstate) : list (N * N * option Link) :=
  flat_map (fun e => map (fun c => (fst e, fst c, snd c)) (snd e)) (bs_conns st).
Definition state_edges (st : bstate) : list (gate_pos * gate_pos * option Link) :=
  map (fun e => (pos_of st (fst (fst e)), pos_of st (snd (fst e)), snd e)) (id_edges st).

Definition bs_empty : bstate := {| bs_mods := []; bs_gates := []; bs_conns := [] |}.

Definition P_MODULE_EXISTS : N := 30.     (* raw_ndl: assert!(self.get(path).is_none()) *)
Definition P_ACCESS_EMPTY : N := 31.      (* access_gate: assert!(!accessors.is_empty()) *)
Definition P_EXPECT_GATE : N := 32.       (* access_gate(..).expect("gate") *)
Definition P_EXPECT_CHILD : N := 33.      (* ctx.child(..).expect("child") *)
Definition P_CONNECT_SELF : N := 34.      (* Gate::connect: "Cannot connect gate to itself." *)
Definition P_CONNECT_FULL : N := 35.      (* Gate::connect: "gates allready connected to multiple points" *)

Definition has_module (st : bstate) (p : path) : bool := existsb (fun m => path_eqb (fst m) p) (bs_mods st).

(* ModuleContext::gate(name, pos): the first gate of that name and position *)
Definition find_gate (st : bstate) (p : path) (name : ident) (pos : N) : option N :=
  option_map gr_id (find (fun g => path_eqb (gr_path g) p && beq (gr_name g) name && (gr_pos g =? pos)) (bs_gates st)).

Fixpoint access_gate (st : bstate) (p : path) (accessors : Endpoint) : res N :=
  match accessors with
  | [] => Panic P_ACCESS_EMPTY
  | a :: rest =>
    match rest with
    | [] => match find_gate st p (ac_name a) (match ac_index a with Some i => i | None => 0 end) with
            | Some g => Ok g
            | None => Panic P_EXPECT_GATE
            end
    | _ :: _ => if has_module st (p ++ [a]) then access_gate st (p ++ [a]) rest else Panic P_EXPECT_CHILD
    end
  end.

Definition slots (st : bstate) (g : N) : list (N * option Link) :=
  match find (fun e => fst e =? g) (bs_conns st) with Some e => snd e | None => [] end.
Definition put_slot (cs : list (N * list (N * option Link))) (g : N) (c : N * option Link) :=
  if existsb (fun e => fst e =? g) cs
  then map (fun e => if fst e =? g then (fst e, snd e ++ [c]) else e) cs
  else cs ++ [(g, [c])].

(* Gate::connect *)
Definition connect (st : bstate) (a b : N) (link : option Link) : res bstate :=
  if a =? b then Panic P_CONNECT_SELF else
  if existsb (fun c => fst c =? b) (slots st a) then Ok st else
  if (2 <=? N.of_nat (length (slots st a))) || (2 <=? N.of_nat (length (slots st b))) then Panic P_CONNECT_FULL else
  Ok {| bs_mods := bs_mods st; bs_gates := bs_gates st;
        bs_conns := put_slot (put_slot (bs_conns st) a (b, link)) b (a, link) |}.

Section Exec.
  Variable registered : ident -> bool.

  Definition exec1 (st : bstate) (a : action) : res bstate :=
    match a with
    | ACreateModule p sym =>
      if has_module st p then Panic P_MODULE_EXISTS else
      if negb (registered sym) then Err K_MISSING_REGISTRY_SYMBOL else
      Ok {| bs_mods := bs_mods st ++ [(p, sym)]; bs_gates := bs_gates st; bs_conns := bs_conns st |}
    | ACreateGate p name size pos =>
      Ok {| bs_mods := bs_mods st;
            bs_gates := bs_gates st ++ [{| gr_id := N.of_nat (length (bs_gates st)); gr_path := p; gr_name := name;
                                           gr_size := size; gr_pos := pos |}];
            bs_conns := bs_conns st |}
    | AConnect p from to link =>
      do f <- access_gate st p from;
      do t <- access_gate st p to;
      connect st f t link
    end.

  Fixpoint exec (st : bstate) (l : list action) : res bstate :=
    match l with
    | [] => Ok st
    | a :: r => do st' <- exec1 st a; exec st' r
    end.

  (* SimBuilder::nodes_from_ndl after a successful transform *)
  Definition build (n : Node) : res bstate := exec bs_empty (plan n []).
End Exec.
