(* build_matches_denotation, part 2 (modules and gates): when the build of an elaborated tree
   succeeds, the module tree of the simulation (paths with symbols, in creation order) and its
   gates (owner path, name, cluster size, position) are exactly the flattening of the tree. *)
From Coq Require Import List NArith Bool Lia Arith.
From DesVerif Require Import Ndl.Bytes Ndl.BytesProps Ndl.Grammar Ndl.GrammarProps Ndl.Def Ndl.Build Ndl.Denote.
Import ListNotations.
Local Open Scope nat_scope.

(* induction over the nested tree *)
Fixpoint Node_ind' (P : Node -> Prop)
         (H : forall t subs g c, Forall (fun s => P (snd s)) subs -> P (mkNode t subs g c)) (n : Node) : P n :=
  match n with
  | mkNode t subs g c =>
    H t subs g c ((fix go (l : list (FieldDef * Node)) : Forall (fun s => P (snd s)) l :=
                     match l with
                     | [] => Forall_nil _
                     | s :: r => Forall_cons s (Node_ind' P H (snd s)) (go r)
                     end) subs)
  end.

Definition mods_of (l : list action) : list (path * ident) :=
  flat_map (fun a => match a with ACreateModule p s => [(p, s)] | _ => [] end) l.
Definition gates_of (l : list action) : list (path * ident * N * N) :=
  flat_map (fun a => match a with ACreateGate p nm sz k => [(p, nm, sz, k)] | _ => [] end) l.

Lemma connect_keeps : forall st a b l st', connect st a b l = Ok st' ->
  bs_mods st' = bs_mods st /\ bs_gates st' = bs_gates st.
Proof.
  intros st a b l st' H. unfold connect in H. destruct (a =? b)%N; [discriminate|].
  destruct (existsb _ _); [injection H as <-; split; reflexivity|].
  destruct (_ || _); [discriminate|]. injection H as <-. split; reflexivity.
Qed.

Section Exec.
  Variable registered : ident -> bool.

  Lemma exec1_keeps : forall st a st', exec1 registered st a = Ok st' ->
    bs_mods st' = bs_mods st ++ mods_of [a] /\ state_gates st' = state_gates st ++ gates_of [a].
  Proof.
    intros st a st' H. destruct a as [p s|p nm sz k|p from to l]; cbn [exec1] in H.
    - destruct (has_module st p); [discriminate|]. destruct (negb _); [discriminate|]. injection H as <-.
      unfold state_gates. cbn. rewrite app_nil_r. split; reflexivity.
    - injection H as <-. unfold state_gates. cbn. rewrite map_app, app_nil_r. split; reflexivity.
    - destruct (access_gate st p from) as [f| | |]; cbn [bind] in H; try discriminate.
      destruct (access_gate st p to) as [t| | |]; cbn [bind] in H; try discriminate.
      apply connect_keeps in H as [H1 H2]. unfold state_gates. rewrite H1, H2. cbn. rewrite !app_nil_r. split; reflexivity.
  Qed.

  Lemma exec_keeps : forall l st st', exec registered st l = Ok st' ->
    bs_mods st' = bs_mods st ++ mods_of l /\ state_gates st' = state_gates st ++ gates_of l.
  Proof.
    induction l as [|a l IH]; intros st st' H; cbn [exec] in H.
    - injection H as <-. cbn. rewrite !app_nil_r. split; reflexivity.
    - destruct (exec1 registered st a) as [st1| | |] eqn:E1; cbn [bind] in H; try discriminate.
      destruct (exec1_keeps _ _ _ E1) as [Hm Hg]. destruct (IH _ _ H) as [Hm' Hg'].
      rewrite Hm', Hg', Hm, Hg. unfold mods_of, gates_of in *. cbn [flat_map] in *. rewrite !app_nil_r in *.
      rewrite <- !app_assoc. split; reflexivity.
  Qed.
End Exec.

Lemma mods_of_app : forall a b, mods_of (a ++ b) = mods_of a ++ mods_of b.
Proof. intros. unfold mods_of. apply flat_map_app. Qed.
Lemma gates_of_app : forall a b, gates_of (a ++ b) = gates_of a ++ gates_of b.
Proof. intros. unfold gates_of. apply flat_map_app. Qed.

Lemma mods_of_gates : forall p gs,
  mods_of (flat_map (fun g => map (fun k => ACreateGate p (fd_ident g) (as_size (fd_kard g)) k) (rangeN (as_size (fd_kard g)))) gs) = [].
Proof.
  intros p gs. induction gs as [|g gs IH]; [reflexivity|]. cbn [flat_map]. rewrite mods_of_app, IH, app_nil_r.
  induction (rangeN (as_size (fd_kard g))) as [|k r IHr]; [reflexivity|exact IHr].
Qed.

Lemma gates_of_gates : forall p gs,
  gates_of (flat_map (fun g => map (fun k => ACreateGate p (fd_ident g) (as_size (fd_kard g)) k) (rangeN (as_size (fd_kard g)))) gs)
  = flat_map (fun g => map (fun k => (p, fd_ident g, as_size (fd_kard g), k)) (rangeN (as_size (fd_kard g)))) gs.
Proof.
  intros p gs. induction gs as [|g gs IH]; [reflexivity|]. cbn [flat_map]. rewrite gates_of_app, IH. f_equal.
  induction (rangeN (as_size (fd_kard g))) as [|k r IHr]; [reflexivity|]. cbn [map]. unfold gates_of in *. cbn [flat_map app]. rewrite IHr. reflexivity.
Qed.

Lemma mods_of_connects : forall p (cs : list Conn), mods_of (map (fun c => AConnect p (cn_l c) (cn_r c) (cn_link c)) cs) = [].
Proof. intros p cs. induction cs as [|c cs IH]; [reflexivity|exact IH]. Qed.
Lemma gates_of_connects : forall p (cs : list Conn), gates_of (map (fun c => AConnect p (cn_l c) (cn_r c) (cn_link c)) cs) = [].
Proof. intros p cs. induction cs as [|c cs IH]; [reflexivity|exact IH]. Qed.

Lemma flat_map_ext_in : forall {A B} (f g : A -> list B) l, (forall a, In a l -> f a = g a) -> flat_map f l = flat_map g l.
Proof.
  intros A B f g l H. induction l as [|a l IH]; [reflexivity|]. cbn [flat_map].
  rewrite (H a (or_introl eq_refl)), IH; [reflexivity|]. intros x Hx. apply H. right. exact Hx.
Qed.

Theorem plan_mods : forall n p, mods_of (plan n p) = den_mods n p.
Proof.
  intros n. induction n as [t subs g c IH] using Node_ind'. intros p.
  cbn [plan den_mods]. change (mods_of (ACreateModule p t :: ?l)) with ((p, t) :: mods_of l). f_equal.
  rewrite !mods_of_app, mods_of_gates, mods_of_connects, app_nil_r. cbn [app].
  induction subs as [|[f sn] subs IHs]; [reflexivity|].
  inversion IH as [|? ? Hsn Hrest]; subst. cbn [snd] in Hsn.
  rewrite mods_of_app. rewrite (IHs Hrest). f_equal.
  induction (sub_paths p f) as [|sp r IHr]; [reflexivity|]. cbn [flat_map]. rewrite mods_of_app, Hsn, IHr. reflexivity.
Qed.

Theorem plan_gates : forall n p, gates_of (plan n p) = den_gates n p.
Proof.
  intros n. induction n as [t subs g c IH] using Node_ind'. intros p.
  cbn [plan den_gates]. change (gates_of (ACreateModule p t :: ?l)) with (gates_of l).
  rewrite !gates_of_app, gates_of_gates, gates_of_connects, app_nil_r. unfold own_gates. cbn [n_gates]. f_equal.
  induction subs as [|[f sn] subs IHs]; [reflexivity|].
  inversion IH as [|? ? Hsn Hrest]; subst. cbn [snd] in Hsn.
  rewrite gates_of_app. rewrite (IHs Hrest). f_equal.
  induction (sub_paths p f) as [|sp r IHr]; [reflexivity|]. cbn [flat_map]. rewrite gates_of_app, Hsn, IHr. reflexivity.
Qed.

(* the built simulation's modules and gates are the flattening of the elaborated tree *)
Theorem build_modules_gates : forall registered n st, build registered n = Ok st ->
  bs_mods st = den_mods n [] /\ state_gates st = den_gates n [].
Proof.
  intros registered n st H. unfold build in H. destruct (exec_keeps registered _ _ _ H) as [Hm Hg].
  rewrite Hm, Hg, plan_mods, plan_gates. split; reflexivity.
Qed.

(* every module of the simulation runs registered software *)
Lemma exec_registered : forall registered l st0 st, exec registered st0 l = Ok st ->
  (forall p s, In (p, s) (bs_mods st0) -> registered s = true) ->
  forall p s, In (p, s) (bs_mods st) -> registered s = true.
Proof.
  intros registered. induction l as [|a l IH]; intros st0 st1 H H0; cbn [exec] in H.
  - injection H as <-. exact H0.
  - destruct (exec1 registered st0 a) as [st'| | |] eqn:E1; cbn [bind] in H; try discriminate.
    apply (IH _ _ H). destruct a as [p s|p nm sz k|p from to lk]; cbn [exec1] in E1.
    + destruct (has_module st0 p); [discriminate|]. destruct (registered s) eqn:Er; cbn [negb] in E1; [|discriminate].
      injection E1 as <-. cbn [bs_mods]. intros p' s' Hin. apply in_app_or in Hin as [Hin|[Hin|[]]]; [eapply H0; exact Hin|].
      injection Hin as <- <-. exact Er.
    + injection E1 as <-. exact H0.
    + destruct (access_gate st0 p from) as [f| | |]; cbn [bind] in E1; try discriminate.
      destruct (access_gate st0 p to) as [t| | |]; cbn [bind] in E1; try discriminate.
      apply connect_keeps in E1 as [-> _]. exact H0.
Qed.

Theorem build_symbols_registered : forall registered n st, build registered n = Ok st ->
  forall p s, In (p, s) (bs_mods st) -> registered s = true.
Proof.
  intros registered n st H. unfold build in H. apply (exec_registered _ _ _ _ H). intros p s [].
Qed.
