(* Wire format and runner of the NDL model (see tools/props/c18.py for the generator side).

   script := 0 which byte*                         grammar stream: FromStr + Display of one string
           | 1 mode doc                            document stream: parse, elaborate, (mode odd:) build
   which  mod 5: 0 TypClause<String> 1 TypClause<ModuleGenericsDef> 2 ModuleGenericsDef 3 FieldDef 4 ConnectionEndpointDef
   doc    := str(entry) nmods module* nlinks link*
   module := str(key) inh [str] ngates str* nsubs (str str)* nconns (str str lk [str])*      inh, lk: odd = present
   link   := str(name) latency_us jitter_us bitrate
   str    := len byte{len}                          (bytes are taken mod 128)

   A document is what serde hands to the FromStr impls: every key / scalar that def.rs parses is
   a raw string here and goes through Grammar.v.

   output (grammar)  := 1 value lp(display) roundtrip | 2 class | 9 site
   output (document) := 2 kind*                     (sorted candidate error kinds; Io = 3 for a string def.rs rejects)
                      | 9 site                      (model only: a panic site of def.rs / mod.rs)
                      | 1 tree                      (mode even)
                      | 1 tree 4                    (mode odd, a submodule name is not identifier-like: build not attempted)
                      | 1 tree 5 (1 nmods mod* nedges edge* den | 2 kind | 9 site)
   see the serialisers below for tree / mod / edge. *)
From Coq Require Import List NArith Bool.
From DesVerif Require Import Common.Codec Ndl.Bytes Ndl.Grammar Ndl.Def Ndl.Transform Ndl.Build Ndl.Denote Ndl.Realisable.
Import ListNotations.
Open Scope N_scope.

(* ---- decoding ---- *)
Definition nxt (l : list N) : N * list N := match l with [] => (0, []) | x :: r => (x, r) end.
Definition clamp (s : bytes) : bytes := map (fun b => b mod 128) s.
Definition take_str (l : list N) : bytes * list N := let '(s, r) := take_lp l in (clamp s, r).
Definition count (n : N) (r : list N) : nat := N.to_nat (N.min n (N.of_nat (length r))).

Fixpoint take_many {A} (one : list N -> A * list N) (k : nat) (l : list N) : list A * list N :=
  match k with
  | O => ([], l)
  | S k' => let '(a, r) := one l in let '(more, r') := take_many one k' r in (a :: more, r')
  end.
Definition counted {A} (one : list N -> A * list N) (l : list N) : list A * list N :=
  let '(n, r) := nxt l in take_many one (count n r) r.

Record raw_module := { rm_key : bytes; rm_inherit : option bytes; rm_gates : list bytes;
                       rm_subs : list (bytes * bytes); rm_conns : list (bytes * bytes * option bytes) }.
Record raw_doc := { rd_entry : bytes; rd_modules : list raw_module; rd_links : list (bytes * Link) }.

Definition take_opt_str (l : list N) : option bytes * list N :=
  let '(f, r) := nxt l in
  if N.odd f then let '(s, r') := take_str r in (Some s, r') else (None, r).
Definition take_pair (l : list N) : (bytes * bytes) * list N :=
  let '(a, r) := take_str l in let '(b, r') := take_str r in ((a, b), r').
Definition take_conn (l : list N) : (bytes * bytes * option bytes) * list N :=
  let '(ab, r) := take_pair l in let '(lk, r') := take_opt_str r in ((ab, lk), r').
Definition take_module (l : list N) : raw_module * list N :=
  let '(k, r) := take_str l in
  let '(inh, r) := take_opt_str r in
  let '(gs, r) := counted take_str r in
  let '(ss, r) := counted take_pair r in
  let '(cs, r) := counted take_conn r in
  ({| rm_key := k; rm_inherit := inh; rm_gates := gs; rm_subs := ss; rm_conns := cs |}, r).
Definition take_link (l : list N) : (bytes * Link) * list N :=
  let '(nm, r) := take_str l in
  let '(a, r) := nxt r in let '(b, r) := nxt r in let '(c, r) := nxt r in
  ((nm, {| l_lat := a; l_jit := b; l_rate := c |}), r).
Definition decode_doc (l : list N) : raw_doc :=
  let '(e, r) := take_str l in
  let '(ms, r) := counted take_module r in
  let '(ls, _) := counted take_link r in
  {| rd_entry := e; rd_modules := ms; rd_links := ls |}.

(* ---- serde: every string through its FromStr; the first failure fails the document (ErrorKind::Io) ---- *)
Definition io {A} (r : res A) : res A := match r with Err _ => Err K_IO | x => x end.

Definition parse_module (fx : bool) (m : raw_module) : res (TypClause Generic * ModuleDef) :=
  do key <- io (typclause_from_str fx generic_from_str (rm_key m));
  do gates <- io (collect field_from_str (rm_gates m));
  do subs <- io (collect (fun ab => do f <- field_from_str (fst ab);
                                    do t <- typclause_from_str fx string_from_str (snd ab); Ok (f, t)) (rm_subs m));
  do conns <- io (collect (fun c => do a <- endpoint_from_str (fst (fst c));
                                     do b <- endpoint_from_str (snd (fst c));
                                     Ok {| cd_lhs := a; cd_rhs := b; cd_link := snd c |}) (rm_conns m));
  Ok (key, {| md_inherit := rm_inherit m; md_gates := gates; md_subs := subs; md_conns := conns |}).

Definition parse_doc (fx : bool) (d : raw_doc) : res Def :=
  do ms <- collect (parse_module fx) (rd_modules d);
  Ok {| d_entry := rd_entry d; d_modules := ms; d_links := rd_links d |}.

(* ---- canonical output ---- *)
Fixpoint lex_leb (a b : list N) : bool :=
  match a, b with
  | [], _ => true
  | _ :: _, [] => false
  | x :: a', y :: b' => if x <? y then true else if y <? x then false else lex_leb a' b'
  end.
Fixpoint insert_sorted (x : list N) (l : list (list N)) : list (list N) :=
  match l with
  | [] => [x]
  | y :: r => if lex_leb x y then x :: l else y :: insert_sorted x r
  end.
Definition sort_lists (l : list (list N)) : list (list N) := fold_right insert_sorted [] l.
Definition sorted_concat (l : list (list N)) : list N := N.of_nat (length l) :: concat (sort_lists l).

Definition lp (s : bytes) : list N := N.of_nat (length s) :: s.
Definition ser_kard (k : Kard) : list N := match k with Atom => [0] | Cluster n => [n + 1] end.
Definition ser_field (f : FieldDef) : list N := lp (fd_ident f) ++ ser_kard (fd_kard f).
Definition ser_acc (a : Accessor) : list N := lp (ac_name a) ++ [match ac_index a with Some i => i + 1 | None => 0 end].
Definition ser_path (p : list Accessor) : list N := N.of_nat (length p) :: flat_map ser_acc p.
Definition ser_link (l : option Link) : list N :=
  match l with None => [0] | Some k => [1; l_lat k * 1000; l_jit k * 1000; l_rate k] end.
Definition ser_conn (c : Conn) : list N := ser_path (cn_l c) ++ ser_path (cn_r c) ++ ser_link (cn_link c).

Fixpoint ser_node (n : Node) : list N :=
  match n with
  | mkNode typ subs gates conns =>
    lp typ ++ sorted_concat (map ser_field gates) ++
    sorted_concat ((fix go (l : list (FieldDef * Node)) : list (list N) :=
                      match l with [] => [] | (f, sn) :: r => (ser_field f ++ ser_node sn) :: go r end) subs) ++
    N.of_nat (length conns) :: flat_map ser_conn conns
  end.

(* flat view shared by the built state and the denotation *)
Definition ser_gate_pos (g : gate_pos) : list N := let '(p, nm, k) := g in ser_path p ++ lp nm ++ [k].
Definition ser_flat (mods : list (path * ident)) (gates : list (path * ident * N * N))
           (edges : list (gate_pos * gate_pos * option Link)) : list N :=
  sorted_concat (map (fun m =>
      ser_path (fst m) ++ lp (snd m) ++
      sorted_concat (map (fun g => let '(_, nm, sz, k) := g in lp nm ++ [sz; k])
                         (filter (fun g => let '(p, _, _, _) := g in path_eqb p (fst m)) gates))) mods) ++
  sorted_concat (map (fun e => let '(a, b, l) := e in ser_gate_pos a ++ ser_gate_pos b ++ ser_link l) edges).

(* the registry of the harness: the types M0..M31, T0..T7 and m0..m7 are registered, each with its own software;
   symbols are compared exactly (m3 is not M3) *)
Definition registered (s : ident) : bool :=
  match s with
  | [77; d] => is_digit d
  | [77; d1; d2] => ((d1 =? 49) || (d1 =? 50)) && is_digit d2 || (d1 =? 51) && ((d2 =? 48) || (d2 =? 49))
  | [84; d] => (48 <=? d) && (d <=? 55)
  | [109; d] => (48 <=? d) && (d <=? 55)
  | _ => false
  end.

Definition ident_like (s : bytes) : bool := match s with [] => false | _ => forallb name_char s end.
Fixpoint names_ok (n : Node) : bool :=
  match n with
  | mkNode _ subs _ _ =>
    (fix go (l : list (FieldDef * Node)) : bool :=
       match l with [] => true | (f, sn) :: r => ident_like (fd_ident f) && names_ok sn && go r end) subs
  end.

Definition dedup_sorted (l : list N) : list N :=
  fold_right (fun x acc => match acc with y :: _ => if x =? y then acc else x :: acc | [] => [x] end) []
             (concat (sort_lists (map (fun x => [x]) l))).

(* [den] = 1 iff the built state equals the flattening of the denoted tree and the tree is [realisable];
   a failing build of a realisable tree (impossible, BuildTotal.realisable_builds) would print a trailing 0 *)
Definition run_build (d : Def) (n : Node) : list N :=
  if negb (names_ok n) then [4] else
  let bad := if realisable registered n then [0] else [] in
  5 :: match build registered n with
       | Ok st =>
         let out := ser_flat (bs_mods st) (state_gates st) (state_edges st) in
         let den := match denote_tree d with
                    | Some dn => if list_eqb N.eqb out (ser_flat (den_mods dn []) (den_gates dn []) (conn_set (den_conns dn []) []))
                                    && realisable registered n
                                 then 1 else 0
                    | None => 1
                    end in
         1 :: out ++ [den]
       | Err k => [2; k] ++ bad
       | Panic s => [9; s] ++ bad
       | OutOfFuel => [8]
       end.

Definition run_doc (fx : bool) (mode : N) (rd : raw_doc) : list N :=
  match parse_doc fx rd with
  | Err k => [2; k]
  | Panic s => [9; s]
  | OutOfFuel => [8]
  | Ok d =>
    match cands fx d with
    | (_ :: _) as ks => 2 :: dedup_sorted ks
    | [] =>
      match transform fx d with
      | Ok n => 1 :: ser_node n ++ (if N.odd mode then run_build d n else [])
      | Err k => [7; k]
      | Panic s => [9; s]
      | OutOfFuel => [8]
      end
    end
  end.

(* ---- grammar stream ---- *)
Definition ser_generic (g : Generic) : list N := lp (g_binding g) ++ lp (g_bound g).
Definition ser_kard64 (k : Kard) : list N := match k with Atom => [0] | Cluster n => [1; n / 4294967296; n mod 4294967296] end.
Definition ser_field64 (f : FieldDef) : list N := lp (fd_ident f) ++ ser_kard64 (fd_kard f).
Definition ser_tc {A} (sa : A -> list N) (t : TypClause A) : list N :=
  lp (tc_ident t) ++ N.of_nat (length (tc_args t)) :: flat_map sa (tc_args t).

Definition out_parse {A} (r : res A) (ser : A -> list N) (disp : A -> res bytes) (again : bytes -> res A)
           (eqb : A -> A -> bool) : list N :=
  match r with
  | Ok v => match disp v with
            | Ok s => 1 :: ser v ++ lp s ++ [match again s with Ok v' => if eqb v v' then 1 else 0 | _ => 0 end]
            | Panic p => [9; p]
            | _ => [8]
            end
  | Err e => [2; e]
  | Panic p => [9; p]
  | OutOfFuel => [8]
  end.

Definition generic_eqb (a b : Generic) : bool := beq (g_binding a) (g_binding b) && beq (g_bound a) (g_bound b).
Definition tc_eqb {A} (e : A -> A -> bool) (a b : TypClause A) : bool :=
  beq (tc_ident a) (tc_ident b) && list_eqb e (tc_args a) (tc_args b).

Definition run_grammar (fx : bool) (which : N) (s : bytes) : list N :=
  let w := which mod 5 in
  if w =? 0 then out_parse (typclause_from_str fx string_from_str s) (ser_tc lp) (typclause_display (fun x => x))
                           (typclause_from_str fx string_from_str) (tc_eqb beq)
  else if w =? 1 then out_parse (typclause_from_str fx generic_from_str s) (ser_tc ser_generic) (typclause_display generic_display)
                                (typclause_from_str fx generic_from_str) (tc_eqb generic_eqb)
  else if w =? 2 then out_parse (generic_from_str s) ser_generic (fun g => Ok (generic_display g)) generic_from_str generic_eqb
  else if w =? 3 then out_parse (field_from_str s) ser_field64 (fun f => Ok (field_display f)) field_from_str field_eqb
  else out_parse (endpoint_from_str s) (fun e => N.of_nat (length e) :: flat_map ser_field64 e)
                 (fun e => Ok (endpoint_display e)) endpoint_from_str (list_eqb field_eqb).

Definition run_fx (fx : bool) (input : list N) : list N :=
  let '(stream, r) := nxt input in
  if stream =? 0 then let '(which, r') := nxt r in run_grammar fx which (clamp r')
  else let '(mode, r') := nxt r in run_doc fx mode (decode_doc r').

Definition run (input : list N) : list N := run_fx true input.
