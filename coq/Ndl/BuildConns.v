(* build_matches_denotation, part 3 (connections): when the build of a tree succeeds, the
   connections of the simulation -- read per gate, both directions, with link parameters --
   are, up to order, the connection set the tree's statements denote ([conn_set]: statements in
   build order, positions made absolute, a pair connected twice counted once with the first link). *)
From Coq Require Import List NArith Bool Lia Arith Permutation.
From DesVerif Require Import Ndl.Bytes Ndl.BytesProps Ndl.Grammar Ndl.Def Ndl.Build Ndl.Denote Ndl.BuildProps Ndl.EqSpecs.
Import ListNotations.
Local Open Scope nat_scope.

Lemma gate_pos_eqb_eq : forall a b, gate_pos_eqb a b = true <-> a = b.
Proof.
  intros [[p n] k] [[q m] j]. unfold gate_pos_eqb. rewrite !andb_true_iff, path_eqb_eq, beq_eq, N.eqb_eq.
  split; [intros [[-> ->] ->]; reflexivity|intros H; injection H as -> -> ->; auto].
Qed.

Definition conns_of (l : list action) : list half_edge :=
  flat_map (fun a => match a with AConnect p f t k => [(abs_gate p f, abs_gate p t, k)] | _ => [] end) l.

(* ---- the statements of the plan, in build order ---- *)
Lemma conns_of_app : forall a b, conns_of (a ++ b) = conns_of a ++ conns_of b.
Proof. intros. unfold conns_of. apply flat_map_app. Qed.

Lemma conns_of_gates : forall p gs,
  conns_of (flat_map (fun g => map (fun k => ACreateGate p (fd_ident g) (as_size (fd_kard g)) k) (rangeN (as_size (fd_kard g)))) gs) = [].
Proof.
  intros p gs. induction gs as [|g gs IH]; [reflexivity|]. cbn [flat_map]. rewrite conns_of_app, IH, app_nil_r.
  induction (rangeN (as_size (fd_kard g))) as [|k r IHr]; [reflexivity|exact IHr].
Qed.

Lemma conns_of_connects : forall p (cs : list Conn),
  conns_of (map (fun c => AConnect p (cn_l c) (cn_r c) (cn_link c)) cs) = own_conns (mkNode [] [] [] cs) p.
Proof.
  intros p cs. unfold own_conns. cbn [n_conns]. induction cs as [|c cs IH]; [reflexivity|].
  cbn [map]. unfold conns_of in *. cbn [flat_map app]. rewrite IH. reflexivity.
Qed.

Theorem plan_conns : forall n p, conns_of (plan n p) = den_conns n p.
Proof.
  intros n. induction n as [t subs g c IH] using Node_ind'. intros p.
  cbn [plan den_conns]. change (conns_of (ACreateModule p t :: ?l)) with (conns_of l).
  rewrite !conns_of_app, conns_of_gates, conns_of_connects. cbn [app]. unfold own_conns. cbn [n_conns]. f_equal.
  induction subs as [|[f sn] subs IHs]; [reflexivity|].
  inversion IH as [|? ? Hsn Hrest]; subst. cbn [snd] in Hsn.
  rewrite conns_of_app. rewrite (IHs Hrest). f_equal.
  induction (sub_paths p f) as [|sp r IHr]; [reflexivity|]. cbn [flat_map]. rewrite conns_of_app, Hsn, IHr. reflexivity.
Qed.

(* ---- well-formed build states ---- *)
Definition ids_ok (st : bstate) : Prop :=
  forall i g, nth_error (bs_gates st) i = Some g -> gr_id g = N.of_nat i.
Definition canonical (st : bstate) (id : N) : Prop :=
  exists g, In g (bs_gates st) /\ gr_id g = id /\ find_gate st (gr_path g) (gr_name g) (gr_pos g) = Some id.
Definition keys_nodup (cs : list (N * list (N * option Link))) : Prop := NoDup (map fst cs).
Definition wf_state (st : bstate) : Prop :=
  ids_ok st /\ keys_nodup (bs_conns st) /\
  forall x y k, In (x, y, k) (id_edges st) -> canonical st x /\ canonical st y.

Lemma ids_unique : forall st g1 g2, ids_ok st -> In g1 (bs_gates st) -> In g2 (bs_gates st) -> gr_id g1 = gr_id g2 -> g1 = g2.
Proof.
  intros st g1 g2 H H1 H2 E. apply In_nth_error in H1 as [i1 H1]. apply In_nth_error in H2 as [i2 H2].
  pose proof (H _ _ H1) as E1. pose proof (H _ _ H2) as E2. rewrite E1, E2 in E. apply Nat2N.inj in E. subst i2.
  rewrite H1 in H2. congruence.
Qed.

Lemma pos_of_gate : forall st g, ids_ok st -> In g (bs_gates st) -> pos_of st (gr_id g) = (gr_path g, gr_name g, gr_pos g).
Proof.
  intros st g H Hin. unfold pos_of. destruct (find _ (bs_gates st)) as [g0|] eqn:E.
  - apply find_some in E as [Hin0 E0]. apply N.eqb_eq in E0. rewrite (ids_unique st g0 g H Hin0 Hin E0). reflexivity.
  - exfalso. apply (find_none _ _ E) in Hin. rewrite N.eqb_refl in Hin. discriminate.
Qed.

Lemma canonical_inj : forall st x y, ids_ok st -> canonical st x -> canonical st y -> pos_of st x = pos_of st y -> x = y.
Proof.
  intros st x y H (gx & Hx & <- & Fx) (gy & Hy & <- & Fy) E.
  rewrite (pos_of_gate st gx H Hx), (pos_of_gate st gy H Hy) in E. injection E as E1 E2 E3.
  rewrite E1, E2, E3 in Fx. congruence.
Qed.

Lemma find_gate_spec : forall st p nm k id, find_gate st p nm k = Some id ->
  exists g, In g (bs_gates st) /\ gr_id g = id /\ gr_path g = p /\ gr_name g = nm /\ gr_pos g = k.
Proof.
  intros st p nm k id H. unfold find_gate in H. destruct (find _ (bs_gates st)) as [g|] eqn:E; [|discriminate].
  cbn [option_map] in H. injection H as <-. apply find_some in E as [Hin Hb].
  apply andb_true_iff in Hb as [Hb H3]. apply andb_true_iff in Hb as [H1 H2].
  exists g. repeat split; [exact Hin|apply path_eqb_eq; exact H1|apply beq_eq; exact H2|apply N.eqb_eq; exact H3].
Qed.

Lemma find_gate_canonical : forall st p nm k id, ids_ok st -> find_gate st p nm k = Some id ->
  canonical st id /\ pos_of st id = (p, nm, k).
Proof.
  intros st p nm k id H Hf. destruct (find_gate_spec _ _ _ _ _ Hf) as (g & Hin & <- & <- & <- & <-).
  split; [exists g; repeat split; assumption|apply pos_of_gate; assumption].
Qed.

Lemma abs_gate_cons : forall p a b rest, abs_gate p (a :: b :: rest) = abs_gate (p ++ [a]) (b :: rest).
Proof.
  intros p a b rest. unfold abs_gate. change (rev (a :: b :: rest)) with (rev (b :: rest) ++ [a]).
  destruct (rev (b :: rest)) as [|last init_rev] eqn:E.
  - exfalso. apply (f_equal (@length _)) in E. rewrite rev_length in E. discriminate.
  - cbn [app]. rewrite rev_app_distr. cbn [rev app]. rewrite <- app_assoc. reflexivity.
Qed.

Lemma access_gate_spec : forall st accessors p id, ids_ok st -> access_gate st p accessors = Ok id ->
  canonical st id /\ pos_of st id = abs_gate p accessors.
Proof.
  intros st accessors. induction accessors as [|a rest IH]; intros p id H Ha; cbn [access_gate] in Ha; [discriminate|].
  destruct rest as [|b rest'].
  - destruct (find_gate st p (ac_name a) _) as [g|] eqn:E; [|discriminate]. injection Ha as <-.
    destruct (find_gate_canonical _ _ _ _ _ H E) as [Hc Hp]. split; [exact Hc|].
    rewrite Hp. unfold abs_gate. cbn [rev app]. rewrite app_nil_r. reflexivity.
  - destruct (has_module st (p ++ [a])); [|discriminate]. rewrite abs_gate_cons. apply IH; assumption.
Qed.

(* ---- stability when modules and gates are added ---- *)
Lemma find_app_some : forall {A} (f : A -> bool) l r x, find f l = Some x -> find f (l ++ r) = Some x.
Proof. intros A f l r x. induction l as [|a l IH]; cbn [find app]; [discriminate|]. destruct (f a); auto. Qed.

Definition extends (st st' : bstate) : Prop :=
  bs_conns st' = bs_conns st /\ exists more, bs_gates st' = bs_gates st ++ more.

Lemma canonical_extends : forall st st' id, extends st st' -> canonical st id -> canonical st' id.
Proof.
  intros st st' id [_ (more & Eg)] (g & Hin & Hid & Hf). exists g. rewrite Eg. split; [apply in_or_app; left; exact Hin|].
  split; [exact Hid|]. unfold find_gate in *. rewrite Eg. destruct (find _ (bs_gates st)) as [g0|] eqn:E; [|discriminate].
  rewrite (find_app_some _ _ more _ E). exact Hf.
Qed.

Lemma pos_of_extends : forall st st' id, ids_ok st -> extends st st' -> canonical st id -> pos_of st' id = pos_of st id.
Proof.
  intros st st' id H [_ (more & Eg)] (g & Hin & Hid & _). unfold pos_of. rewrite Eg.
  destruct (find (fun g0 => (gr_id g0 =? id)%N) (bs_gates st)) as [g0|] eqn:E.
  - rewrite (find_app_some _ _ more _ E). reflexivity.
  - exfalso. apply (find_none _ _ E) in Hin. rewrite Hid, N.eqb_refl in Hin. discriminate.
Qed.

Lemma state_edges_extends : forall st st', wf_state st -> extends st st' -> state_edges st' = state_edges st.
Proof.
  intros st st' (Hids & _ & Hcan) Hext. unfold state_edges. assert (Ee : id_edges st' = id_edges st).
  { unfold id_edges. destruct Hext as [-> _]. reflexivity. }
  rewrite Ee. apply map_ext_in. intros [[x y] k] Hin. cbn [fst snd]. destruct (Hcan _ _ _ Hin) as [Hx Hy].
  rewrite (pos_of_extends _ _ _ Hids Hext Hx), (pos_of_extends _ _ _ Hids Hext Hy). reflexivity.
Qed.

(* ---- the connection table of Gate::connect ---- *)
Definition flat (cs : list (N * list (N * option Link))) : list (N * N * option Link) :=
  flat_map (fun e => map (fun c => (fst e, fst c, snd c)) (snd e)) cs.

Lemma put_slot_absent : forall cs g c, ~ In g (map fst cs) ->
  map (fun e : N * list (N * option Link) => if (fst e =? g)%N then (fst e, snd e ++ [c]) else e) cs = cs.
Proof.
  intros cs g c. induction cs as [|e cs IH]; intros Hn; [reflexivity|]. cbn [map] in *.
  destruct (N.eqb_spec (fst e) g) as [E|_]; [exfalso; apply Hn; left; exact E|].
  rewrite IH; [reflexivity|]. intros Hi. apply Hn. right. exact Hi.
Qed.

Lemma existsb_key : forall (cs : list (N * list (N * option Link))) g,
  existsb (fun e => (fst e =? g)%N) cs = true <-> In g (map fst cs).
Proof.
  intros cs g. rewrite existsb_exists. split.
  - intros (e & He & Eg). apply N.eqb_eq in Eg. subst. apply in_map. exact He.
  - intros H. apply in_map_iff in H as (e & <- & He). exists e. split; [exact He|apply N.eqb_refl].
Qed.

Lemma nodup_snoc : forall {A} (l : list A) g, NoDup l -> ~ In g l -> NoDup (l ++ [g]).
Proof.
  intros A l g H. induction H as [|x l Hx Hl IH]; intros Hn; cbn [app]; [constructor; [intros []|constructor]|].
  constructor.
  - intros Hi. apply in_app_or in Hi as [Hi|[<-|[]]]; [exact (Hx Hi)|]. apply Hn. left. reflexivity.
  - apply IH. intros Hi. apply Hn. right. exact Hi.
Qed.

Lemma put_slot_spec : forall cs g c, keys_nodup cs ->
  Permutation (flat (put_slot cs g c)) (flat cs ++ [(g, fst c, snd c)]) /\ keys_nodup (put_slot cs g c) /\
  (forall x, In x (map fst cs) -> In x (map fst (put_slot cs g c))).
Proof.
  intros cs g c Hnd. unfold put_slot. destruct (existsb _ cs) eqn:Ee.
  - apply existsb_key in Ee. split; [|split].
    + induction cs as [|e cs IH]; [destruct Ee|]. cbn [map] in Hnd, Ee. inversion Hnd as [|? ? He Hr]; subst.
      cbn [map]. destruct (N.eqb_spec (fst e) g) as [E|Ene].
      * subst g. rewrite put_slot_absent by exact He. unfold flat. cbn [flat_map fst snd]. rewrite map_app. cbn [map].
        rewrite <- !app_assoc. apply Permutation_app_head. apply Permutation_app_comm.
      * destruct Ee as [E|Ee]; [congruence|]. unfold flat in *. cbn [flat_map]. rewrite <- app_assoc.
        apply Permutation_app_head. exact (IH Hr Ee).
    + unfold keys_nodup in *. rewrite map_map.
      erewrite map_ext; [exact Hnd|]. intros e. destruct (fst e =? g)%N; reflexivity.
    + intros x Hx. rewrite map_map. erewrite map_ext; [exact Hx|]. intros e. destruct (fst e =? g)%N; reflexivity.
  - split; [|split].
    + unfold flat. rewrite flat_map_app. cbn [flat_map map fst snd]. rewrite app_nil_r. apply Permutation_refl.
    + unfold keys_nodup in *. rewrite map_app. cbn [map fst]. apply nodup_snoc; [exact Hnd|].
      intros Hx. apply existsb_key in Hx. congruence.
    + intros x Hx. rewrite map_app. apply in_or_app. left. exact Hx.
Qed.

Lemma slots_spec : forall st a y k, keys_nodup (bs_conns st) ->
  (In (y, k) (slots st a) <-> In (a, y, k) (id_edges st)).
Proof.
  intros st a y k. unfold slots, id_edges. generalize (bs_conns st). intros cs Hnd.
  induction cs as [|e cs IH]; cbn [find flat_map]; [split; intros []|].
  cbn [map] in Hnd. unfold keys_nodup in Hnd. cbn [map] in Hnd. inversion Hnd as [|? ? He Hr]; subst.
  destruct (N.eqb_spec (fst e) a) as [E|Ene].
  - subst a. split.
    + intros H. apply in_or_app. left. apply in_map_iff. exists (y, k). split; [reflexivity|exact H].
    + intros H. apply in_app_or in H as [H|H].
      * apply in_map_iff in H as ([y' k'] & E & Hin). cbn [fst snd] in E. injection E as <- <-. exact Hin.
      * exfalso. apply He. apply in_flat_map in H as (e' & He' & Hin). apply in_map_iff in Hin as (c & E & _).
        injection E as E _ _. rewrite <- E. apply in_map. exact He'.
  - rewrite (IH Hr). split.
    + intros H. apply in_or_app. right. exact H.
    + intros H. apply in_app_or in H as [H|H]; [|exact H].
      apply in_map_iff in H as (c & E & _). injection E as E _ _. congruence.
Qed.

Lemma connected_iff : forall st a b, keys_nodup (bs_conns st) ->
  (existsb (fun c => (fst c =? b)%N) (slots st a) = true <-> exists k, In (a, b, k) (id_edges st)).
Proof.
  intros st a b Hnd. rewrite existsb_exists. split.
  - intros ([y k] & Hin & E). cbn [fst] in E. apply N.eqb_eq in E. subst y. exists k. apply slots_spec; assumption.
  - intros (k & H). exists (b, k). split; [apply slots_spec; assumption|apply N.eqb_refl].
Qed.

Lemma connect_spec : forall st a b l st', keys_nodup (bs_conns st) -> connect st a b l = Ok st' ->
  bs_mods st' = bs_mods st /\ bs_gates st' = bs_gates st /\ keys_nodup (bs_conns st') /\
  (((exists k, In (a, b, k) (id_edges st)) /\ st' = st) \/
   ((~ exists k, In (a, b, k) (id_edges st)) /\ Permutation (id_edges st') (id_edges st ++ [(a, b, l); (b, a, l)]))).
Proof.
  intros st a b l st' Hnd H. unfold connect in H. destruct (a =? b)%N; [discriminate|].
  destruct (existsb _ (slots st a)) eqn:Ec.
  - injection H as <-. repeat split; try assumption. left. split; [apply connected_iff; assumption|reflexivity].
  - destruct (_ || _); [discriminate|]. injection H as <-. cbn [bs_mods bs_gates bs_conns].
    destruct (put_slot_spec (bs_conns st) a (b, l) Hnd) as (P1 & N1 & _).
    destruct (put_slot_spec _ b (a, l) N1) as (P2 & N2 & _).
    repeat split; try assumption. right. split.
    + intros Hex. apply connected_iff in Hex; [congruence|exact Hnd].
    + unfold id_edges. cbn [bs_conns]. fold (flat (put_slot (put_slot (bs_conns st) a (b, l)) b (a, l))).
      eapply Permutation_trans; [exact P2|]. cbn [fst snd].
      fold (flat (bs_conns st)).
      replace (flat (bs_conns st) ++ [(a, b, l); (b, a, l)]) with ((flat (bs_conns st) ++ [(a, b, l)]) ++ [(b, a, l)])
        by (rewrite <- app_assoc; reflexivity).
      apply Permutation_app_tail. exact P1.
Qed.

(* ---- the simulation between exec and conn_set ---- *)
Definition inv (st : bstate) (acc : list half_edge) : Prop := wf_state st /\ Permutation (state_edges st) acc.

Lemma conn_set_app : forall x y acc, conn_set (x ++ y) acc = conn_set y (conn_set x acc).
Proof.
  induction x as [|[[a b] k] x IH]; intros y acc; cbn [app conn_set]; [reflexivity|].
  match goal with |- context [existsb ?f acc] => destruct (existsb f acc) end; apply IH.
Qed.

Lemma present_iff : forall st acc a b, wf_state st -> Permutation (state_edges st) acc -> canonical st a -> canonical st b ->
  (existsb (fun e : half_edge => gate_pos_eqb (fst (fst e)) (pos_of st a) && gate_pos_eqb (snd (fst e)) (pos_of st b)) acc = true
   <-> exists k, In (a, b, k) (id_edges st)).
Proof.
  intros st acc a b (Hids & _ & Hcan) Hp Ha Hb. rewrite existsb_exists. split.
  - intros ([[x y] k] & Hin & E). cbn [fst snd] in E. apply andb_true_iff in E as [E1 E2].
    apply gate_pos_eqb_eq in E1. apply gate_pos_eqb_eq in E2. subst x y.
    apply (Permutation_in _ (Permutation_sym Hp)) in Hin. unfold state_edges in Hin.
    apply in_map_iff in Hin as ([[x' y'] k'] & E & Hin'). cbn [fst snd] in E. injection E as E1 E2 <-.
    destruct (Hcan _ _ _ Hin') as [Hx Hy].
    rewrite (canonical_inj st x' a Hids Hx Ha E1), (canonical_inj st y' b Hids Hy Hb E2) in Hin'. exists k'. exact Hin'.
  - intros (k & Hin). exists (pos_of st a, pos_of st b, k). split.
    + apply (Permutation_in _ Hp). unfold state_edges. apply in_map_iff. exists (a, b, k). split; [reflexivity|exact Hin].
    + cbn [fst snd]. apply andb_true_iff. split; apply gate_pos_eqb_eq; reflexivity.
Qed.

Lemma ids_ok_snoc : forall st g, ids_ok st -> gr_id g = N.of_nat (length (bs_gates st)) ->
  forall i g', nth_error (bs_gates st ++ [g]) i = Some g' -> gr_id g' = N.of_nat i.
Proof.
  intros st g H Hg i g' Hn. destruct (Nat.lt_ge_cases i (length (bs_gates st))) as [Hlt|Hge].
  - rewrite nth_error_app1 in Hn by exact Hlt. exact (H _ _ Hn).
  - rewrite nth_error_app2 in Hn by exact Hge. destruct (i - length (bs_gates st)) as [|j] eqn:Ej.
    + cbn in Hn. injection Hn as <-. rewrite Hg. f_equal. lia.
    + cbn in Hn. destruct j; discriminate.
Qed.

Lemma wf_extends : forall st st', wf_state st -> extends st st' -> ids_ok st' -> wf_state st'.
Proof.
  intros st st' (Hids & Hk & Hcan) Hext Hids'. split; [exact Hids'|]. destruct Hext as [Ec Eg] eqn:Eext. split; [rewrite Ec; exact Hk|].
  intros x y k Hin. unfold id_edges in Hin. rewrite Ec in Hin. destruct (Hcan _ _ _ Hin) as [Hx Hy].
  split; eapply canonical_extends; try eassumption; split; assumption.
Qed.

Section Sim.
  Variable registered : ident -> bool.

  Lemma exec1_sim : forall st a st' acc, exec1 registered st a = Ok st' -> inv st acc -> inv st' (conn_set (conns_of [a]) acc).
  Proof.
    intros st a st' acc H [Hwf Hp]. destruct a as [p s|p nm sz k|p from to l]; cbn [exec1] in H.
    - destruct (has_module st p); [discriminate|]. destruct (negb _); [discriminate|]. injection H as <-.
      assert (Hext : extends st {| bs_mods := bs_mods st ++ [(p, s)]; bs_gates := bs_gates st; bs_conns := bs_conns st |}).
      { split; [reflexivity|]. exists []. cbn. rewrite app_nil_r. reflexivity. }
      cbn [conns_of flat_map conn_set]. split.
      + apply (wf_extends st); [exact Hwf|exact Hext|]. destruct Hwf as [Hids _]. exact Hids.
      + rewrite (state_edges_extends _ _ Hwf Hext). exact Hp.
    - injection H as <-. set (g := {| gr_id := N.of_nat (length (bs_gates st)); gr_path := p; gr_name := nm; gr_size := sz; gr_pos := k |}).
      assert (Hext : extends st {| bs_mods := bs_mods st; bs_gates := bs_gates st ++ [g]; bs_conns := bs_conns st |}).
      { split; [reflexivity|]. exists [g]. reflexivity. }
      cbn [conns_of flat_map conn_set]. split.
      + apply (wf_extends st); [exact Hwf|exact Hext|]. destruct Hwf as [Hids _]. intros i g'. cbn [bs_gates].
        apply ids_ok_snoc; [exact Hids|reflexivity].
      + rewrite (state_edges_extends _ _ Hwf Hext). exact Hp.
    - destruct (access_gate st p from) as [a| | |] eqn:Ea; cbn [bind] in H; try discriminate.
      destruct (access_gate st p to) as [b| | |] eqn:Eb; cbn [bind] in H; try discriminate.
      pose proof Hwf as (Hids & Hk & Hcan).
      destruct (access_gate_spec _ _ _ _ Hids Ea) as [Hca Hpa]. destruct (access_gate_spec _ _ _ _ Hids Eb) as [Hcb Hpb].
      destruct (connect_spec _ _ _ _ _ Hk H) as (Hm & Hg & Hk' & Hcase).
      cbn [conns_of flat_map app conn_set]. rewrite <- Hpa, <- Hpb.
      destruct Hcase as [[Hex ->]|[Hnex Hperm]].
      + match goal with |- context [existsb ?f acc] =>
          assert (Ex : existsb f acc = true) by exact (proj2 (present_iff st acc a b Hwf Hp Hca Hcb) Hex); rewrite Ex end.
        split; assumption.
      + match goal with |- context [existsb ?f acc] => destruct (existsb f acc) eqn:Ex end; [exfalso; apply Hnex; apply (present_iff st acc a b Hwf Hp Hca Hcb); exact Ex|].
        assert (Hcan' : forall id, canonical st id -> canonical st' id).
        { intros id (g & Hin & Hid & Hf). exists g. rewrite Hg. split; [exact Hin|]. split; [exact Hid|].
          unfold find_gate in *. rewrite Hg. exact Hf. }
        assert (Hpos : forall id, pos_of st' id = pos_of st id) by (intros id; unfold pos_of; rewrite Hg; reflexivity).
        split.
        * split; [intros i g; rewrite Hg; apply Hids|]. split; [exact Hk'|].
          intros x y k Hin. apply (Permutation_in _ Hperm) in Hin. apply in_app_or in Hin as [Hin|Hin].
          -- destruct (Hcan _ _ _ Hin) as [Hx Hy]. split; apply Hcan'; assumption.
          -- destruct Hin as [E|[E|[]]]; injection E as <- <- _; split; apply Hcan'; assumption.
        * unfold state_edges. erewrite map_ext; [|intros e; rewrite !Hpos; reflexivity].
          eapply Permutation_trans; [apply Permutation_map; exact Hperm|]. rewrite map_app. cbn [map fst snd].
          apply Permutation_app_tail. exact Hp.
  Qed.

  Lemma exec_sim : forall l st st' acc, exec registered st l = Ok st' -> inv st acc -> inv st' (conn_set (conns_of l) acc).
  Proof.
    induction l as [|a l IH]; intros st st' acc H Hinv; cbn [exec] in H.
    - injection H as <-. exact Hinv.
    - destruct (exec1 registered st a) as [st1| | |] eqn:E1; cbn [bind] in H; try discriminate.
      change (a :: l) with ([a] ++ l). rewrite conns_of_app, conn_set_app.
      apply (IH _ _ _ H). apply (exec1_sim _ _ _ _ E1 Hinv).
  Qed.

  (* the connections of the built simulation = the connection set the tree denotes, up to order *)
  Theorem build_connections : forall n st, build registered n = Ok st ->
    Permutation (state_edges st) (conn_set (den_conns n []) []).
  Proof.
    intros n st H. unfold build in H. rewrite <- plan_conns.
    refine (proj2 (exec_sim _ _ _ [] H _)). split; [|apply Permutation_refl].
    split; [intros i g Hn; destruct i; discriminate|]. split; [constructor|]. intros x y k [].
  Qed.
End Sim.
