(* Byte strings ([list N], one number per UTF-8 byte) and the str functions that
   des-net-utils/src/ndl/def.rs uses: split_once, ends_with, trim_end_matches, trim,
   split, str::parse::<usize>, and Display of usize.  Pure definitions; lemmas are in
   BytesProps.v.  The model is exact on ASCII input (bytes < 128); [trim] strips
   the ASCII white space only (Unicode White_Space code points are outside the model). *)
From Coq Require Import List NArith Bool.
Import ListNotations.
Open Scope N_scope.

Definition bytes := list N.

Definition LPAREN : N := 40.   Definition RPAREN : N := 41.
Definition COMMA : N := 44.    Definition SPACE : N := 32.
Definition LBRACK : N := 91.   Definition RBRACK : N := 93.
Definition SLASH : N := 47.    Definition LT : N := 60.
Definition MINUS : N := 45.    Definition PLUS : N := 43.

Fixpoint beq (a b : bytes) : bool :=
  match a, b with
  | [], [] => true
  | x :: a', y :: b' => (x =? y) && beq a' b'
  | _, _ => false
  end.

(* s.split_once(c) *)
Fixpoint split_once_char (c : N) (s : bytes) : option (bytes * bytes) :=
  match s with
  | [] => None
  | x :: r => if x =? c then Some ([], r)
              else match split_once_char c r with
                   | Some (a, b) => Some (x :: a, b)
                   | None => None
                   end
  end.

(* s.split_once(p1 p2) for a two-byte pattern *)
Fixpoint split_once_2 (p1 p2 : N) (s : bytes) : option (bytes * bytes) :=
  match s with
  | [] => None
  | x :: r => match r with
              | y :: r' => if (x =? p1) && (y =? p2) then Some ([], r')
                           else match split_once_2 p1 p2 r with
                                | Some (a, b) => Some (x :: a, b)
                                | None => None
                                end
              | [] => None
              end
  end.

(* s.split(c): always at least one piece *)
Fixpoint split_char_acc (c : N) (cur : bytes) (s : bytes) : list bytes :=
  match s with
  | [] => [rev cur]
  | x :: r => if x =? c then rev cur :: split_char_acc c [] r else split_char_acc c (x :: cur) r
  end.
Definition split_char (c : N) (s : bytes) : list bytes := split_char_acc c [] s.

(* s.split(p1 p2): leftmost non-overlapping matches of a two-byte pattern *)
Fixpoint split_2_acc (p1 p2 : N) (cur : bytes) (s : bytes) : list bytes :=
  match s with
  | [] => [rev cur]
  | x :: r => match r with
              | y :: r' => if (x =? p1) && (y =? p2) then rev cur :: split_2_acc p1 p2 [] r'
                           else split_2_acc p1 p2 (x :: cur) r
              | [] => [rev (x :: cur)]
              end
  end.
Definition split_2 (p1 p2 : N) (s : bytes) : list bytes := split_2_acc p1 p2 [] s.

Definition last_is (c : N) (s : bytes) : bool :=
  match rev s with x :: _ => x =? c | [] => false end.

Fixpoint drop_while (f : N -> bool) (s : bytes) : bytes :=
  match s with
  | [] => []
  | x :: r => if f x then drop_while f r else s
  end.

(* s.trim_end_matches(c) *)
Definition trim_end_matches (c : N) (s : bytes) : bytes := rev (drop_while (N.eqb c) (rev s)).

(* char::is_whitespace restricted to ASCII: U+0009..U+000D and U+0020 *)
Definition is_ws (b : N) : bool := ((9 <=? b) && (b <=? 13)) || (b =? 32).
Definition trim_start (s : bytes) : bytes := drop_while is_ws s.
Definition trim (s : bytes) : bytes := rev (drop_while is_ws (rev (drop_while is_ws s))).

Definition is_digit (b : N) : bool := (48 <=? b) && (b <=? 57).

(* characters of plain identifiers: ASCII letters, digits, underscore *)
Definition name_char (b : N) : bool :=
  is_digit b || ((65 <=? b) && (b <=? 90)) || ((97 <=? b) && (b <=? 122)) || (b =? 95).

(* usize::MAX on the 64-bit target the harness is built for *)
Definition USIZE_MAX : N := 18446744073709551615.

Fixpoint digits_value (acc : N) (s : bytes) : option N :=
  match s with
  | [] => Some acc
  | x :: r => if is_digit x then
                let acc' := acc * 10 + (x - 48) in
                if acc' <=? USIZE_MAX then digits_value acc' r else None
              else None
  end.

(* str::parse::<usize>: optional single leading '+', at least one digit, digits only, no overflow *)
Definition parse_usize (s : bytes) : option N :=
  match s with
  | [] => None
  | x :: r => if x =? PLUS then match r with [] => None | _ => digits_value 0 r end
              else digits_value 0 s
  end.

(* Display for usize: decimal digits, most significant first.  [fuel] bounds the number of
   digits; [to_dec] supplies the number of bits + 1, which is always enough (BytesProps.to_dec_value). *)
Fixpoint to_dec_fuel (fuel : nat) (n : N) (acc : bytes) : bytes :=
  match fuel with
  | O => acc
  | S f => let acc' := (48 + n mod 10) :: acc in
           if n <? 10 then acc' else to_dec_fuel f (n / 10) acc'
  end.
Definition to_dec (n : N) : bytes := to_dec_fuel (S (N.to_nat (N.size n))) n [].

(* a.iter().reduce(|a, b| a + sep + b) *)
Fixpoint join (sep : bytes) (l : list bytes) : bytes :=
  match l with
  | [] => []
  | [a] => a
  | a :: r => a ++ sep ++ join sep r
  end.
