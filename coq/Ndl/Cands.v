(* What the runner prints on failure ([cands]: the kinds of all errors that some hash-map
   iteration order can meet first) versus `transform` in document order: transform's error
   is one of the candidates, and transform succeeds exactly when there is no candidate. *)
From Coq Require Import List NArith Bool Lia Arith.
From DesVerif Require Import Ndl.Bytes Ndl.BytesProps Ndl.Grammar Ndl.GrammarProps Ndl.Def Ndl.Transform.
Import ListNotations.
Local Open Scope nat_scope.

Lemma collect_err_in : forall {A B} (f : A -> res B) l k, collect f l = Err k -> exists a, In a l /\ f a = Err k.
Proof.
  intros A B f l k. induction l as [|a l IH]; intros H; cbn [collect] in H; [discriminate|].
  destruct (f a) as [b|k'| |] eqn:Ea; cbn [bind] in H; try discriminate.
  - destruct (collect f l) as [bs|k'| |]; cbn [bind] in H; try discriminate. injection H as ->.
    destruct (IH eq_refl) as (a' & Ha' & E). exists a'. split; [right; exact Ha'|exact E].
  - injection H as ->. exists a. split; [left; reflexivity|exact Ea].
Qed.

Lemma collect_ok_all : forall {A B} (f : A -> res B) l v, collect f l = Ok v -> forall a, In a l -> exists b, f a = Ok b.
Proof.
  intros A B f l. induction l as [|a l IH]; intros v H x Hx; cbn [collect] in H; [destruct Hx|].
  destruct (f a) as [b| | |] eqn:Ea; cbn [bind] in H; try discriminate.
  destruct (collect f l) as [bs| | |]; cbn [bind] in H; try discriminate.
  destruct Hx as [<-|Hx]; [exists b; exact Ea|]. exact (IH bs eq_refl x Hx).
Qed.

Lemma module_cands_err : forall fx self m nodes links k,
  transform_module fx self m nodes links = Err k -> In k (module_cands fx self m nodes links).
Proof.
  intros fx self m nodes links k H. unfold module_cands. pose proof H as H0. unfold transform_module in H.
  destruct (has_dup_binding _); [injection H as <-; left; reflexivity|].
  destruct (transform_gates (md_gates m)) as [gs|k'| |]; cbn [bind] in H; try discriminate;
    [|injection H as <-; left; reflexivity].
  unfold transform_submodules in H.
  destruct (collect _ (md_subs m)) as [ss|k'| |] eqn:Ec; cbn [bind] in H; try discriminate.
  - assert (Ees : flat_map (fun ft => match transform_submodule fx (fst ft) self (snd ft) nodes with Err k0 => [k0] | _ => [] end) (md_subs m) = []).
    { pose proof (collect_ok_all _ _ _ Ec) as Hall. revert Hall. generalize (md_subs m). intros l Hall.
      induction l as [|a l IH]; cbn [flat_map]; [reflexivity|].
      destruct (Hall a (or_introl eq_refl)) as (b & ->). cbn [app]. apply IH. intros x Hx. apply Hall. right. exact Hx. }
    rewrite Ees. rewrite H0. left. reflexivity.
  - injection H as <-. destruct (collect_err_in _ _ _ Ec) as (ft & Hft & Ef).
    assert (Hin : In k' (flat_map (fun ft => match transform_submodule fx (fst ft) self (snd ft) nodes with Err k0 => [k0] | _ => [] end) (md_subs m))).
    { apply in_flat_map. exists ft. split; [exact Hft|]. rewrite Ef. left. reflexivity. }
    destruct (flat_map _ (md_subs m)) as [|x r]; [destruct Hin|exact Hin].
Qed.

Lemma not_failed_nil : forall deps, existsb (fun s => mem_ident s []) deps = false.
Proof. induction deps as [|s deps IH]; [reflexivity|]. cbn [existsb mem_ident]. exact IH. Qed.

Lemma elaborate_all_ok : forall fx l arch links arch',
  elaborate fx l arch links = Ok arch' -> elaborate_all fx l arch [] links = (arch', []).
Proof.
  intros fx l. induction l as [|e l IH]; intros arch links arch' H; cbn [elaborate elaborate_all] in *.
  - injection H as <-. reflexivity.
  - rewrite not_failed_nil. destruct (transform_module fx _ _ arch links) as [a| | |]; cbn [bind] in H; try discriminate.
    apply IH. exact H.
Qed.

Lemma elaborate_all_err : forall fx l arch links k,
  elaborate fx l arch links = Err k -> In k (snd (elaborate_all fx l arch [] links)).
Proof.
  intros fx l. induction l as [|e l IH]; intros arch links k H; cbn [elaborate elaborate_all] in *; [discriminate|].
  rewrite not_failed_nil. destruct (transform_module fx _ _ arch links) as [a|k'| |] eqn:Em; cbn [bind] in H; try discriminate.
  - apply IH. exact H.
  - injection H as <-. destruct (elaborate_all fx l arch [e_ident e] links) as [arch2 ks]. cbn [snd].
    apply in_or_app. left. apply module_cands_err. exact Em.
Qed.

Lemma elaborate_all_nil : forall fx l arch links, snd (elaborate_all fx l arch [] links) = [] ->
  match elaborate fx l arch links with
  | Ok a => a = fst (elaborate_all fx l arch [] links)
  | Err _ => False
  | _ => True
  end.
Proof.
  intros fx l. induction l as [|e l IH]; intros arch links H; cbn [elaborate elaborate_all] in *; [reflexivity|].
  rewrite not_failed_nil in *. destruct (transform_module fx _ _ arch links) as [a|k'| |] eqn:Em; cbn [bind]; try exact I.
  - apply IH. exact H.
  - destruct (elaborate_all fx l arch [e_ident e] links) as [arch2 ks]. cbn [snd] in H.
    apply app_eq_nil in H as [H _]. pose proof (module_cands_err _ _ _ _ _ _ Em) as Hin. rewrite H in Hin. destruct Hin.
Qed.

Theorem transform_err_in_cands : forall fx d k, transform fx d = Err k -> In k (cands fx d).
Proof.
  intros fx d k H. unfold transform in H. unfold cands.
  destruct (order_loop _ [] (entries d) []) as [ordered|k'| |]; cbn [bind] in H; try discriminate;
    [|injection H as <-; left; reflexivity].
  destruct (elaborate fx ordered [] (d_links d)) as [arch|k'| |] eqn:Ee; cbn [bind] in H; try discriminate.
  - rewrite (elaborate_all_ok _ _ _ _ _ Ee). destruct (lookup (d_entry d) arch) as [[n g]|]; [discriminate|].
    injection H as <-. left. reflexivity.
  - injection H as <-. pose proof (elaborate_all_err _ _ _ _ _ Ee) as Hin.
    destruct (elaborate_all fx ordered [] [] (d_links d)) as [arch2 ks]. cbn [snd] in Hin.
    destruct ks as [|x r]; [destruct Hin|exact Hin].
Qed.

Theorem transform_ok_cands_nil : forall fx d n, transform fx d = Ok n -> cands fx d = [].
Proof.
  intros fx d n H. unfold transform in H. unfold cands.
  destruct (order_loop _ [] (entries d) []) as [ordered|k'| |]; cbn [bind] in H; try discriminate.
  destruct (elaborate fx ordered [] (d_links d)) as [arch|k'| |] eqn:Ee; cbn [bind] in H; try discriminate.
  rewrite (elaborate_all_ok _ _ _ _ _ Ee). destruct (lookup (d_entry d) arch) as [[n' g]|]; [reflexivity|discriminate].
Qed.

Theorem cands_nil_transform_ok : forall fx d, returns (transform fx d) -> cands fx d = [] -> exists n, transform fx d = Ok n.
Proof.
  intros fx d Hr H. unfold transform in *. unfold cands in H.
  destruct (order_loop _ [] (entries d) []) as [ordered|k'| |]; cbn [bind] in *; try contradiction; [|discriminate].
  pose proof (elaborate_all_nil fx ordered [] (d_links d)) as Hn.
  destruct (elaborate_all fx ordered [] [] (d_links d)) as [arch2 ks]. cbn [snd fst] in *.
  destruct ks as [|x r]; [|discriminate]. specialize (Hn eq_refl).
  destruct (elaborate fx ordered [] (d_links d)) as [arch| | |]; cbn [bind] in *; try contradiction.
  subst arch2. destruct (lookup (d_entry d) arch) as [[n g]|]; [exists n; reflexivity|discriminate].
Qed.
