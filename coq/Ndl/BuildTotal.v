(* realisable_builds: a tree that is [realisable] (Realisable.v) is built without panic and without
   registry error -- equivalently, every panic site of the build (module path exists, missing child /
   gate, gate connected to itself, third connection) and MissingRegistrySymbol are reached only by
   trees that are not realisable. *)
From Coq Require Import List NArith Bool Lia Arith Permutation.
From DesVerif Require Import Ndl.Bytes Ndl.BytesProps Ndl.Grammar Ndl.Def Ndl.Transform Ndl.Build Ndl.Denote
     Ndl.BuildProps Ndl.EqSpecs Ndl.BuildConns Ndl.Realisable.
Import ListNotations.
Local Open Scope nat_scope.

(* ---- the plan, one level unfolded ---- *)
Definition jobs (p : path) (subs : list (FieldDef * Node)) : list (path * Node) :=
  flat_map (fun s => map (fun sp => (sp, snd s)) (sub_paths p (fst s))) subs.
Definition gate_actions (p : path) (gs : list FieldDef) : list action :=
  flat_map (fun g => map (fun k => ACreateGate p (fd_ident g) (as_size (fd_kard g)) k) (rangeN (as_size (fd_kard g)))) gs.
Definition connect_actions (p : path) (cs : list Conn) : list action :=
  map (fun c => AConnect p (cn_l c) (cn_r c) (cn_link c)) cs.

Lemma jobs_fix : forall {A} (f : Node -> path -> list A) p subs,
  (fix go (l : list (FieldDef * Node)) : list A :=
     match l with [] => [] | (fd, sn) :: r => flat_map (fun sp => f sn sp) (sub_paths p fd) ++ go r end) subs
  = flat_map (fun j => f (snd j) (fst j)) (jobs p subs).
Proof.
  intros A f p subs. induction subs as [|[fd sn] subs IH]; [reflexivity|].
  unfold jobs. cbn [flat_map fst snd]. rewrite flat_map_app. fold (jobs p subs). rewrite <- IH. f_equal.
  induction (sub_paths p fd) as [|sp r IHr]; [reflexivity|]. cbn [map flat_map fst snd]. rewrite IHr. reflexivity.
Qed.

Lemma plan_unfold : forall t subs g c p,
  plan (mkNode t subs g c) p =
  ACreateModule p t :: gate_actions p g ++ flat_map (fun j => plan (snd j) (fst j)) (jobs p subs) ++ connect_actions p c.
Proof. intros. cbn [plan]. rewrite (jobs_fix plan). reflexivity. Qed.

Lemma den_mods_unfold : forall t subs g c p,
  den_mods (mkNode t subs g c) p = (p, t) :: flat_map (fun j => den_mods (snd j) (fst j)) (jobs p subs).
Proof. intros. cbn [den_mods]. rewrite (jobs_fix den_mods). reflexivity. Qed.

Lemma den_gates_unfold : forall t subs g c p,
  den_gates (mkNode t subs g c) p = own_gates (mkNode t subs g c) p ++ flat_map (fun j => den_gates (snd j) (fst j)) (jobs p subs).
Proof. intros. cbn [den_gates]. rewrite (jobs_fix den_gates). reflexivity. Qed.

Lemma den_conns_unfold : forall t subs g c p,
  den_conns (mkNode t subs g c) p = flat_map (fun j => den_conns (snd j) (fst j)) (jobs p subs) ++ own_conns (mkNode t subs g c) p.
Proof. intros. cbn [den_conns]. rewrite (jobs_fix den_conns). reflexivity. Qed.

Lemma job_node_in : forall p subs j, In j (jobs p subs) -> exists s, In s subs /\ snd s = snd j /\ In (fst j) (sub_paths p (fst s)).
Proof.
  intros p subs j H. unfold jobs in H. apply in_flat_map in H as (s & Hs & Hj). apply in_map_iff in Hj as (sp & <- & Hsp).
  exists s. cbn [fst snd]. auto.
Qed.

(* ---- paths ---- *)
Lemma den_mods_prefix : forall n p q s, In (q, s) (den_mods n p) -> exists r, q = p ++ r.
Proof.
  intros n. induction n as [t subs g c IH] using Node_ind'. intros p q s H. rewrite den_mods_unfold in H.
  destruct H as [E|H]; [injection E as <- _; exists []; rewrite app_nil_r; reflexivity|].
  apply in_flat_map in H as (j & Hj & Hin). destruct (job_node_in _ _ _ Hj) as (s0 & Hs0 & Esn & Hsp).
  rewrite Forall_forall in IH. specialize (IH s0 Hs0). rewrite Esn in IH. destruct (IH _ _ _ Hin) as (r & ->).
  unfold sub_paths in Hsp. destruct (fd_kard (fst s0)).
  - destruct Hsp as [<-|[]]. rewrite <- app_assoc. eexists. reflexivity.
  - apply in_map_iff in Hsp as (k & <- & _). rewrite <- app_assoc. eexists. reflexivity.
Qed.

Lemma sub_path_shape : forall p f sp, In sp (sub_paths p f) -> exists a, sp = p ++ [a] /\ ac_name a = fd_ident f /\ index_fits (fd_kard f) (ac_index a) = true.
Proof.
  intros p f sp H. unfold sub_paths in H. destruct (fd_kard f) as [|n] eqn:Ek.
  - destruct H as [<-|[]]. eexists. split; [reflexivity|]. split; reflexivity.
  - apply in_map_iff in H as (k & <- & Hk). eexists. split; [reflexivity|]. split; [reflexivity|]. cbn [ac_index index_fits].
    unfold rangeN in Hk. apply in_map_iff in Hk as (i & <- & Hi). apply in_seq in Hi. apply N.ltb_lt. lia.
Qed.

Lemma rangeN_in : forall n j, (j < n)%N -> In j (rangeN n).
Proof.
  intros n j H. unfold rangeN. apply in_map_iff. exists (N.to_nat j). split; [apply N2Nat.id|]. apply in_seq. lia.
Qed.

Lemma rangeN_nodup : forall n, NoDup (rangeN n).
Proof.
  intros n. unfold rangeN. apply FinFun.Injective_map_NoDup; [intros a b; apply Nat2N.inj|apply seq_NoDup].
Qed.

Lemma app_same_length : forall {A} (a a' b b' : list A), a ++ b = a' ++ b' -> length a = length a' -> a = a'.
Proof.
  intros A a. induction a as [|x a IH]; intros [|y a'] b b' H Hl; cbn [length] in Hl; try discriminate; [reflexivity|].
  cbn [app] in H. injection H as -> H. f_equal. eapply IH; [exact H|lia].
Qed.

(* ---- the degree of a gate: slots of Gate::connect vs the denoted set ---- *)
Lemma filter_length_map : forall {A B} (f : A -> bool) (g : B -> bool) (h : A -> B) l,
  (forall x, In x l -> f x = g (h x)) -> length (filter f l) = length (filter g (map h l)).
Proof.
  intros A B f g h l H. induction l as [|x l IH]; [reflexivity|]. cbn [filter map].
  rewrite <- (H x (or_introl eq_refl)). destruct (f x); cbn [length]; rewrite IH; auto; intros y Hy; apply H; right; exact Hy.
Qed.

Lemma perm_filter_length : forall {A} (f : A -> bool) l l', Permutation l l' -> length (filter f l) = length (filter f l').
Proof.
  intros A f l l' H. induction H as [|x l l' _ IH|x y l|l l' l'' _ IH1 _ IH2]; cbn [filter]; [reflexivity| | |congruence].
  - destruct (f x); cbn [length]; rewrite IH; reflexivity.
  - destruct (f x), (f y); reflexivity.
Qed.

Lemma filter_group : forall (k : N) (cs : list (N * option Link)) a,
  filter (fun x : N * N * option Link => (fst (fst x) =? a)%N) (map (fun c : N * option Link => (k, fst c, snd c)) cs)
  = if (k =? a)%N then map (fun c : N * option Link => (k, fst c, snd c)) cs else [].
Proof.
  intros k cs a. induction cs as [|c cs IH]; [destruct (k =? a)%N; reflexivity|]. cbn [map filter fst]. rewrite IH.
  destruct (k =? a)%N; reflexivity.
Qed.

Lemma filter_other_key : forall cs a, ~ In a (map fst cs) -> filter (fun x : N * N * option Link => (fst (fst x) =? a)%N) (flat cs) = [].
Proof.
  intros cs a. induction cs as [|e cs IH]; intros Hn; [reflexivity|]. unfold flat in *. cbn [flat_map]. rewrite filter_app, filter_group.
  cbn [map] in Hn. destruct (N.eqb_spec (fst e) a) as [E|_]; [exfalso; apply Hn; left; exact E|].
  cbn [app]. apply IH. intros Hi. apply Hn. right. exact Hi.
Qed.

Lemma slots_length : forall st a, keys_nodup (bs_conns st) ->
  length (slots st a) = length (filter (fun e => (fst (fst e) =? a)%N) (id_edges st)).
Proof.
  intros st a. unfold slots, id_edges. fold (flat (bs_conns st)). generalize (bs_conns st). intros cs Hnd.
  induction cs as [|e cs IH]; [reflexivity|]. unfold keys_nodup in Hnd. cbn [map] in Hnd. inversion Hnd as [|? ? He Hr]; subst.
  unfold flat. cbn [find flat_map]. fold (flat cs). rewrite filter_app, app_length, filter_group.
  destruct (N.eqb_spec (fst e) a) as [E|Ene].
  - subst a. rewrite (filter_other_key cs (fst e) He). cbn [length]. rewrite map_length. lia.
  - cbn [length plus]. apply IH. exact Hr.
Qed.

Lemma degree_spec : forall st acc a, inv st acc -> canonical st a ->
  length (slots st a) = degree (pos_of st a) acc.
Proof.
  intros st acc a [(Hids & Hk & Hcan) Hp] Ha. rewrite (slots_length st a Hk). unfold degree.
  rewrite <- (perm_filter_length _ _ _ Hp). unfold state_edges. apply filter_length_map.
  intros [[x y] k] Hin. cbn [fst snd]. unfold from_pos. cbn [fst].
  destruct (Hcan _ _ _ Hin) as [Hx _]. destruct (N.eqb_spec x a) as [->|Hne].
  - symmetry. apply gate_pos_eqb_eq. reflexivity.
  - symmetry. destruct (gate_pos_eqb (pos_of st x) (pos_of st a)) eqn:E; [|reflexivity].
    apply gate_pos_eqb_eq in E. exfalso. apply Hne. exact (canonical_inj st x a Hids Hx Ha E).
Qed.

Lemma connect_succeeds : forall st acc a b k, inv st acc -> canonical st a -> canonical st b ->
  gate_pos_eqb (pos_of st a) (pos_of st b) = false ->
  (connected (pos_of st a) (pos_of st b) acc = true \/
   (Nat.leb 2 (degree (pos_of st a) acc) = false /\ Nat.leb 2 (degree (pos_of st b) acc) = false)) ->
  exists st', connect st a b k = Ok st'.
Proof.
  intros st acc a b k Hinv Ha Hb Hne Hw. unfold connect.
  destruct (N.eqb_spec a b) as [->|_].
  - exfalso. assert (E : gate_pos_eqb (pos_of st b) (pos_of st b) = true) by (apply gate_pos_eqb_eq; reflexivity). congruence.
  - destruct (existsb _ (slots st a)) eqn:Es; [eexists; reflexivity|].
    destruct Hw as [Hc|[Hda Hdb]].
    + exfalso. destruct Hinv as [Hwf Hp]. pose proof Hwf as (_ & Hk & _).
      apply (present_iff st acc a b Hwf Hp Ha Hb) in Hc. apply (connected_iff st a b Hk) in Hc. congruence.
    + rewrite <- (degree_spec st acc a Hinv Ha) in Hda. rewrite <- (degree_spec st acc b Hinv Hb) in Hdb.
      apply Nat.leb_gt in Hda. apply Nat.leb_gt in Hdb.
      destruct (N.leb_spec 2 (N.of_nat (length (slots st a)))) as [H1|_]; [lia|].
      destruct (N.leb_spec 2 (N.of_nat (length (slots st b)))) as [H2|_]; [lia|]. eexists. reflexivity.
Qed.

(* ---- what a state holds ---- *)
Definition holds (st : bstate) (ms : list (path * ident)) (gs : list (path * ident * N * N)) : Prop :=
  (forall q s, In (q, s) ms -> has_module st q = true) /\
  (forall q nm sz k, In (q, nm, sz, k) gs ->
     exists g, In g (bs_gates st) /\ gr_path g = q /\ gr_name g = nm /\ gr_pos g = k).

Lemma has_module_in : forall st q, has_module st q = true <-> In q (map fst (bs_mods st)).
Proof.
  intros st q. unfold has_module. rewrite existsb_exists. split.
  - intros (m & Hm & E). apply path_eqb_eq in E. subst. apply in_map. exact Hm.
  - intros H. apply in_map_iff in H as (m & <- & Hm). exists m. split; [exact Hm|apply path_eqb_eq; reflexivity].
Qed.

Lemma holds_of_exec : forall registered l st st', exec registered st l = Ok st' -> holds st' (mods_of l) (gates_of l).
Proof.
  intros registered l st st' H. destruct (exec_keeps registered _ _ _ H) as [Hm Hg]. split.
  - intros q s Hin. apply has_module_in. rewrite Hm, map_app. apply in_or_app. right. apply (in_map fst _ (q, s)). exact Hin.
  - intros q nm sz k Hin. assert (Hs : In (q, nm, sz, k) (state_gates st')) by (rewrite Hg; apply in_or_app; right; exact Hin).
    unfold state_gates in Hs. apply in_map_iff in Hs as (g & E & Hg'). injection E as <- <- _ <-. exists g. auto.
Qed.

Lemma holds_same : forall st st' ms gs, bs_mods st' = bs_mods st -> bs_gates st' = bs_gates st -> holds st ms gs -> holds st' ms gs.
Proof.
  intros st st' ms gs Hm Hg [H1 H2]. split.
  - intros q s Hin. unfold has_module. rewrite Hm. exact (H1 q s Hin).
  - intros q nm sz k Hin. rewrite Hg. exact (H2 q nm sz k Hin).
Qed.

Lemma holds_incl : forall st ms gs ms' gs', incl ms' ms -> incl gs' gs -> holds st ms gs -> holds st ms' gs'.
Proof. intros st ms gs ms' gs' Hm Hg [H1 H2]. split; [intros q s Hin; apply (H1 q s); apply Hm; exact Hin|intros q nm sz k Hin; apply (H2 q nm sz k); apply Hg; exact Hin]. Qed.

Lemma den_mods_head : forall n p, In (p, n_typ n) (den_mods n p).
Proof. intros [t s g c] p. rewrite den_mods_unfold. left. reflexivity. Qed.

Lemma sub_path_in : forall p f a, beq (fd_ident f) (ac_name a) = true -> index_fits (fd_kard f) (ac_index a) = true ->
  In (p ++ [a]) (sub_paths p f).
Proof.
  intros p f [nm idx] Hn Hi. cbn [ac_name ac_index] in *. apply beq_eq in Hn. subst nm. unfold sub_paths.
  destruct (fd_kard f) as [|n], idx as [j|]; cbn [index_fits] in Hi; try discriminate.
  - left. reflexivity.
  - apply in_map_iff. exists j. split; [reflexivity|]. apply rangeN_in. apply N.ltb_lt. exact Hi.
Qed.

Lemma find_exists : forall {A} (f : A -> bool) l x, In x l -> f x = true -> exists y, find f l = Some y.
Proof.
  intros A f l x Hin Hf. destruct (find f l) as [y|] eqn:E; [exists y; reflexivity|].
  apply (find_none _ _ E) in Hin. congruence.
Qed.

(* an endpoint that resolves in the tree is found in any state that holds the tree *)
Lemma access_ok : forall e n p st, resolves e n = true -> holds st (den_mods n p) (den_gates n p) ->
  exists id, access_gate st p e = Ok id.
Proof.
  induction e as [|a rest IH]; intros n p st Hr Hh; [discriminate|]. destruct n as [t subs g c].
  cbn [resolves access_gate] in *. destruct rest as [|b rest'].
  - apply existsb_exists in Hr as (gd & Hgd & Hb). apply andb_true_iff in Hb as [Hn Hlt]. cbn [n_gates] in Hgd.
    apply beq_eq in Hn. apply N.ltb_lt in Hlt. destruct Hh as [_ Hg].
    destruct (Hg p (fd_ident gd) (as_size (fd_kard gd)) (acc_pos a)) as (gr & Hin & Hp & Hnm & Hk).
    { rewrite den_gates_unfold. apply in_or_app. left. unfold own_gates. cbn [n_gates]. apply in_flat_map. exists gd. split; [exact Hgd|].
      apply in_map_iff. exists (acc_pos a). split; [reflexivity|apply rangeN_in; exact Hlt]. }
    unfold find_gate. fold (acc_pos a).
    destruct (find_exists (fun g0 => path_eqb (gr_path g0) p && beq (gr_name g0) (ac_name a) && (gr_pos g0 =? acc_pos a)%N) _ gr Hin) as (y & ->).
    { rewrite Hp, Hnm, Hk, Hn. rewrite (proj2 (path_eqb_eq p p) eq_refl), beq_refl, N.eqb_refl. reflexivity. }
    eexists. reflexivity.
  - apply existsb_exists in Hr as (s & Hs & Hb). apply andb_true_iff in Hb as [Hb Hres]. apply andb_true_iff in Hb as [Hn Hfit].
    cbn [n_subs] in Hs. pose proof (sub_path_in p (fst s) a Hn Hfit) as Hsp.
    assert (Hjob : In (p ++ [a], snd s) (jobs p subs)).
    { unfold jobs. apply in_flat_map. exists s. split; [exact Hs|]. apply in_map_iff. exists (p ++ [a]). split; [reflexivity|exact Hsp]. }
    assert (Hsub : holds st (den_mods (snd s) (p ++ [a])) (den_gates (snd s) (p ++ [a]))).
    { eapply holds_incl; [| |exact Hh].
      - intros x Hx. rewrite den_mods_unfold. right. apply in_flat_map. exists (p ++ [a], snd s). split; [exact Hjob|exact Hx].
      - intros x Hx. rewrite den_gates_unfold. apply in_or_app. right. apply in_flat_map. exists (p ++ [a], snd s). split; [exact Hjob|exact Hx]. }
    assert (Hm : has_module st (p ++ [a]) = true).
    { destruct Hsub as [H1 _]. apply (H1 _ (n_typ (snd s))). apply den_mods_head. }
    rewrite Hm. exact (IH (snd s) (p ++ [a]) st Hres Hsub).
Qed.

Lemma wiring_ok_app : forall l1 l2 acc, wiring_ok (l1 ++ l2) acc = wiring_ok l1 acc && wiring_ok l2 (conn_set l1 acc).
Proof.
  induction l1 as [|[[a b] k] l1 IH]; intros l2 acc; cbn [app wiring_ok conn_set]; [reflexivity|].
  destruct (gate_pos_eqb a b); [reflexivity|]. unfold connected.
  match goal with |- context [existsb ?f acc] => destruct (existsb f acc) end; [apply IH|].
  destruct (_ || _); [reflexivity|apply IH].
Qed.

Section Total.
  Variable registered : ident -> bool.

  Lemma exec_app : forall a b st, exec registered st (a ++ b) = do s1 <- exec registered st a; exec registered s1 b.
  Proof.
    induction a as [|x a IH]; intros b st; cbn [app exec bind]; [reflexivity|].
    destruct (exec1 registered st x) as [s| | |]; cbn [bind]; [apply IH|reflexivity|reflexivity|reflexivity].
  Qed.

  Lemma connects_ok : forall n p cs st acc, inv st acc -> holds st (den_mods n p) (den_gates n p) ->
    (forall c, In c cs -> resolves (cn_l c) n && resolves (cn_r c) n = true) ->
    wiring_ok (map (fun c => (abs_gate p (cn_l c), abs_gate p (cn_r c), cn_link c)) cs) acc = true ->
    exists st', exec registered st (connect_actions p cs) = Ok st'.
  Proof.
    intros n p cs. induction cs as [|c cs IH]; intros st acc Hinv Hh Hres Hw; [eexists; reflexivity|].
    cbn [connect_actions map exec]. destruct (andb_prop _ _ (Hres c (or_introl eq_refl))) as [Hl Hr].
    destruct (access_ok _ _ _ _ Hl Hh) as (a & Ea). destruct (access_ok _ _ _ _ Hr Hh) as (b & Eb).
    pose proof Hinv as [(Hids & _) _].
    destruct (access_gate_spec _ _ _ _ Hids Ea) as [Hca Hpa]. destruct (access_gate_spec _ _ _ _ Hids Eb) as [Hcb Hpb].
    cbn [map wiring_ok] in Hw. rewrite <- Hpa, <- Hpb in Hw.
    destruct (gate_pos_eqb (pos_of st a) (pos_of st b)) eqn:Ene; [discriminate|].
    assert (Hc : exists st1, connect st a b (cn_link c) = Ok st1).
    { apply (connect_succeeds st acc); try assumption.
      destruct (connected (pos_of st a) (pos_of st b) acc); [left; reflexivity|].
      right. apply orb_false_iff. destruct (_ || _); [discriminate|reflexivity]. }
    destruct Hc as (st1 & Ec).
    assert (E1 : exec1 registered st (AConnect p (cn_l c) (cn_r c) (cn_link c)) = Ok st1).
    { cbn [exec1]. rewrite Ea, Eb. cbn [bind]. exact Ec. }
    rewrite E1. cbn [bind].
    pose proof (exec1_sim registered _ _ _ _ E1 Hinv) as Hinv1. cbn [conns_of flat_map app conn_set] in Hinv1.
    rewrite <- Hpa, <- Hpb in Hinv1.
    destruct (connect_keeps _ _ _ _ _ Ec) as [Hm Hg].
    apply (IH st1 _ Hinv1 (holds_same _ _ _ _ Hm Hg Hh) (fun x Hx => Hres x (or_intror Hx))).
    unfold connected in Hw.
    match goal with |- context [existsb ?f acc] => destruct (existsb f acc) end; [exact Hw|].
    destruct (_ || _); [discriminate|exact Hw].
  Qed.

  Lemma gate_list_exec : forall l, Forall (fun a => exists q nm sz k, a = ACreateGate q nm sz k) l ->
    forall st, exists st', exec registered st l = Ok st'.
  Proof.
    intros l Hall. induction Hall as [|a l (q & nm & sz & k & ->) _ IH]; intros st; [eexists; reflexivity|].
    cbn [exec exec1 bind]. apply IH.
  Qed.

  Lemma gates_exec : forall p gs st, exists st', exec registered st (gate_actions p gs) = Ok st'.
  Proof.
    intros p gs. apply gate_list_exec. unfold gate_actions. apply Forall_forall. intros a Ha.
    apply in_flat_map in Ha as (g & _ & Ha). apply in_map_iff in Ha as (k & <- & _). eauto.
  Qed.
End Total.

(* ---- distinct submodule paths ---- *)
Lemma fits_same_shape : forall k k' i, index_fits k i = true -> index_fits k' i = true -> same_shape k k' = true.
Proof. intros [|n] [|n'] [j|]; cbn; intros; try discriminate; reflexivity. Qed.

Lemma sub_paths_nodup : forall p f, NoDup (sub_paths p f).
Proof.
  intros p f. unfold sub_paths. destruct (fd_kard f) as [|n]; [constructor; [intros []|constructor]|].
  apply FinFun.Injective_map_NoDup; [|apply rangeN_nodup].
  intros a b E. apply app_inv_head in E. injection E as E. exact E.
Qed.

Lemma jobs_nodup : forall p subs, has_dup_field subs = false -> NoDup (map fst (jobs p subs)).
Proof.
  intros p subs. induction subs as [|s subs IH]; intros H; [constructor|].
  cbn [has_dup_field] in H. apply orb_false_iff in H as [Hs Hr]. unfold jobs. cbn [flat_map]. fold (jobs p subs).
  rewrite map_app, map_map. cbn [fst]. rewrite map_id.
  assert (Hdisj : forall sp, In sp (sub_paths p (fst s)) -> ~ In sp (map fst (jobs p subs))).
  { intros sp Hsp Hin. apply in_map_iff in Hin as (j & <- & Hj). destruct (job_node_in _ _ _ Hj) as (s' & Hs' & _ & Hsp').
    destruct (sub_path_shape _ _ _ Hsp) as (a & Ea & Hna & Hfa). destruct (sub_path_shape _ _ _ Hsp') as (a' & Ea' & Hna' & Hfa').
    rewrite Ea in Ea'. apply app_inv_head in Ea'. injection Ea' as <-.
    assert (Hex : existsb (fun o => beq (fd_ident (fst s)) (fd_ident (fst o)) && same_shape (fd_kard (fst s)) (fd_kard (fst o))) subs = true).
    { apply existsb_exists. exists s'. split; [exact Hs'|]. rewrite <- Hna, <- Hna', beq_refl. cbn [andb].
      exact (fits_same_shape _ _ _ Hfa Hfa'). }
    congruence. }
  clear Hs. induction (sub_paths_nodup p (fst s)) as [|x l Hx Hl IHl]; [exact (IH Hr)|].
  cbn [app]. constructor.
  - intros Hin. apply in_app_or in Hin as [Hin|Hin]; [exact (Hx Hin)|]. exact (Hdisj x (or_introl eq_refl) Hin).
  - apply IHl. intros sp Hsp. apply Hdisj. right. exact Hsp.
Qed.

Lemma tree_ok_unfold : forall t subs g c, tree_ok (mkNode t subs g c) = true ->
  (forall x, In x c -> resolves (cn_l x) (mkNode t subs g c) && resolves (cn_r x) (mkNode t subs g c) = true) /\
  has_dup_field subs = false /\ (forall s, In s subs -> tree_ok (snd s) = true).
Proof.
  intros t subs g c H. cbn [tree_ok] in H. apply andb_true_iff in H as [H H3]. apply andb_true_iff in H as [H1 H2].
  split; [rewrite forallb_forall in H1; exact H1|]. split; [destruct (has_dup_field subs); [discriminate|reflexivity]|].
  clear H1 H2. induction subs as [|s subs IH]; intros s0 Hs0; [destruct Hs0|].
  apply andb_true_iff in H3 as [Ha Hb]. destruct Hs0 as [<-|Hs0]; [exact Ha|exact (IH Hb s0 Hs0)].
Qed.

Lemma conns_of_jobs : forall js : list (path * Node),
  conns_of (flat_map (fun j => plan (snd j) (fst j)) js) = flat_map (fun j => den_conns (snd j) (fst j)) js.
Proof. induction js as [|j js IHj]; [reflexivity|]. cbn [flat_map]. rewrite conns_of_app, plan_conns, IHj. reflexivity. Qed.

Section Plan.
  Variable registered : ident -> bool.

  Definition fresh (st : bstate) (p : path) : Prop := forall q, has_module st (p ++ q) = false.
  Definition builds (n : Node) : Prop := forall p st acc,
    inv st acc -> fresh st p -> tree_ok n = true ->
    forallb (fun m => registered (snd m)) (den_mods n p) = true -> wiring_ok (den_conns n p) acc = true ->
    exists st', exec registered st (plan n p) = Ok st'.

  Lemma jobs_exec : forall js st acc,
    (forall j, In j js -> builds (snd j)) -> inv st acc ->
    (forall j, In j js -> fresh st (fst j)) -> NoDup (map fst js) ->
    (forall j j', In j js -> In j' js -> length (fst j) = length (fst j')) ->
    (forall j, In j js -> tree_ok (snd j) = true /\ forallb (fun m => registered (snd m)) (den_mods (snd j) (fst j)) = true) ->
    wiring_ok (flat_map (fun j => den_conns (snd j) (fst j)) js) acc = true ->
    exists st', exec registered st (flat_map (fun j => plan (snd j) (fst j)) js) = Ok st'.
  Proof.
    induction js as [|[sp sn] js IH]; intros st acc Hb Hinv Hf Hnd Hlen Hok Hw; [eexists; reflexivity|].
    cbn [flat_map fst snd] in *. rewrite wiring_ok_app in Hw. apply andb_true_iff in Hw as [Hw1 Hw2].
    destruct (Hok (sp, sn) (or_introl eq_refl)) as [Ht Hreg]. cbn [fst snd] in Ht, Hreg.
    destruct (Hb (sp, sn) (or_introl eq_refl) sp st acc Hinv (Hf (sp, sn) (or_introl eq_refl)) Ht Hreg Hw1) as (st1 & E1).
    cbn [fst snd] in E1. rewrite exec_app, E1. cbn [bind].
    pose proof (exec_sim registered _ _ _ _ E1 Hinv) as Hinv1. rewrite plan_conns in Hinv1.
    destruct (exec_keeps registered _ _ _ E1) as [Hm _]. rewrite plan_mods in Hm.
    cbn [map fst] in Hnd. inversion Hnd as [|? ? Hsp Hnd']; subst.
    apply (IH st1 _ (fun j Hj => Hb j (or_intror Hj)) Hinv1); [|exact Hnd'| | |exact Hw2].
    - intros j Hj q. destruct (has_module st1 (fst j ++ q)) eqn:E; [|reflexivity]. exfalso.
      apply has_module_in in E. rewrite Hm, map_app in E. apply in_app_or in E as [E|E].
      + apply has_module_in in E. rewrite (Hf j (or_intror Hj) q) in E. discriminate.
      + apply in_map_iff in E as ([q' s] & Eq & Hin). cbn [fst] in Eq. subst q'.
        destruct (den_mods_prefix _ _ _ _ Hin) as (r & Er).
        assert (Esp : fst j = sp).
        { eapply app_same_length; [exact Er|]. exact (Hlen j (sp, sn) (or_intror Hj) (or_introl eq_refl)). }
        apply Hsp. rewrite <- Esp. apply in_map. exact Hj.
    - intros j j' Hj Hj'. apply Hlen; right; assumption.
    - intros j Hj. apply Hok. right. exact Hj.
  Qed.

  Lemma builds_all : forall n, builds n.
  Proof.
    intros n. induction n as [t subs g c IH] using Node_ind'. intros p st acc Hinv Hfresh Hok Hreg Hw.
    destruct (tree_ok_unfold _ _ _ _ Hok) as (Hres & Hdup & Hsubs).
    rewrite den_mods_unfold in Hreg. cbn [forallb snd] in Hreg. apply andb_true_iff in Hreg as [Hrt Hrj].
    rewrite den_conns_unfold, wiring_ok_app in Hw. apply andb_true_iff in Hw as [Hwj Hwc].
    rewrite plan_unfold.
    (* create the module *)
    assert (E0 : exists st0, exec1 registered st (ACreateModule p t) = Ok st0 /\ bs_mods st0 = bs_mods st ++ [(p, t)]).
    { cbn [exec1]. pose proof (Hfresh []) as Hp. rewrite app_nil_r in Hp. rewrite Hp, Hrt. cbn [negb]. eexists. split; reflexivity. }
    destruct E0 as (st0 & E0 & Hm0).
    change (ACreateModule p t :: ?l) with ([ACreateModule p t] ++ l). rewrite exec_app. cbn [exec]. rewrite E0. cbn [bind].
    pose proof (exec1_sim registered _ _ _ _ E0 Hinv) as Hinv0. cbn [conns_of flat_map conn_set] in Hinv0.
    (* its gates *)
    destruct (gates_exec registered p g st0) as (st1 & E1). rewrite exec_app, E1. cbn [bind].
    pose proof (exec_sim registered _ _ _ _ E1 Hinv0) as Hinv1. unfold gate_actions in Hinv1. rewrite conns_of_gates in Hinv1. cbn [conn_set] in Hinv1.
    destruct (exec_keeps registered _ _ _ E1) as [Hm1 _]. unfold gate_actions in Hm1. rewrite mods_of_gates, app_nil_r in Hm1.
    (* the submodules *)
    assert (Ej : exists st2, exec registered st1 (flat_map (fun j => plan (snd j) (fst j)) (jobs p subs)) = Ok st2).
    { apply (jobs_exec _ st1 acc); [| exact Hinv1 | | apply jobs_nodup; exact Hdup | | | exact Hwj].
      - intros j Hj. destruct (job_node_in _ _ _ Hj) as (s & Hs & Es & _). rewrite Forall_forall in IH. rewrite <- Es. exact (IH s Hs).
      - intros j Hj q. destruct (job_node_in _ _ _ Hj) as (s & _ & _ & Hsp). destruct (sub_path_shape _ _ _ Hsp) as (a & Ea & _).
        destruct (has_module st1 (fst j ++ q)) eqn:E; [|reflexivity]. exfalso. apply has_module_in in E. rewrite Hm1, Hm0, map_app in E.
        apply in_app_or in E as [E|[E|[]]].
        + apply has_module_in in E. rewrite Ea, <- app_assoc in E. rewrite (Hfresh _) in E. discriminate.
        + cbn [fst] in E. rewrite Ea, <- app_assoc in E. apply (f_equal (@length _)) in E. rewrite app_length in E. cbn [length app] in E. lia.
      - intros j j' Hj Hj'. destruct (job_node_in _ _ _ Hj) as (s & _ & _ & Hsp). destruct (job_node_in _ _ _ Hj') as (s' & _ & _ & Hsp').
        destruct (sub_path_shape _ _ _ Hsp) as (a & -> & _). destruct (sub_path_shape _ _ _ Hsp') as (a' & -> & _). rewrite !app_length. reflexivity.
      - intros j Hj. destruct (job_node_in _ _ _ Hj) as (s & Hs & Es & _). split; [rewrite <- Es; exact (Hsubs s Hs)|].
        rewrite forallb_forall in *. intros m Hm. apply Hrj. apply in_flat_map. exists j. split; assumption. }
    destruct Ej as (st2 & E2). rewrite exec_app, E2. cbn [bind].
    pose proof (exec_sim registered _ _ _ _ E2 Hinv1) as Hinv2.
    rewrite conns_of_jobs in Hinv2.
    (* the connections *)
    assert (Hall : exec registered st (ACreateModule p t :: gate_actions p g ++ flat_map (fun j => plan (snd j) (fst j)) (jobs p subs)) = Ok st2).
    { change (ACreateModule p t :: ?l) with ([ACreateModule p t] ++ l). rewrite exec_app. cbn [exec]. rewrite E0. cbn [bind].
      rewrite exec_app, E1. cbn [bind]. exact E2. }
    pose proof (holds_of_exec registered _ _ _ Hall) as Hh.
    assert (Hh' : holds st2 (den_mods (mkNode t subs g c) p) (den_gates (mkNode t subs g c) p)).
    { rewrite <- plan_mods, <- plan_gates, plan_unfold.
      replace (ACreateModule p t :: gate_actions p g ++ flat_map (fun j => plan (snd j) (fst j)) (jobs p subs) ++ connect_actions p c)
        with ((ACreateModule p t :: gate_actions p g ++ flat_map (fun j => plan (snd j) (fst j)) (jobs p subs)) ++ connect_actions p c)
        by (cbn [app]; rewrite <- app_assoc; reflexivity).
      rewrite mods_of_app, gates_of_app. unfold connect_actions. rewrite mods_of_connects, gates_of_connects, !app_nil_r. exact Hh. }
    apply (connects_ok registered (mkNode t subs g c) p c st2 _ Hinv2 Hh' Hres). exact Hwc.
  Qed.

  (* a realisable tree is built *)
  Theorem realisable_builds : forall n, realisable registered n = true -> exists st, build registered n = Ok st.
  Proof.
    intros n H. unfold realisable in H. apply andb_true_iff in H as [H H3]. apply andb_true_iff in H as [H1 H2].
    unfold build. apply (builds_all n [] bs_empty []); try assumption.
    - split; [|apply Permutation_refl]. split; [intros i g Hn; destruct i; discriminate|]. split; [constructor|]. intros x y k [].
    - intros q. reflexivity.
  Qed.

  (* the same read backwards: whatever stops a build -- a module path that exists, a missing child or gate,
     a gate connected to itself, a third connection, an unregistered symbol -- the tree was not realisable *)
  Corollary build_failure_not_realisable : forall n,
    (forall st, build registered n <> Ok st) -> realisable registered n = false.
  Proof.
    intros n H. destruct (realisable registered n) eqn:E; [|reflexivity].
    destruct (realisable_builds n E) as (st & Hst). exfalso. exact (H st Hst).
  Qed.
End Plan.
