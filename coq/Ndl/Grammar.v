(* The string grammar of des-net-utils/src/ndl/def.rs (FromStr / Display of TypClause,
   ModuleGenericsDef, FieldDef, ConnectionEndpointDef) over byte strings.

   Every function returns [res]: [Ok v], [Err e] (the Rust function returned Err / the
   serde visitor reports a custom error), or [Panic site] (an assert!/expect of def.rs
   fired).  The flag [fx] selects the code: [true] = /repo as it is now (with the fix:
   commit 5295e98), [false] = the pinned code, where an unterminated argument list hit
   `assert!(rem.ends_with(')'))`. *)
From Coq Require Import List NArith Bool.
From DesVerif Require Import Ndl.Bytes.
Import ListNotations.
Open Scope N_scope.

Inductive res (A : Type) : Type :=
| Ok (a : A)
| Err (e : N)
| Panic (site : N)
| OutOfFuel.
Arguments Ok {A} a.  Arguments Err {A} e.  Arguments Panic {A} site.  Arguments OutOfFuel {A}.

Definition bind {A B} (r : res A) (f : A -> res B) : res B :=
  match r with Ok a => f a | Err e => Err e | Panic s => Panic s | OutOfFuel => OutOfFuel end.
Notation "'do' x <- r ; k" := (bind r (fun x => k)) (at level 200, x pattern, r at level 100, k at level 200).

(* iter.map(f).collect::<Result<Vec<_>, _>>(): stops at the first Err *)
Fixpoint collect {A B} (f : A -> res B) (l : list A) : res (list B) :=
  match l with
  | [] => Ok []
  | a :: r => do b <- f a; do bs <- collect f r; Ok (b :: bs)
  end.

(* parse error classes (what the error text says) *)
Definition E_NO_CLOSING_PAREN : N := 1.   (* "invalid typ clause: expected closing parenthesis" *)
Definition E_INVALID_ARG : N := 2.        (* "invalid arg: .." *)
Definition E_NO_OPENING_BRACKET : N := 3. (* "invalid syntax: expected opening bracket" *)
Definition E_PARSE_INT : N := 4.          (* ParseIntError *)
(* panic sites of def.rs *)
Definition P_ASSERT_ENDS_WITH_PAREN : N := 1.   (* def.rs:213 (pinned code) *)
Definition P_REDUCE_NON_EMPTY : N := 2.         (* Display for TypClause: expect("args is non empty") *)

Inductive Kard := Atom | Cluster (n : N).
Record FieldDef := { fd_ident : bytes; fd_kard : Kard }.
Record Generic := { g_binding : bytes; g_bound : bytes }.
Record TypClause (A : Type) := { tc_ident : bytes; tc_args : list A }.
Arguments tc_ident {A} _.  Arguments tc_args {A} _.

(* ---- impl FromStr for TypClause<Arg> ---- *)
Definition typclause_from_str {A} (fx : bool) (arg_from_str : bytes -> res A) (s : bytes) : res (TypClause A) :=
  match split_once_char LPAREN s with
  | None => Ok {| tc_ident := s; tc_args := [] |}
  | Some (ident, rem) =>
    if negb (last_is RPAREN rem)
    then (if fx then Err E_NO_CLOSING_PAREN else Panic P_ASSERT_ENDS_WITH_PAREN)
    else
      let rem := trim_end_matches RPAREN rem in
      do args <- collect arg_from_str (split_2 COMMA SPACE rem);
      Ok {| tc_ident := trim ident; tc_args := args |}
  end.

(* String: FromStr is infallible *)
Definition string_from_str (s : bytes) : res bytes := Ok s.

(* ---- impl FromStr for ModuleGenericsDef ---- *)
Definition generic_from_str (s : bytes) : res Generic :=
  match split_once_2 LT MINUS s with
  | None => Err E_INVALID_ARG
  | Some (binding, bound) => Ok {| g_binding := trim binding; g_bound := trim bound |}
  end.

(* ---- impl FromStr for FieldDef ---- *)
Definition field_from_str (s : bytes) : res FieldDef :=
  if last_is RBRACK s then
    match split_once_char LBRACK s with
    | None => Err E_NO_OPENING_BRACKET
    | Some (ident, cluster) =>
      match parse_usize (trim_end_matches RBRACK cluster) with
      | Some n => Ok {| fd_ident := ident; fd_kard := Cluster n |}
      | None => Err E_PARSE_INT
      end
    end
  else Ok {| fd_ident := s; fd_kard := Atom |}.

(* ---- impl FromStr for ConnectionEndpointDef ---- *)
Definition endpoint_from_str (s : bytes) : res (list FieldDef) :=
  collect field_from_str (split_char SLASH s).

(* ---- Display ---- *)
Definition generic_display (g : Generic) : bytes :=
  g_binding g ++ [SPACE; LT; MINUS; SPACE] ++ g_bound g.

Definition field_display (f : FieldDef) : bytes :=
  match fd_kard f with
  | Atom => fd_ident f
  | Cluster n => fd_ident f ++ [LBRACK] ++ to_dec n ++ [RBRACK]
  end.

(* args.iter().map(to_string).reduce(..).expect("args is non empty") *)
Definition reduce_args (l : list bytes) : res bytes :=
  match l with [] => Panic P_REDUCE_NON_EMPTY | _ => Ok (join [COMMA; SPACE] l) end.

Definition typclause_display {A} (arg_display : A -> bytes) (t : TypClause A) : res bytes :=
  match tc_args t with
  | [] => Ok (tc_ident t)
  | _ => do a <- reduce_args (map arg_display (tc_args t));
         Ok (tc_ident t ++ [LPAREN] ++ a ++ [RPAREN])
  end.

Definition endpoint_display (e : list FieldDef) : bytes := join [SLASH] (map field_display e).

(* ---- equality tests used by the elaborator ---- *)
Definition kard_eqb (a b : Kard) : bool :=
  match a, b with
  | Atom, Atom => true
  | Cluster n, Cluster m => n =? m
  | _, _ => false
  end.
Definition field_eqb (a b : FieldDef) : bool := beq (fd_ident a) (fd_ident b) && kard_eqb (fd_kard a) (fd_kard b).
