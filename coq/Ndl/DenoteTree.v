(* build_matches_denotation, part 1: with distinct definition names, the tree `transform`
   elaborates bottom-up (dependency order, archetype table, clones, generic replacement loop) is
   exactly the tree the description denotes top-down ([den_node]) -- generic definitions and their
   instantiations included. *)
From Coq Require Import List NArith Bool Lia Arith.
From DesVerif Require Import Ndl.Bytes Ndl.BytesProps Ndl.Grammar Ndl.GrammarProps Ndl.Def Ndl.Transform Ndl.Order Ndl.Subst Ndl.Build Ndl.Denote.
Import ListNotations.
Local Open Scope nat_scope.

Definition names (d : Def) : list ident := map (fun im => tc_ident (fst im)) (d_modules d).

Lemma find_entry_nodup : forall d im, NoDup (names d) -> In im (d_modules d) ->
  find_entry d (tc_ident (fst im)) = Some im.
Proof.
  intros d im. unfold find_entry, names. induction (d_modules d) as [|x l IH]; intros Hnd Hin; [destruct Hin|].
  cbn [map] in Hnd. inversion Hnd as [|? ? Hx Hl]; subst. cbn [find].
  destruct Hin as [->|Hin].
  - rewrite beq_refl. reflexivity.
  - destruct (beq (tc_ident (fst x)) (tc_ident (fst im))) eqn:E.
    + apply beq_eq in E. exfalso. apply Hx. rewrite E. apply in_map_iff. exists im. split; [reflexivity|exact Hin].
    + apply IH; assumption.
Qed.

(* ---- more is known about the other definitions: same denotation ---- *)
Definition below (look look' : ident -> option (Node * list Generic)) : Prop := forall k v, look k = Some v -> look' k = Some v.

Lemma den_sigma_mono : forall look look' self_args reqs args sg, below look look' ->
  den_sigma look self_args reqs args = Some sg -> den_sigma look' self_args reqs args = Some sg.
Proof.
  intros look look' self_args reqs. induction reqs as [|gb reqs IH]; intros args sg Hb H; cbn [den_sigma] in *; [exact H|].
  destruct args as [|name args]; [discriminate|]. destruct (is_binding self_args name); [discriminate|].
  destruct (look name) as [[repl deps]|] eqn:E1; [|discriminate]. destruct deps; [|discriminate].
  destruct (look (g_bound gb)) as [[iface gi]|] eqn:E2; [|discriminate].
  rewrite (Hb _ _ E1), (Hb _ _ E2). destruct (conform_to repl iface); [|discriminate].
  destruct (den_sigma look self_args reqs args) as [sg0|] eqn:E3; [|discriminate].
  rewrite (IH _ _ Hb E3). exact H.
Qed.

Lemma den_field_mono : forall look look' self_args st r, below look look' ->
  den_field look self_args st = Some r -> den_field look' self_args st = Some r.
Proof.
  intros look look' self_args [field typ] r Hb H. unfold den_field in *.
  destruct (kard_eqb _ _); [discriminate|]. destruct (tc_args typ) as [|a0 r0].
  - destruct (look _) as [[n g]|] eqn:E; [|discriminate]. rewrite (Hb _ _ E). exact H.
  - destruct (is_binding _ _); [discriminate|].
    destruct (look (tc_ident typ)) as [[node reqs]|] eqn:E; [|discriminate]. rewrite (Hb _ _ E).
    destruct (Nat.eqb _ _); [|discriminate].
    destruct (den_sigma look self_args reqs (a0 :: r0)) as [sg|] eqn:Es; [|discriminate].
    rewrite (den_sigma_mono _ _ _ _ _ _ Hb Es). exact H.
Qed.

Lemma map_opt_ext_some : forall {A B} (f g : A -> option B) l v,
  (forall a b, In a l -> f a = Some b -> g a = Some b) -> map_opt f l = Some v -> map_opt g l = Some v.
Proof.
  intros A B f g l. induction l as [|a l IH]; intros v Hfg H; cbn [map_opt] in *; [exact H|].
  destruct (f a) as [b|] eqn:Ea; [|discriminate]. destruct (map_opt f l) as [bs|] eqn:El; [|discriminate].
  rewrite (Hfg a b (or_introl eq_refl) Ea). rewrite (IH bs); [exact H| |reflexivity].
  intros x y Hx. apply Hfg. right. exact Hx.
Qed.

Lemma den_node_mono : forall d f, below (den_node d f) (den_node d (S f)).
Proof.
  intros d f. induction f as [|f IH]; intros k v H; [discriminate|].
  cbn [den_node] in H. remember (S f) as f1. cbn [den_node]. subst f1.
  destruct (find_entry d k) as [[self m]|]; [|discriminate].
  destruct (_ || _); [discriminate|].
  destruct (map_opt _ (md_subs m)) as [subs_own|] eqn:Es; [|discriminate].
  erewrite map_opt_ext_some; [| |exact Es].
  2:{ intros st b _ Hb. eapply den_field_mono; [exact IH|exact Hb]. }
  destruct (md_inherit m) as [p|].
  - destruct (den_node d f p) as [[parent pg]|] eqn:Ep; [|discriminate]. rewrite (IH _ _ Ep). exact H.
  - exact H.
Qed.

Lemma den_node_mono_le : forall d f f', f <= f' -> below (den_node d f) (den_node d f').
Proof. intros d f f' Hle. induction Hle; intros k v H; [exact H|]. apply den_node_mono. apply IHHle. exact H. Qed.

(* ---- one definition against the archetype table ---- *)
Section OneModule.
  Variables (d : Def) (look : ident -> option (Node * list Generic)) (arch : archetypes).
  Hypothesis Harch : forall k v, lookup k arch = Some v -> look k = Some v.

  Lemma sigma_matches : forall self_args reqs args node node',
    length reqs = length args ->
    replace_loop true self_args arch reqs args node = Ok node' ->
    den_sigma look self_args reqs args = Some (sigma_of arch reqs args).
  Proof.
    intros self_args reqs. induction reqs as [|gb reqs IH]; intros args node node' Hlen H; cbn [replace_loop den_sigma sigma_of] in *.
    - reflexivity.
    - destruct args as [|name args]; [discriminate|]. cbn [andb] in H.
      destruct (is_binding self_args name); [discriminate|].
      destruct (lookup name arch) as [[repl deps]|] eqn:E1; [|discriminate].
      destruct deps; [|discriminate].
      destruct (lookup (g_bound gb) arch) as [[iface gi]|] eqn:E2; [|discriminate].
      rewrite (Harch _ _ E1), (Harch _ _ E2).
      destruct (conform_to repl iface); cbn [negb] in H; [|discriminate].
      assert (Hlen' : length reqs = length args) by (cbn [length] in Hlen; injection Hlen as Hl; exact Hl).
      rewrite (IH _ _ _ Hlen' H). reflexivity.
  Qed.

  Lemma field_matches : forall field self typ b,
    transform_submodule true field self typ arch = Ok b -> den_field look (tc_args self) (field, typ) = Some b.
  Proof.
    intros field self typ b H. unfold transform_submodule in H. unfold den_field.
    destruct (kard_eqb _ _); [discriminate|]. destruct (tc_args typ) as [|a0 r0] eqn:Eargs.
    - destruct (lookup _ arch) as [[node reqs]|] eqn:El; [|discriminate]. rewrite (Harch _ _ El).
      destruct reqs; [|discriminate]. injection H as <-. reflexivity.
    - cbn [andb] in H. destruct (is_binding _ _); [discriminate|].
      destruct (lookup (tc_ident typ) arch) as [[node reqs]|] eqn:El; [|discriminate]. rewrite (Harch _ _ El).
      destruct (Nat.eqb (length reqs) (length (a0 :: r0))) eqn:Elen; cbn [negb] in H; [|discriminate].
      destruct (replace_loop true (tc_args self) arch reqs (a0 :: r0) node) as [node'| | |] eqn:Er; cbn [bind] in H; try discriminate.
      injection H as <-. apply Nat.eqb_eq in Elen.
      rewrite (sigma_matches _ _ _ _ _ Elen Er). rewrite (replace_loop_substitutes_every_field _ _ _ _ _ _ _ Er). reflexivity.
  Qed.

  Lemma submodules_match : forall self subs ss,
    transform_submodules true self subs arch = Ok ss -> map_opt (den_field look (tc_args self)) subs = Some ss.
  Proof.
    intros self subs. unfold transform_submodules. induction subs as [|st subs IH]; intros ss H; cbn [collect] in H.
    - injection H as <-. reflexivity.
    - destruct (transform_submodule true (fst st) self (snd st) arch) as [b| | |] eqn:Eb; cbn [bind] in H; try discriminate.
      destruct (collect _ subs) as [bs| | |] eqn:Ec; cbn [bind] in H; try discriminate. injection H as <-.
      cbn [map_opt]. destruct st as [field typ]. cbn [fst snd] in Eb. rewrite (field_matches _ _ _ _ Eb), (IH bs eq_refl). reflexivity.
  Qed.
End OneModule.

Lemma module_matches : forall d f arch self m n g,
  (forall k v, lookup k arch = Some v -> den_node d f k = Some v) ->
  find_entry d (tc_ident self) = Some (self, m) ->
  transform_module true self m arch (d_links d) = Ok (n, g) ->
  den_node d (S f) (tc_ident self) = Some (n, g).
Proof.
  intros d f arch self m n g Harch Hfind H. unfold transform_module in H. cbn [den_node]. rewrite Hfind.
  destruct (has_dup_binding (tc_args self)); [discriminate|]. cbn [orb].
  unfold transform_gates in H. destruct (existsb _ (md_gates m)) eqn:Eg; cbn [bind] in H; [discriminate|].
  destruct (transform_submodules true self (md_subs m) arch) as [ss| | |] eqn:Es; cbn [bind] in H; try discriminate.
  rewrite (submodules_match (den_node d f) arch Harch _ _ _ Es).
  destruct (md_inherit m) as [p|].
  - destruct (lookup p arch) as [[parent pg]|] eqn:Ep; cbn [bind] in H; [|discriminate].
    rewrite (Harch _ _ Ep). cbn [andb] in H. destruct (has_dup_field _); [discriminate|].
    destruct (transform_connections _ _ _ _ _) as [cs| | |]; cbn [bind] in H; try discriminate.
    injection H as <- <-. reflexivity.
  - cbn [bind andb] in H. cbn [n_gates n_subs n_conns].
    replace (set_extend (set_extend [] (md_gates m)) []) with (set_extend [] (md_gates m)) by reflexivity.
    rewrite app_nil_r. destruct (has_dup_field ss); [discriminate|].
    destruct (transform_connections _ _ _ _ _) as [cs| | |]; cbn [bind] in H; try discriminate.
    injection H as <- <-. reflexivity.
Qed.

(* ---- the elaboration loop ---- *)
Lemma elaborate_matches : forall d l arch arch' f,
  NoDup (names d) -> (forall e, In e l -> In (fst e) (d_modules d)) ->
  (forall k v, lookup k arch = Some v -> den_node d f k = Some v) ->
  elaborate true l arch (d_links d) = Ok arch' ->
  forall k v, lookup k arch' = Some v -> den_node d (f + length l) k = Some v.
Proof.
  intros d l. induction l as [|e l IH]; intros arch arch' f Hnd Hin Harch H k v Hk; cbn [elaborate] in H.
  - injection H as <-. cbn [length]. rewrite Nat.add_0_r. exact (Harch _ _ Hk).
  - destruct (transform_module true (fst (fst e)) (snd (fst e)) arch (d_links d)) as [[n g]| | |] eqn:Em; cbn [bind] in H; try discriminate.
    assert (Hmem : In (fst e) (d_modules d)) by (apply Hin; left; reflexivity).
    pose proof (find_entry_nodup d (fst e) Hnd Hmem) as Hfind.
    destruct (fst e) as [self m] eqn:Efe. cbn [fst snd] in *.
    pose proof (module_matches d f arch self m n g Harch Hfind Em) as Hden.
    cbn [length]. replace (f + S (length l)) with (S f + length l) by lia.
    apply (IH ((e_ident e, (n, g)) :: arch) arch' (S f) Hnd); [intros x Hx; apply Hin; right; exact Hx| |exact H|exact Hk].
    intros k0 v0 H0. cbn [lookup] in H0. destruct (beq k0 (e_ident e)) eqn:Eb.
    + apply beq_eq in Eb. subst k0. injection H0 as <-. unfold e_ident. rewrite Efe. exact Hden.
    + apply den_node_mono. exact (Harch _ _ H0).
Qed.

Theorem transform_is_denotation : forall d n,
  NoDup (names d) -> transform true d = Ok n -> denote_tree d = Some n.
Proof.
  intros d n Hnd H. unfold denote_tree. unfold transform in H.
  pose proof (order_loop_spec (S (length (d_modules d))) [] (entries d) []) as Ho.
  assert (Hlen : length (entries d) < S (length (d_modules d))) by (unfold entries; rewrite map_length; lia).
  specialize (Ho Hlen).
  destruct (order_loop _ [] (entries d) []) as [ordered| | |] eqn:Eo; cbn [bind] in H; try discriminate.
  apply order_loop_length in Eo. cbn [length] in Eo.
  destruct Ho as (l' & -> & _ & Hin). cbn [rev app] in H, Eo.
  destruct (elaborate true l' [] (d_links d)) as [arch| | |] eqn:Ee; cbn [bind] in H; try discriminate.
  destruct (lookup (d_entry d) arch) as [[n' g]|] eqn:El; [|discriminate]. injection H as <-.
  pose proof (elaborate_matches d l' [] arch 0 Hnd) as Hm.
  pose proof (Hm ltac:(intros e He; apply Hin in He; unfold entries in He; apply in_map_iff in He as (im & <- & Him); exact Him)
               ltac:(intros k v Hk; discriminate Hk) Ee _ _ El) as Hden.
  assert (Hle : 0 + length l' <= S (length (d_modules d))).
  { unfold entries in Eo. rewrite map_length in Eo. unfold entry in *. lia. }
  rewrite (den_node_mono_le d _ _ Hle _ _ Hden). reflexivity.
Qed.
