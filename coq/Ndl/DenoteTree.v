(* build_matches_denotation, part 1: on the generics-free fragment, with distinct definition
   names, the tree `transform` elaborates bottom-up (dependency order, archetype table, clones)
   is exactly the tree the description denotes top-down ([den_node]). *)
From Coq Require Import List NArith Bool Lia Arith.
From DesVerif Require Import Ndl.Bytes Ndl.BytesProps Ndl.Grammar Ndl.GrammarProps Ndl.Def Ndl.Transform Ndl.Order Ndl.Build Ndl.Denote.
Import ListNotations.
Local Open Scope nat_scope.

Definition gf_module (im : TypClause Generic * ModuleDef) : Prop :=
  tc_args (fst im) = [] /\ forall st, In st (md_subs (snd im)) -> tc_args (snd st) = [].

Lemma generics_free_spec : forall d, generics_free d = true -> forall im, In im (d_modules d) -> gf_module im.
Proof.
  intros d H im Him. unfold generics_free in H. rewrite forallb_forall in H. specialize (H im Him).
  apply andb_true_iff in H as [H1 H2]. split.
  - destruct (tc_args (fst im)); [reflexivity|discriminate].
  - intros st Hst. rewrite forallb_forall in H2. specialize (H2 st Hst). destruct (tc_args (snd st)); [reflexivity|discriminate].
Qed.

Definition names (d : Def) : list ident := map (fun im => tc_ident (fst im)) (d_modules d).

Lemma find_module_nodup : forall d im, NoDup (names d) -> In im (d_modules d) ->
  find_module d (tc_ident (fst im)) = Some (snd im).
Proof.
  intros d im. unfold find_module, names. induction (d_modules d) as [|x l IH]; intros Hnd Hin; [destruct Hin|].
  cbn [map] in Hnd. inversion Hnd as [|? ? Hx Hl]; subst. cbn [find].
  destruct Hin as [->|Hin].
  - rewrite beq_refl. reflexivity.
  - destruct (beq (tc_ident (fst x)) (tc_ident (fst im))) eqn:E.
    + apply beq_eq in E. exfalso. apply Hx. rewrite E. apply in_map_iff. exists im. split; [reflexivity|exact Hin].
    + apply IH; assumption.
Qed.

(* ---- den_node: more fuel, same tree; the root carries the definition's name ---- *)
Lemma map_opt_ext_some : forall {A B} (f g : A -> option B) l v,
  (forall a b, In a l -> f a = Some b -> g a = Some b) -> map_opt f l = Some v -> map_opt g l = Some v.
Proof.
  intros A B f g l. induction l as [|a l IH]; intros v Hfg H; cbn [map_opt] in *; [exact H|].
  destruct (f a) as [b|] eqn:Ea; [|discriminate]. destruct (map_opt f l) as [bs|] eqn:El; [|discriminate].
  rewrite (Hfg a b (or_introl eq_refl) Ea). rewrite (IH bs); [exact H| |reflexivity].
  intros x y Hx. apply Hfg. right. exact Hx.
Qed.

Lemma den_node_mono : forall d f k n, den_node d f k = Some n -> den_node d (S f) k = Some n.
Proof.
  intros d f. induction f as [|f IH]; intros k n H; [discriminate|].
  cbn [den_node] in H. remember (S f) as f1. cbn [den_node]. subst f1.
  destruct (find_module d k) as [m|]; [|discriminate].
  destruct (map_opt _ (md_subs m)) as [subs_own|] eqn:Es; [|discriminate].
  erewrite map_opt_ext_some; [| |exact Es].
  2:{ intros st b _ Hb. cbn beta in Hb. destruct (den_node d f (tc_ident (snd st))) as [x|] eqn:Ex; [|discriminate Hb].
      rewrite (IH _ _ Ex). exact Hb. }
  destruct (md_inherit m) as [p|].
  - destruct (den_node d f p) as [parent|] eqn:Ep; [|discriminate]. rewrite (IH _ _ Ep). exact H.
  - exact H.
Qed.

Lemma den_node_mono_le : forall d f f' k n, f <= f' -> den_node d f k = Some n -> den_node d f' k = Some n.
Proof. intros d f f' k n Hle H. induction Hle; [exact H|]. apply den_node_mono. assumption. Qed.

Lemma den_node_typ : forall d f k n, den_node d f k = Some n -> n_typ n = k.
Proof.
  intros d [|f] k n H; [discriminate|]. cbn [den_node] in H.
  destruct (find_module d k) as [m|]; [|discriminate].
  destruct (map_opt _ _); [|discriminate].
  destruct (match md_inherit m with Some p => _ | None => _ end); [|discriminate].
  destruct (_ || _); [discriminate|]. destruct (transform_connections _ _ _ _ _); try discriminate.
  injection H as <-. reflexivity.
Qed.

Lemma set_typ_same : forall n, set_typ n (n_typ n) = n.
Proof. intros [t s g c]. reflexivity. Qed.

(* ---- one definition: transform_module against the archetype table = den_node one level down ---- *)
Section OneModule.
  Variables (d : Def) (fx : bool) (f : nat) (arch : archetypes).
  Hypothesis Harch : forall k node gens, lookup k arch = Some (node, gens) -> gens = [] /\ den_node d f k = Some node.

  Lemma submodules_match : forall self subs ss,
    tc_args self = [] -> (forall st, In st subs -> tc_args (snd st) = []) ->
    transform_submodules fx self subs arch = Ok ss ->
    map_opt (fun st => option_map (fun n => (fst st, n)) (den_node d f (tc_ident (snd st)))) subs = Some ss /\
    existsb (fun st => kard_eqb (fd_kard (fst st)) (Cluster 0)) subs = false.
  Proof.
    intros self subs. unfold transform_submodules. induction subs as [|st subs IH]; intros ss Hself Hgf H; cbn [collect] in H.
    - injection H as <-. split; reflexivity.
    - destruct (transform_submodule fx (fst st) self (snd st) arch) as [b| | |] eqn:Eb; cbn [bind] in H; try discriminate.
      destruct (collect _ subs) as [bs| | |] eqn:Ec; cbn [bind] in H; try discriminate. injection H as <-.
      destruct (IH bs Hself (fun x Hx => Hgf x (or_intror Hx)) eq_refl) as [IH1 IH2].
      unfold transform_submodule in Eb. destruct (kard_eqb (fd_kard (fst st)) (Cluster 0)) eqn:Ez; [discriminate|].
      rewrite (Hgf st (or_introl eq_refl)), Hself in Eb. cbn [inner_ty_to_outer_ty] in Eb.
      destruct (lookup (tc_ident (snd st)) arch) as [[node reqs]|] eqn:El; [|discriminate].
      destruct (Harch _ _ _ El) as [-> Hden]. injection Eb as <-.
      cbn [map_opt existsb]. rewrite Hden, Ez, IH1, IH2. cbn [option_map orb].
      rewrite <- (den_node_typ _ _ _ _ Hden), set_typ_same. split; reflexivity.
  Qed.

  Lemma module_matches : forall self m links n g,
    tc_args self = [] -> (forall st, In st (md_subs m) -> tc_args (snd st) = []) ->
    links = d_links d -> find_module d (tc_ident self) = Some m ->
    transform_module fx self m arch links = Ok (n, g) ->
    g = [] /\ den_node d (S f) (tc_ident self) = Some n.
  Proof.
    intros self m links n g Hself Hgf -> Hfind H. unfold transform_module in H. rewrite Hself in H. cbn [has_dup_binding] in H.
    unfold transform_gates in H. destruct (existsb _ (md_gates m)) eqn:Eg; cbn [bind] in H; [discriminate|].
    destruct (transform_submodules fx self (md_subs m) arch) as [ss| | |] eqn:Es; cbn [bind] in H; try discriminate.
    destruct (submodules_match _ _ _ Hself Hgf Es) as [Hm Hz].
    cbn [den_node]. rewrite Hfind, Hm.
    destruct (md_inherit m) as [p|].
    - destruct (lookup p arch) as [[parent pg]|] eqn:Ep; cbn [bind] in H; [|discriminate].
      destruct (Harch _ _ _ Ep) as [_ Hden]. rewrite Hden, Eg, Hz. cbn [orb].
      destruct (fx && has_dup_field _); [discriminate|].
      destruct (transform_connections _ _ _ _ _) as [cs| | |]; cbn [bind] in H; try discriminate.
      injection H as <- <-. split; reflexivity.
    - cbn [bind] in H. destruct (fx && has_dup_field _); [discriminate|]. rewrite Eg, Hz. cbn [orb n_gates n_subs n_conns].
      replace (set_extend (set_extend [] (md_gates m)) []) with (set_extend [] (md_gates m)) by reflexivity.
      rewrite app_nil_r.
      destruct (transform_connections _ _ _ _ _) as [cs| | |]; cbn [bind] in H; try discriminate.
      injection H as <- <-. split; reflexivity.
  Qed.
End OneModule.

(* ---- the elaboration loop ---- *)
Lemma elaborate_matches : forall d fx l arch arch' f,
  NoDup (names d) -> (forall im, In im (d_modules d) -> gf_module im) ->
  (forall e, In e l -> In (fst e) (d_modules d)) ->
  (forall k node gens, lookup k arch = Some (node, gens) -> gens = [] /\ den_node d f k = Some node) ->
  elaborate fx l arch (d_links d) = Ok arch' ->
  forall k node gens, lookup k arch' = Some (node, gens) -> gens = [] /\ den_node d (f + length l) k = Some node.
Proof.
  intros d fx l. induction l as [|e l IH]; intros arch arch' f Hnd Hgf Hin Harch H k node gens Hk; cbn [elaborate] in H.
  - injection H as <-. cbn [length]. rewrite Nat.add_0_r. exact (Harch _ _ _ Hk).
  - destruct (transform_module fx (fst (fst e)) (snd (fst e)) arch (d_links d)) as [[n g]| | |] eqn:Em; cbn [bind] in H; try discriminate.
    assert (Hmem : In (fst e) (d_modules d)) by (apply Hin; left; reflexivity).
    destruct (Hgf _ Hmem) as [Hself Hsubs].
    destruct (module_matches d fx f arch Harch _ _ _ _ _ Hself Hsubs eq_refl (find_module_nodup d (fst e) Hnd Hmem) Em) as [-> Hden].
    cbn [length]. replace (f + S (length l)) with (S f + length l) by lia.
    apply (IH ((e_ident e, (n, [])) :: arch) arch' (S f) Hnd Hgf); [intros x Hx; apply Hin; right; exact Hx| |exact H|exact Hk].
    intros k0 node0 gens0 H0. cbn [lookup] in H0. destruct (beq k0 (e_ident e)) eqn:Eb.
    + apply beq_eq in Eb. subst k0. injection H0 as <- <-. split; [reflexivity|exact Hden].
    + destruct (Harch _ _ _ H0) as [-> Hd0]. split; [reflexivity|]. apply den_node_mono. exact Hd0.
Qed.

Theorem transform_is_denotation : forall fx d n,
  generics_free d = true -> NoDup (names d) -> transform fx d = Ok n -> denote_tree d = Some n.
Proof.
  intros fx d n Hgf Hnd H. unfold denote_tree. rewrite Hgf. unfold transform in H.
  pose proof (order_loop_spec (S (length (d_modules d))) [] (entries d) []) as Ho.
  assert (Hlen : length (entries d) < S (length (d_modules d))) by (unfold entries; rewrite map_length; lia).
  specialize (Ho Hlen).
  destruct (order_loop _ [] (entries d) []) as [ordered| | |] eqn:Eo; cbn [bind] in H; try discriminate.
  apply order_loop_length in Eo. cbn [length] in Eo.
  destruct Ho as (l' & -> & _ & Hin). cbn [rev app] in H, Eo.
  destruct (elaborate fx l' [] (d_links d)) as [arch| | |] eqn:Ee; cbn [bind] in H; try discriminate.
  destruct (lookup (d_entry d) arch) as [[n' g]|] eqn:El; [|discriminate]. injection H as <-.
  pose proof (elaborate_matches d fx l' [] arch 0 Hnd (generics_free_spec d Hgf)) as Hm.
  destruct (Hm ltac:(intros e He; apply Hin in He; unfold entries in He; apply in_map_iff in He as (im & <- & Him); exact Him)
               ltac:(intros k node gens Hk; discriminate Hk) Ee _ _ _ El) as [_ Hden].
  eapply den_node_mono_le; [|exact Hden]. unfold entries in Eo. rewrite map_length in Eo. unfold entry in *. lia.
Qed.
