(* The substitution step of transform_submodule (mod.rs, "Replace all instances of the generic
   binding with the concrete typ"): when `x: G(A1, .., An)` elaborates, EVERY submodule field of G's
   archetype whose type is the i-th type parameter carries the elaborated node of Ai afterwards, every
   other field is untouched, and no field keeps a placeholder -- for all instantiations. *)
From Coq Require Import List NArith Bool.
From DesVerif Require Import Ndl.Bytes Ndl.BytesProps Ndl.Grammar Ndl.Def Ndl.Transform.
Import ListNotations.

(* the substitution the arguments denote: (parameter, elaborated argument) in parameter order *)
Fixpoint sigma_of (nodes : archetypes) (reqs : list Generic) (args : list ident) : list (ident * Node) :=
  match reqs, args with
  | gb :: reqs', name :: args' =>
    match lookup name nodes with
    | Some (repl, _) => (g_binding gb, repl) :: sigma_of nodes reqs' args'
    | None => []
    end
  | _, _ => []
  end.

Lemma replace_subs_map : forall b r subs, replace_subs b r subs = map (fun s => subst1 s (b, r)) subs.
Proof. reflexivity. Qed.

Theorem replace_loop_substitutes_every_field : forall fx self_args nodes reqs args node node',
  replace_loop fx self_args nodes reqs args node = Ok node' ->
  node' = mkNode (n_typ node) (map (subst_field (sigma_of nodes reqs args)) (n_subs node)) (n_gates node) (n_conns node).
Proof.
  intros fx self_args nodes reqs. induction reqs as [|gb reqs IH]; intros args node node' H; cbn [replace_loop] in H.
  - injection H as <-. destruct node as [t s g c]. cbn [sigma_of n_typ n_subs n_gates n_conns].
    unfold subst_field. cbn [fold_left]. rewrite map_id. reflexivity.
  - destruct args as [|name args]; [discriminate|].
    destruct (fx && is_binding self_args name); [discriminate|].
    cbn [sigma_of]. destruct (lookup name nodes) as [[repl deps]|]; [|discriminate].
    destruct deps; [|destruct fx; discriminate].
    destruct (lookup (g_bound gb) nodes) as [[iface gi]|]; [|discriminate].
    destruct (negb (conform_to repl iface)); [discriminate|].
    rewrite (IH _ _ _ H). cbn [n_typ n_subs n_gates n_conns]. f_equal.
    rewrite replace_subs_map, map_map. reflexivity.
Qed.

(* the whole step: the field `x: G(A1..An)` gets G's archetype with every parameter field substituted *)
Theorem transform_submodule_substitutes : forall fx field self typ nodes node reqs res,
  tc_args typ <> [] -> lookup (tc_ident typ) nodes = Some (node, reqs) ->
  (fx && is_binding (tc_args self) (tc_ident typ)) = false ->
  transform_submodule fx field self typ nodes = Ok res ->
  res = (field, mkNode (n_typ node) (map (subst_field (sigma_of nodes reqs (tc_args typ))) (n_subs node))
                       (n_gates node) (n_conns node)).
Proof.
  intros fx field self typ nodes node reqs res Ha Hl Hb H. unfold transform_submodule in H.
  destruct (kard_eqb _ _); [discriminate|]. destruct (tc_args typ) as [|a0 r0] eqn:E; [congruence|].
  rewrite Hb, Hl in H. destruct (negb _); [discriminate|].
  destruct (replace_loop fx (tc_args self) nodes reqs (a0 :: r0) node) as [node'| | |] eqn:Er; cbn [bind] in H; try discriminate.
  injection H as <-. rewrite (replace_loop_substitutes_every_field _ _ _ _ _ _ _ Er). reflexivity.
Qed.

(* a successful loop looked every argument up *)
Lemma sigma_of_complete : forall fx self_args nodes reqs args node node',
  replace_loop fx self_args nodes reqs args node = Ok node' -> map fst (sigma_of nodes reqs args) = map g_binding reqs.
Proof.
  intros fx self_args nodes reqs. induction reqs as [|gb reqs IH]; intros args node node' H; cbn [replace_loop] in H; [reflexivity|].
  destruct args as [|name args]; [discriminate|].
  destruct (fx && is_binding self_args name); [discriminate|].
  cbn [sigma_of]. destruct (lookup name nodes) as [[repl deps]|]; [|discriminate].
  destruct deps; [|destruct fx; discriminate].
  destruct (lookup (g_bound gb) nodes) as [[iface gi]|]; [|discriminate].
  destruct (negb (conform_to repl iface)); [discriminate|].
  cbn [map fst]. f_equal. exact (IH _ _ _ H).
Qed.

(* a field of parameter type takes the argument of that parameter (first parameter of that name) ... *)
Lemma subst_field_hit : forall sigma f n b r,
  n_typ n = b -> (forall b' r', In (b', r') ((b, r) :: sigma) -> ~ In (n_typ r') (map fst ((b, r) :: sigma))) ->
  subst_field ((b, r) :: sigma) (f, n) = (f, r).
Proof.
  intros sigma f n b r Hn Hfresh. unfold subst_field. cbn [fold_left]. unfold subst1 at 2. cbn [fst snd].
  rewrite <- Hn, beq_refl. 
  assert (Hstay : forall sg, (forall b' , In b' (map fst sg) -> b' <> n_typ r) -> fold_left subst1 sg (f, r) = (f, r)).
  { induction sg as [|[b1 r1] sg IHs]; intros Hne; [reflexivity|]. cbn [fold_left]. unfold subst1 at 2. cbn [fst snd].
    destruct (beq (n_typ r) b1) eqn:Eb.
    - apply beq_eq in Eb. exfalso. apply (Hne b1); [left; reflexivity|congruence].
    - apply IHs. intros b' Hb'. apply Hne. right. exact Hb'. }
  apply Hstay. intros b' Hb' E. apply (Hfresh b r (or_introl eq_refl)). right. rewrite <- E. exact Hb'.
Qed.

(* ... and no field keeps a placeholder: when the arguments' own symbols are not parameter names, no submodule of
   the instantiated node has a parameter as its type *)
Lemma subst_field_no_placeholder : forall sigma s,
  (forall b r, In (b, r) sigma -> ~ In (n_typ r) (map fst sigma)) ->
  ~ In (n_typ (snd (subst_field sigma s))) (map fst sigma).
Proof.
  intros sigma. unfold subst_field.
  assert (G : forall sg s B, (forall b r, In (b, r) sg -> ~ In (n_typ r) B) ->
              (In (n_typ (snd s)) B -> In (n_typ (snd s)) (map fst sg)) ->
              ~ In (n_typ (snd (fold_left subst1 sg s))) B).
  { induction sg as [|[b1 r1] sg IHs]; intros s B Hfresh Hs; cbn [fold_left].
    - intros Hi. exact (Hs Hi).
    - apply IHs; [intros b r Hbr; apply (Hfresh b r); right; exact Hbr|].
      unfold subst1. cbn [fst snd]. destruct (beq (n_typ (snd s)) b1) eqn:Eb; cbn [snd].
      + intros Hi. exfalso. exact (Hfresh b1 r1 (or_introl eq_refl) Hi).
      + intros Hi. destruct (Hs Hi) as [E|Hin]; [|exact Hin]. cbn [fst] in E. subst b1. rewrite beq_refl in Eb. discriminate. }
  intros s Hfresh. apply G; [exact Hfresh|tauto].
Qed.

Theorem no_placeholder_left : forall fx self_args nodes reqs args node node',
  replace_loop fx self_args nodes reqs args node = Ok node' ->
  (forall b r, In (b, r) (sigma_of nodes reqs args) -> ~ In (n_typ r) (map g_binding reqs)) ->
  forall s, In s (n_subs node') -> ~ In (n_typ (snd s)) (map g_binding reqs).
Proof.
  intros fx self_args nodes reqs args node node' H Hfresh s Hs.
  rewrite <- (sigma_of_complete _ _ _ _ _ _ _ H) in *.
  rewrite (replace_loop_substitutes_every_field _ _ _ _ _ _ _ H) in Hs. cbn [n_subs] in Hs.
  apply in_map_iff in Hs as (s0 & <- & _). apply subst_field_no_placeholder. exact Hfresh.
Qed.
