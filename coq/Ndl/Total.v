(* transform_total: for the code as it is now ([fx = true]) `transform` returns Ok or Err on
   every parsed description: no expect/assert of mod.rs is reachable and the ordering
   loop does not run out of fuel. *)
From Coq Require Import List NArith Bool Lia Arith.
From DesVerif Require Import Ndl.Bytes Ndl.BytesProps Ndl.Grammar Ndl.GrammarProps Ndl.Def Ndl.Transform Ndl.Order.
Import ListNotations.
Local Open Scope nat_scope.

(* what parsing guarantees (GrammarProps.endpoint_from_str_nonempty) *)
Definition wf_conn (c : ConnDef) : Prop := cd_lhs c <> [] /\ cd_rhs c <> [].
Definition wf_module (m : ModuleDef) : Prop := Forall wf_conn (md_conns m).
Definition wf_parsed (d : Def) : Prop := Forall (fun im => wf_module (snd im)) (d_modules d).

Definition has (arch : archetypes) (s : ident) : Prop := lookup s arch <> None.
Definition bounds_ok (arch : archetypes) : Prop :=
  forall k n gens, In (k, (n, gens)) arch -> forall g, In g gens -> has arch (g_bound g).

Lemma lookup_in : forall {V} k (l : list (ident * V)) v, lookup k l = Some v -> In (k, v) l.
Proof.
  intros V k l. induction l as [|[k' v'] l IH]; intros v H; cbn [lookup] in H; [discriminate|].
  destruct (beq k k') eqn:E.
  - apply beq_eq in E. injection H as <-. subst. left. reflexivity.
  - right. apply IH. exact H.
Qed.

Lemma has_cons : forall arch s kv, has arch s -> has (kv :: arch) s.
Proof.
  intros arch s [k v] H. unfold has in *. cbn [lookup]. destruct (beq s k); [discriminate|exact H].
Qed.

Lemma has_head : forall arch k v, has ((k, v) :: arch) k.
Proof. intros. unfold has. cbn [lookup]. rewrite beq_refl. discriminate. Qed.

Lemma has_some : forall arch s, has arch s -> exists v, lookup s arch = Some v.
Proof. intros arch s H. unfold has in H. destruct (lookup s arch) as [v|]; [exists v; reflexivity|congruence]. Qed.

(* ---- connections ---- *)
Lemma iter_kard_returns : forall d a, returns (iter_for_kardinality_access d a).
Proof.
  intros d a. unfold iter_for_kardinality_access.
  destruct (fd_kard d), (fd_kard a); try exact I. destruct (_ <? _)%N; exact I.
Qed.

Lemma collect_concat_returns : forall {A B} (f : A -> res (list B)) l,
  (forall a, returns (f a)) -> returns (collect_concat f l).
Proof.
  intros A B f l Hf. induction l as [|a l IH]; cbn [collect_concat]; [exact I|].
  apply returns_bind; [apply Hf|]. intros x. apply returns_bind; [exact IH|]. intros y. exact I.
Qed.

Lemma collect_concat_returns_in : forall {A B} (f : A -> res (list B)) l,
  (forall a, In a l -> returns (f a)) -> returns (collect_concat f l).
Proof.
  intros A B f l Hf. induction l as [|a l IH]; cbn [collect_concat]; [exact I|].
  apply returns_bind; [apply Hf; left; reflexivity|]. intros x.
  apply returns_bind; [apply IH; intros b Hb; apply Hf; right; exact Hb|]. intros y. exact I.
Qed.

Lemma endpoint_inner_returns : forall accessors, accessors <> [] ->
  forall pos subs gates, returns (transform_connection_endpoint_inner pos accessors subs gates).
Proof.
  induction accessors as [|a rest IH]; intros Hne pos subs gates; [congruence|].
  cbn [transform_connection_endpoint_inner]. destruct rest as [|b rest'].
  - destruct (find _ gates) as [gd|]; [|exact I].
    apply returns_bind; [apply iter_kard_returns|]. intros it. exact I.
  - destruct (find _ subs) as [[sname snode]|]; [|exact I].
    apply returns_bind; [apply iter_kard_returns|]. intros it.
    apply collect_concat_returns. intros lm. apply IH. discriminate.
Qed.

Lemma transform_connection_returns : forall def subs gates links, wf_conn def ->
  returns (transform_connection def subs gates links).
Proof.
  intros def subs gates links [Hl Hr]. unfold transform_connection, transform_connection_endpoint.
  apply returns_bind; [apply endpoint_inner_returns; exact Hl|]. intros lhs.
  apply returns_bind; [apply endpoint_inner_returns; exact Hr|]. intros rhs.
  destruct (negb _); [exact I|].
  apply returns_bind; [|intros; exact I].
  destruct (cd_link def) as [l|]; [|exact I]. destruct (lookup l links); exact I.
Qed.

Lemma transform_connections_returns : forall initial defs subs gates links, Forall wf_conn defs ->
  returns (transform_connections initial defs subs gates links).
Proof.
  intros initial defs subs gates links H. unfold transform_connections.
  apply returns_bind; [|intros; exact I]. apply collect_concat_returns_in.
  intros d Hd. apply transform_connection_returns. rewrite Forall_forall in H. apply H. exact Hd.
Qed.

(* ---- submodules ---- *)
Lemma inner_outer_binding : forall args s, is_binding args s = true ->
  exists g, In g args /\ inner_ty_to_outer_ty args s = g_bound g.
Proof.
  induction args as [|a r IH]; intros s H; cbn [is_binding existsb] in H; [discriminate|].
  cbn [inner_ty_to_outer_ty]. destruct (beq (g_binding a) s) eqn:E.
  - exists a. split; [left; reflexivity|reflexivity].
  - cbn [orb] in H. destruct (IH s H) as (g & Hg & Eg). exists g. split; [right; exact Hg|exact Eg].
Qed.

Lemma inner_outer_plain : forall args s, is_binding args s = false -> inner_ty_to_outer_ty args s = s.
Proof.
  induction args as [|a r IH]; intros s H; cbn [inner_ty_to_outer_ty]; [reflexivity|].
  cbn [is_binding existsb] in H. apply orb_false_iff in H as [H1 H2]. rewrite H1. apply IH. exact H2.
Qed.

Lemma replace_loop_returns : forall self_args arch req args node,
  length req = length args ->
  (forall a, In a args -> is_binding self_args a = false -> has arch a) ->
  (forall g, In g req -> has arch (g_bound g)) ->
  returns (replace_loop true self_args arch req args node).
Proof.
  intros self_args arch req. induction req as [|gb req IH]; intros args node Hlen Hargs Hreq; cbn [replace_loop]; [exact I|].
  destruct args as [|name args]; [discriminate|]. cbn [andb].
  destruct (is_binding self_args name) eqn:Eb; [exact I|].
  destruct (has_some arch name (Hargs name (or_introl eq_refl) Eb)) as ([repl deps] & ->).
  destruct deps as [|d deps]; [|exact I].
  destruct (has_some arch (g_bound gb) (Hreq gb (or_introl eq_refl))) as ([iface ?] & ->).
  destruct (negb _); [exact I|].
  apply IH.
  - cbn [length] in Hlen. lia.
  - intros a Ha. apply Hargs. right. exact Ha.
  - intros g Hg. apply Hreq. right. exact Hg.
Qed.

Section Module.
  Variables (self : TypClause Generic) (m : ModuleDef) (arch : archetypes) (links : list (ident * Link)).
  Hypothesis Hdeps : forall s, In s (required_symbols self m) -> has arch s.
  Hypothesis Hbounds : bounds_ok arch.

  Lemma dep_of_submodule : forall f t s, In (f, t) (md_subs m) ->
    (s = tc_ident t \/ In s (tc_args t)) -> is_binding (tc_args self) s = false -> has arch s.
  Proof.
    intros f t s Hin Hs Hnb. apply Hdeps. unfold required_symbols. apply in_or_app. left.
    apply filter_In. split; [|rewrite Hnb; reflexivity].
    apply in_or_app. destruct Hs as [->|Hs].
    - left. apply in_map_iff. exists (f, t). split; [reflexivity|exact Hin].
    - right. apply in_flat_map. exists (f, t). split; [exact Hin|exact Hs].
  Qed.

  Lemma dep_of_bound : forall g, In g (tc_args self) -> has arch (g_bound g).
  Proof.
    intros g Hg. apply Hdeps. unfold required_symbols. apply in_or_app. right. apply in_or_app. left.
    apply in_map. exact Hg.
  Qed.

  Lemma transform_submodule_returns : forall f t, In (f, t) (md_subs m) ->
    returns (transform_submodule true f self t arch).
  Proof.
    intros f t Hin. unfold transform_submodule. destruct (kard_eqb _ _); [exact I|].
    destruct (tc_args t) as [|a0 args0] eqn:Eargs.
    - assert (Hh : has arch (inner_ty_to_outer_ty (tc_args self) (tc_ident t))).
      { destruct (is_binding (tc_args self) (tc_ident t)) eqn:Eb.
        - destruct (inner_outer_binding _ _ Eb) as (g & Hg & ->). apply dep_of_bound. exact Hg.
        - rewrite inner_outer_plain by exact Eb. eapply dep_of_submodule; [exact Hin|left; reflexivity|exact Eb]. }
      destruct (has_some _ _ Hh) as ([node reqs] & ->). destruct reqs; exact I.
    - cbn [andb]. destruct (is_binding (tc_args self) (tc_ident t)) eqn:Eb; [exact I|].
      destruct (has_some _ _ (dep_of_submodule f t (tc_ident t) Hin (or_introl eq_refl) Eb)) as ([node req_args] & El).
      rewrite El. destruct (Nat.eqb (length req_args) (length (a0 :: args0))) eqn:Elen; cbn [negb]; [|exact I].
      apply returns_bind; [|intros; exact I]. apply replace_loop_returns.
      + apply Nat.eqb_eq. exact Elen.
      + intros a Ha Hnb. eapply dep_of_submodule; [exact Hin| |exact Hnb]. right. rewrite Eargs. exact Ha.
      + intros g Hg. apply lookup_in in El. exact (Hbounds _ _ _ El g Hg).
  Qed.

  Lemma transform_module_returns : wf_module m -> returns (transform_module true self m arch links).
  Proof.
    intros Hwf. unfold transform_module. destruct (has_dup_binding _); [exact I|].
    apply returns_bind.
    { unfold transform_gates. destruct (existsb _ _); exact I. }
    intros gates. apply returns_bind.
    { unfold transform_submodules. clear gates.
      assert (Hall : forall ft, In ft (md_subs m) -> returns (transform_submodule true (fst ft) self (snd ft) arch)).
      { intros [f t] Hft. apply transform_submodule_returns. exact Hft. }
      revert Hall. generalize (md_subs m). intros l Hall. induction l as [|ft l IH]; cbn [collect]; [exact I|].
      apply returns_bind; [apply Hall; left; reflexivity|]. intros b.
      apply returns_bind; [apply IH; intros x Hx; apply Hall; right; exact Hx|]. intros bs. exact I. }
    intros subs. apply returns_bind.
    { destruct (md_inherit m) as [p|] eqn:Ei; [|exact I].
      assert (Hp : has arch p).
      { apply Hdeps. unfold required_symbols. apply in_or_app. right. apply in_or_app. right. rewrite Ei. left. reflexivity. }
      destruct (has_some _ _ Hp) as ([a ?] & ->). exact I. }
    intros [[gates' subs'] conns0]. cbn [andb]. destruct (has_dup_field subs'); [exact I|].
    apply returns_bind; [apply transform_connections_returns; exact Hwf|]. intros conns. exact I.
  Qed.
End Module.

Lemma transform_module_generics : forall fx self m arch links n g,
  transform_module fx self m arch links = Ok (n, g) -> g = tc_args self.
Proof.
  intros fx self m arch links n g H. unfold transform_module in H.
  destruct (has_dup_binding _); [discriminate|].
  destruct (transform_gates _) as [gs| | |]; cbn [bind] in H; try discriminate.
  destruct (transform_submodules _ _ _ _) as [ss| | |]; cbn [bind] in H; try discriminate.
  destruct (match md_inherit m with Some _ => _ | None => _ end) as [[[a b] c]| | |]; cbn [bind] in H; try discriminate.
  destruct (fx && has_dup_field b); [discriminate|].
  destruct (transform_connections _ _ _ _ _) as [cs| | |]; cbn [bind] in H; try discriminate.
  injection H as _ <-. reflexivity.
Qed.

(* ---- the elaboration loop over a dependency-ordered list ---- *)
Definition entry_ok (e : entry) : Prop :=
  snd e = required_symbols (fst (fst e)) (snd (fst e)) /\ wf_module (snd (fst e)).

Lemma elaborate_returns : forall l prov arch links,
  DepOrdered prov l -> Forall entry_ok l ->
  (forall s, In s prov -> has arch s) -> bounds_ok arch ->
  returns (elaborate true l arch links).
Proof.
  induction l as [|e l IH]; intros prov arch links Hdo Hok Hprov Hb; cbn [elaborate]; [exact I|].
  inversion Hdo as [|? ? ? Hres Hdo']; subst. inversion Hok as [|? ? [Hreq Hwf] Hok']; subst.
  assert (Hdeps : forall s, In s (required_symbols (fst (fst e)) (snd (fst e))) -> has arch s).
  { intros s Hs. apply Hprov. apply mem_ident_In. unfold resolvable in Hres. rewrite forallb_forall in Hres.
    apply Hres. rewrite Hreq. exact Hs. }
  pose proof (transform_module_returns _ _ _ links Hdeps Hb Hwf) as Hr.
  destruct (transform_module true (fst (fst e)) (snd (fst e)) arch links) as [[n g]|k| |] eqn:Em; cbn [bind]; try exact Hr.
  apply (IH (e_ident e :: prov)); [exact Hdo'|exact Hok'| |].
  - intros s [<-|Hs]; [apply has_head|apply has_cons; apply Hprov; exact Hs].
  - intros k n' gens [E|Hin] g0 Hg0.
    + injection E as <- <- <-. apply transform_module_generics in Em. subst g. apply has_cons.
      apply Hdeps. unfold required_symbols. apply in_or_app. right. apply in_or_app. left. apply in_map. exact Hg0.
    + apply has_cons. exact (Hb _ _ _ Hin g0 Hg0).
Qed.

Lemma entries_ok : forall d, wf_parsed d -> Forall entry_ok (entries d).
Proof.
  intros d H. unfold entries. apply Forall_forall. intros e He. apply in_map_iff in He as (im & <- & Him).
  split; [reflexivity|]. unfold wf_parsed in H. rewrite Forall_forall in H. exact (H im Him).
Qed.

Theorem transform_total : forall d, wf_parsed d -> returns (transform true d).
Proof.
  intros d Hwf. unfold transform.
  pose proof (order_loop_spec (S (length (d_modules d))) [] (entries d) []) as Ho.
  assert (Hlen : length (entries d) < S (length (d_modules d))) by (unfold entries; rewrite map_length; lia).
  specialize (Ho Hlen).
  destruct (order_loop _ [] (entries d) []) as [ordered|k| |]; cbn [bind]; try contradiction; [|exact I].
  destruct Ho as (l' & -> & Hdo & Hin). cbn [rev app].
  assert (Hr : returns (elaborate true l' [] (d_links d))).
  { apply (elaborate_returns l' []); [exact Hdo| | |].
    - pose proof (entries_ok d Hwf) as Hall. rewrite Forall_forall in *. intros e He. apply Hall. apply Hin. exact He.
    - intros s [].
    - intros k n gens []. }
  destruct (elaborate true l' [] (d_links d)) as [arch|k| |]; cbn [bind]; try exact Hr.
  destruct (lookup (d_entry d) arch) as [[n ?]|]; exact I.
Qed.
