(* F4: C06 as stated ("however many tasks or wake-ups the instant involves") is false of
   the pinned code.  Witnesses for EVERY value of the budgets, and the concrete instance
   for tokio 1.45.1 (61 / 61 / 128) with the log that shows the late execution. *)
From Coq Require Import List NArith.
From DesVerif Require Import Exec.Model Exec.Basics Exec.Budget Exec.Wake Exec.Witness.
Import ListNotations.
Open Scope N_scope.

(* B+1 tasks spawned with tokio::spawn in one callback (each returns at once, they do not
   interact): B+1 polls are needed, event_interval = B allows B, the (B+1)-th task is
   still queued when block_on returns. *)
Lemma C06_refuted : forall B, exists x,
  b_rt (e_b x) = B /\ polls_needed_rt x = S B /\ queue_after x <> [] /\ KnownClass x.
Proof.
  intros B. exists (fanout false {| b_local := 0; b_rt := B; b_coop := 0 |} 31 (S B)).
  destruct (fanout_rt 0 B 0 31) as [_ [H2 H3]]. cbn zeta in *.
  split; [reflexivity|]. split; [exact H2|].
  assert (Hq : queue_after (fanout false {| b_local := 0; b_rt := B; b_coop := 0 |} 31 (S B)) <> [])
    by (intros E; rewrite E in H3; discriminate).
  split; [exact Hq|apply leftover_known; exact Hq].
Qed.

(* the same with spawn_local and MAX_TASKS_PER_TICK = B *)
Lemma C06_refuted_local : forall B, exists x,
  b_local (e_b x) = B /\ polls_needed_local x = S B /\ queue_after x <> [] /\ KnownClass x.
Proof.
  intros B. exists (fanout true {| b_local := B; b_rt := 0; b_coop := 0 |} 31 (S B)).
  destruct (fanout_local B 0 0 31) as [H1 [_ H3]]. cbn zeta in *.
  split; [reflexivity|]. split; [exact H1|].
  assert (Hq : queue_after (fanout true {| b_local := B; b_rt := 0; b_coop := 0 |} 31 (S B)) <> [])
    by (intros E; rewrite E in H3; discriminate).
  split; [exact Hq|apply leftover_known; exact Hq].
Qed.

(* the witness lemma of the known class in the form  exists x, KnownClass x /\ ~ P x *)
Lemma C06_known_class_witness : forall B, exists x, b_rt (e_b x) = B /\ KnownClass x /\ ~ queue_after x = [].
Proof. intros B. destruct (C06_refuted B) as [x [H1 [_ [H3 H4]]]]. exists x. auto. Qed.

(* cooperative budget c: a task with c+1 messages waiting that receives c+1 times needs one
   poll with c+1 receives; under budget c it is suspended after c of them and its wake is
   deferred to the park, i.e. it continues at the module's next callback *)
Lemma C06_coop_refuted : forall c now,
  p_ops (snd (poll_task None true now 0 (receiver c now))) = c + 1 /\
  code_of 0 (fst (poll_task None true now 0 (receiver c now))) = None /\
  p_dfr (snd (poll_task (Some c) true now 0 (receiver c now))) = true.
Proof. exact coop_budget_defers. Qed.

(* tokio 1.45.1: 62 tokio::spawn in the callback of the event at t = 5, next event at t = 12:
   task 61 was made runnable at 5 and is polled at 12, and its Log records 12. *)
Definition tokio_budgets : budgets := {| b_local := 61; b_rt := 61; b_coop := 128 |}.

Lemma C06_as_stated_refuted :
  let log := run_model tokio_budgets 31 (idle_tasks false 62) [] [(5, false, [], spawn_all 62); (7, false, [], [])] in
  In (RPoll 61 5 12) log /\ ~ polls_timely log.
Proof.
  cbn zeta. split; [vm_compute; tauto|].
  intros H. unfold polls_timely in H. rewrite Forall_forall in H.
  specialize (H (RPoll 61 5 12)). cbn [timely] in H.
  assert (5 = 12) by (apply H; vm_compute; tauto). discriminate.
Qed.

(* tokio 1.45.1: a task receives 129 times from a channel holding 129 messages: the 129th
   receive happens at the next event *)
Lemma C06_coop_as_stated_refuted :
  let ts := [(true, repeat Recv 129 ++ [Log])] in
  let log := run_model tokio_budgets 31 ts [] [(5, false, [], repeat (ASend 0) 129 ++ [Spawn 0]); (7, false, [], [])] in
  In (RPoll 0 5 12) log /\ In (ROp 0 12) log.
Proof. cbn zeta. split; vm_compute; tauto. Qed.
