(* F7, F8: the pinned dispatch_event (fetch the next event, and when the limit
   applies put it back with `add`) violates the statements of Properties/C10.v.
   [pinned] is the behaviour of the code before the fix: commits; the real
   crate was checked to agree with it on every generated script. *)
From Coq Require Import List NArith Bool.
From DesVerif Require Import CQueue.Spec Runtime.Limit Runtime.Model.
Import ListNotations.
Open Scope N_scope.

Definition bootp (S B : N) (L : lim) (pre : list (N * N)) : rt := fst (pre_adds (rt_new pinned S B L) pre).

(* F7: [A,B,C]@0; dispatch_n_events(1); dispatch_all  runs A, C, B -- the
   put-back goes to the tail of the zero bucket (negation of C10_stepped_log_eq_run_log) *)
Lemma C10_pinned_stepped_log_refuted :
  exists P S B pre ops s1 xs sf u,
    forallb (fun o => match o with SAdd _ _ => false | _ => true end) ops = true /\
    exec_sched pinned P (bootp S B LNone pre) ops = (Some s1, xs) /\
    dispatch_all pinned P s1 = Some sf /\ dispatch_all pinned P (bootp S B LNone pre) = Some u /\
    log sf <> log u.
Proof.
  exists [], 0, 0, [(0, 1); (0, 2); (0, 3)], [SN 1].
  eexists. eexists. eexists. eexists.
  split; [reflexivity|]. split; [vm_compute; reflexivity|]. split; [vm_compute; reflexivity|].
  split; [vm_compute; reflexivity|]. vm_compute. discriminate.
Qed.

(* F8: events at 1 and 10; dispatch_events_until(2) pauses at sim_time 1 but
   has already advanced the event set's clock to 10, so add_event(5) panics
   (negation of C10_paused_add_ok_iff) *)
Lemma C10_pinned_paused_add_refuted :
  exists P S B pre ops s xs t l,
    exec_sched pinned P (bootp S B LNone pre) ops = (Some s, xs) /\
    clock s <= t /\ snd (step pinned P s (SAdd t l)) = OAddRes false.
Proof.
  exists [], 0, 0, [(1, 7); (10, 8)], [SUntil 2]. eexists. eexists. exists 5, 9.
  split; [vm_compute; reflexivity|]. split; [vm_compute; discriminate|]. vm_compute. reflexivity.
Qed.

(* each flag alone: the peek-based dispatch with the unrepaired start time still steps correctly *)
Example C10_peek_alone_repairs_F7 :
  let v := {| v_start := false; v_peek := true |} in
  match exec_sched v [] (fst (pre_adds (rt_new v 0 0 LNone) [(0, 1); (0, 2); (0, 3)])) [SN 1] with
  | (Some s1, _) => option_map log (dispatch_all v [] s1) = Some [(1, 0); (2, 0); (3, 0)]
  | _ => False
  end.
Proof. vm_compute. reflexivity. Qed.
