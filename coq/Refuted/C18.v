(* F11 / F11b: the pinned code ([fx = false]: before fix: 5295e98 and fix: a6f4ffc) panics where the
   property demands an error; the same inputs are errors of the current code ([fx = true]). *)
From Coq Require Import List NArith.
From DesVerif Require Import Ndl.Bytes Ndl.Grammar Ndl.Def Ndl.Transform Ndl.Build Ndl.Denote Ndl.Realisable Ndl.Known Ndl.Model.
Import ListNotations.
Open Scope N_scope.

Definition nm (c : N) : ident := [c].
Definition A := nm 65. Definition B := nm 66. Definition G := nm 71. Definition I := nm 73.
Definition T := nm 84. Definition U := nm 85. Definition X := nm 88.
Definition fld (c : N) : FieldDef := {| fd_ident := nm c; fd_kard := Atom |}.
Definition plain (name : ident) (subs : list (FieldDef * TypClause ident)) : TypClause Generic * ModuleDef :=
  ({| tc_ident := name; tc_args := [] |}, {| md_inherit := None; md_gates := []; md_subs := subs; md_conns := [] |}).
Definition generic1 (name binding bound : ident) (subs : list (FieldDef * TypClause ident)) : TypClause Generic * ModuleDef :=
  ({| tc_ident := name; tc_args := [{| g_binding := binding; g_bound := bound |}] |},
   {| md_inherit := None; md_gates := []; md_subs := subs; md_conns := [] |}).
Definition tc (name : ident) (args : list ident) : TypClause ident := {| tc_ident := name; tc_args := args |}.

(* (a) the type clause "A(T <- I" *)
Lemma C18_pinned_unclosed_clause_panics :
  exists s, typclause_from_str false generic_from_str s = Panic P_ASSERT_ENDS_WITH_PAREN /\
            typclause_from_str true generic_from_str s = Err E_NO_CLOSING_PAREN.
Proof. exists [65; 40; 84; 32; 60; 45; 32; 73]. split; reflexivity. Qed.

(* (b) A(U <- I) { y: B(U) }, B(T <- I) { x: T }, I: the enclosing generic U passed on *)
Definition d_passed_on : Def :=
  {| d_entry := A;
     d_modules := [generic1 A U I [(fld 121, tc B [U])]; generic1 B T I [(fld 120, tc T [])]; plain I []];
     d_links := [] |}.
Lemma C18_pinned_generic_passed_on_panics :
  exists d, transform false d = Panic P_REPLACEMENT_LOOKUP /\ transform true d = Err K_GENERIC_PASSED_AS_TYP_ARGUMENT.
Proof. exists d_passed_on. split; vm_compute; reflexivity. Qed.

(* (c) A { y: B(G) }, B(T <- I) { x: T }, G(T <- I), I: a generic type as argument *)
Definition d_generic_arg : Def :=
  {| d_entry := A;
     d_modules := [plain A [(fld 121, tc B [G])]; generic1 B T I [(fld 120, tc T [])]; generic1 G T I []; plain I []];
     d_links := [] |}.
Lemma C18_pinned_generic_type_as_argument_panics :
  exists d, transform false d = Panic P_ASSERT_REPLACEMENT_DEPS /\ transform true d = Err K_INVALID_TYP_STATEMENT.
Proof. exists d_generic_arg. split; vm_compute; reflexivity. Qed.

(* (d) A(U <- I) { y: U(X) }, I, X: arguments applied to a generic parameter *)
Definition d_args_on_generic : Def :=
  {| d_entry := A;
     d_modules := [generic1 A U I [(fld 121, tc U [X])]; plain I []; plain X []];
     d_links := [] |}.
Lemma C18_pinned_arguments_on_generic_panics :
  exists d, transform false d = Panic P_GENERIC_BASE_LOOKUP /\ transform true d = Err K_INVALID_TYP_STATEMENT.
Proof. exists d_args_on_generic. split; vm_compute; reflexivity. Qed.

(* (b') with a global module named like the generic, the pinned code silently used the global one *)
Definition d_shadow : Def :=
  {| d_entry := A;
     d_modules := [plain I []; plain U []; generic1 B T I [(fld 120, tc T [])]; generic1 A U I [(fld 121, tc B [U])]];
     d_links := [] |}.
Lemma C18_pinned_generic_shadowed_by_global :
  exists d, (exists n, transform false d = Ok n) /\ transform true d = Err K_GENERIC_PASSED_AS_TYP_ARGUMENT.
Proof. exists d_shadow. split; [eexists|]; vm_compute; reflexivity. Qed.

(* F11b (fix: a6f4ffc): two submodule fields of one name (own + inherited) elaborated, and the
   instantiation then hit `assert!(self.get(path).is_none())` (des/src/net/ndl/mod.rs, raw_ndl); now
   transform reports SymbolAlreadyDefined.
   The document: entry M0; M0: inherit M2, submodules {x: M1}; M2: submodules {x: M1}; M1: gates [p] *)
Definition dup_doc : list N :=
  [1; 1; 2; 77; 48; 3; 2; 77; 48; 1; 2; 77; 50; 0; 1; 1; 120; 2; 77; 49; 0; 2; 77; 50; 0; 0; 1; 1; 120; 2; 77; 49; 0; 2; 77; 49; 0; 1; 1; 112; 0; 0; 0; 0].
Lemma C18_pinned_duplicate_submodule_path_panics :
  exists input, run_fx false input = 1 :: [2; 77; 48; 0; 2; 1; 120; 0; 2; 77; 49; 1; 1; 112; 0; 0; 0; 1; 120; 0; 2; 77; 49; 1; 1; 112; 0; 0; 0; 0] ++ [5; 9; 30] /\
               run input = [2; 2].
Proof. exists dup_doc. split; vm_compute; reflexivity. Qed.

(* the same for two cluster fields x[2], x[3] of one module, on the description level *)
Definition d_dup_clusters : Def :=
  {| d_entry := A;
     d_modules := [plain A [({| fd_ident := nm 120; fd_kard := Cluster 2 |}, tc B []); ({| fd_ident := nm 120; fd_kard := Cluster 3 |}, tc B [])];
                   plain B []];
     d_links := [] |}.
Lemma C18_pinned_duplicate_cluster_fields :
  exists d, (exists n, transform false d = Ok n /\ Build.build (fun _ => true) n = Panic Build.P_MODULE_EXISTS) /\
            transform true d = Err K_SYMBOL_ALREADY_DEFINED.
Proof. exists d_dup_clusters. split; [eexists; split|]; vm_compute; reflexivity. Qed.

(* F11c (known finding, current code): `transform succeeds and the wiring is realisable => the build succeeds` is false.
   Z { h: G(C) };  G(T <- I): inherit Q { x: T };  Q { gates [g]; y: T; y/z <-> g };  I { gates [p] };  C: inherit I;
   T { gates [z] }   -- Q's `y: T` is the GLOBAL module T.  Instantiating G(C) replaces every submodule whose symbol is
   "T", the inherited y included; the inherited connection y/z then names a gate that C does not have: the elaborated
   tree has an endpoint that does not resolve ([tree_ok] = false) although no statement connects a gate to itself or
   a third time, and the build hits access_gate(..).expect("gate"). *)
Definition Cc := nm 67. Definition Q := nm 81. Definition Zz := nm 90.
Definition gate1 (c : N) : FieldDef := {| fd_ident := nm c; fd_kard := Atom |}.
Definition d_f11c : Def :=
  {| d_entry := Zz;
     d_modules :=
       [plain Zz [(fld 104, tc G [Cc])];
        ({| tc_ident := G; tc_args := [{| g_binding := T; g_bound := I |}] |},
         {| md_inherit := Some Q; md_gates := []; md_subs := [(fld 120, tc T [])]; md_conns := [] |});
        ({| tc_ident := Q; tc_args := [] |},
         {| md_inherit := None; md_gates := [gate1 103]; md_subs := [(fld 121, tc T [])];
            md_conns := [{| cd_lhs := [gate1 121; gate1 122]; cd_rhs := [gate1 103]; cd_link := None |}] |});
        ({| tc_ident := I; tc_args := [] |}, {| md_inherit := None; md_gates := [gate1 112]; md_subs := []; md_conns := [] |});
        ({| tc_ident := Cc; tc_args := [] |}, {| md_inherit := Some I; md_gates := []; md_subs := []; md_conns := [] |});
        ({| tc_ident := T; tc_args := [] |}, {| md_inherit := None; md_gates := [gate1 122]; md_subs := []; md_conns := [] |})];
     d_links := [] |}.
Lemma C18_known_class_witness : KnownClass d_f11c /\ f11c_shape d_f11c = true.
Proof. split; [eexists; split; vm_compute; reflexivity|vm_compute; reflexivity]. Qed.

Lemma C18_build_fails_although_wiring_realisable :
  exists d n, transform true d = Ok n /\ wiring_ok (den_conns n []) [] = true /\ tree_ok n = false /\
              Build.build (fun _ => true) n = Panic Build.P_EXPECT_GATE.
Proof. exists d_f11c. eexists. split; [vm_compute; reflexivity|]. repeat split; vm_compute; reflexivity. Qed.

(* F11c, second shape: G(T <- I, I <- J) { h: T; s: I; h/p <-> s/q } instantiated as G(I, C) with the global I as first
   argument: h becomes I's tree, whose symbol is the name of the second parameter, and is replaced again by C *)
Definition J := nm 74.
Definition d_f11c_args : Def :=
  {| d_entry := Zz;
     d_modules :=
       [plain Zz [(fld 108, tc G [I; Cc])];
        ({| tc_ident := G; tc_args := [{| g_binding := T; g_bound := I |}; {| g_binding := I; g_bound := J |}] |},
         {| md_inherit := None; md_gates := []; md_subs := [(fld 104, tc T []); (fld 115, tc I [])];
            md_conns := [{| cd_lhs := [gate1 104; gate1 112]; cd_rhs := [gate1 115; gate1 113]; cd_link := None |}] |});
        ({| tc_ident := I; tc_args := [] |}, {| md_inherit := None; md_gates := [gate1 112]; md_subs := []; md_conns := [] |});
        ({| tc_ident := J; tc_args := [] |}, {| md_inherit := None; md_gates := [gate1 113]; md_subs := []; md_conns := [] |});
        ({| tc_ident := Cc; tc_args := [] |}, {| md_inherit := Some J; md_gates := []; md_subs := []; md_conns := [] |})];
     d_links := [] |}.
Lemma C18_known_class_witness_argument_shape :
  KnownClass d_f11c_args /\ f11c_shape d_f11c_args = true /\
  exists n, transform true d_f11c_args = Ok n /\ Build.build (fun _ => true) n = Panic Build.P_EXPECT_GATE.
Proof. split; [eexists; split; vm_compute; reflexivity|]. split; [vm_compute; reflexivity|]. eexists. split; vm_compute; reflexivity. Qed.
