(* C15: the guard of the theorems is necessary.  For an adjusted node size s with
   page - size_of::<ListNode>() < s < page a fresh page never fits (the tail would
   be 1..15 bytes), so find_region adds pages forever: for EVERY amount of fuel the
   model runs out of fuel.  Witness: 64-byte page, Layout (56, 8) - a valid layout
   that fits a page.  The harness replays it on the real allocator under the
   observer's watchdog (band scripts of tools/props/c15.py; corpus/C15/band.txt).
   This is an observation outside C15's quantifier (payloads up to ~2 KiB on 4 KiB
   pages give node sizes <= 2096), recorded here so that the exclusion is a theorem
   and not an assumption. *)
From Coq Require Import List Arith NArith Lia Bool ZifyBool.
From DesVerif Require Import Alloc.Model Alloc.Arith Alloc.Inv.
Import ListNotations.
Open Scope N_scope.

Lemma pow2_8 : pow2 8. Proof. exists 3. reflexivity. Qed.

Lemma afr_band b : alloc_from_region 16 (b, 64) 56 8 = None.
Proof.
  unfold alloc_from_region. cbn [fst snd]. destruct (align_up_spec b 8 pow2_8) as [H1 [H2 _]].
  destruct (b + 64 <? align_up b 8 + 56) eqn:E1; [reflexivity|].
  destruct ((0 <? b + 64 - (align_up b 8 + 56)) && (b + 64 - (align_up b 8 + 56) <? 16)) eqn:E2; [reflexivity|lia].
Qed.

Lemma scan_band l : Forall (fun r => snd r = 64) l -> scan 16 l 56 8 = None.
Proof.
  induction 1 as [|[b sz] l Hsz _ IH]; cbn [scan]; [reflexivity|]. cbn [snd] in Hsz. subst sz.
  rewrite afr_band, IH. reflexivity.
Qed.

Definition all64 (s : st) : Prop := page_size s = 64 /\ Forall (fun r => snd r = 64) (free s).

Lemma add_page_band s : all64 s -> exists s', add_page sym_base 16 8 s = Some s' /\ all64 s' /\ length (pages s') = S (length (pages s)).
Proof.
  intros [Hp Hf]. unfold add_page, add_free_region. rewrite Hp.
  assert (Hd : (8 | sym_base (N.of_nat (length (pages s))))).
  { unfold sym_base. apply N.divide_mul_r. exists (2 ^ 37). reflexivity. }
  rewrite (align_up_fix _ _ pow2_8 Hd), N.eqb_refl. cbn [negb]. change (64 <? 16) with false. cbn iota.
  eexists. split; [reflexivity|]. unfold all64. cbn [set_free set_pages free pages page_size]. split; [split|].
  - exact Hp.
  - constructor; [reflexivity|exact Hf].
  - rewrite app_length. cbn [length]. lia.
Qed.

Lemma find_band fuel : forall s, all64 s ->
  exists s', find_region sym_base 16 8 fuel s 56 8 = FOutOfFuel s' /\ length (pages s') = (length (pages s) + fuel)%nat.
Proof.
  induction fuel as [|f IH]; intros s Hs; cbn [find_region]; rewrite (scan_band _ (proj2 Hs)).
  - exists s. split; [reflexivity|lia].
  - destruct (add_page_band s Hs) as [s1 [-> [Hs1 Hl]]]. destruct (IH s1 Hs1) as [s' [-> Hl']].
    exists s'. split; [reflexivity|lia].
Qed.

(* a valid layout that fits a page, on a valid page size, for which allocate does
   not terminate: whatever the fuel, it is exhausted and that many pages were added *)
Theorem C15_band_diverges_refuted :
  exists page l, pow2 page /\ 64 <= page /\ pow2 (snd l) /\ snd l <= page /\ fst (size_align 16 8 l) <= page /\
    in_band 16 page (fst (size_align 16 8 l)) /\
    exists s0, init sym_base 16 8 page = Some s0 /\
      forall fuel, exists s', allocate_f sym_base 16 8 fuel s0 l = AOutOfFuel s' /\ length (pages s') = (1 + fuel)%nat.
Proof.
  exists 64, (56, 8). split; [exists 6; reflexivity|]. split; [lia|]. split; [exact pow2_8|]. split; [cbn; lia|].
  split; [vm_compute; discriminate|]. split; [vm_compute; split; reflexivity|].
  set (s0 := {| free := [(1099511627776, 64)]; pages := [1099511627776]; page_size := 64; allocated_mem := 0; live := [] |}).
  exists s0. split; [vm_compute; reflexivity|]. intros fuel.
  assert (H0 : all64 s0) by (split; [reflexivity|constructor; [reflexivity|constructor]]).
  destruct (find_band fuel s0 H0) as [s' [E Hl]]. exists s'. split; [|exact Hl].
  assert (Esa : size_align 16 8 (56, 8) = (56, 8)) by (vm_compute; reflexivity).
  unfold allocate_f. rewrite Esa. change (page_size s0) with 64. change (64 <? 56) with false. cbn iota.
  rewrite E. reflexivity.
Qed.
Print Assumptions C15_band_diverges_refuted.
