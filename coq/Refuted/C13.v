(* C13 others_as_if_silent: where it fails.
   (a) Before 1526470 SimLifecycle::at_sim_start swept all stages over all modules without looking
       at is_active ([start_one_pinned]); the real crate was checked to agree with this on every
       generated script.  A module with two stages that panics in at_sim_start(0) after spawning a
       task was still given at_sim_start(1), whose yield polled the task: it asked for a restart
       and sent, and module 1 received messages it does not receive when module 0 falls silent.
       With the repaired sweep (coq/Life/Model.v) the same script satisfies the statement.
   (b) Still false, of the model and of the code: a module whose stereotype catches panics and that
       has several stages -- ModuleRef::module_restart goes on with the later stages after a caught
       panic in an earlier one. *)
From Coq Require Import List NArith Bool.
From DesVerif Require Import Common.Fuel Life.Model Life.Events Life.Silent.
Import ListNotations.
Open Scope N_scope.

(* the pinned start-up sweep *)
Definition start_one_pinned (sc : script) (stage m : N) (acc : world * list erec) : world * list erec :=
  let '(w, tr) := acc in
  if stage <? c_stages (cfg sc m) then
    let '(w', l) := around sc 0 m (fun s => fst (at_sim_start (nmods sc) (cfg sc m) 0 m stage s)) w in
    (w', tr ++ [{| e_kind := KStart stage m; e_time := 0; e_items := l |}])
  else acc.

Definition sim_start_pinned (sc : script) (w : world) : world * list erec :=
  fold_left (fun acc stage => fold_left (fun acc m => start_one_pinned sc stage m acc) (mods sc) acc)
            (stage_list (max_stage sc)) (w, []).

Definition trace_pinned (sc : script) : list erec :=
  let '(w0, tr0) := sim_start_pinned sc (init_world sc) in
  let boot := {| e_kind := KBoot; e_time := 0; e_items := [ISample 0 (mask sc w0)] |} in
  match iter_until (fuel sc) (loop_step sc) (w0, 0, tr0 ++ [boot]) with
  | inr (w, now, tr) => tr ++ snd (sim_end sc now w)
  | inl (_, _, tr) => tr
  end.

(* corpus/C13/multistage_panic.txt, line 1 *)
Definition w_m0 : modcfg := {| c_catch := false; c_stages := 2; c_bud := 6; c_start := [[APanic]; []];
  c_msg := [[ALog 1]]; c_tasks := [[ARestartIn 1; ASend false 3 0]]; c_end := [] |}.
Definition w_m1 : modcfg := {| c_catch := false; c_stages := 1; c_bud := 6; c_start := [[]];
  c_msg := [[ALog 2]]; c_tasks := []; c_end := [] |}.
Definition w_sc : script := {| s_mods := [w_m0; w_m1]; s_inj := [] |}.

Lemma C13_pinned_others_as_if_silent_refuted :
  exists sc m, c_catch (cfg sc m) = false /\
    others m (items (events_of (trace_pinned sc))) <> others m (items (events_of (trace_pinned (quieten m sc)))).
Proof. exists w_sc, 0. split; [reflexivity|]. vm_compute. discriminate. Qed.

(* the repaired sweep: the same script now satisfies the statement, non-vacuously *)
Example C13_repaired_on_witness :
  others 0 (items (events_of (trace w_sc))) = others 0 (items (events_of (trace (quieten 0 w_sc)))) /\
  others 0 (items (events_of (trace_pinned w_sc))) <> others 0 (items (events_of (trace w_sc))).
Proof. vm_compute. split; [reflexivity|discriminate]. Qed.

(* (b): the hypothesis of C13_others_as_if_silent_partial cannot be dropped.  Module 0 catches panics and
   has two stages; its first incarnation asks for a restart, the restart's at_sim_start(0) panics (caught),
   at_sim_start(1) of the same restart polls the task spawned before the panic, which asks for another
   restart and sends: module 1 handles a message at t = 13 that it never sees when module 0 falls silent. *)
Definition c_m0 : modcfg := {| c_catch := true; c_stages := 2; c_bud := 9; c_start := [[ARestartIn 2]; [APanic]; []];
  c_msg := [[ALog 1]]; c_tasks := [[ARestartIn 3; ASend false 4 0]]; c_end := [] |}.
Definition c_sc : script := {| s_mods := [c_m0; w_m1]; s_inj := [] |}.

Lemma C13_catching_multistage_refuted :
  exists sc m, others m (items (events_of (trace sc))) <> others m (items (events_of (trace (quieten m sc)))).
Proof. exists c_sc, 0. vm_compute. discriminate. Qed.
