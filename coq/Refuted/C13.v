(* C13 others_as_if_silent: the pinned behaviours that violated it, both repaired since.
   [trace_p sfix rfix]: the model with the start-up sweep as before (false) / after (true) 1526470 and the
   restart stage loop as before / after 9e87d89; [trace_p true true] is [trace] of coq/Life/Model.v.  The
   real crate was checked to agree with the pinned variants at the respective commits on the witnesses.
   (a) Before 1526470 SimLifecycle::at_sim_start swept all stages over all modules without looking at
       is_active.  A module with two stages that panics in at_sim_start(0) after spawning a task was still
       given at_sim_start(1), whose yield polled the task: it asked for a restart and sent, and module 1
       received messages it does not receive when module 0 falls silent.
   (b) Before 9e87d89 ModuleRef::module_restart went on with the later stages after a panic that the
       stereotype catches (Harness::catch returns Ok): same effect inside a restart event. *)
From Coq Require Import List NArith Bool.
From DesVerif Require Import Common.Fuel Life.Model Life.Step Life.Events Life.Panic Life.Silent.
Import ListNotations.
Open Scope N_scope.

Definition start_one_p (sfix : bool) (sc : script) (stage m : N) (acc : world * list erec) : world * list erec :=
  let '(w, tr) := acc in
  if (stage <? c_stages (cfg sc m)) && (negb sfix || active (w_mod w m)) then
    let '(w', l) := around sc 0 m (fun s => fst (at_sim_start (nmods sc) (cfg sc m) 0 m stage s)) w in
    (w', tr ++ [{| e_kind := KStart stage m; e_time := 0; e_items := l |}])
  else acc.

Definition sim_start_p (sfix : bool) (sc : script) (w : world) : world * list erec :=
  fold_left (fun acc stage => fold_left (fun acc m => start_one_p sfix sc stage m acc) (mods sc) acc)
            (stage_list (max_stage sc)) (w, []).

Definition module_restart_pinned (k : N) (c : modcfg) (now m : N) (s : xs) : xs :=
  let s0 := on_w (fun w => set_mod w m (set_active (w_mod w m) true)) s in
  fst (fold_left (fun (acc : xs * bool) stage => if snd acc then acc else at_sim_start k c now m stage (fst acc))
                 (stage_list (c_stages c)) (s0, false)).

Definition process_p (rfix : bool) (sc : script) (w : world) (t : N) (ev : fev) : world * list item :=
  match ev with
  | EvRestart m => if rfix then process sc w t ev
                   else around sc t m (module_restart_pinned (nmods sc) (cfg sc m) t m) w
  | _ => process sc w t ev
  end.

Definition loop_step_p (rfix : bool) (sc : script) (st : lstate) : lstate + lstate :=
  let '(w, now, tr) := st in
  match fes_fetch (w_fes w) with
  | None => inr st
  | Some (t, ev, f) =>
    let '(w', l) := process_p rfix sc (set_fes w f) t ev in
    inl (w', t, tr ++ [{| e_kind := KLoop ev; e_time := t; e_items := l ++ [ISample t (mask sc w')] |}])
  end.

Definition trace_p (sfix rfix : bool) (sc : script) : list erec :=
  let '(w0, tr0) := sim_start_p sfix sc (init_world sc) in
  let boot := {| e_kind := KBoot; e_time := 0; e_items := [ISample 0 (mask sc w0)] |} in
  match iter_until (fuel sc) (loop_step_p rfix sc) (w0, 0, tr0 ++ [boot]) with
  | inr (w, now, tr) => tr ++ snd (sim_end sc now w)
  | inl (_, _, tr) => tr
  end.

Definition silent_ok (tr : script -> list erec) (sc : script) (m : N) : Prop :=
  others m (items (events_of (tr sc))) = others m (items (events_of (tr (quieten m sc)))).

Definition w_m1 : modcfg := {| c_catch := false; c_stages := 1; c_bud := 6; c_start := [[]];
  c_msg := [[ALog 2]]; c_tasks := []; c_end := []; c_join := 0; c_rsend := false |}.

(* (a) corpus/C13/multistage_panic.txt, line 1 *)
Definition w_m0 : modcfg := {| c_catch := false; c_stages := 2; c_bud := 6; c_start := [[APanic]; []];
  c_msg := [[ALog 1]]; c_tasks := [[ARestartIn 1; ASend false 3 0]]; c_end := []; c_join := 0; c_rsend := false |}.
Definition w_sc : script := {| s_mods := [w_m0; w_m1]; s_inj := [] |}.

Lemma C13_pinned_sweep_refuted : exists sc m, c_catch (cfg sc m) = false /\ ~ silent_ok (trace_p false false) sc m.
Proof. exists w_sc, 0. split; [reflexivity|]. unfold silent_ok. vm_compute. discriminate. Qed.

(* (b) corpus/C13/multistage_panic.txt, line 3: module 0 catches panics and has two stages; its first incarnation
   asks for a restart, the restart's at_sim_start(0) panics (caught), at_sim_start(1) of the same restart polls the
   task spawned before the panic, which asks for another restart and sends: module 1 handles a message at t = 13 *)
Definition c_m0 : modcfg := {| c_catch := true; c_stages := 2; c_bud := 9; c_start := [[ARestartIn 2]; [APanic]; []];
  c_msg := [[ALog 1]]; c_tasks := [[ARestartIn 3; ASend false 4 0]]; c_end := []; c_join := 0; c_rsend := false |}.
Definition c_sc : script := {| s_mods := [c_m0; w_m1]; s_inj := [] |}.

Lemma C13_pinned_restart_refuted : exists sc m, ~ silent_ok (trace_p true false) sc m.
Proof. exists c_sc, 0. unfold silent_ok. vm_compute. discriminate. Qed.

(* the repaired code: [trace_p true true] is the model, both witnesses satisfy the statement (as every script
   does: Properties/C13.v), and they do so non-vacuously: the runs differ from the pinned ones *)
Example C13_repaired_on_witnesses :
  trace_p true true w_sc = trace w_sc /\ trace_p true true c_sc = trace c_sc /\
  silent_ok trace w_sc 0 /\ silent_ok trace c_sc 0 /\
  others 0 (items (events_of (trace_p false false w_sc))) <> others 0 (items (events_of (trace w_sc))) /\
  others 0 (items (events_of (trace_p true false c_sc))) <> others 0 (items (events_of (trace c_sc))).
Proof. unfold silent_ok. vm_compute. repeat split; try reflexivity; discriminate. Qed.

(* (c) errors_exact / stereotype_in_force against a runtime that samples the stereotype BEFORE the callback
   (seeded change stereotype_snapshot_before_callback; the code reads it when the panic is caught, and so does
   [catch]).  One handle_message in isolation: the handler switches to the catching stereotype and panics; the
   snapshot variant still reports a PanicError although the stereotype in force at the panic catches. *)
Definition handle_message_snap (k : N) (c : modcfg) (now m x : N) (s : xs) : xs :=
  if active (w_mod (x_w s) m) then
    let snap := catchf (w_mod (x_w s) m) in
    let '(s1, p) := exec k now m (CbMsg x) [] (pick_msg c x) s in
    let w1 := set_mod (x_w s1) m (set_catchf (w_mod (x_w s1) m) snap) in    (* judge by the snapshot ... *)
    let w2 := fst (catch c m p w1) in
    {| x_w := set_mod w2 m (set_catchf (w_mod w2 m) (catchf (w_mod (x_w s1) m))); x_log := x_log s1 |}
  else s.

Definition s_m0 : modcfg := {| c_catch := false; c_stages := 1; c_bud := 3; c_start := [[]];
  c_msg := [[ASetCatch true; APanic]]; c_tasks := []; c_end := []; c_join := 0; c_rsend := false |}.
Definition s_sc : script := {| s_mods := [s_m0; w_m1]; s_inj := [] |}.
Definition s_st : xs := {| x_w := init_world s_sc; x_log := [] |}.

Definition s_snap : xs := handle_message_snap 2 s_m0 1 0 0 s_st.
Definition s_real : xs := handle_message 2 s_m0 1 0 0 s_st.     (* the model (the code as it is) on the same input *)

Lemma C13_pinned_snapshot_refuted :
  x_log s_snap = [ICall 0 (CbMsg 0) 1 true; ISetCatch 0 0 true; IPanic 0 0 true] /\
  w_err (x_w s_snap) = [(0, 0)] /\ perrs s_sc (x_log s_snap) = [] /\
  x_log s_real = x_log s_snap /\ w_err (x_w s_real) = [] /\ perrs s_sc (x_log s_real) = [].
Proof. vm_compute. repeat split; reflexivity. Qed.

(* (d) containment against current().shutdow_and_restart_at(t) with t in the past being ACCEPTED inside the callback, as
   before 09c7b16 (F19; the code now panics inside the call, and the model decodes the scripted call to [APanic]).  One event of
   module 0 in isolation at t = 5 whose callback registers a restart at t = 1 and returns: buf_process consumes the request
   and queues the restart event BEFORE the clock of the event set -- the invariant of Life/Future.v ("nothing is scheduled
   into the past", on which the event loop's time order rests) is broken.  The real event set answers exactly this insertion
   with panic!("Cannot add past event to calender queue"), after the callback and outside the panic harness: run() itself
   panicked, nothing was contained or attributed (corpus/C13/library_panics.txt line 3 crashes the runner on a166d25). *)
Definition r_w : world := set_fes (init_world s_sc) {| f_tcur := 5; f_zero := []; f_rest := [] |}.
Definition r_w' : world := fst (around s_sc 5 0 (fun s => on_w (request 0 (Some 1)) s) r_w).

Lemma C13_pinned_restart_at_past_refuted :
  fes_order (w_fes r_w') = [(1, EvRestart 0)] /\ f_tcur (w_fes r_w') = 5 /\
  ~ (forall p, In p (fes_order (w_fes r_w')) -> f_tcur (w_fes r_w') <= fst p).
Proof.
  assert (E : fes_order (w_fes r_w') = [(1, EvRestart 0)] /\ f_tcur (w_fes r_w') = 5) by (vm_compute; split; reflexivity).
  destruct E as [E1 E2]. split; [exact E1|split; [exact E2|]]. intros H. specialize (H (1, EvRestart 0)). rewrite E1, E2 in H.
  specialize (H (or_introl eq_refl)). vm_compute in H. apply H. reflexivity.
Qed.

