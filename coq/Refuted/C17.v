(* C17 — witnesses: the statements of Properties/C17.v are false of the (current) code without
   their guards.  Everything by evaluation of the model (which the correspondence check ties to
   des-net-utils on every run; the scripts are in corpus/C17 and tools/props/c17.py). *)
From Coq Require Import List NArith Bool.
From DesVerif Require Import Props.Spec Props.Model Props.Loops Props.Main Props.Comp Props.SpecExec.
Import ListNotations.
Open Scope N_scope.

Definition k_a : str := [97].                                             (* a *)
Definition k_a_any_x : str := [97;46;60;97;110;121;62;46;120].            (* a.<any>.x *)
Definition k_a_any : str := [97;46;60;97;110;121;62].                     (* a.<any> *)
Definition k_aanyb_c : str := [97;60;97;110;121;62;98;46;99].             (* a<any>b.c *)
Definition k_any_e_x : str := [60;97;110;121;62;46;46;120].               (* <any>..x *)
Definition z : str := [122].
Definition x : str := [120].

(* Known finding `entry_at_wildcard_prefix`: an entry keyed exactly by the text in front of another
   entry's wildcard.  `a: 1` next to `a.<any>.x: 2`: module a.z is entitled to x = 2 and receives nothing. *)
Definition known_cfg : list (str * N) := [(k_a, 1); (k_a_any_x, 2)].

Theorem C17_known_class_witness :
  wf_cfgb known_cfg = true /\ KnownClass known_cfg /\ wf_pathb [k_a; z] = true /\
  receives known_cfg [k_a; z] x 2 /\ capture_for_into (cfg_new known_cfg) [k_a; z] = [].
Proof.
  split; [reflexivity|]. split; [apply known_classb_ok; reflexivity|]. split; [reflexivity|].
  split; [apply spec_capture_ok; vm_compute; left; reflexivity|reflexivity].
Qed.

(* hence completeness without the `known_classb cfg = false` hypothesis is refuted *)
Theorem C17_complete_unguarded_refuted :
  ~ (forall cfg p name v, wf_cfgb cfg = true -> wf_pathb p = true -> receives cfg p name v ->
       exists v', In (name, EYaml (Scalar v')) (capture_for_into (cfg_new cfg) p)).
Proof.
  intros H. destruct C17_known_class_witness as [W [_ [P [R E]]]].
  destruct (H known_cfg [k_a; z] x 2 W P R) as [v' Hin]. rewrite E in Hin. exact Hin.
Qed.

(* the same in the other order of the two lines *)
Example C17_known_class_other_order :
  capture_for_into (cfg_new [(k_a_any_x, 2); (k_a, 1)]) [k_a; z] = [].
Proof. reflexivity. Qed.

(* Keys outside the quantifier (excluded by wf_cfgb): a key that ends in the wildcard gives the
   matching modules a property with the empty name ... *)
Theorem C17_trailing_wildcard_witness :
  wf_cfgb [(k_a_any, 5)] = false /\
  capture_for_into (cfg_new [(k_a_any, 5)]) [k_a; z] = [([], EYaml (Scalar 5))] /\
  spec_capture [(k_a_any, 5)] [k_a; z] = [].
Proof. repeat split; reflexivity. Qed.

(* ... a wildcard inside a segment is read as a segment of its own (module a.q.b gets c from `a<any>b.c`) ... *)
Theorem C17_wildcard_inside_segment_witness :
  wf_cfgb [(k_aanyb_c, 3)] = false /\
  capture_for_into (cfg_new [(k_aanyb_c, 3)]) [k_a; z; [98]] = [([99], EYaml (Scalar 3))] /\
  spec_capture [(k_aanyb_c, 3)] [k_a; z; [98]] = [].
Proof. repeat split; reflexivity. Qed.

(* ... and an empty segment next to a wildcard is dropped (`<any>..x` gives module z the property x, not .x) *)
Theorem C17_empty_segment_witness :
  wf_cfgb [(k_any_e_x, 3)] = false /\
  capture_for_into (cfg_new [(k_any_e_x, 3)]) [z] = [(x, EYaml (Scalar 3))] /\
  spec_capture [(k_any_e_x, 3)] [z] = [([46; 120], 3)].
Proof. repeat split; reflexivity. Qed.

(* soundness without the key guard is refuted by the first of these *)
Theorem C17_sound_unguarded_refuted :
  ~ (forall cfg p name e, known_classb cfg = false -> wf_pathb p = true ->
       In (name, e) (capture_for_into (cfg_new cfg) p) -> exists v, e = EYaml (Scalar v) /\ receives cfg p name v).
Proof.
  intros H. destruct (H [(k_a_any, 5)] [k_a; z] [] (EYaml (Scalar 5)) eq_refl eq_refl (or_introl eq_refl)) as [v [_ R]].
  apply spec_capture_ok in R. exact R.
Qed.
