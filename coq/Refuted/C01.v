(* F1: the pinned cancel (before the fix: commit) does not refine the spec. *)
From Coq Require Import List NArith.
From DesVerif Require Import CQueue.Model CQueue.Spec.
Import ListNotations.
Open Scope N_scope.

Lemma C01_pinned_cancel_refuted :
  exists n t ops, n <> 0 /\ t <> 0 /\ run_ops false n t ops <> sp_run_ops ops.
Proof.
  exists 4, 1, [Add 5 100; Add 5 200; Fetch; Cancel 1; Len; Fetch].
  split; [discriminate|]. split; [discriminate|]. vm_compute. discriminate.
Qed.
