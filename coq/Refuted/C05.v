(* F3: with the PINNED TimerQueue::next() (front slot only; None when the front slot has no
   entries) the wake-up invariant fails: a timer is live, no wake-up is scheduled, the run ends. *)
From Coq Require Import List NArith.
From DesVerif Require Import Timer.Driver Timer.QueueLemmas Timer.Inv Timer.Exact.
Import ListNotations.
Open Scope N_scope.

(* register a at 5, drop a, register b at 10 (all in the event at time 0), deactivate *)
Lemma C05_pinned_next_refuted :
  exists ops, ops_wf 0 ops /\ Inv 0 new_driver /\
    let dr := snd (event_body false 0 ops new_driver) in
    live dr 2 10 /\ scheduled dr = [] /\ ~ Inv_wake 0 dr.
Proof.
  exists [Register 1 5; DropEntry 1 5; Register 2 10].
  split; [repeat constructor|]. split; [exact inv_init|].
  cbn zeta. split; [|split].
  - exists [2]. split; [vm_compute; right; left; reflexivity|left; reflexivity].
  - vm_compute. reflexivity.
  - intros H. destruct (H 10 [2]) as (w & Hw & _).
    + vm_compute. right; left; reflexivity.
    + discriminate.
    + vm_compute in Hw. exact Hw.
Qed.

(* the same history on the pinned code as a complete run: the event set is empty although
   timer 2 is still registered -- it is never woken (JoinError NotFinished) *)
Lemma C05_pinned_timer_lost :
  exists tr, let '(now, dr, lg) := run_trace false (0, new_driver) tr in
    scheduled dr = [] /\ live dr 2 10 /\ lg = [].
Proof.
  exists [EOther 0 [Register 1 5; DropEntry 1 5; Register 2 10]].
  vm_compute. split; [reflexivity|]. split; [|reflexivity].
  exists [2]. split; [right; left; reflexivity|left; reflexivity].
Qed.
