(* F3: with the PINNED TimerQueue::next() (front slot only; None when the front slot has no
   entries) the wake-up invariant fails: a timer is live, no wake-up is scheduled, the run ends. *)
From Coq Require Import List NArith.
From DesVerif Require Import Timer.Driver Timer.QueueLemmas Timer.Inv Timer.Exact Timer.Futures Timer.FutureLaws Timer.Model.
Import ListNotations.
Open Scope N_scope.

(* register a at 5, drop a, register b at 10 (all in the event at time 0), deactivate *)
Lemma C05_pinned_next_refuted :
  exists ops, ops_wf 0 ops /\ Inv 0 new_driver /\
    let dr := snd (event_body false 0 ops new_driver) in
    live dr 2 10 /\ scheduled dr = [] /\ ~ Inv_wake 0 dr.
Proof.
  exists [Register 1 5; DropEntry 1 5; Register 2 10].
  split; [repeat constructor|]. split; [exact inv_init|].
  cbn zeta. split; [|split].
  - exists [2]. split; [vm_compute; right; left; reflexivity|left; reflexivity].
  - vm_compute. reflexivity.
  - intros H. destruct (H 10 [2]) as (w & Hw & _).
    + vm_compute. right; left; reflexivity.
    + discriminate.
    + vm_compute in Hw. exact Hw.
Qed.

(* the same history on the pinned code as a complete run: the event set is empty although
   timer 2 is still registered -- it is never woken (JoinError NotFinished) *)
Lemma C05_pinned_timer_lost :
  exists tr, let '(now, dr, lg) := run_trace false (0, new_driver) tr in
    scheduled dr = [] /\ live dr 2 10 /\ lg = [].
Proof.
  exists [EOther 0 [Register 1 5; DropEntry 1 5; Register 2 10]].
  vm_compute. split; [reflexivity|]. split; [|reflexivity].
  exists [2]. split; [right; left; reflexivity|left; reflexivity].
Qed.

(* The code before commit 5af9a5f never refreshed the waker stored with a timer entry: a Sleep
   polled by task 0 and then polled (awaited) by task 1 is still woken through task 0. *)
Lemma C05_pinned_waker_refuted :
  exists polls s, handle s = None /\ Forall (fun p => fst p < deadline s) polls /\
    waker_of (snd (poll_seq true polls s new_driver [])) (sid s) = Some 1%nat /\
    waker_of (snd (poll_seq false polls s new_driver [])) (sid s) = Some 0%nat.
Proof.
  exists [(0, 0%nat); (0, 1%nat)], (sleep_new 10 7).
  split; [reflexivity|]. split; [repeat constructor|]. vm_compute. split; reflexivity.
Qed.

(* ... in the composite model: task 0 polls a boxed sleep(10), hands it to task 1 and sleeps 30;
   task 1 receives it at 0 and awaits it.  With the pinned behaviour the wake-up at 10 polls
   task 0; task 1 never resumes (log [0] only, not finished, run not Ok), whereas the code as
   it is now resumes it at exactly 10. *)
Lemma C05_pinned_hand_over_lost :
  exists script,
    run_gen false script = [2; 0; 30; 1;  1; 0; 0;  0; 30] /\
    run_gen true script = [2; 0; 30; 1;  2; 0; 10; 1;  1; 30].
Proof.
  exists [0; 2; 7; 0; 0; 9; 0; 10; 1; 30; 4; 0; 0; 10; 0]. vm_compute. split; reflexivity.
Qed.
