(* F3: with the PINNED TimerQueue::next() (front slot only; None when the front slot has no
   entries) the wake-up invariant fails: a timer is live, no wake-up is scheduled, the run ends. *)
From Coq Require Import List NArith.
From DesVerif Require Import Timer.Driver Timer.QueueLemmas Timer.Inv Timer.Exact Timer.Futures Timer.FutureLaws Timer.Model.
Import ListNotations.
Open Scope N_scope.

(* register a at 5, drop a, register b at 10 (all in the event at time 0), deactivate *)
Lemma C05_pinned_next_refuted :
  exists ops, ops_wf 0 ops /\ Inv 0 new_driver /\
    let dr := snd (event_body false 0 ops new_driver) in
    live dr 2 10 /\ scheduled dr = [] /\ ~ Inv_wake 0 dr.
Proof.
  exists [Register 1 5; DropEntry 1 5; Register 2 10].
  split; [repeat constructor|]. split; [exact inv_init|].
  cbn zeta. split; [|split].
  - exists [2]. split; [vm_compute; right; left; reflexivity|left; reflexivity].
  - vm_compute. reflexivity.
  - intros H. destruct (H 10 [2]) as (w & Hw & _).
    + vm_compute. right; left; reflexivity.
    + discriminate.
    + reflexivity.
    + vm_compute in Hw. exact Hw.
Qed.

(* the same history on the pinned code as a complete run: the event set is empty although
   timer 2 is still registered -- it is never woken (JoinError NotFinished) *)
Lemma C05_pinned_timer_lost :
  exists tr, let '(now, dr, lg) := run_trace false (0, new_driver) tr in
    scheduled dr = [] /\ live dr 2 10 /\ lg = [].
Proof.
  exists [EOther 0 [Register 1 5; DropEntry 1 5; Register 2 10]].
  vm_compute. split; [reflexivity|]. split; [|reflexivity].
  exists [2]. split; [right; left; reflexivity|left; reflexivity].
Qed.

(* The code before commit 5af9a5f never refreshed the waker stored with a timer entry: a Sleep
   polled by task 0 and then polled (awaited) by task 1 is still woken through task 0. *)
Lemma C05_pinned_waker_refuted :
  exists polls s, handle s = None /\ Forall (fun p => fst p < deadline s) polls /\
    waker_of (snd (poll_seq true polls s new_driver [])) (sid s) = Some 1%nat /\
    waker_of (snd (poll_seq false polls s new_driver [])) (sid s) = Some 0%nat.
Proof.
  exists [(0, 0%nat); (0, 1%nat)], (sleep_new 10 7).
  split; [reflexivity|]. split; [repeat constructor|]. vm_compute. split; reflexivity.
Qed.

(* ... in the composite model: task 0 polls a boxed sleep(10), hands it to task 1 and sleeps 30;
   task 1 receives it at 0 and awaits it.  With the pinned behaviour the wake-up at 10 polls
   task 0; task 1 never resumes (log [0] only, not finished, run not Ok), whereas the code as
   it is now resumes it at exactly 10.  (firstn: the task logs, run result and end time; the
   driver snapshots that follow in the output are not shown.) *)
Lemma C05_pinned_hand_over_lost :
  exists script,
    firstn 9 (run_gen false script) = [2; 0; 30; 1;  1; 0; 0;  0; 30] /\
    firstn 10 (run_gen true script) = [2; 0; 30; 1;  2; 0; 10; 1;  1; 30].
Proof.
  exists [0; 2; 7; 0; 0; 9; 0; 10; 1; 30; 4; 0; 0; 10; 0]. vm_compute. split; reflexivity.
Qed.

(* Seeded change `next_wakeup_stuck`: activate clears next_wakeup only when the bump popped a
   slot, instead of whenever the marker is due (the code as it is: Driver.activate). *)
Definition activate_mut (now : N) (dr : driver) : list slot * driver :=
  let '(w, rest) := q_bump now (pending dr) in
  (w, {| pending := rest;
         next_wakeup := match w with [] => next_wakeup dr | _ => None end;
         scheduled := scheduled dr |}).

Definition event_body_mut (t : N) (ops : list dop) (dr : driver) : list slot * driver :=
  let '(w, d1) := activate_mut t dr in (w, fst (deactivate true (apply_ops ops d1))).

(* register a@10 at 0 (wake-up 10 scheduled); a MESSAGE event at 2 drops a and registers b@20
   (20 is not earlier than the marker 10: nothing scheduled, correctly); the stale wake-up 10
   fires with nothing to bump.  The real activate clears the marker and deactivate schedules 20;
   the mutant keeps the marker 10 forever: b is live, no wake-up is scheduled, Inv_wake fails. *)
Lemma C05_mutant_activate_refuted :
  let ev0 body dr := snd (body 0 [Register 1 10] dr) in
  let ev2 body dr := snd (body 2 [DropEntry 1 10; Register 2 20] dr) in
  let ev10 body dr := snd (body 10 [] (sched_fire 10 dr)) in
  let good := ev10 (event_body true) (ev2 (event_body true) (ev0 (event_body true) new_driver)) in
  let bad := ev10 event_body_mut (ev2 event_body_mut (ev0 event_body_mut new_driver)) in
  (scheduled good = [20] /\ next_wakeup good = Some 20) /\
  (live bad 2 20 /\ scheduled bad = [] /\ next_wakeup bad = Some 10 /\ ~ Inv_wake 10 bad).
Proof.
  cbn zeta. split; [vm_compute; split; reflexivity|].
  split; [exists [2]; split; [vm_compute; left; reflexivity|left; reflexivity]|].
  split; [vm_compute; reflexivity|]. split; [vm_compute; reflexivity|].
  intros H. destruct (H 20 [2]) as (w & Hw & _).
  - vm_compute. left; reflexivity.
  - discriminate.
  - reflexivity.
  - vm_compute in Hw. exact Hw.
Qed.

(* Seeded change `far_future_shared_id`: all far-future Sleeps share one id.  A slot identifies
   its entries by id only and remove(id) takes the first match.  Entries written with the task
   whose waker they hold: task B (1) registered first, then task A (0), both with id 7 for the
   same deadline.  A re-arms its timer: the removal it asks for takes out B's entry and leaves
   A's stale one -- at the deadline task A is woken, task B never is.  With distinct ids
   (7 and 8) B's entry stays. *)
Fixpoint remove_first (id : N) (es : list (N * nat)) : list (N * nat) :=
  match es with
  | [] => []
  | (i, k) :: r => if i =? id then r else (i, k) :: remove_first id r
  end.

Lemma C05_shared_id_refuted :
  remove_first 7 [(7, 1%nat); (7, 0%nat)] = [(7, 0%nat)] /\
  remove_first 8 [(7, 1%nat); (8, 0%nat)] = [(7, 1%nat)].
Proof. split; reflexivity. Qed.

(* Seeded change `partial_reregister_by_task_id`: the Sleep remembers the tokio TASK that registered
   it and takes a new waker only when it is polled under a different task id.  Waker identity is
   finer than task identity: wakers are written as numbers, [task_of w] is the task that waker
   w wakes (here w / 2: 2k is task k's own waker, 2k + 1 the waker that a sub-executor running
   in task k hands to its child).  Polled first under waker 0, then under waker 1 -- both of
   task 0 -- the entry keeps waker 0: at the deadline the task is woken, but its sub-executor is
   never told that its child is due, and the await does not return.  The code as it is
   (poll_seq true: Waker::will_wake decides) stores waker 1. *)
Definition sleep_poll_waker_by_task (task_of : nat -> nat) (now : N) (w : nat) (s : sleep) (tab : wakers) : wakers :=
  if now <? deadline s then
    match handle s with
    | None => (sid s, w) :: tab
    | Some _ => match waker_of tab (sid s) with
                | Some w0 => if Nat.eqb (task_of w0) (task_of w) then tab else (sid s, w) :: tab
                | None => (sid s, w) :: tab
                end
    end
  else tab.

Fixpoint poll_seq_by_task (task_of : nat -> nat) (polls : list (N * nat)) (s : sleep) (dr : driver) (tab : wakers)
  : sleep * driver * wakers :=
  match polls with
  | [] => (s, dr, tab)
  | (t, w) :: r =>
    let tab' := sleep_poll_waker_by_task task_of t w s tab in
    let '(_, s', dr') := sleep_poll t s dr in
    poll_seq_by_task task_of r s' dr' tab'
  end.

Lemma C05_reregister_by_task_id_refuted :
  exists polls s, handle s = None /\ Forall (fun p => fst p < deadline s) polls /\
    waker_of (snd (poll_seq true polls s new_driver [])) (sid s) = Some 1%nat /\
    waker_of (snd (poll_seq_by_task Nat.div2 polls s new_driver [])) (sid s) = Some 0%nat /\
    (* ... while a hand-over to ANOTHER task (wakers 0 and 2) does work under that rule *)
    waker_of (snd (poll_seq_by_task Nat.div2 [(0, 0%nat); (0, 2%nat)] s new_driver [])) (sid s) = Some 2%nat.
Proof.
  exists [(0, 0%nat); (0, 1%nat)], (sleep_new 10 7).
  split; [reflexivity|]. split; [repeat constructor|]. vm_compute. repeat split; reflexivity.
Qed.

(* A "partial fix" of the waker hand-over (seeded/C05/partial_waker_cache_never_refreshed): the
   entry handle remembers the waker the entry was REGISTERED with and skips the update when the
   polling waker equals that cache -- but the cache is never refreshed.  One hand-over A -> B
   works (B differs from the cache).  The round trip A, B, A does not: the third poll equals the
   stale cache, the update is skipped, the entry still wakes B; at the deadline B is woken and A,
   which awaits the Sleep, never resumes.  The code as it is (poll_seq true) stores the waker
   of the LAST poll, A. *)
Definition sleep_poll_waker_cached (now : N) (w : nat) (s : sleep) (cache : option nat) (tab : wakers)
  : wakers * option nat :=
  if now <? deadline s then
    match handle s with
    | None => ((sid s, w) :: tab, Some w)
    | Some _ => match cache with
                | Some c => if Nat.eqb c w then (tab, cache) else ((sid s, w) :: tab, cache)
                | None => ((sid s, w) :: tab, cache)
                end
    end
  else (tab, cache).

Fixpoint poll_seq_cached (polls : list (N * nat)) (s : sleep) (dr : driver) (cache : option nat) (tab : wakers)
  : sleep * driver * wakers :=
  match polls with
  | [] => (s, dr, tab)
  | (t, w) :: r =>
    let '(tab', cache') := sleep_poll_waker_cached t w s cache tab in
    let '(_, s', dr') := sleep_poll t s dr in
    poll_seq_cached r s' dr' cache' tab'
  end.

Lemma C05_waker_cache_never_refreshed_refuted :
  exists polls s, handle s = None /\ Forall (fun p => fst p < deadline s) polls /\
    (* round trip A = 0, B = 1, A: the code wakes A, the cached rule wakes B *)
    waker_of (snd (poll_seq true polls s new_driver [])) (sid s) = Some 0%nat /\
    waker_of (snd (poll_seq_cached polls s new_driver None [])) (sid s) = Some 1%nat /\
    (* ... while the single hand-over A -> B works under that rule, and so does A -> B -> C *)
    waker_of (snd (poll_seq_cached [(0, 0%nat); (0, 1%nat)] s new_driver None [])) (sid s) = Some 1%nat /\
    waker_of (snd (poll_seq_cached [(0, 0%nat); (0, 1%nat); (0, 2%nat)] s new_driver None [])) (sid s) = Some 2%nat /\
    (* ... and A -> B -> C -> A, A -> B -> A -> B end with the wrong waker as well *)
    waker_of (snd (poll_seq_cached [(0, 0%nat); (0, 1%nat); (0, 2%nat); (0, 0%nat)] s new_driver None [])) (sid s) = Some 2%nat /\
    waker_of (snd (poll_seq true [(0, 0%nat); (0, 1%nat); (0, 0%nat); (0, 1%nat)] s new_driver [])) (sid s) = Some 1%nat.
Proof.
  exists [(0, 0%nat); (1, 1%nat); (2, 0%nat)], (sleep_new 10 7).
  split; [reflexivity|]. split; [repeat constructor|]. vm_compute. repeat split; reflexivity.
Qed.

