(* C19 — what was false of the pinned code (findings F12, F13; repaired by the
   fix: commits 0df464e and 4342f5b), as witnesses by evaluation.  The pinned
   loops differ from coq/Topo/Model.v only in taking the work-list entry from
   the back (`Vec::pop`). *)
From Coq Require Import List Arith Lia.
From DesVerif Require Import Topo.Model Topo.Graph.
Import ListNotations.

(* ---- F12: dijkstra with a LIFO work list is depth-first ---- *)
Fixpoint dj_loop_lifo (fuel : nat) (t : topo) (visited : list nat) (queue : list qel) (mapping : list (nat * hop))
  : option (list (nat * hop)) :=
  match rev queue with
  | [] => Some mapping
  | cur :: rq =>
      match fuel with
      | O => None
      | S f =>
          let q := rev rq in
          if mem (q_idx cur) visited then dj_loop_lifo f t visited q mapping
          else
            let visited' := visited ++ [q_idx cur] in
            let mapping' := match q_next cur with
                            | Some h => (nth (q_idx cur) (nodes t) 0, h) :: mapping
                            | None => mapping
                            end in
            dj_loop_lifo f t visited' (q ++ dj_succ visited' cur (bundle t (q_idx cur))) mapping'
      end
  end.

Definition dijkstra_lifo (t : topo) (src : nat) : dj_result :=
  match position src (nodes t) with
  | None => DjPanic
  | Some s => match dj_loop_lifo (dj_fuel t) t [] [{| q_idx := s; q_dist := 0; q_next := None |}] [] with
              | Some m => DjOk m
              | None => DjOutOfFuel
              end
  end.

(* the triangle s-a, s-b, a-b; gates of s in the order to-b, to-a *)
Definition triangle : world :=
  [[Endpoint [(2, 0)]; Endpoint [(1, 0)]];
   [Endpoint [(0, 1)]; Endpoint [(2, 1)]];
   [Endpoint [(0, 0)]; Endpoint [(1, 1)]]].

(* b (node 2) is a direct neighbour of s, but the recorded first hop is the
   edge to a, which starts no minimum-hop path to b *)
Theorem C19_first_hop_refuted_for_lifo :
  let t := global_topology triangle in
  exists m e, dijkstra_lifo t 0 = DjOk m /\ lookup 2 m = Some (0, e) /\
    ~ exists p, walk t 0 (e :: p) 2 /\ forall q, walk t 0 q 2 -> length (e :: p) <= length q.
Proof.
  cbn zeta. eexists. eexists. split; [vm_compute; reflexivity|]. split; [vm_compute; reflexivity|].
  intros [p [W Hmin]].
  assert (D : walk (global_topology triangle) 0 [{| e_dst := 2; e_start := (0, 0); e_stop := (2, 0) |}] 2).
  { constructor; [vm_compute; left; reflexivity|constructor]. }
  specialize (Hmin _ D). cbn [length] in Hmin. destruct p as [|e' p']; [|cbn [length] in Hmin; lia].
  inversion W as [|u e0 p0 v0 _ W']. subst. cbn [e_dst] in W'. inversion W'.
Qed.
Print Assumptions C19_first_hop_refuted_for_lifo.

(* the repaired loop on the same input *)
Example C19_first_hop_fifo_on_witness :
  exists m, dijkstra (global_topology triangle) 0 = DjOk m /\
            lookup 2 m = Some (0, {| e_dst := 2; e_start := (0, 0); e_stop := (2, 0) |}).
Proof. eexists. split; vm_compute; reflexivity. Qed.

(* ---- F13: spanned with a LIFO work list hands out wrong indices ---- *)
Fixpoint sp_loop_lifo (fuel : nat) (w : world) (nds : list nat) (eds : list (list edge)) (queue : list nat)
  : option topo :=
  match rev queue with
  | [] => Some {| nodes := nds; edges := eds |}
  | m :: rq =>
      match fuel with
      | O => None
      | S f =>
          let q := rev rq in
          let nds' := nds ++ [m] in
          let src_idx := length nds' - 1 in
          let '(b, q') := sp_gates nds' src_idx m 0 (gates_of w m) q in
          sp_loop_lifo f w nds' (eds ++ [b]) q'
      end
  end.

Definition spanned_lifo (w : world) (root : nat) : option topo := sp_loop_lifo (S (length w)) w [] [] [root].

(* root s with two neighbours a, b that are not connected to each other *)
Definition star : world :=
  [[Endpoint [(1, 0)]; Endpoint [(2, 0)]]; [Endpoint [(0, 0)]]; [Endpoint [(0, 1)]]].

(* the edge that starts at s.to-a and ends at gate a.to-s points to the node of b *)
Theorem C19_spanned_refuted_for_lifo :
  exists t e, spanned_lifo star 0 = Some t /\ In e (bundle t 0) /\
              e_start e = (0, 0) /\ e_stop e = (1, 0) /\ nth_error (nodes t) (e_dst e) = Some 2.
Proof.
  eexists. exists {| e_dst := 1; e_start := (0, 0); e_stop := (1, 0) |}.
  split; [vm_compute; reflexivity|]. vm_compute. split; [left; reflexivity|]. repeat split.
Qed.
Print Assumptions C19_spanned_refuted_for_lifo.

(* hence the pinned result is no exact view *)
Theorem C19_spanned_lifo_not_exact :
  exists t, spanned_lifo star 0 = Some t /\ ~ exact_view star t.
Proof.
  eexists. split; [vm_compute; reflexivity|]. intros [_ [_ H]].
  specialize (H 0 0 eq_refl). vm_compute in H. inversion H as [|gc e l1 l2 [_ [_ Hd]] _]. subst.
  vm_compute in Hd. discriminate.
Qed.
Print Assumptions C19_spanned_lifo_not_exact.

Example C19_spanned_fifo_on_witness :
  exists t, spanned star 0 = Some t /\ nodes t = [0; 1; 2] /\
            bundle t 0 = [{| e_dst := 1; e_start := (0, 0); e_stop := (1, 0) |}; {| e_dst := 2; e_start := (0, 1); e_stop := (2, 0) |}].
Proof. eexists. split; [vm_compute; reflexivity|]. vm_compute. split; reflexivity. Qed.

(* ---- an observation outside C19's quantifier (filter_edges is not among the
   property's observation points): after filter_edges on a multi-edge the
   node-level test of `bidirectional` differs from the gate-level wording of
   its documentation ("for each edge from gate-a to gate-b there exists an
   equivalent edge from gate-b to gate-a") ---- *)
Definition double_link : world :=
  [[Endpoint [(1, 0)]; Endpoint [(1, 1)]]; [Endpoint [(0, 0)]; Endpoint [(0, 1)]]].

Example C19_bidirectional_is_node_level :
  let t := filter_edges (fun src e => negb ((src =? 1) && (snd (e_start e) =? 0))) (global_topology double_link) in
  bidirectional t = true /\
  exists e, In e (bundle t 0) /\ forall e', In e' (bundle t (e_dst e)) -> e_stop e' <> e_start e.
Proof.
  vm_compute. split; [reflexivity|]. eexists. split; [left; reflexivity|].
  intros e' [E|[]]. subst e'. cbn. discriminate.
Qed.
