(* F2, F8: the pinned runtime violates the statements of Properties/C02.v. *)
From Coq Require Import List NArith Bool Sorting.Sorted.
From DesVerif Require Import CQueue.Spec Runtime.Limit Runtime.Model.
Import ListNotations.
Open Scope N_scope.

Definition bootp (S B : N) (L : lim) (pre : list (N * N)) : rt := fst (pre_adds (rt_new pinned S B L) pre).

(* F2: start_time 10; add_event(5) is accepted although now() = 10, and the run
   sets the clock back to 5 (negation of C02_add_before_now_panics and
   C02_clock_monotone) *)
Lemma C02_pinned_start_time_refuted :
  exists S B pre P sf,
    map (fun r => (a_time r, a_now r, a_ok r)) (adds (bootp S B LNone pre)) = [(5, 10, true)] /\
    dispatch_all pinned P (bootp S B LNone pre) = Some sf /\
    clock sf < S /\ ~ StronglySorted N.le (S :: map snd (log sf)).
Proof.
  exists 10, 0, [(5, 0)], []. eexists.
  split; [vm_compute; reflexivity|]. split; [vm_compute; reflexivity|]. split; [vm_compute; reflexivity|].
  vm_compute. intros H. inversion H as [|? ? _ Hall]; subst. inversion Hall as [|? ? Hle _]; subst.
  apply Hle. reflexivity.
Qed.

(* F8 seen from C02: while paused at 1 (next event at 10) scheduling at 5 >= now() panics
   (negation of C02_add_at_or_after_now_ok) *)
Lemma C02_pinned_paused_add_refuted :
  exists P S B pre ops s xs t l,
    exec_sched pinned P (bootp S B LNone pre) ops = (Some s, xs) /\
    clock s <= t /\
    match rev (adds (add_event false s t l)) with r :: _ => a_ok r = false | [] => False end.
Proof.
  exists [], 0, 0, [(1, 7); (10, 8)], [SUntil 2]. eexists. eexists. exists 5, 9.
  split; [vm_compute; reflexivity|]. split; [vm_compute; discriminate|]. vm_compute. reflexivity.
Qed.

(* the start-time repair alone removes F2 *)
Example C02_start_alone_repairs_F2 :
  let v := {| v_start := true; v_peek := false |} in
  map a_ok (adds (fst (pre_adds (rt_new v 10 0 LNone) [(5, 0); (10, 0)]))) = [false; true].
Proof. vm_compute. reflexivity. Qed.
