(* C20 -- what is false.

   F14 (pinned tree, before fix 6ce5d8e): a Connection stored in a channel's buffer
   kept `channel: Some(<that channel>)`.  In the schema this is the edge
   Channel --KField 2--> Channel, accepted by [edge_ok true] only.  With it the
   type-rank descent fails, and a simulation stopped by a limit while a channel
   has a backlog leaks the channel and every queued message.

   Finding candidate (current tree): TimerSlot.queue <-> TimerQueue.pending is a
   strong cycle; a module dropped while one of its timers is pending leaves the
   queue and the slot allocated (memory only: no user value hangs on them). *)
From Coq Require Import List NArith Arith Bool Lia.
From DesVerif Require Import Own.Heap Own.Frame Own.Inv Own.Shape Own.Rank Own.Check Own.Cycle Own.World Own.Model.
Import ListNotations.
Local Open Scope nat_scope.

(* the descent used by C20_all_freed_after_root_release does not hold of the pinned schema *)
Lemma C20_pinned_schema_not_ranked :
  exists a k b, edge_ok true a k b = true /\ is_conn k = false /\ timer_tag a = false /\
    ~ (trank b < trank a \/ (trank b = trank a /\ tdepth a < tdepth b)).
Proof.
  exists TChannel, (KField 2), TChannel. repeat split; try reflexivity.
  cbn. lia.
Qed.

Definition some_live (p : tag -> bool) (h : heap) : bool := existsb (fun ob => live ob && p (otag ob)) h.
Definition is_channel (t : tag) : bool := match t with TChannel => true | _ => false end.
Definition is_queue (t : tag) : bool := match t with TQueue => true | _ => false end.
Definition is_slot (t : tag) : bool := match t with TSlot => true | _ => false end.

Lemma some_live_spec p h : some_live p h = true ->
  exists o ob, nth_error h o = Some ob /\ live ob = true /\ p (otag ob) = true.
Proof.
  unfold some_live. intros H. apply existsb_exists in H. destruct H as (ob & Hin & Hb).
  apply andb_true_iff in Hb. destruct Hb as [L T]. apply In_nth_error in Hin. destruct Hin as (o & Eo). eauto.
Qed.

(* one module sending five messages to itself over a slow queueing channel, stopped by
   max_itr(3): the graph is count-consistent, typed by the PINNED schema and its gates are
   owned -- yet after the Sim, the remaining events and the caller's handles are dropped,
   three messages are still alive, and so is the channel *)
Definition f14_script : list N := [2; 3; 0; 0;  1;  0;0;5;0;0;0;0;0;2;0;  1; 0;0;0;1;1;  0]%N.
Definition f14_st : st := Eval vm_compute in w_st (fst (fst (stop_state true f14_script))).
Definition f14_roots : list nat := Eval vm_compute in snd (fst (stop_state true f14_script)).
Definition f14_after : heap := Eval vm_compute in hp (release_all f14_st f14_roots).

Lemma C20_pinned_buffered_connection_leaks :
  exists s roots, good true s roots /\
    (exists o ob, nth_error (hp (release_all s roots)) o = Some ob /\ live ob = true /\ user_tag (otag ob) = true) /\
    (exists o ob, nth_error (hp (release_all s roots)) o = Some ob /\ live ob = true /\ is_channel (otag ob) = true).
Proof.
  exists f14_st, f14_roots. split; [apply goodb_sound; vm_compute; reflexivity|].
  assert (E : hp (release_all f14_st f14_roots) = f14_after) by (vm_compute; reflexivity). rewrite E.
  split; apply some_live_spec; vm_compute; reflexivity.
Qed.

(* the witness is the state the model reaches for the script above *)
Lemma C20_pinned_witness_is_reached :
  w_st (fst (fst (stop_state true f14_script))) = f14_st /\ snd (fst (stop_state true f14_script)) = f14_roots /\
  alive_users f14_after = 3%N.
Proof. vm_compute. repeat split; reflexivity. Qed.

(* the same script on the current schema: nothing user-visible stays alive *)
Lemma C20_fixed_schema_same_script_releases :
  goodb false (w_st (fst (fst (stop_state false f14_script)))) (snd (fst (stop_state false f14_script))) = true /\
  alive_users (hp (release_all (w_st (fst (fst (stop_state false f14_script)))) (snd (fst (stop_state false f14_script))))) = 0%N.
Proof. vm_compute. split; reflexivity. Qed.

(* the statement "everything is freed" WITHOUT the timer carve-out is false of the current
   schema: a module with a task sleeping on a timer, dropped before the timer fires *)
Definition timer_script : list N := [2; 0; 0; 0;  1;  0;0;0;0;1;1000;0;0;0;0;0;  0;  0]%N.
Definition timer_st : st := Eval vm_compute in w_st (fst (fst (stop_state false timer_script))).
Definition timer_roots : list nat := Eval vm_compute in snd (fst (stop_state false timer_script)).
Definition timer_after : heap := Eval vm_compute in hp (release_all timer_st timer_roots).

Lemma C20_timer_cycle_leaks_memory :
  exists s roots, good false s roots /\
    (exists q qb, nth_error (hp (release_all s roots)) q = Some qb /\ live qb = true /\ is_queue (otag qb) = true) /\
    (exists sl sb, nth_error (hp (release_all s roots)) sl = Some sb /\ live sb = true /\ is_slot (otag sb) = true) /\
    alive_users (hp (release_all s roots)) = 0%N.
Proof.
  exists timer_st, timer_roots. split; [apply goodb_sound; vm_compute; reflexivity|].
  assert (E : hp (release_all timer_st timer_roots) = timer_after) by (vm_compute; reflexivity). rewrite E.
  split; [|split]; try (apply some_live_spec; vm_compute; reflexivity). vm_compute. reflexivity.
Qed.

Lemma C20_timer_witness_is_reached :
  w_st (fst (fst (stop_state false timer_script))) = timer_st /\ snd (fst (stop_state false timer_script)) = timer_roots.
Proof. vm_compute. split; reflexivity. Qed.
