(* C20 -- what is false: the PINNED schema ([edge_ok true], the tree before the two fixes).

   F14 (fix 6ce5d8e): a Connection stored in a channel's buffer kept
   `channel: Some(<that channel>)`: the edge Channel --KField 2--> Channel.  A simulation
   stopped by a limit while a channel has a backlog leaks the channel and every queued message.

   Timer cycle (fix 012bc88): TimerSlot.queue was an Arc<TimerQueue> while
   TimerQueue.pending holds Arc<TimerSlot>: the edge Slot --KField 0--> Queue.  A module dropped
   while one of its timers is pending leaves the queue and the slot allocated (232 bytes in 4
   blocks per simulation on the real crate; no user value hangs on them, so only the
   allocator counters of `implrun own` can see it).

   With either edge the type-rank descent fails. *)
From Coq Require Import List NArith Arith Bool Lia.
From DesVerif Require Import Own.Heap Own.Frame Own.Inv Own.Shape Own.Rank Own.Check Own.Cycle Own.Safe Own.World Own.Model.
Import ListNotations.
Local Open Scope nat_scope.

(* the descent used by C20_all_freed_after_root_release does not hold of the pinned schema *)
Lemma C20_pinned_schema_not_ranked :
  exists a k b, edge_ok true a k b = true /\ is_conn k = false /\
    ~ (trank b < trank a \/ (trank b = trank a /\ tdepth a < tdepth b)).
Proof.
  exists TChannel, (KField 2), TChannel. repeat split; try reflexivity.
  cbn. lia.
Qed.

Lemma C20_pinned_timer_edge_not_ranked :
  edge_ok true TSlot (KField 0) TQueue = true /\ edge_ok false TSlot (KField 0) TQueue = false /\
  ~ (trank TQueue < trank TSlot \/ (trank TQueue = trank TSlot /\ tdepth TSlot < tdepth TQueue)).
Proof. repeat split; try reflexivity. cbn. lia. Qed.

Definition some_live (p : tag -> bool) (h : heap) : bool := existsb (fun ob => live ob && p (otag ob)) h.
Definition is_channel (t : tag) : bool := match t with TChannel => true | _ => false end.
Definition is_queue (t : tag) : bool := match t with TQueue => true | _ => false end.
Definition is_slot (t : tag) : bool := match t with TSlot => true | _ => false end.

Lemma some_live_spec p h : some_live p h = true ->
  exists o ob, nth_error h o = Some ob /\ live ob = true /\ p (otag ob) = true.
Proof.
  unfold some_live. intros H. apply existsb_exists in H. destruct H as (ob & Hin & Hb).
  apply andb_true_iff in Hb. destruct Hb as [L T]. apply In_nth_error in Hin. destruct Hin as (o & Eo). eauto.
Qed.

(* one module sending five messages to itself over a slow queueing channel, stopped by
   max_itr(3): the graph is count-consistent, typed by the PINNED schema and its gates are
   owned -- yet after the Sim, the remaining events and the caller's handles are dropped,
   three messages are still alive, and so is the channel *)
Definition f14_script : list N := [2; 3; 0; 0;  1;  0;0;5;0;0;0;0;0;2;0;  1; 0;0;0;1;1;  0]%N.
Definition f14_st : st := Eval vm_compute in fst (fst (stop_state true f14_script)).
Definition f14_roots : list nat := Eval vm_compute in snd (fst (stop_state true f14_script)).
Definition f14_after : heap := Eval vm_compute in hp (release_all f14_st f14_roots).

Lemma C20_pinned_buffered_connection_leaks :
  exists s roots, good true s roots /\
    (exists o ob, nth_error (hp (release_all s roots)) o = Some ob /\ live ob = true /\ user_tag (otag ob) = true) /\
    (exists o ob, nth_error (hp (release_all s roots)) o = Some ob /\ live ob = true /\ is_channel (otag ob) = true).
Proof.
  exists f14_st, f14_roots. split; [apply goodb_sound; vm_compute; reflexivity|].
  assert (E : hp (release_all f14_st f14_roots) = f14_after) by (vm_compute; reflexivity). rewrite E.
  split; apply some_live_spec; vm_compute; reflexivity.
Qed.

(* the witness is the state the model reaches for the script above *)
Lemma C20_pinned_witness_is_reached :
  fst (fst (stop_state true f14_script)) = f14_st /\ snd (fst (stop_state true f14_script)) = f14_roots /\
  alive_users f14_after = 3%N.
Proof. vm_compute. repeat split; reflexivity. Qed.

(* the same script on the current schema: nothing user-visible stays alive *)
Lemma C20_fixed_schema_same_script_releases :
  goodb false (fst (fst (stop_state false f14_script))) (snd (fst (stop_state false f14_script))) = true /\
  alive_users (hp (release_all (fst (fst (stop_state false f14_script))) (snd (fst (stop_state false f14_script))))) = 0%N.
Proof. vm_compute. split; reflexivity. Qed.

(* Timer cycle, general form: in any count-consistent heap, a queue that lists a slot as
   pending while the slot holds a strong handle back is never freed, whatever is released. *)
Theorem C20_pinned_timer_cycle_stays_allocated : forall s roots q sl, inv s roots -> timer_pair (hp s) q sl ->
  is_live (hp (release_all s roots)) q = true /\ is_live (hp (release_all s roots)) sl = true.
Proof. exact timer_pair_survives. Qed.

(* ... and a reachable instance: one module with a task sleeping on a timer, dropped before the
   timer fires (max_itr(0)).  Pinned schema: the queue and the slot stay allocated although
   nothing user-visible does. *)
Definition timer_script : list N := [2; 0; 0; 0;  1;  0;0;0;0;1;1000;0;0;0;0;0;  0;  0]%N.
Definition timer_st : st := Eval vm_compute in fst (fst (stop_state true timer_script)).
Definition timer_roots : list nat := Eval vm_compute in snd (fst (stop_state true timer_script)).
Definition timer_after : heap := Eval vm_compute in hp (release_all timer_st timer_roots).

Lemma C20_pinned_timer_cycle_leaks_memory :
  exists s roots, good true s roots /\
    (exists q qb, nth_error (hp (release_all s roots)) q = Some qb /\ live qb = true /\ is_queue (otag qb) = true) /\
    (exists sl sb, nth_error (hp (release_all s roots)) sl = Some sb /\ live sb = true /\ is_slot (otag sb) = true) /\
    alive_users (hp (release_all s roots)) = 0%N.
Proof.
  exists timer_st, timer_roots. split; [apply goodb_sound; vm_compute; reflexivity|].
  assert (E : hp (release_all timer_st timer_roots) = timer_after) by (vm_compute; reflexivity). rewrite E.
  split; [|split]; try (apply some_live_spec; vm_compute; reflexivity). vm_compute. reflexivity.
Qed.

Lemma C20_pinned_timer_witness_is_reached :
  fst (fst (stop_state true timer_script)) = timer_st /\ snd (fst (stop_state true timer_script)) = timer_roots.
Proof. vm_compute. split; reflexivity. Qed.

(* the same script on the current schema: the checker accepts and no object at all is left *)
Lemma C20_fixed_schema_timer_script_releases :
  goodb false (fst (fst (stop_state false timer_script))) (snd (fst (stop_state false timer_script))) = true /\
  existsb live (hp (release_all (fst (fst (stop_state false timer_script))) (snd (fst (stop_state false timer_script))))) = false.
Proof. vm_compute. split; reflexivity. Qed.

(* A task that keeps a handle to its own module context (the seeded change to
   AsyncFn::failable in net/runtime/blocks.rs: `let node = current();` moved into the future).
   The schema has no edge out of a Task, in either variant: *)
Lemma C20_task_to_ctx_rejected : forall pin c k d, edge_ok pin (TTask c) k (TCtx d) = false.
Proof. intros pin c k d. reflexivity. Qed.

(* ... and for a reason: take the graph of a finished simulation whose AsyncFn::failable task is
   still waiting on its receiver, and give the task a counted handle to its context.  Counts
   stay consistent, typing fails, and after everything is dropped the context, its runtime and
   the task's capture (a user-visible value) are still allocated. *)
Definition blk_script : list N := [4; 0; 0; 0;  1;  0;0;0;0;0;8;0;0;1;0;  0;  1; 0;0;5]%N.
Definition first_idx (p : tag -> bool) (h : heap) : nat :=
  (fix go (l : heap) (i : nat) : nat := match l with [] => i | ob :: r => if p (otag ob) && live ob then i else go r (S i) end) h 0.
Definition is_task_tag (t : tag) : bool := match t with TTask _ => true | _ => false end.
Definition is_rt_tag (t : tag) : bool := match t with TRuntime => true | _ => false end.
Definition blk_st : st := Eval vm_compute in
  let s := fst (fst (stop_state false blk_script)) in
  {| hp := add_edge (hp s) (first_idx is_task_tag (hp s)) (KField 0) (first_idx is_ctx (hp s)); freed := freed s; bad := bad s |}.
Definition blk_roots : list nat := Eval vm_compute in snd (fst (stop_state false blk_script)).
Definition blk_after : heap := Eval vm_compute in hp (release_all blk_st blk_roots).

Lemma C20_task_holding_its_context_leaks :
  exists s roots, inv s roots /\ typedb false (hp s) = false /\
    (exists o ob, nth_error (hp (release_all s roots)) o = Some ob /\ live ob = true /\ is_ctx (otag ob) = true) /\
    (exists o ob, nth_error (hp (release_all s roots)) o = Some ob /\ live ob = true /\ is_rt_tag (otag ob) = true) /\
    (exists o ob, nth_error (hp (release_all s roots)) o = Some ob /\ live ob = true /\ is_task_tag (otag ob) = true) /\
    alive_users (hp (release_all s roots)) = 1%N.
Proof.
  exists blk_st, blk_roots. split; [apply invb_sound; vm_compute; reflexivity|]. split; [vm_compute; reflexivity|].
  assert (E : hp (release_all blk_st blk_roots) = blk_after) by (vm_compute; reflexivity). rewrite E.
  repeat split; try (apply some_live_spec; vm_compute; reflexivity).
Qed.

(* without that edge the same simulation releases everything (also an instance of
   C20_every_simulation_releases_everything) *)
Lemma C20_block_task_without_context_handle_releases :
  existsb live (hp (release_all (fst (fst (stop_state false blk_script))) (snd (fst (stop_state false blk_script))))) = false.
Proof. vm_compute. reflexivity. Qed.
