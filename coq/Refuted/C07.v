(* C07: statements that are false of the pinned code, witnessed on the model
   variants that describe it (Channel.Model.variant), by evaluation.

   F5 (fixed by 3b41f69): Channel::unbusy dequeued at most one message.  If that
   message has a transmission time of 0 ns the channel is idle again, no Unbusy
   event is pending, and the rest of the queue is stuck for good.
   F15 (fixed by f99a7c7): send_message scheduled the Unbusy event before the
   Exit event; with zero latency and jitter a queued zero-time message was then
   handed to the receiver before the message whose transmission just ended.
   F18 (fixed by 6d86248): Gate::connect used the caller's handle itself as the
   channel of the reverse direction, so the reverse directions of all links
   built from one handle were served by ONE instance: a message offered to a
   link that is idle was dropped because another link was transmitting. *)
From Coq Require Import List NArith.
From DesVerif Require Import CQueue.Model CQueue.Spec Channel.Model Channel.Queue Channel.Trace Channel.Multi Channel.ProjQueue Channel.Project.
Import ListNotations.
Open Scope N_scope.

(* 2 Tbit/s: a header-only message (64 B) takes 0.256 ns -> 0 ns, 1 kB + header takes 4 ns *)
Definition tx_2T (len : N) : N := if len =? 64 then 0 else 4.

Definition pinned_f5 : variant := {| drain_all := false; exit_first := false |}.
Definition pinned_f15 : variant := {| drain_all := true; exit_first := false |}.

(* idle_implies_queue_empty fails: the event set is empty, the channel idle, two messages queued *)
Lemma C07_pinned_unbusy_refuted :
  exists tx mt offs oracle,
    let bs := group offs 0 in
    let s := steps pinned_f5 enc_ev tx mt bs (fuel_for offs) (init enc_ev bs oracle) in
    step pinned_f5 enc_ev tx mt bs s = None /\ busy (ch s) = false /\ buffer (ch s) <> [].
Proof.
  exists tx_2T, {| m_lat := 1000000; m_jit := 0; m_pol := PQueue None |},
         [(0, 1088); (0, 64); (0, 64); (0, 64)], [].
  vm_compute. repeat split. discriminate.
Qed.

(* ... while the repaired unbusy delivers all four *)
Lemma C07_repaired_unbusy_same_script :
  let offs := [(0, 1088); (0, 64); (0, 64); (0, 64)] in
  let bs := group offs 0 in
  let s := steps current enc_ev tx_2T {| m_lat := 1000000; m_jit := 0; m_pol := PQueue None |} bs (fuel_for offs) (init enc_ev bs []) in
  rev (delivered (log s)) = [0; 1; 2; 3] /\ buffer (ch s) = [].
Proof. vm_compute. split; reflexivity. Qed.

(* zero_jitter_preserves_order fails: message 1 is delivered before message 0 *)
Lemma C07_pinned_exit_order_refuted :
  exists tx mt offs oracle,
    m_jit mt = 0 /\
    let bs := group offs 0 in
    let s := steps pinned_f15 enc_ev tx mt bs (fuel_for offs) (init enc_ev bs oracle) in
    rev (accepted (log s)) = [0; 1] /\ rev (delivered (log s)) = [1; 0].
Proof.
  exists tx_2T, {| m_lat := 0; m_jit := 0; m_pol := PQueue None |}, [(0, 1088); (0, 64)], [].
  vm_compute. repeat split.
Qed.

Lemma C07_repaired_exit_order_same_script :
  let offs := [(0, 1088); (0, 64)] in
  let bs := group offs 0 in
  let s := steps current enc_ev tx_2T {| m_lat := 0; m_jit := 0; m_pol := PQueue None |} bs (fuel_for offs) (init enc_ev bs []) in
  rev (delivered (log s)) = [0; 1].
Proof. vm_compute. reflexivity. Qed.

(* F18: the reverse directions (odd channels) of links built from one handle share instance 1 *)
Definition pinned_f18 (c : N) : N := if N.odd c then 1 else c.

Definition mt_8k : metrics := {| m_lat := 100000000; m_jit := 0; m_pol := PDrop |}.
Definition alone : list (N * list (N * N * N)) := [(10000000, [(3, 1, 64)])].
Definition with_other_link : list (N * list (N * N * N)) := [(0, [(1, 0, 64)]); (10000000, [(3, 1, 64)])].

(* links_independent fails: the two scripts agree on what is offered to channel 3 (message 1 at 10 ms),
   yet with traffic on the other link (channel 1) that message is dropped "because the channel was busy" *)
Lemma C07_pinned_shared_handle_refuted :
  exists tx mt b1 b2,
    pbursts b1 3 = pbursts b2 3 /\
    let run b := msteps pinned_f18 (fun _ => tx) (fun _ => mt) b 20 (minit b (fun _ => [])) in
    In (IDeliver 1 174000000) (map snd (mlog (run b1))) /\
    In (IDropBusy 1 64 10000000) (map snd (mlog (run b2))) /\ ~ In (IDeliver 1 174000000) (map snd (mlog (run b2))).
Proof.
  exists (fun _ => 64000000), mt_8k, alone, with_other_link. vm_compute.
  split; [reflexivity|]. split; [intuition|]. split; [intuition|]. intros H. intuition discriminate.
Qed.

(* ... while with one instance per direction and link it is delivered in both *)
Lemma C07_repaired_shared_handle_same_scripts :
  let run b := msteps own_instance (fun _ _ => 64000000) (fun _ => mt_8k) b 20 (minit b (fun _ => [])) in
  plog 3 (mlog (run alone)) = plog 3 (mlog (run with_other_link)) /\ In (IDeliver 1 174000000) (plog 3 (mlog (run with_other_link))).
Proof. vm_compute. split; [reflexivity|intuition]. Qed.
