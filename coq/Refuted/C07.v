(* C07: statements that are false of the pinned code, witnessed on the model
   variants that describe it (Channel.Model.variant), by evaluation.

   F5 (fixed by 3b41f69): Channel::unbusy dequeued at most one message.  If that
   message has a transmission time of 0 ns the channel is idle again, no Unbusy
   event is pending, and the rest of the queue is stuck for good.
   F15 (fixed by f99a7c7): send_message scheduled the Unbusy event before the
   Exit event; with zero latency and jitter a queued zero-time message was then
   handed to the receiver before the message whose transmission just ended. *)
From Coq Require Import List NArith.
From DesVerif Require Import CQueue.Model CQueue.Spec Channel.Model Channel.Queue Channel.Trace.
Import ListNotations.
Open Scope N_scope.

(* 2 Tbit/s: a header-only message (64 B) takes 0.256 ns -> 0 ns, 1 kB + header takes 4 ns *)
Definition tx_2T (len : N) : N := if len =? 64 then 0 else 4.

Definition pinned_f5 : variant := {| drain_all := false; exit_first := false |}.
Definition pinned_f15 : variant := {| drain_all := true; exit_first := false |}.

(* idle_implies_queue_empty fails: the event set is empty, the channel idle, two messages queued *)
Lemma C07_pinned_unbusy_refuted :
  exists tx mt offs oracle,
    let bs := group offs 0 in
    let s := steps pinned_f5 tx mt bs (fuel_for offs) (init bs oracle) in
    step pinned_f5 tx mt bs s = None /\ busy (ch s) = false /\ buffer (ch s) <> [].
Proof.
  exists tx_2T, {| m_lat := 1000000; m_jit := 0; m_pol := PQueue None |},
         [(0, 1088); (0, 64); (0, 64); (0, 64)], [].
  vm_compute. repeat split. discriminate.
Qed.

(* ... while the repaired unbusy delivers all four *)
Lemma C07_repaired_unbusy_same_script :
  let offs := [(0, 1088); (0, 64); (0, 64); (0, 64)] in
  let bs := group offs 0 in
  let s := steps current tx_2T {| m_lat := 1000000; m_jit := 0; m_pol := PQueue None |} bs (fuel_for offs) (init bs []) in
  rev (delivered (log s)) = [0; 1; 2; 3] /\ buffer (ch s) = [].
Proof. vm_compute. split; reflexivity. Qed.

(* zero_jitter_preserves_order fails: message 1 is delivered before message 0 *)
Lemma C07_pinned_exit_order_refuted :
  exists tx mt offs oracle,
    m_jit mt = 0 /\
    let bs := group offs 0 in
    let s := steps pinned_f15 tx mt bs (fuel_for offs) (init bs oracle) in
    rev (accepted (log s)) = [0; 1] /\ rev (delivered (log s)) = [1; 0].
Proof.
  exists tx_2T, {| m_lat := 0; m_jit := 0; m_pol := PQueue None |}, [(0, 1088); (0, 64)], [].
  vm_compute. repeat split.
Qed.

Lemma C07_repaired_exit_order_same_script :
  let offs := [(0, 1088); (0, 64)] in
  let bs := group offs 0 in
  let s := steps current tx_2T {| m_lat := 0; m_jit := 0; m_pol := PQueue None |} bs (fuel_for offs) (init bs []) in
  rev (delivered (log s)) = [0; 1].
Proof. vm_compute. reflexivity. Qed.
