(* Extraction of the channel model (C07): several channels on one event set.  ExtrOcamlBasic only. *)
Require Extraction.
Require Import ExtrOcamlBasic.
From DesVerif Require Import Channel.Multi.
Extraction "chan.ml" Channel.Multi.run.
