(* Extraction of the channel model (C07).  ExtrOcamlBasic only. *)
Require Extraction.
Require Import ExtrOcamlBasic.
From DesVerif Require Import Channel.Model.
Extraction "chan.ml" Channel.Model.run.
