(* Extraction of the NDL model (grammar, elaborator, build, denotation).
   ExtrOcamlBasic only: bool, option, unit, list, prod, sumbool map to OCaml's;
   N, positive, nat stay Coq inductives. *)
Require Extraction.
Require Import ExtrOcamlBasic.
From DesVerif Require Import Ndl.Model.
Extraction "ndl.ml" Ndl.Model.run.
