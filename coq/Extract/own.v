(* Extraction of the ownership model (C20).  ExtrOcamlBasic only. *)
Require Extraction.
Require Import ExtrOcamlBasic.
From DesVerif Require Import Own.Model.
Extraction "own.ml" Own.Model.run.
