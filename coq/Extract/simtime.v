Require Extraction.
Require Import ExtrOcamlBasic.
From DesVerif Require Import Time.Model.
Extraction "simtime.ml" Time.Model.run.
