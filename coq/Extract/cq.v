(* Extraction of the calendar-queue model and its specification.
   ExtrOcamlBasic only: bool, option, unit, list, prod, sumbool map to OCaml's;
   N, positive, nat stay Coq inductives. *)
Require Extraction.
Require Import ExtrOcamlBasic.
From DesVerif Require Import CQueue.Model CQueue.Spec.
Extraction "cq.ml" CQueue.Model.run.
