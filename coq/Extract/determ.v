Require Extraction.
Require Import ExtrOcamlBasic.
From DesVerif Require Import Determ.Model.
Extraction "determ.ml" Determ.Model.run.
