(* Extraction of the configuration-capture model (C17).
   ExtrOcamlBasic only: bool, option, unit, list, prod, sumbool map to OCaml's;
   N, positive, nat stay Coq inductives. *)
Require Extraction.
Require Import ExtrOcamlBasic.
From DesVerif Require Import Props.Spec Props.Model.
Extraction "props.ml" Props.Model.run.
