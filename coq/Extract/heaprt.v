(* Extraction of the runtime over the BinaryHeap event set (C01 part heap):
   Runtime/HeapRt.v.  ExtrOcamlBasic only. *)
Require Extraction.
Require Import ExtrOcamlBasic.
From DesVerif Require Import Runtime.HeapRt.
Extraction "heaprt.ml" Runtime.HeapRt.run.
