(* Extraction of the message-body model (Body/Model.v, Body/Derive.v).
   ExtrOcamlBasic only: bool, option, unit, list, prod, sumbool map to OCaml's;
   N, positive, nat stay Coq inductives. *)
Require Extraction.
Require Import ExtrOcamlBasic.
From DesVerif Require Import Body.Model.
Extraction "body.ml" Body.Model.run.
