(* Extraction of the module life-cycle model (C09, C13).
   ExtrOcamlBasic only: bool, option, unit, list, prod, sumbool map to OCaml's;
   N, positive, nat stay Coq inductives. *)
Require Extraction.
Require Import ExtrOcamlBasic.
From DesVerif Require Import Life.Model.
Extraction "life.ml" Life.Model.run.
