(* Extraction of the page-allocator model (C15).
   ExtrOcamlBasic only: bool, option, unit, list, prod, sumbool map to OCaml's;
   N, positive, nat stay Coq inductives. *)
Require Extraction.
Require Import ExtrOcamlBasic.
From DesVerif Require Import Alloc.Model.
Extraction "alloc.ml" Alloc.Model.run.
