(* Extraction of the composite timer model (C05).
   ExtrOcamlBasic only: bool, option, unit, list, prod, sumbool map to OCaml's;
   N, positive, nat stay Coq inductives. *)
Require Extraction.
Require Import ExtrOcamlBasic.
From DesVerif Require Import Timer.Model.
Extraction "timer.ml" Timer.Model.run.
