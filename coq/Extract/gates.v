(* Extraction of the gate-chain model (C08).
   ExtrOcamlBasic only: bool, option, unit, list, prod, sumbool map to OCaml's;
   N, positive, nat stay Coq inductives. *)
Require Extraction.
Require Import ExtrOcamlBasic.
From DesVerif Require Import Gate.Model.
Extraction "gates.ml" Gate.Model.run.
