(* Extraction of the module-tree model (C12).  ExtrOcamlBasic only. *)
Require Extraction.
Require Import ExtrOcamlBasic.
From DesVerif Require Import Tree.Model.
Extraction "tree.ml" Tree.Model.run.
