(* Extraction of the runtime model (C02, C10, C11).  ExtrOcamlBasic only. *)
Require Extraction.
Require Import ExtrOcamlBasic.
From DesVerif Require Import Runtime.Model.
Extraction "rt.ml" Runtime.Model.run.
