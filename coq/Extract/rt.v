(* Extraction of the runtime model (C02, C10, C11): the runtime over the
   calendar queue with the script's (n, t) (Runtime/ModelCq.v), proved equal to
   the runtime over the event-set specification in Runtime/Compose.v.
   ExtrOcamlBasic only. *)
Require Extraction.
Require Import ExtrOcamlBasic.
From DesVerif Require Import Runtime.ModelCq.
Extraction "rt.ml" Runtime.ModelCq.run.
