(* Extraction of the async-executor model (C06).
   ExtrOcamlBasic only: bool, option, unit, list, prod, sumbool map to OCaml's;
   N, positive, nat stay Coq inductives. *)
Require Extraction.
Require Import ExtrOcamlBasic.
From DesVerif Require Import Exec.Model.
Extraction "exec.ml" Exec.Model.run.
