(* Extraction of the processing-stack model (C14).
   ExtrOcamlBasic only: bool, option, unit, list, prod, sumbool map to OCaml's;
   N, positive, nat stay Coq inductives. *)
Require Extraction.
Require Import ExtrOcamlBasic.
From DesVerif Require Import Proc.Model.
Extraction "proc.ml" Proc.Model.run.
