(* Extraction of the topology model (C19).  ExtrOcamlBasic only: bool, option,
   unit, list, prod, sumbool map to OCaml's; N, positive, nat stay Coq inductives. *)
Require Extraction.
Require Import ExtrOcamlBasic.
From DesVerif Require Import Topo.Model.
Extraction "topo.ml" Topo.Model.run.
