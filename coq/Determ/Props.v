(* C04, model side: (1) the random stream is consumed at fixed sites -- exactly one
   handler draw per handled message; (2) module identifiers are only compared for
   equality: any injective identifier supply yields the same observable trace. *)
From Coq Require Import List Arith NArith PArith Lia Bool ZifyBool.
From DesVerif Require Import Common.Fuel Common.Codec CQueue.Model CQueue.Spec Determ.Model.
Import ListNotations.
Open Scope N_scope.

(* ---- (1) draw schedule ---- *)
Definition draws_ok (s : st) : Prop := used_r s = N.of_nat (length (log s)).

Lemma schedule_fields s t m :
  used_r (schedule s t m) = used_r s /\ used_j (schedule s t m) = used_j s /\ log (schedule s t m) = log s /\
  rs (schedule s t m) = rs s /\ js (schedule s t m) = js s.
Proof. repeat split. Qed.

Lemma handle_draws c s now m : draws_ok s -> draws_ok (handle c s now m).
Proof.
  unfold draws_ok, handle. intros H.
  destruct (find_idx (c_mid c) (m_dst m) (N.to_nat (c_k c)) 0) as [i|]; [|exact H].
  assert (Hr : used_r (snd (take_r s)) = used_r s + 1 /\ log (snd (take_r s)) = log s).
  { unfold take_r. destruct (rs s); cbn; split; reflexivity. }
  destruct (take_r s) as [r s1]. cbn [snd] in Hr. destruct Hr as [Hu Hl].
  set (s2 := add_log s1 _).
  assert (H2 : used_r s2 = N.of_nat (length (log s2))).
  { unfold s2, add_log. cbn [used_r log]. rewrite app_length, Hu, Hl, H. cbn [length]. lia. }
  destruct ((0 <? m_ttl m) && negb (r =? 0)); [|exact H2].
  destruct (0 <? nthN (c_jit c) i).
  - assert (Hj : used_r (snd (take_j s2)) = used_r s2 /\ log (snd (take_j s2)) = log s2).
    { unfold take_j. destruct (js s2); cbn; split; reflexivity. }
    destruct (take_j s2) as [j s3]. cbn [snd] in Hj. destruct Hj as [Hu3 Hl3].
    cbn [schedule used_r log]. rewrite Hu3, Hl3. exact H2.
  - cbn [schedule used_r log]. exact H2.
Qed.

Lemma loop_step_draws c s : draws_ok s ->
  match loop_step c s with inl s' | inr s' => draws_ok s' end.
Proof.
  intros H. unfold loop_step. destruct (sp_fetch (fes s)) as [f o]. destruct o; try exact H.
  destruct (nth_error (msgs s) (N.to_nat pay)) as [m|]; [apply handle_draws|]; exact H.
Qed.

Lemma iter_nat_draws c k : forall s, draws_ok s ->
  match iter_nat k (loop_step c) s with inl s' | inr s' => draws_ok s' end.
Proof.
  induction k as [|k IH]; intros s H; cbn [iter_nat]; [exact H|].
  pose proof (loop_step_draws c s H) as H1. destruct (loop_step c s) as [s'|s']; [apply IH; exact H1|exact H1].
Qed.

Lemma add_kicks_draws c ks : forall s tok, draws_ok s -> draws_ok (add_kicks c s tok ks).
Proof.
  induction ks as [|[[t d] l] ks IH]; intros s tok H; cbn [add_kicks]; [exact H|]. apply IH. exact H.
Qed.

(* one handler draw per logged (= handled) message, no more, no fewer *)
Theorem one_draw_per_handled_message c ks rs0 js0 :
  used_r (fst (simulate c ks rs0 js0)) = N.of_nat (length (log (fst (simulate c ks rs0 js0)))).
Proof.
  unfold simulate, run_loop. rewrite iter_until_nat.
  pose proof (iter_nat_draws c (Pos.to_nat (Pos.of_succ_nat (17 * length ks)))
                (add_kicks c (init rs0 js0) 0 ks)) as H.
  assert (H0 : draws_ok (add_kicks c (init rs0 js0) 0 ks)) by (apply add_kicks_draws; reflexivity).
  specialize (H H0). destruct (iter_nat _ _ _) as [s'|s']; exact H.
Qed.

(* ---- (2) identifier supplies ---- *)
Lemma Forall2_length {A B} (R : A -> B -> Prop) l1 l2 : Forall2 R l1 l2 -> length l1 = length l2.
Proof. induction 1; cbn; congruence. Qed.

Definition inj_on (mid : N -> N) (k : N) : Prop :=
  forall i j, i < k -> j < k -> mid i = mid j -> i = j.

Lemma find_idx_spec mid k : inj_on mid k -> forall n i0 i,
  i0 + N.of_nat n = k -> i0 <= i -> i < k -> find_idx mid (mid i) n i0 = Some i.
Proof.
  intros Hinj. induction n as [|n IH]; intros i0 i Hk Hle Hlt; [lia|]. cbn [find_idx].
  destruct (mid i0 =? mid i) eqn:E.
  - apply N.eqb_eq in E. f_equal. apply Hinj; [lia|lia|exact E].
  - apply N.eqb_neq in E. apply IH; [lia| |exact Hlt].
    destruct (N.eq_dec i0 i) as [->|]; [congruence|lia].
Qed.

(* messages of the two runs differ only in how the receiver is named *)
Definition msg_rel (mid1 mid2 : N -> N) (k : N) (a b : msg) : Prop :=
  exists i, i < k /\ m_dst a = mid1 i /\ m_dst b = mid2 i /\
            m_ttl a = m_ttl b /\ m_token a = m_token b /\ m_sent a = m_sent b /\ m_hoplat a = m_hoplat b.

Record st_rel (mid1 mid2 : N -> N) (k : N) (a b : st) : Prop := {
  r_fes : fes a = fes b; r_msgs : Forall2 (msg_rel mid1 mid2 k) (msgs a) (msgs b);
  r_rs : rs a = rs b; r_js : js a = js b; r_ur : used_r a = used_r b; r_uj : used_j a = used_j b;
  r_log : log a = log b }.

Definition cfg_with (c : cfg) (mid : N -> N) : cfg :=
  {| c_k := c_k c; c_lat := c_lat c; c_jit := c_jit c; c_mid := mid |}.

Lemma schedule_rel mid1 mid2 k a b t ma mb :
  st_rel mid1 mid2 k a b -> msg_rel mid1 mid2 k ma mb -> st_rel mid1 mid2 k (schedule a t ma) (schedule b t mb).
Proof.
  intros [Hf Hm Hr Hj Hur Huj Hl] Hab. constructor; cbn [schedule fes msgs rs js used_r used_j log]; try assumption.
  - rewrite Hf, (Forall2_length _ _ _ Hm). reflexivity.
  - apply Forall2_app; [exact Hm|constructor; [exact Hab|constructor]].
Qed.

Lemma take_r_rel mid1 mid2 k a b : st_rel mid1 mid2 k a b ->
  fst (take_r a) = fst (take_r b) /\ st_rel mid1 mid2 k (snd (take_r a)) (snd (take_r b)).
Proof.
  intros [Hf Hm Hr Hj Hur Huj Hl]. unfold take_r. rewrite Hr. destruct (rs b) as [|r rest]; cbn [fst snd].
  - split; [reflexivity|]. constructor; cbn [fes msgs rs js used_r used_j log]; try assumption; try reflexivity. rewrite Hur; reflexivity.
  - split; [reflexivity|]. constructor; cbn [fes msgs rs js used_r used_j log]; try assumption; try reflexivity. rewrite Hur; reflexivity.
Qed.

Lemma take_j_rel mid1 mid2 k a b : st_rel mid1 mid2 k a b ->
  fst (take_j a) = fst (take_j b) /\ st_rel mid1 mid2 k (snd (take_j a)) (snd (take_j b)).
Proof.
  intros [Hf Hm Hr Hj Hur Huj Hl]. unfold take_j. rewrite Hj. destruct (js b) as [|j rest]; cbn [fst snd].
  - split; [reflexivity|]. constructor; cbn [fes msgs rs js used_r used_j log]; try assumption; try reflexivity. rewrite Huj; reflexivity.
  - split; [reflexivity|]. constructor; cbn [fes msgs rs js used_r used_j log]; try assumption; try reflexivity. rewrite Huj; reflexivity.
Qed.

Lemma add_log_rel mid1 mid2 k a b e : st_rel mid1 mid2 k a b -> st_rel mid1 mid2 k (add_log a e) (add_log b e).
Proof.
  intros [Hf Hm Hr Hj Hur Huj Hl]. constructor; cbn [add_log fes msgs rs js used_r used_j log]; try assumption.
  rewrite Hl; reflexivity.
Qed.

Lemma handle_rel c mid1 mid2 a b now ma mb :
  c_k c <> 0 -> inj_on mid1 (c_k c) -> inj_on mid2 (c_k c) ->
  st_rel mid1 mid2 (c_k c) a b -> msg_rel mid1 mid2 (c_k c) ma mb ->
  st_rel mid1 mid2 (c_k c) (handle (cfg_with c mid1) a now ma) (handle (cfg_with c mid2) b now mb).
Proof.
  intros Hk I1 I2 HR [i [Hi [Da [Db [Et [Ek [Es Eh]]]]]]]. unfold handle. cbn [cfg_with c_mid c_k c_lat c_jit].
  rewrite Da, Db.
  rewrite (find_idx_spec mid1 (c_k c) I1 (N.to_nat (c_k c)) 0 i) by lia.
  rewrite (find_idx_spec mid2 (c_k c) I2 (N.to_nat (c_k c)) 0 i) by lia.
  pose proof (take_r_rel _ _ _ _ _ HR) as HRr.
  destruct (take_r a) as [r a1]. destruct (take_r b) as [r' b1]. cbn [fst snd] in HRr. destruct HRr as [<- HR1].
  rewrite Et, Ek, Es, Eh.
  set (e := [i; now; m_ttl mb; m_token mb; r; match m_sent mb with Some t => now - t - m_hoplat mb | None => 0 end]).
  pose proof (add_log_rel _ _ _ _ _ e HR1) as HR2.
  destruct ((0 <? m_ttl mb) && negb (r =? 0)); [|exact HR2].
  assert (Hm' : forall t0, msg_rel mid1 mid2 (c_k c)
            {| m_dst := mid1 ((i + 1) mod c_k c); m_ttl := m_ttl mb - 1; m_token := m_token mb; m_sent := Some t0; m_hoplat := nthN (c_lat c) i |}
            {| m_dst := mid2 ((i + 1) mod c_k c); m_ttl := m_ttl mb - 1; m_token := m_token mb; m_sent := Some t0; m_hoplat := nthN (c_lat c) i |}).
  { intros t0. exists ((i + 1) mod c_k c). split; [apply N.mod_lt; exact Hk|]. cbn. repeat split. }
  destruct (0 <? nthN (c_jit c) i).
  - pose proof (take_j_rel _ _ _ _ _ HR2) as HRj.
    destruct (take_j (add_log a1 e)) as [j a3]. destruct (take_j (add_log b1 e)) as [j' b3].
    cbn [fst snd] in HRj. destruct HRj as [<- HR3]. apply schedule_rel; [exact HR3|apply Hm'].
  - apply schedule_rel; [exact HR2|apply Hm'].
Qed.

Lemma loop_step_rel c mid1 mid2 a b :
  c_k c <> 0 -> inj_on mid1 (c_k c) -> inj_on mid2 (c_k c) -> st_rel mid1 mid2 (c_k c) a b ->
  match loop_step (cfg_with c mid1) a, loop_step (cfg_with c mid2) b with
  | inl a', inl b' | inr a', inr b' => st_rel mid1 mid2 (c_k c) a' b'
  | _, _ => False
  end.
Proof.
  intros Hk I1 I2 HR. unfold loop_step. rewrite (r_fes _ _ _ _ _ HR).
  destruct (sp_fetch (fes b)) as [f o]. destruct o; try exact HR.
  assert (HRf : st_rel mid1 mid2 (c_k c) (set_fes a f) (set_fes b f)).
  { destruct HR as [Hf Hm Hr Hj Hur Huj Hl]. constructor; cbn [set_fes fes msgs rs js used_r used_j log]; congruence. }
  pose proof (r_msgs _ _ _ _ _ HR) as Hm.
  destruct (nth_error (msgs a) (N.to_nat pay)) as [ma|] eqn:Ea; destruct (nth_error (msgs b) (N.to_nat pay)) as [mb|] eqn:Eb.
  - apply (handle_rel c mid1 mid2 _ _ time ma mb Hk I1 I2 HRf).
    clear - Hm Ea Eb. revert Ea Eb. generalize (N.to_nat pay). induction Hm as [|x y la lb Hxy Hm IH]; intros [|n] Ea Eb; cbn in *; try discriminate.
    + injection Ea as <-. injection Eb as <-. exact Hxy.
    + eapply IH; eassumption.
  - exfalso. apply nth_error_None in Eb. assert (nth_error (msgs a) (N.to_nat pay) <> None) by congruence.
    apply nth_error_Some in H. rewrite (Forall2_length _ _ _ Hm) in H. lia.
  - exfalso. apply nth_error_None in Ea. assert (nth_error (msgs b) (N.to_nat pay) <> None) by congruence.
    apply nth_error_Some in H. rewrite <- (Forall2_length _ _ _ Hm) in H. lia.
  - exact HRf.
Qed.

Lemma iter_nat_rel c mid1 mid2 n : forall a b,
  c_k c <> 0 -> inj_on mid1 (c_k c) -> inj_on mid2 (c_k c) -> st_rel mid1 mid2 (c_k c) a b ->
  match iter_nat n (loop_step (cfg_with c mid1)) a, iter_nat n (loop_step (cfg_with c mid2)) b with
  | inl a', inl b' | inr a', inr b' => st_rel mid1 mid2 (c_k c) a' b'
  | _, _ => False
  end.
Proof.
  induction n as [|n IH]; intros a b Hk I1 I2 HR; cbn [iter_nat]; [exact HR|].
  pose proof (loop_step_rel c mid1 mid2 a b Hk I1 I2 HR) as H.
  destruct (loop_step (cfg_with c mid1) a) as [a'|a'], (loop_step (cfg_with c mid2) b) as [b'|b']; try contradiction.
  - apply IH; assumption.
  - exact H.
Qed.

Lemma add_kicks_rel c mid1 mid2 ks : forall a b tok,
  c_k c <> 0 -> st_rel mid1 mid2 (c_k c) a b ->
  st_rel mid1 mid2 (c_k c) (add_kicks (cfg_with c mid1) a tok ks) (add_kicks (cfg_with c mid2) b tok ks).
Proof.
  induction ks as [|[[t d] l] ks IH]; intros a b tok Hk HR; cbn [add_kicks]; [exact HR|].
  apply IH; [exact Hk|]. apply schedule_rel; [exact HR|]. cbn [cfg_with c_mid c_k].
  exists (d mod c_k c). split; [apply N.mod_lt; exact Hk|]. cbn. repeat split.
Qed.

(* the observable trace does not depend on which (injective) identifiers the modules got *)
Theorem trace_invariant_under_module_ids c mid1 mid2 ks rs0 js0 :
  c_k c <> 0 -> inj_on mid1 (c_k c) -> inj_on mid2 (c_k c) ->
  log (fst (simulate (cfg_with c mid1) ks rs0 js0)) = log (fst (simulate (cfg_with c mid2) ks rs0 js0)) /\
  snd (simulate (cfg_with c mid1) ks rs0 js0) = snd (simulate (cfg_with c mid2) ks rs0 js0).
Proof.
  intros Hk I1 I2. unfold simulate, run_loop. rewrite !iter_until_nat.
  assert (H0 : st_rel mid1 mid2 (c_k c) (init rs0 js0) (init rs0 js0)) by (constructor; try reflexivity; constructor).
  pose proof (add_kicks_rel c mid1 mid2 ks _ _ 0 Hk H0) as H1.
  pose proof (iter_nat_rel c mid1 mid2 (Pos.to_nat (Pos.of_succ_nat (17 * length ks))) _ _ Hk I1 I2 H1) as H2.
  destruct (iter_nat _ (loop_step (cfg_with c mid1)) _) as [a'|a'], (iter_nat _ (loop_step (cfg_with c mid2)) _) as [b'|b']; try contradiction;
    (split; [exact (r_log _ _ _ _ _ H2)|reflexivity]).
Qed.
