(* C04: model of the seeded ring simulation of harness/src/bin/determ.rs.
   Randomness is an explicit input: [rs] are the values of the handlers' random
   draws (already reduced mod 4), [js] the jitter samples in ns, both in the order
   in which the run consumes them.  Module identifiers come from an arbitrary
   supply [mid] and are only ever compared for equality.  The event set is the
   two-list specification of C01/C03.  No proofs in this file. *)
From Coq Require Import List NArith PArith Bool.
From DesVerif Require Import Common.Fuel Common.Codec CQueue.Model CQueue.Spec.
Import ListNotations.
Open Scope N_scope.

Record msg := { m_dst : N;      (* module id of the receiver *)
                m_ttl : N; m_token : N;
                m_sent : option N;  (* None for an injected kick *)
                m_hoplat : N }.

Record cfg := { c_k : N; c_lat : list N; c_jit : list N; c_mid : N -> N }.

Record st := { fes : sp; msgs : list msg; rs : list N; js : list N;
               used_r : N; used_j : N; log : list (list N) }.

Definition nthN (l : list N) (i : N) : N := nth (N.to_nat i) l 0.

(* module index of an identifier: first index i < k with mid i = id *)
Fixpoint find_idx (mid : N -> N) (id : N) (k : nat) (i : N) : option N :=
  match k with
  | O => None
  | S k' => if mid i =? id then Some i else find_idx mid id k' (i + 1)
  end.

Definition schedule (s : st) (time : N) (m : msg) : st :=
  let p := N.of_nat (length (msgs s)) in
  {| fes := fst (fst (sp_add (fes s) time p)); msgs := msgs s ++ [m];
     rs := rs s; js := js s; used_r := used_r s; used_j := used_j s; log := log s |}.

Definition take_r (s : st) : N * st :=
  match rs s with
  | [] => (0, {| fes := fes s; msgs := msgs s; rs := []; js := js s;
                 used_r := used_r s + 1; used_j := used_j s; log := log s |})
  | r :: rest => (r mod 4, {| fes := fes s; msgs := msgs s; rs := rest; js := js s;
                             used_r := used_r s + 1; used_j := used_j s; log := log s |})
  end.

Definition take_j (s : st) : N * st :=
  match js s with
  | [] => (0, {| fes := fes s; msgs := msgs s; rs := rs s; js := [];
                 used_r := used_r s; used_j := used_j s + 1; log := log s |})
  | j :: rest => (j, {| fes := fes s; msgs := msgs s; rs := rs s; js := rest;
                        used_r := used_r s; used_j := used_j s + 1; log := log s |})
  end.

Definition add_log (s : st) (e : list N) : st :=
  {| fes := fes s; msgs := msgs s; rs := rs s; js := js s;
     used_r := used_r s; used_j := used_j s; log := log s ++ [e] |}.

(* Ring::handle_message *)
Definition handle (c : cfg) (s : st) (now : N) (m : msg) : st :=
  match find_idx (c_mid c) (m_dst m) (N.to_nat (c_k c)) 0 with
  | None => s
  | Some i =>
      let '(r, s1) := take_r s in
      let jit := match m_sent m with None => 0 | Some t => now - t - m_hoplat m end in
      let s2 := add_log s1 [i; now; m_ttl m; m_token m; r; jit] in
      if (0 <? m_ttl m) && negb (r =? 0) then
        let lat := nthN (c_lat c) i in
        let '(j, s3) := if 0 <? nthN (c_jit c) i then take_j s2 else (0, s2) in
        schedule s3 (now + lat + j)
          {| m_dst := c_mid c ((i + 1) mod c_k c); m_ttl := m_ttl m - 1; m_token := m_token m;
             m_sent := Some now; m_hoplat := lat |}
      else s2
  end.

Definition set_fes (s : st) (f : sp) : st :=
  {| fes := f; msgs := msgs s; rs := rs s; js := js s;
     used_r := used_r s; used_j := used_j s; log := log s |}.

Definition loop_step (c : cfg) (s : st) : st + st :=
  match sp_fetch (fes s) with
  | (f, OFetched p t) =>
      match nth_error (msgs s) (N.to_nat p) with
      | Some m => inl (handle c (set_fes s f) t m)
      | None => inl (set_fes s f)
      end
  | _ => inr s
  end.

(* every token makes at most ttl <= 15 hops: 16 * kicks + 1 events suffice *)
Definition run_loop (c : cfg) (fuel : positive) (s : st) : st * bool :=
  match iter_until fuel (loop_step c) s with
  | inr s' => (s', true)
  | inl s' => (s', false)
  end.

Fixpoint add_kicks (c : cfg) (s : st) (tok : N) (ks : list (N * N * N)) : st :=
  match ks with
  | [] => s
  | (t, dst, ttl) :: r =>
      add_kicks c (schedule s t {| m_dst := c_mid c (dst mod c_k c); m_ttl := ttl mod 16; m_token := tok;
                                   m_sent := None; m_hoplat := 0 |}) (tok + 1) r
  end.

Definition init (rs js : list N) : st :=
  {| fes := sp_new; msgs := []; rs := rs; js := js; used_r := 0; used_j := 0; log := [] |}.

Definition simulate (c : cfg) (ks : list (N * N * N)) (rs js : list N) : st * bool :=
  run_loop c (Pos.of_succ_nat (17 * length ks)) (add_kicks c (init rs js) 0 ks).

(* ---- wire format ----
   seed k (lat jit)*k nk (time dst ttl)*nk rounds d ntasks restarts  nr r*  nj j*
   (rounds, d, ntasks, restarts configure the racing tasks, which only the 3-run comparison observes)
   output: 1 1 n (m now ttl token r jit)*n   -- the two leading ones are the
   reproducibility flags the implementation reports (the model is a function). *)
Fixpoint take_pairs (k : nat) (l : list N) : list (N * N) * list N :=
  match k with
  | O => ([], l)
  | S k' => match l with
            | a :: b :: r => let '(ps, rest) := take_pairs k' r in ((a, b) :: ps, rest)
            | _ => (repeat (0, 0) k, [])
            end
  end.

Fixpoint take_triples (k : nat) (l : list N) : list (N * N * N) * list N :=
  match k with
  | O => ([], l)
  | S k' => match l with
            | a :: b :: c :: r => let '(ts, rest) := take_triples k' r in ((a, b, c) :: ts, rest)
            | _ => ([], [])
            end
  end.

Definition default_mid (i : N) : N := 255 + i.

Definition run_with (mid : N -> N) (input : list N) : list N :=
  match input with
  | _seed :: k0 :: r0 =>
      let k := N.max (k0 mod 6) 1 in
      let '(lj, r1) := take_pairs (N.to_nat k) r0 in
      match r1 with
      | nk :: r2 =>
          let '(ks, r3) := take_triples (N.to_nat nk) r2 in
          let r4 := match r3 with _ :: _ :: _ :: _ :: r => r | _ => [] end in
          let '(rs, r5) := take_lp r4 in
          let '(js, _) := take_lp r5 in
          let c := {| c_k := k; c_lat := map fst lj; c_jit := map snd lj; c_mid := mid |} in
          let '(s, ok) := simulate c ks rs js in
          if ok then [1; 1; N.of_nat (length (log s))] ++ concat (log s) else [8]
      | [] => [7]
      end
  | _ => [7]
  end.

Definition run (input : list N) : list N := run_with default_mid input.
