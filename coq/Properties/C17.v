(* C17 — Configuration entries reach exactly the modules they address.
   Statements only.  [cfg_new] / [capture_for_into] are the model of Cfg::new
   (compartmentalize) and Props::update_from (coq/Props/Model.v), [build] the model of
   Sim::include_cfg / Sim::raw, [typed] the entry state machine of props/mod.rs;
   [receives] is the specification (coq/Props/Spec.v).

   Guards (all executable, coq/Props/Main.v):
     wf_cfgb cfg      keys are distinct (a YAML mapping); every key segment is non-empty and is either
                      the wildcard '<any>' or does not contain the text '<any>'; the last segment is
                      not the wildcard (a key ends in a property name);
     known_classb cfg known finding `entry_at_wildcard_prefix`: two keys K and K.<any>.R (see Refuted/C17.v);
     wf_pathb p       module path segments contain no '.' and none is literally '<any>'.
   Without them the statements are false of the code: coq/Refuted/C17.v. *)
From Coq Require Import List NArith Bool Permutation.
From DesVerif Require Import Props.Spec Props.Model Props.Loops Props.Main Props.Typed Props.SpecExec.
Import ListNotations.
Open Scope N_scope.

(* every captured property is justified: its name is the rest of some entry's key whose front part
   matches the module path segment by segment ('<any>' = exactly one segment), its value that entry's *)
Theorem C17_capture_sound : forall cfg p name e,
  wf_cfgb cfg = true -> known_classb cfg = false -> wf_pathb p = true ->
  In (name, e) (capture_for_into (cfg_new cfg) p) -> exists v, e = EYaml (Scalar v) /\ receives cfg p name v.
Proof. intros cfg p name e W K P. exact (capture_sound cfg p W K P name e). Qed.
Print Assumptions C17_capture_sound.

(* every entry addressing the module yields a property of that name, holding the value of a matching entry *)
Theorem C17_capture_complete : forall cfg p name v,
  wf_cfgb cfg = true -> known_classb cfg = false -> wf_pathb p = true ->
  receives cfg p name v ->
  exists v', In (name, EYaml (Scalar v')) (capture_for_into (cfg_new cfg) p) /\ receives cfg p name v'.
Proof. intros cfg p name v W K P. exact (capture_complete cfg p W K P name v). Qed.
Print Assumptions C17_capture_complete.

(* entries addressed to other modules never appear in or alter the property set: two configurations
   that agree on the entries addressing p give p the same property names *)
Theorem C17_no_foreign_entries : forall cfg1 cfg2 p,
  wf_cfgb cfg1 = true -> known_classb cfg1 = false -> wf_cfgb cfg2 = true -> known_classb cfg2 = false ->
  wf_pathb p = true ->
  (forall name v, receives cfg1 p name v <-> receives cfg2 p name v) ->
  forall name, hasS name (capture_for_into (cfg_new cfg1) p) <-> hasS name (capture_for_into (cfg_new cfg2) p).
Proof. exact no_foreign_entries. Qed.
Print Assumptions C17_no_foreign_entries.

(* ... in particular a module no entry addresses receives nothing *)
Theorem C17_nothing_addressed : forall cfg p,
  wf_cfgb cfg = true -> known_classb cfg = false -> wf_pathb p = true ->
  (forall k v r, In (k, v) cfg -> ~ addresses k p r) -> capture_for_into (cfg_new cfg) p = [].
Proof. exact nothing_addressed. Qed.
Print Assumptions C17_nothing_addressed.

(* ... and an entry for a sibling (same depth, another specific path) addresses nothing here, whatever
   text the two names share: alice / alicent, a / aé *)
Theorem C17_sibling_not_addressed : forall k q r0 p,
  split_dot k = q ++ r0 -> length q = length p -> ~ In ANY q -> q <> p -> forall r, ~ addresses k p r.
Proof. exact sibling_not_addressed. Qed.
Print Assumptions C17_sibling_not_addressed.

(* However the entries are partitioned into separate includes and wherever each include_cfg call sits in the
   node-creation sequence (before all nodes, between two, after all): every module ends up with exactly the
   capture, in turn, of all configurations in the order they were included - the same for a node created before,
   between or after them (any configuration values, any paths, any schedule) ... *)
Theorem C17_include_order_irrelevant : forall (sched : list (nat * cfg)) (paths : list (list str)),
  modules (build sim_new sched 0 paths) =
  map (fun q => (q, capture_all (map snd (time_order sched 0 (length paths))) q)) paths.
Proof. exact include_order_irrelevant. Qed.
Print Assumptions C17_include_order_irrelevant.

(* ... that order being a rearrangement of the schedule (nothing lost, nothing included twice) ... *)
Theorem C17_time_order_perm : forall k sched i, Permutation (time_order sched i k) sched.
Proof. exact time_order_perm. Qed.
Print Assumptions C17_time_order_perm.

(* ... and capturing several configurations in turn gives exactly the properties the specification lists for
   the UNION of their entries, whatever the order (first set wins: the value is that of some matching entry) *)
Theorem C17_multi_capture_sound : forall groups p name e,
  Forall guarded groups -> wf_pathb p = true ->
  In (name, e) (capture_all (map cfg_new groups) p) ->
  exists v, e = EYaml (Scalar v) /\ receives (concat groups) p name v.
Proof. exact multi_capture_sound. Qed.
Print Assumptions C17_multi_capture_sound.

Theorem C17_multi_capture_complete : forall groups p name v,
  Forall guarded groups -> wf_pathb p = true ->
  receives (concat groups) p name v ->
  exists v', In (name, EYaml (Scalar v')) (capture_all (map cfg_new groups) p) /\ receives (concat groups) p name v'.
Proof. exact multi_capture_complete. Qed.
Print Assumptions C17_multi_capture_complete.

(* once a property holds a value of type t, every sequence of typed reads / writes / raw reads
   answers like a cell of type t: accesses with another type are the InvalidInput error and change nothing *)
Theorem C17_typed_stable : forall ops st name t n, get_raw name st = ESome t n ->
  snd (run_entry st name ops) = cell_run t n ops /\
  exists n', get_raw name (fst (run_entry st name ops)) = ESome t n'.
Proof. exact typed_stable. Qed.
Print Assumptions C17_typed_stable.

(* a configuration included while the node exists never touches a property that already has a slot,
   whatever the slot's state: a configured value, a typed value, or the empty slot a lookup left behind
   (Props::set is entry().or_insert()) - for every configuration value, path and store *)
Theorem C17_include_keeps_slot : forall (c : cfg) (path : list str) (st : store) name e,
  s_get name st = Some e -> s_get name (capture_for c path st) = Some e.
Proof. exact include_keeps_slot. Qed.
Print Assumptions C17_include_keeps_slot.

(* hence the cell law for everything that can reach a property of type t - fresh typed lookups, long-lived typed
   handles Prop<T> (creation, set, get), late includes, in any interleaving: the answers are those of a cell of
   type t; an access of another type is an error (InvalidInput for a lookup / handle creation, the panic record
   9 4 / 9 5 for a set / get through a handle of another type) and changes nothing ... *)
Theorem C17_typed_stable_across_includes : forall ops path st name t n, get_raw name st = ESome t n ->
  snd (run_cell path st name ops) = cell_run2 t n ops /\
  exists n', get_raw name (fst (run_cell path st name ops)) = ESome t n'.
Proof. exact typed_stable_across_includes. Qed.
Print Assumptions C17_typed_stable_across_includes.

(* ... in particular a write through a handle whose type differs from the property's type never changes the
   property (Prop::set's assertion fires before anything is written), and a read through it is an error *)
Theorem C17_handle_of_other_type : forall st name t n ty v, get_raw name st = ESome t n -> t <> ty ->
  h_set st name ty v = (st, [9; 4]) /\ h_get st name ty = [9; 5] /\
  snd (h_new st name ty) = Some TInvalidInput /\ get_raw name (fst (h_new st name ty)) = ESome t n.
Proof.
  intros st name t n ty v H Ne. split; [exact (h_set_mismatch st name t n ty v H Ne)|].
  split; [exact (h_get_mismatch st name t n ty H Ne)|exact (h_new_mismatch st name t n ty H Ne)].
Qed.
Print Assumptions C17_handle_of_other_type.

(* ... and whatever operations (on any properties, through lookups or handles, includes) run on a module, a
   property that has a type keeps it *)
Theorem C17_late_keeps_type : forall ops path st name t n, get_raw name st = ESome t n ->
  exists n', get_raw name (run_module path st ops) = ESome t n'.
Proof. exact late_keeps_type. Qed.
Print Assumptions C17_late_keeps_type.

(* the first typed access converts the configuration value once, to that very number, or fails
   leaving it untouched; an absent property has no type yet *)
Theorem C17_typed_first : forall ty v,
  typed ty (EYaml (Scalar v)) = (if ty <? 2 then (ESome ty v, None) else (EYaml (Scalar v), Some TOther)) /\
  typed ty ENone = (ENone, None).
Proof. intros ty v. split; [apply typed_first|apply typed_absent]. Qed.
Print Assumptions C17_typed_first.

(* the runner (Model.run) builds configurations with cfg_new_v, whose entries may also be hand-nested one-level
   mappings (modelled and correspondence-checked, outside the theorems); on number-valued entries it is cfg_new *)
Theorem C17_cfg_new_v_numbers : forall cfg : list (str * N),
  cfg_new_v (map (fun e => (fst e, VNum (snd e))) cfg) = cfg_new cfg.
Proof. exact cfg_new_v_numbers. Qed.
Print Assumptions C17_cfg_new_v_numbers.

(* the executable form of the specification is the specification *)
Theorem C17_spec_executable : forall cfg p name v, In (name, v) (spec_capture cfg p) <-> receives cfg p name v.
Proof. exact spec_capture_ok. Qed.
Print Assumptions C17_spec_executable.

(* Non-vacuity: prefix-sharing siblings (alice / alicent, a / aé), wildcards at depth 0, 1 and twice in a
   row, several entries for one module, a two-segment property name; the configuration passes the guards
   and the model captures what the specification lists. *)
Definition s (l : list N) : str := l.
Definition k_alice_addr : str := [97;108;105;99;101;46;97;100;100;114].               (* alice.addr *)
Definition k_alicent_addr : str := [97;108;105;99;101;110;116;46;97;100;100;114].     (* alicent.addr *)
Definition k_any_log : str := [60;97;110;121;62;46;108;111;103].                       (* <any>.log *)
Definition k_alice_any_mss : str := [97;108;105;99;101;46;60;97;110;121;62;46;116;99;112;46;109;115;115]. (* alice.<any>.tcp.mss *)
Definition k_any_any_x : str := [60;97;110;121;62;46;60;97;110;121;62;46;120].         (* <any>.<any>.x *)
Definition k_ae_x : str := [97;195;169;46;120].                                         (* aé.x *)
Definition k_a_y : str := [97;46;121].                                                  (* a.y *)
Definition demo : list (str * N) :=
  [(k_alice_addr, 1); (k_alicent_addr, 2); (k_any_any_x, 3); (k_any_log, 4); (k_alice_any_mss, 5); (k_ae_x, 6); (k_a_y, 7)].
Definition alice : str := [97;108;105;99;101].
Definition alicent : str := [97;108;105;99;101;110;116].

Example C17_nonvacuous :
  wf_cfgb demo = true /\ known_classb demo = false /\
  sort_props (capture_for_into (cfg_new demo) [alice]) = [([97;100;100;114], EYaml (Scalar 1)); ([108;111;103], EYaml (Scalar 4))] /\
  sort_props (capture_for_into (cfg_new demo) [alicent]) = [([97;100;100;114], EYaml (Scalar 2)); ([108;111;103], EYaml (Scalar 4))] /\
  sort_props (capture_for_into (cfg_new demo) [alice; [116;99;112]]) = [([116;99;112;46;109;115;115], EYaml (Scalar 5)); ([120], EYaml (Scalar 3))] /\
  sort_props (capture_for_into (cfg_new demo) [[97]]) = [([108;111;103], EYaml (Scalar 4)); ([121], EYaml (Scalar 7))] /\
  sort_props (capture_for_into (cfg_new demo) [[97;195;169]]) = [([108;111;103], EYaml (Scalar 4)); ([120], EYaml (Scalar 6))] /\
  spec_capture demo [alice] = [([97;100;100;114], 1); ([108;111;103], 4)] /\
  spec_capture demo [alice; [116;99;112]] = [([120], 3); ([116;99;112;46;109;115;115], 5)].
Proof. vm_compute. repeat split; reflexivity. Qed.

(* two includes whose wildcard entries share the text in front of '<any>' (`alice.<any>.`), the second one
   scheduled before node 0 and the first before node 1: the node alice.tcp, created after both, gets both *)
Definition k_alice_any_log : str := alice ++ [46] ++ ANY ++ [46; 108; 111; 103].   (* alice.<any>.log *)
Definition k_alice_any_mtu : str := alice ++ [46] ++ ANY ++ [46; 109; 116; 117].   (* alice.<any>.mtu *)
Example C17_nonvacuous_multi :
  map (fun mp => sort_props (snd mp))
      (modules (build sim_new [(1%nat, cfg_new [(k_alice_any_log, 1)]); (0%nat, cfg_new [(k_alice_any_mtu, 2)])] 0
                      [[alice]; [alice; [116;99;112]]]))
  = [[]; [([108;111;103], EYaml (Scalar 1)); ([109;116;117], EYaml (Scalar 2))]].
Proof. vm_compute. reflexivity. Qed.

(* a late run on module alice: addr is read as u64, a configuration `alice.addr: 300` arrives, addr is re-read
   as String (type mismatch) and as u64 (still 1); `level` is written as i64 3 before `<any>.level: 300`
   arrives and stays an i64 3; `mtu` is merely looked up before `alice.mtu: 9` arrives and stays empty *)
Definition addr : str := [97;100;100;114].
Definition level : str := [108;101;118;101;108].
Definition mtu : str := [109;116;117].
Example C17_nonvacuous_late :
  snd (run_late [([alice], capture_for_into (cfg_new demo) [alice])] []
        [LTyped (TRead 0 addr 0); LInclude (alice ++ [46] ++ addr) 300; LTyped (TRead 0 addr 2); LTyped (TRead 0 addr 0);
         LTyped (TWrite 0 level 1 3); LInclude (ANY ++ [46] ++ level) 300; LTyped (TRead 0 level 0); LTyped (TRead 0 level 1);
         LTyped (TRaw 0 mtu); LInclude (alice ++ [46] ++ mtu) 9; LTyped (TRead 0 mtu 0);
         LInclude (alice ++ [46; 120]) 5; LTyped (TRead 0 [120] 0)])
  = [3;1;1] ++ [3;2] ++ [3;1;1] ++ [4;0] ++ [3;2] ++ [3;1;3] ++ [5;6] ++ [3;0] ++ [3;1;5].
Proof. vm_compute. reflexivity. Qed.

(* two handles of different types for the absent property mtu, created before its first write: the u64 handle
   writes 1500, the write through the String handle panics and changes nothing, a String lookup is InvalidInput,
   the u64 handle still reads 1500; after clear the String handle may type the property and the u64 one is stale *)
Example C17_nonvacuous_handles :
  snd (run_late [([alice], capture_for_into (cfg_new demo) [alice])] []
        [LHandle 0 mtu 0; LHandle 0 mtu 2; LHset 0 1500; LHset 1 7; LTyped (TRead 0 mtu 2); LHget 0; LHget 1;
         LClear 0 mtu; LHget 0; LHset 1 7; LHset 0 8; LHget 1])
  = [8;0] ++ [8;0] ++ [13;0] ++ [9;4] ++ [3;2] ++ [14;1;1500] ++ [9;5] ++ [15] ++ [14;0] ++ [13;0] ++ [9;4] ++ [14;1;7].
Proof. vm_compute. reflexivity. Qed.
