(* C09 — A shut-down module is inert until restart and restarts cleanly on time.
   Statements only.  [trace sc] is the list of records of the run of script [sc] in the
   model of ctx.rs / events.rs / refs.rs (coq/Life/Model.v): one record per (stage, module)
   pair of the start-up phase ([KStart]), one per dispatched event ([KLoop ev], ending in a
   sample of is_active of all modules) and one per module of the tear-down phase ([KEnd]);
   its items are what the model runner prints and the implementation runner reproduces.  A
   script fixes 2..4 modules, each with ANY handler programs (log / send / schedule /
   shutdown / shutdow_and_restart_in / panic / quiet), ANY number of task programs (the same
   plus sleep), stereotype, stage count and budget, and any list of injected messages; all
   statements hold for every script. *)
From Coq Require Import List NArith Bool.
From DesVerif Require Import Common.Fuel Life.ModelCq Life.CqInst Life.Fresh Life.Local Life.Model Life.Base Life.Step Life.Trace Life.Frame Life.Inert Life.Inv Life.Events Life.Restart Life.Term.
Import ListNotations.
Open Scope N_scope.

(* handler_runs_only_if_active: scanning any record of the start-up sweep or of a dispatched event
   never finds a call record (start-up stage, message handler, task step, timer completion) with
   is_active = false, except after a panic of the module's own callback in the same record
   ([act_st], coq/Life/Inv.v; Harness::catch has deactivated the module by then).  Only the tear-down
   sweep (at_sim_end, [is_end]) calls every module irrespective of is_active. *)
Theorem C09_handler_runs_only_if_active : forall sc e,
  In e (trace sc) -> is_end e = false -> act_st false (e_items e) <> None.
Proof. exact handler_runs_only_if_active. Qed.
Print Assumptions C09_handler_runs_only_if_active.

(* ... so that in a record without a callback panic every such call carries is_active = true *)
Theorem C09_calls_carry_active : forall l, (forall m c, ~ In (IPanic m 0 c) l) -> act_st false l <> None ->
  forall m c t a, In (ICall m c t a) l -> a = true.
Proof. exact act_st_no_panic. Qed.
Print Assumptions C09_calls_carry_active.

(* inert_while_down: [down_after m pre]: in [pre] module m was reset (its shutdown request was
   consumed) and not (re)started since.  The next record, unless it is m's restart event,
   holds no message handler, task step or timer completion of m; unless it is a tear-down record it
   holds no record of m at all (no at_sim_start, no send, no log, no request either): the start-up
   sweep skips m (since 1526470), messages addressed to m and its wake-ups are dropped. *)
Theorem C09_inert_while_down : forall sc m pre e post,
  trace sc = pre ++ e :: post -> down_after m pre = true -> starts m e = false ->
  no_run m (e_items e) /\
  (is_end e = false -> forallb (fun i => negb (of_mod m i)) (e_items e) = true).
Proof. exact inert_while_down. Qed.
Print Assumptions C09_inert_while_down.

(* reset_once_per_shutdown: a start-up or event record holds exactly one Module::reset of m if
   it holds a shutdown request of m, none otherwise; tear-down records hold none *)
Theorem C09_reset_once_per_shutdown : forall sc e m, In e (trace sc) ->
  count_resets m (e_items e) = (if requests m e && negb (is_end e) then 1 else 0)%nat.
Proof. exact reset_once_per_shutdown. Qed.
Print Assumptions C09_reset_once_per_shutdown.

(* restart_stages_once_at_time.  [pending m pre] is the restart time named by the last consumed
   shutdown request of m (read from the log of the record that reset m: the last
   shutdown()/shutdow_and_restart_in(d) of that event wins, d counts from the event's time),
   and None once m was (re)started.
   (a) a restart event of m only ever happens at exactly that time -- hence once per request;
   (b) every run completes (see C09_run_terminates) and then no requested restart is left pending:
       every restart that was asked for is executed;
   (c) in a restart event the start-up stages run in order 0, 1, .., each once, stamped with the
       event's time: at least stage 0, and all of them unless a stage panicked. *)
Theorem C09_restart_stages_once_at_time :
  (forall sc pre e post m, trace sc = pre ++ e :: post -> e_kind e = KLoop (EvRestart m) ->
     pending m pre = Some (e_time e)) /\
  (forall sc m, pending m (trace sc) = None) /\
  (forall sc e m, In e (trace sc) -> e_kind e = KLoop (EvRestart m) ->
     (exists n, (stage_list (c_stages (cfg sc m)) <> [] -> (0 < n)%nat) /\
        map call_key (start_calls (e_items e)) =
        map (fun st => (m, st, e_time e)) (firstn n (stage_list (c_stages (cfg sc m))))) /\
     ((forall c, ~ In (IPanic m 0 c) (e_items e)) ->
        map call_key (start_calls (e_items e)) =
        map (fun st => (m, st, e_time e)) (stage_list (c_stages (cfg sc m))))).
Proof.
  split; [exact restart_at_requested_time|split; [|exact restart_runs_stages_once]].
  intros sc m. apply no_restart_left_pending, run_terminates.
Qed.
Print Assumptions C09_restart_stages_once_at_time.

(* old_incarnation_silent: every task step (first poll, or completion of one of its timers) is
   logged with the incarnation that spawned the task, and that always equals the number of
   resets of the module so far: nothing created before a shutdown acts after it *)
Theorem C09_old_incarnation_silent : forall sc pre e post m c t a,
  trace sc = pre ++ e :: post -> In (ICall m c t a) (e_items e) ->
  match c with
  | CbTask _ j | CbTimer _ j => j = N.of_nat (count_resets m (items pre))
  | _ => True
  end.
Proof. exact old_incarnation_silent. Qed.
Print Assumptions C09_old_incarnation_silent.

(* fresh_after_restart (partial).  What a module keeps across shutdown / restart is made explicit -- [kept]: the user
   struct (here: incarnation counter and budget; "custom state will be kept"), the time driver's next_wakeup, the
   JoinHandles given to join / try_join, the stereotype -- and everything else is that of a newly created module:
   [fresh v a] is the state of a module created around the kept pieces v with active flag a; the very first state of a
   module is [fresh (kept0 c) true] (C09_first_state_is_fresh).
   (a) consuming a shutdown request leaves exactly [fresh v false], v = the kept pieces with the incarnation counter
       bumped and a due next_wakeup dropped: no task, no timer, no request (C09_shutdown_leaves_fresh);
   (b) when a restart event of m is dispatched, the world is a generated one in which m's state is [fresh v false] for
       some v, and the records of the event are those of activate / module_restart / deactivate / buf_process on it
       (this theorem; with old_incarnation_silent: every task step afterwards belongs to the new incarnation);
   (c) module_restart is: set the active flag, then the callback the first start runs for each stage --
       at_sim_start(stage), with the time of the restart in place of 0 -- in order, until one returns an error or
       leaves the module inactive; for a single-stage module that is literally the first start's callback applied to
       [fresh v true] (C09_restart_runs_first_start_callback).
   Differences to a first start that remain, by design of the code: the kept pieces; and for a module with several
   stages the restart runs all stages inside one event (one buf_process at the end), whereas the start-up sweep handles
   the buffered events after every stage -- a shutdown requested in stage 0 stops the later stages of a first start but
   not those of a restart.
   Full statement, not proved: the records of m from the restart on equal those of a module created fresh around the
   kept pieces at that instant and given the same later inputs (a whole-trace comparison between two runs). *)
Theorem C09_fresh_after_restart_partial : forall sc pre e post m,
  trace sc = pre ++ e :: post -> e_kind e = KLoop (EvRestart m) ->
  exists w1 f1 v, Gen sc w1 pre /\ fes_fetch (w_fes w1) = Some (e_time e, EvRestart m, f1) /\
    w_mod w1 m = fresh v false /\
    let r := around sc (e_time e) m (module_restart (nmods sc) (cfg sc m) (e_time e) m) (set_fes w1 f1) in
    e_items e = snd r ++ [ISample (e_time e) (mask sc (fst r))].
Proof. exact fresh_after_restart_full. Qed.
Print Assumptions C09_fresh_after_restart_partial.

Theorem C09_first_state_is_fresh : forall sc m, w_mod (init_world sc) m = fresh (kept0 (cfg sc m)) true.
Proof. intros sc m. reflexivity. Qed.
Print Assumptions C09_first_state_is_fresh.

Theorem C09_shutdown_leaves_fresh : forall c now m w r, shut (w_mod w m) = Some r ->
  w_mod (fst (shutdown_part c now m w)) m =
  fresh {| k_inc := inc (w_mod w m) + 1; k_bud := bud (w_mod w m); k_nw := nw_bump now (nw (w_mod w m));
           k_hnd := hnd (w_mod w m); k_catch := catchf (w_mod w m) |} false.
Proof. exact shutdown_leaves_fresh. Qed.
Print Assumptions C09_shutdown_leaves_fresh.

Theorem C09_restart_runs_first_start_callback :
  (forall k c now m s, c_stages c = 1 ->
     module_restart k c now m s = fst (at_sim_start k c now m 0 (on_w (fun w => set_mod w m (set_active (w_mod w m) true)) s))) /\
  (forall sc stage m s, start_cb sc stage m s = fst (at_sim_start (nmods sc) (cfg sc m) 0 m stage s)) /\
  (forall k c now m s,
     module_restart k c now m s =
     fst (fold_left (fun (acc : xs * bool) stage =>
                       if snd acc then acc
                       else (fst (at_sim_start k c now m stage (fst acc)),
                             snd (at_sim_start k c now m stage (fst acc)) ||
                             negb (active (w_mod (x_w (fst (at_sim_start k c now m stage (fst acc)))) m))))
                    (stage_list (c_stages c))
                    (on_w (fun w => set_mod w m (set_active (w_mod w m) true)) s, false))).
Proof. split; [exact module_restart_single|split; [reflexivity|exact module_restart_stages]]. Qed.
Print Assumptions C09_restart_runs_first_start_callback.

(* fresh_after_restart, whole-trace form, for a module with one start-up stage.  Stated as a simulation between two
   worlds restricted to module m ([Mrel m w w']: the two worlds agree on m's state; they may belong to two different
   scripts -- other modules, injections --, have different event sets, buffers, other modules' states, as long as m's
   configuration and the number of modules are the same).
   (a) module_local: a module's records depend on its own state only.  Under the same sequence of dispatched events
       (same times and kinds; [evs], [evs'] may carry different event sets) two worlds that agree on m produce the same
       records of m ([mlog]: the records of the events of m, in order) -- events of other modules change nothing of m.
   (b) loop_is_mlog: the event loop of a run is such a sequence: from any loop state on, the records of m's events in the
       trace ([mrecords], each without the is_active sample that closes it) are the [mlog] of the events it dispatches.
   (c) restarted_as_fresh: let m be [fresh v false] in w (the state every restart event finds it in,
       C09_fresh_after_restart_partial) and the newly created [fresh v true] in w'.  Then the restart event in w at time
       t writes the same records as the first start's step -- activate, at_sim_start(0), deactivate, buf_process, as in
       the start-up sweep -- taken at time t in w'; afterwards the two worlds agree on m, so by (a) every later event
       of m, and m's at_sim_end, writes the same records in both: the restarted incarnation cannot be told from a fresh
       module created around the kept pieces at the restart time, in any environment that delivers the same events.
   (d) fresh_is_mst0: with trivial kept pieces (no surviving JoinHandle, no pending next_wakeup; user struct as first
       created) [fresh v true] is the module as first created.  The hypotheses are needed only there: next_wakeup and the
       handles do not influence m's records at all (they influence the event set -- a stale wake-up event -- and the
       join errors of the final error list), the user struct (incarnation counter, budget) does.
   Not covered: modules with several stages (the restart runs them in one event, see above). *)
Theorem C09_module_local : forall sc sc' m, cfg sc m = cfg sc' m -> nmods sc = nmods sc' ->
  forall evs evs' w w', map fst evs = map fst evs' -> Mrel m w w' ->
  mlog m sc w evs = mlog m sc' w' evs' /\ Mrel m (mrun sc w evs) (mrun sc' w' evs').
Proof. intros sc sc' m Hc Hk evs evs' w w' He E. split; [apply mlog_local|apply mrun_local]; assumption. Qed.
Print Assumptions C09_module_local.

Theorem C09_loop_is_mlog : forall sc m k w now tr wf nf trf,
  iter_nat k (loop_step sc) (w, now, tr) = inr (wf, nf, trf) ->
  exists evs, mrecords m trf = mrecords m tr ++ mlog m sc w evs.
Proof. exact loop_is_mlog. Qed.
Print Assumptions C09_loop_is_mlog.

Theorem C09_restarted_as_fresh : forall sc sc' m t v w w',
  cfg sc m = cfg sc' m -> nmods sc = nmods sc' -> c_stages (cfg sc m) = 1 ->
  w_mod w m = fresh v false -> w_mod w' m = fresh v true ->
  let wa := fst (process sc w t (EvRestart m)) in
  let wb := fst (around sc' t m (fun s => fst (at_sim_start (nmods sc') (cfg sc' m) t m 0 s)) w') in
  snd (process sc w t (EvRestart m)) = snd (around sc' t m (fun s => fst (at_sim_start (nmods sc') (cfg sc' m) t m 0 s)) w') /\
  (forall evs evs', map fst evs = map fst evs' -> mlog m sc wa evs = mlog m sc' wb evs') /\
  (forall evs evs' tend, map fst evs = map fst evs' ->
     e_items (snd (end_rec sc tend m (mrun sc wa evs))) = e_items (snd (end_rec sc' tend m (mrun sc' wb evs')))).
Proof. exact restarted_as_fresh. Qed.
Print Assumptions C09_restarted_as_fresh.

Theorem C09_fresh_is_first_state : forall c v,
  k_inc v = 0 -> k_bud v = c_bud c -> k_nw v = None -> k_hnd v = [] -> k_catch v = c_catch c -> fresh v true = mst0 c.
Proof. exact fresh_is_mst0. Qed.
Print Assumptions C09_fresh_is_first_state.

(* shutdown_frame: consuming m's shutdown request (second half of buf_process) changes no other
   module's state -- tasks and timers included --, leaves the global slots and the error list
   alone and changes the queued events only by inserting m's restart event, every other event
   keeping its place in the dispatch order; m itself ends up inactive without tasks or timers *)
Theorem C09_shutdown_frame : forall c now m w r, shut (w_mod w m) = Some r ->
  let w' := fst (shutdown_part c now m w) in
  (forall i, i <> m -> w_mod w' i = w_mod w i) /\
  w_cur w' = w_cur w /\ w_buf w' = w_buf w /\ w_err w' = w_err w ++ (if c_rsend c then [(0, m)] else []) /\
  match r with
  | None => w_fes w' = w_fes w
  | Some t => exists l1 l2, fes_order (w_fes w) = l1 ++ l2 /\ fes_order (w_fes w') = l1 ++ (t, EvRestart m) :: l2
  end /\
  active (w_mod w' m) = false /\ ready (w_mod w' m) = [] /\ timers (w_mod w' m) = [] /\ shut (w_mod w' m) = None.
Proof. exact shutdown_frame. Qed.
Print Assumptions C09_shutdown_frame.

(* reset_panic_frame.  Module::reset is user code too; it runs while the shutdown request is consumed, under
   Harness::pass and with the event buffer's lock held by buf_process -- so every send / schedule in it panics ("Could not
   lock mutex on single thread"; [c_rsend]: the module's reset makes such a call).  That panic changes nothing of the
   shutdown / restart bookkeeping: compared with the same module whose reset does not panic ([with_rsend c false]) the
   resulting world differs in the error list only -- one PanicError more, whatever the stereotype says --, the module is
   down in the same state, the restart event is queued the same, and the record has the one reset-panic record more. *)
Theorem C09_reset_panic_frame : forall c now m w r, shut (w_mod w m) = Some r ->
  let wa := fst (shutdown_part (with_rsend c false) now m w) in
  fst (shutdown_part (with_rsend c true) now m w) = set_err wa (w_err wa ++ [(0, m)]) /\
  snd (shutdown_part (with_rsend c true) now m w) = snd (shutdown_part (with_rsend c false) now m w) ++ [IResetPanic m].
Proof. exact reset_panic_frame. Qed.
Print Assumptions C09_reset_panic_frame.

(* delivery_independent_of_m ("modules that are not shut down are unaffected"):
   (a) whether a message leaving a connection reaches its receiver depends on the active flags
       of the owners of the gates of its own chain only (sender's gate; transit gate for "far");
   (b) handle_message runs iff the receiver is active;
   (c) an event of one module never changes the state of any other module. *)
Theorem C09_delivery_independent_of_m :
  (forall k w1 w2 m far, active (w_mod w1 m) = active (w_mod w2 m) ->
     (far = true -> active (w_mod w1 (next k m)) = active (w_mod w2 (next k m))) ->
     walk k w1 m far = walk k w2 m far) /\
  (forall sc w t m x,
     (active (w_mod w m) = true -> exists l, snd (process sc w t (EvDeliver m x)) = ICall m (CbMsg x) t true :: l) /\
     (active (w_mod w m) = false -> forall c t' a, ~ In (ICall m c t' a) (snd (process sc w t (EvDeliver m x))))) /\
  (forall sc w t ev i, ev_mod ev <> Some i -> w_mod (fst (process sc w t ev)) i = w_mod w i).
Proof. split; [exact walk_depends_on_chain|split; [exact deliver_iff_active|exact process_oth]]. Qed.
Print Assumptions C09_delivery_independent_of_m.

(* every run ends: the fuel of the model's event loop is never exhausted (a potential made of budgets,
   pending events, remaining task actions, pending timers and the time driver's next_wakeup drops
   with every dispatched event) *)
Theorem C09_run_terminates : forall sc, r_ok (run_script sc) = true.
Proof. exact run_terminates. Qed.
Print Assumptions C09_run_terminates.

(* every loop state of the run is a generated state: the invariants above are about the worlds
   the simulation really goes through *)
Theorem C09_run_is_generated : forall sc, exists w tr, Gen sc w tr /\
  ((r_ok (run_script sc) = true /\ fes_fetch (w_fes w) = None /\
    exists now, trace sc = tr ++ snd (end_seq sc now (mods sc) w) /\
                r_err (run_script sc) = w_err (fst (end_seq sc now (mods sc) w))) \/
   (r_ok (run_script sc) = false /\ trace sc = tr /\ r_err (run_script sc) = w_err w)).
Proof. exact run_decomp. Qed.
Print Assumptions C09_run_is_generated.

(* Non-vacuity.  Module 0 (two start-up stages, one task that sleeps 3 ns, logs 7, sleeps 10 ns,
   logs 8) is told at t = 2 to shut down and restart in 5 ns; a message for it arrives at t = 4
   (while it is down) and another at t = 9 (after the restart). *)
Definition ex_m0 : modcfg := {| c_catch := false; c_stages := 2; c_bud := 5; c_start := [[]];
  c_msg := [[ARestartIn 5]; [ALog 1]]; c_tasks := [[ASleep 3; ALog 7; ASleep 10; ALog 8]]; c_end := []; c_join := 0; c_rsend := false |}.
Definition ex_m1 : modcfg := {| c_catch := false; c_stages := 1; c_bud := 5; c_start := [[]];
  c_msg := [[ALog 2]]; c_tasks := []; c_end := []; c_join := 0; c_rsend := false |}.
Definition ex : script :=
  {| s_mods := [ex_m0; ex_m1];
     s_inj := [(2, InjDeliver 0 0); (4, InjDeliver 0 1); (9, InjDeliver 0 1); (4, InjDeliver 1 0)] |}.

Example C09_nonvacuous :
  let tr := trace ex in
  (* the shutdown event: one reset, the old task is cancelled *)
  e_items (nth 4 tr (boot_rec ex (init_world ex))) =
    [ICall 0 (CbMsg 0) 2 true; IShut 0 0 (Some 5); ICancel 0 0; ITaskEnd 0 0 0 2; IReset 0 2 1; ISample 2 2] /\
  down_after 0 (firstn 5 tr) = true /\ pending 0 (firstn 5 tr) = Some 7 /\
  (* the old task's wake-up at 3 and the message at 4 find the module down: nothing runs *)
  map (fun e => (e_kind e, e_items e)) (firstn 2 (skipn 5 tr)) =
    [(KLoop (EvWake 0), [ISample 3 2]); (KLoop (EvDeliver 0 1), [ISample 4 2])] /\
  (* the restart at 7 = 2 + 5: both stages once, a task of incarnation 1 *)
  (let e := nth 8 tr (boot_rec ex (init_world ex)) in
   e_kind e = KLoop (EvRestart 0) /\ e_time e = 7 /\
   e_items e = [ICall 0 (CbStart 0) 7 true; ISpawn 0 0 1 false; ICall 0 (CbTask 0 1) 7 true; ICall 0 (CbStart 1) 7 true; ISample 7 3]) /\
  down_after 0 (firstn 9 tr) = false /\
  (* afterwards the module works again, and only the new incarnation's timers fire *)
  map e_items (firstn 3 (skipn 9 tr)) =
    [[ICall 0 (CbMsg 1) 9 true; ILog 0 0 1; ISample 9 3];
     [ICall 0 (CbTimer 0 1) 10 true; ILog 0 1 7; ISample 10 3];
     [ICall 0 (CbTimer 0 1) 20 true; ILog 0 1 8; ITaskEnd 0 0 1 0; ISample 20 3]] /\
  r_ok (run_script ex) = true.
Proof. vm_compute. repeat split; reflexivity. Qed.

(* Non-vacuity of the whole-trace form.  Module 0 (one stage, one task) of [fx] is restarted at t = 7 (see its trace: the
   records at 7, 9, 10 below are those of the run of [fx]); at that moment it has been reset once, has spent one unit of
   budget and still holds the JoinHandle of its first task.  [fy] is another script around the same module (another
   neighbour, other injections); in its initial world module 0 is replaced by the module freshly created around the
   kept pieces.  The restart event in the one world and the start-up step at t = 7 in the other, then a message at 9
   and the wake-up at 10 -- with different event sets left behind --, and at_sim_end write the same records. *)
Definition fx_m0 : modcfg := {| c_catch := false; c_stages := 1; c_bud := 5; c_start := [[ALog 9]];
  c_msg := [[ARestartIn 5]; [ALog 1; ASend false 2 0]]; c_tasks := [[ASleep 3; ALog 7]]; c_end := [ALog 30]; c_join := 0; c_rsend := false |}.
Definition fx_m1 : modcfg := {| c_catch := false; c_stages := 1; c_bud := 5; c_start := [[]];
  c_msg := [[ALog 2]]; c_tasks := []; c_end := []; c_join := 0; c_rsend := false |}.
Definition fy_m1 : modcfg := {| c_catch := true; c_stages := 2; c_bud := 1; c_start := [[ALog 4]];
  c_msg := [[AShutdown]]; c_tasks := [[ASleep 1]]; c_end := [ALog 5]; c_join := 1; c_rsend := false |}.
Definition fx : script := {| s_mods := [fx_m0; fx_m1]; s_inj := [(2, InjDeliver 0 0); (9, InjDeliver 0 1)] |}.
Definition fy : script := {| s_mods := [fx_m0; fy_m1]; s_inj := [(1, InjDeliver 1 0)] |}.
Definition fv : kept := {| k_inc := 1; k_bud := 4; k_nw := None; k_hnd := [(0, 0)]; k_catch := false |}.
Definition fx_w : world := set_mod (init_world fx) 0 (fresh fv false).
Definition fy_w : world := set_mod (init_world fy) 0 (fresh fv true).
Definition f_evs (f : fes) : list (N * fev * fes) := [(9, EvDeliver 0 1, f); (10, EvWake 0, f)].

Example C09_restarted_as_fresh_nonvacuous :
  let e0 := {| f_tcur := 0; f_zero := []; f_rest := [] |} in
  let wa := fst (process fx fx_w 7 (EvRestart 0)) in
  let wb := fst (around fy 7 0 (fun s => fst (at_sim_start (nmods fy) (cfg fy 0) 7 0 0 s)) fy_w) in
  map e_items (firstn 3 (skipn 5 (trace fx))) =
    [[ICall 0 (CbStart 0) 7 true; ISpawn 0 0 1 false; ILog 0 0 9; ICall 0 (CbTask 0 1) 7 true; ISample 7 3];
     [ICall 0 (CbMsg 1) 9 true; ILog 0 0 1; ISend 0 0 false 2 0; ISample 9 3];
     [ICall 0 (CbTimer 0 1) 10 true; ILog 0 1 7; ITaskEnd 0 0 1 0; ISample 10 3]] /\
  snd (process fx fx_w 7 (EvRestart 0)) = [ICall 0 (CbStart 0) 7 true; ISpawn 0 0 1 false; ILog 0 0 9; ICall 0 (CbTask 0 1) 7 true] /\
  snd (around fy 7 0 (fun s => fst (at_sim_start (nmods fy) (cfg fy 0) 7 0 0 s)) fy_w) = snd (process fx fx_w 7 (EvRestart 0)) /\
  mlog 0 fx wa (f_evs e0) = [[ICall 0 (CbMsg 1) 9 true; ILog 0 0 1; ISend 0 0 false 2 0]; [ICall 0 (CbTimer 0 1) 10 true; ILog 0 1 7; ITaskEnd 0 0 1 0]] /\
  mlog 0 fy wb (f_evs (w_fes fy_w)) = mlog 0 fx wa (f_evs e0) /\
  e_items (snd (end_rec fy 11 0 (mrun fy wb (f_evs (w_fes fy_w))))) = e_items (snd (end_rec fx 11 0 (mrun fx wa (f_evs e0)))) /\
  e_items (snd (end_rec fx 11 0 (mrun fx wa (f_evs e0)))) = [ICall 0 CbEnd 11 true; ILog 0 0 30].
Proof. vm_compute. repeat split; reflexivity. Qed.


(* ---- composition with C01: the life-cycle model over the calendar queue ----
   Every theorem above is about [run_script], which threads the SPECIFICATION of the event set ([fes]: a zero-delay
   FIFO and a time-sorted list).  The real crate runs on des-cqueue's calendar queue.  [run_script_cq n t] / [run_cq n t]
   (coq/Life/ModelCq.v) are the same event loop over the calendar-queue model of C01 (CQueue/Model.v: [cq_new_at n t 0],
   [add], [fetch_next] while [qlen] is not 0) for n buckets of width t: the callbacks are literally those of Life/Sim.v
   (Life/CqComm.v: none of them touches the event set), the event-set layer (deactivate's wake-up, buf_process, the
   restart event, message hops, the injections, the fetch of the main loop) goes through the queue.  The forward
   simulation (Life/CqSim.v, Life/CqInst.v) composes fes <-> sp + event store with sp <-> cq through the relation R of C01
   (R_add, R_fetch, R_len, R_new_at); R_add needs every add to be at or after the queue's clock, which is the
   "nothing is scheduled into the past" invariant FW of Life/Future.v. *)
Theorem C09_run_script_over_cqueue : forall n t sc, n <> 0 -> t <> 0 -> run_script_cq n t sc = run_script sc.
Proof. exact run_script_over_cqueue. Qed.
Print Assumptions C09_run_script_over_cqueue.

Theorem C09_run_over_cqueue_eq_run_over_spec : forall n t input, n <> 0 -> t <> 0 -> run_cq n t input = run input.
Proof. exact run_over_cqueue. Qed.
Print Assumptions C09_run_over_cqueue_eq_run_over_spec.

(* the same over des-cqueue's own specification type (CQueue/Spec.v [sp], with the event store) *)
Theorem C09_run_over_cqueue_spec : forall sc, run_script_sp sc = run_script sc.
Proof. exact run_over_sp_eq. Qed.
Print Assumptions C09_run_over_cqueue_spec.

(* the headline clauses, for the run over the calendar queue *)
Theorem C09_inert_while_down_cq : forall n t sc m pre e post, n <> 0 -> t <> 0 ->
  trace_cq n t sc = pre ++ e :: post -> down_after m pre = true -> starts m e = false ->
  no_run m (e_items e) /\
  (is_end e = false -> forallb (fun i => negb (of_mod m i)) (e_items e) = true).
Proof. intros n t sc m pre e post Hn Ht. rewrite trace_over_cqueue by assumption. apply inert_while_down. Qed.
Print Assumptions C09_inert_while_down_cq.

Theorem C09_restart_stages_once_at_time_cq : forall n t, n <> 0 -> t <> 0 ->
  (forall sc pre e post m, trace_cq n t sc = pre ++ e :: post -> e_kind e = KLoop (EvRestart m) ->
     pending m pre = Some (e_time e)) /\
  (forall sc m, pending m (trace_cq n t sc) = None) /\
  (forall sc e m, In e (trace_cq n t sc) -> e_kind e = KLoop (EvRestart m) ->
     (exists n, (stage_list (c_stages (cfg sc m)) <> [] -> (0 < n)%nat) /\
        map call_key (start_calls (e_items e)) =
        map (fun st => (m, st, e_time e)) (firstn n (stage_list (c_stages (cfg sc m))))) /\
     ((forall c, ~ In (IPanic m 0 c) (e_items e)) ->
        map call_key (start_calls (e_items e)) =
        map (fun st => (m, st, e_time e)) (stage_list (c_stages (cfg sc m))))).
Proof.
  intros n t Hn Ht. destruct C09_restart_stages_once_at_time as (A & B & C).
  split; [|split]; intros sc; rewrite (trace_over_cqueue n t sc Hn Ht); [apply A|apply B|apply C].
Qed.
Print Assumptions C09_restart_stages_once_at_time_cq.

(* non-vacuity: a queue of 3 buckets of width 2 on the example above (shutdown at 2, stale wake-up at 3, message to the
   down module at 4, restart at 7, the new task's timers at 10 and 20) *)
Example C09_nonvacuous_cq :
  run_script_cq 3 2 ex = run_script ex /\ length (trace_cq 3 2 ex) = length (trace ex) /\
  map e_time (trace_cq 3 2 ex) = map e_time (trace ex) /\ Nat.ltb 10 (length (trace_cq 3 2 ex)) = true.
Proof. vm_compute. repeat split; reflexivity. Qed.
