(* C18 — NDL elaboration is total and the built simulation matches the description.
   Statements only.  Models: coq/Ndl/Grammar.v (FromStr / Display of def.rs over byte strings),
   Transform.v (des-net-utils/src/ndl/mod.rs), Build.v (des/src/net/ndl/mod.rs + Gate::connect),
   Denote.v (what a description denotes), Model.v (documents: every parsed string of the YAML
   document through its FromStr, then transform, then build).  Outcomes are [Ok v], [Err kind],
   [Panic site] (an assert!/expect/index of the Rust code), [OutOfFuel]; [returns r] says r is
   Ok or Err.  [true] selects the code as it is now; [false] is the code before fix: 5295e98
   (coq/Refuted/C18.v). *)
From Coq Require Import List NArith Bool Permutation.
From DesVerif Require Import Ndl.Bytes Ndl.BytesProps Ndl.Grammar Ndl.GrammarProps Ndl.Def Ndl.Transform Ndl.Order
     Ndl.Total Ndl.Errors Ndl.Cands Ndl.Subst Ndl.Build Ndl.Denote Ndl.DenoteTree Ndl.BuildProps Ndl.BuildConns Ndl.Realisable Ndl.BuildTotal Ndl.Known Ndl.Model Ndl.Doc.
Import ListNotations.
Local Open Scope nat_scope.

(* ---- grammar_total: no input string makes a FromStr or Display of def.rs panic ---- *)
Theorem C18_grammar_total : forall s : bytes,
  returns (typclause_from_str true string_from_str s) /\
  returns (typclause_from_str true generic_from_str s) /\
  returns (generic_from_str s) /\ returns (field_from_str s) /\ returns (endpoint_from_str s).
Proof.
  intros s. repeat split.
  - apply typclause_from_str_returns. intros x. exact I.
  - apply typclause_from_str_returns. exact generic_from_str_returns.
  - apply generic_from_str_returns.
  - apply field_from_str_returns.
  - apply endpoint_from_str_returns.
Qed.
Print Assumptions C18_grammar_total.

Theorem C18_display_total : forall (t1 : TypClause bytes) (t2 : TypClause Generic),
  returns (typclause_display (fun x => x) t1) /\ returns (typclause_display generic_display t2).
Proof. intros t1 t2. split; apply typclause_display_returns. Qed.
Print Assumptions C18_display_total.

(* an endpoint that parses has at least one accessor: transform's assert!(!accessors.is_empty()) cannot fire on parsed input *)
Theorem C18_parsed_endpoint_nonempty : forall s e, endpoint_from_str s = Ok e -> e <> [].
Proof. exact endpoint_from_str_nonempty. Qed.
Print Assumptions C18_parsed_endpoint_nonempty.

(* ---- display_from_str_roundtrip on well-formed values (identifiers of letters, digits, '_'; sizes <= usize::MAX) ---- *)
Theorem C18_roundtrip_field : forall f, wf_field f -> field_from_str (field_display f) = Ok f.
Proof. exact field_roundtrip. Qed.
Print Assumptions C18_roundtrip_field.

Theorem C18_roundtrip_generic : forall g, wf_generic g -> generic_from_str (generic_display g) = Ok g.
Proof. exact generic_roundtrip. Qed.
Print Assumptions C18_roundtrip_generic.

Theorem C18_roundtrip_typclause : forall t : TypClause bytes, wf_name (tc_ident t) -> Forall wf_name (tc_args t) ->
  exists s, typclause_display (fun x => x) t = Ok s /\ typclause_from_str true string_from_str s = Ok t.
Proof.
  intros t Hn Ha. apply typclause_roundtrip; [exact Hn|]. eapply Forall_impl; [|exact Ha]. intros a. apply string_arg_ok.
Qed.
Print Assumptions C18_roundtrip_typclause.

Theorem C18_roundtrip_typclause_generics : forall t : TypClause Generic, wf_name (tc_ident t) -> Forall wf_generic (tc_args t) ->
  exists s, typclause_display generic_display t = Ok s /\ typclause_from_str true generic_from_str s = Ok t.
Proof.
  intros t Hn Ha. apply typclause_roundtrip; [exact Hn|]. eapply Forall_impl; [|exact Ha]. intros a. apply generic_arg_ok.
Qed.
Print Assumptions C18_roundtrip_typclause_generics.

Theorem C18_roundtrip_endpoint : forall e, e <> [] -> Forall wf_field e -> endpoint_from_str (endpoint_display e) = Ok e.
Proof. exact endpoint_roundtrip. Qed.
Print Assumptions C18_roundtrip_endpoint.

(* ---- transform_total ---- *)
(* the ordering loop: within (number of definitions + 1) iterations it returns UnresolvableDependency or a
   rearrangement in which every definition comes after everything it requires; never a panic, never out of fuel *)
Theorem C18_ordering_loop_terminates : forall d,
  match order_loop (S (length (d_modules d))) [] (entries d) [] with
  | Ok l => DepOrdered [] l /\ (forall e, In e l <-> In e (entries d))
  | Err k => k = K_UNRESOLVABLE_DEPENDENCY
  | _ => False
  end.
Proof.
  intros d. pose proof (order_loop_spec (S (length (d_modules d))) [] (entries d) []) as H.
  assert (Hl : length (entries d) < S (length (d_modules d))) by (unfold entries; rewrite map_length; auto).
  specialize (H Hl). destruct (order_loop _ [] (entries d) []); try exact H.
  destruct H as (l' & -> & H1 & H2). split; assumption.
Qed.
Print Assumptions C18_ordering_loop_terminates.

Theorem C18_transform_total : forall d, wf_parsed d -> returns (transform true d).
Proof. exact transform_total. Qed.
Print Assumptions C18_transform_total.

(* parsing a document (all strings through FromStr) and elaborating it: an elaborated network or an error *)
Theorem C18_document_total : forall rd, returns (elaborate_document true rd).
Proof. exact document_total. Qed.
Print Assumptions C18_document_total.

(* ---- errors_classified ---- *)
Theorem C18_unknown_type_is_unresolvable : forall fx d im s,
  In im (d_modules d) -> In s (required_symbols (fst im) (snd im)) ->
  (forall im', In im' (d_modules d) -> tc_ident (fst im') <> s) ->
  transform fx d = Err K_UNRESOLVABLE_DEPENDENCY.
Proof. exact unknown_type_unresolvable. Qed.
Print Assumptions C18_unknown_type_is_unresolvable.

(* `inherit: P` inside `Host(P <- Iface)`: the parent is looked up globally, the binding does not provide it; without a
   global definition P the result is UnresolvableDependency (never the expect("unreachable: parse order ..") of transform_module) *)
Theorem C18_inherit_of_own_binding : forall fx d im p,
  In im (d_modules d) -> md_inherit (snd im) = Some p -> is_binding (tc_args (fst im)) p = true ->
  (forall im', In im' (d_modules d) -> tc_ident (fst im') <> p) ->
  transform fx d = Err K_UNRESOLVABLE_DEPENDENCY.
Proof. exact inherit_of_own_binding_unresolvable. Qed.
Print Assumptions C18_inherit_of_own_binding.

(* required_symbols (two passes: subtract all bindings, THEN add all bounds and the parent): the bound of every type
   parameter is required even when another parameter carries the same name (`Lan(Host <- Node, Node <- Switch)` waits for
   the global Node), every other name a submodule uses is required unless the module binds it; hence the ordering loop
   places the bound's definition first and the lookup of a placeholder's interface cannot hit expect("unreachable ..") *)
Theorem C18_bounds_are_required : forall self m,
  (forall g, In g (tc_args self) -> In (g_bound g) (required_symbols self m)) /\
  (forall f t s, In (f, t) (md_subs m) -> (s = tc_ident t \/ In s (tc_args t)) -> is_binding (tc_args self) s = false ->
                 In s (required_symbols self m)).
Proof. intros self m. split; [apply bounds_are_required|apply unbound_names_are_required]. Qed.
Print Assumptions C18_bounds_are_required.

Theorem C18_shadowed_bound_without_definition : forall fx d im g,
  In im (d_modules d) -> In g (tc_args (fst im)) ->
  (forall im', In im' (d_modules d) -> tc_ident (fst im') <> g_bound g) ->
  transform fx d = Err K_UNRESOLVABLE_DEPENDENCY.
Proof. exact shadowed_bound_unresolvable. Qed.
Print Assumptions C18_shadowed_bound_without_definition.

Theorem C18_dependency_cycle_is_unresolvable : forall fx d (C : list (TypClause Generic * ModuleDef)),
  C <> [] -> incl C (d_modules d) ->
  (forall im, In im C -> exists im', In im' C /\ In (tc_ident (fst im')) (required_symbols (fst im) (snd im))) ->
  (forall im im', In im C -> In im' (d_modules d) -> tc_ident (fst im') = tc_ident (fst im) -> In im' C) ->
  transform fx d = Err K_UNRESOLVABLE_DEPENDENCY.
Proof. exact dependency_cycle_unresolvable. Qed.
Print Assumptions C18_dependency_cycle_is_unresolvable.

Theorem C18_unknown_entry : forall fx d,
  (forall im, In im (d_modules d) -> tc_ident (fst im) <> d_entry d) ->
  (forall n, transform fx d <> Ok n) /\
  (forall ordered arch, order_loop (S (length (d_modules d))) [] (entries d) [] = Ok ordered ->
                        elaborate fx ordered [] (d_links d) = Ok arch -> transform fx d = Err K_UNKNOWN_MODULE).
Proof.
  intros fx d H. split; [exact (unknown_entry_error fx d H)|].
  intros ordered arch Ho He. apply (unknown_entry_kind fx d ordered arch Ho He).
  destruct (lookup (d_entry d) arch) as [[n g]|] eqn:El; [|reflexivity]. exfalso.
  apply (unknown_entry_error fx d H n). unfold transform. rewrite Ho. cbn [bind]. rewrite He. cbn [bind]. rewrite El. reflexivity.
Qed.
Print Assumptions C18_unknown_entry.

Theorem C18_duplicate_binding : forall fx self m nodes links, has_dup_binding (tc_args self) = true ->
  transform_module fx self m nodes links = Err K_SYMBOL_ALREADY_DEFINED.
Proof. exact duplicate_binding_error. Qed.
Print Assumptions C18_duplicate_binding.

(* two submodule fields of one name and shape (own + inherited, or x[2] next to x[3]): fix a6f4ffc *)
Theorem C18_duplicate_submodule_field : forall self m nodes links gates subs,
  has_dup_binding (tc_args self) = false -> transform_gates (md_gates m) = Ok gates ->
  transform_submodules true self (md_subs m) nodes = Ok subs ->
  has_dup_field (subs ++ match md_inherit m with
                         | Some p => match lookup p nodes with Some (arch, _) => n_subs arch | None => [] end
                         | None => [] end) = true ->
  (forall p, md_inherit m = Some p -> lookup p nodes <> None) ->
  transform_module true self m nodes links = Err K_SYMBOL_ALREADY_DEFINED.
Proof. exact duplicate_submodule_field_error. Qed.
Print Assumptions C18_duplicate_submodule_field.

(* ... for ALL pairs: wherever the two fields sit among own and inherited fields, whatever lies between them *)
Theorem C18_duplicate_field_any_position : forall pre a mid b post,
  fd_ident (fst a) = fd_ident (fst b) -> same_shape (fd_kard (fst a)) (fd_kard (fst b)) = true ->
  has_dup_field (pre ++ a :: mid ++ b :: post) = true.
Proof. exact has_dup_field_any_position. Qed.
Print Assumptions C18_duplicate_field_any_position.

Theorem C18_zero_sized_gate_cluster : forall fx self m nodes links g,
  has_dup_binding (tc_args self) = false -> In g (md_gates m) -> fd_kard g = Cluster 0 ->
  transform_module fx self m nodes links = Err K_INVALID_GATE.
Proof. exact zero_sized_gate_cluster_error. Qed.
Print Assumptions C18_zero_sized_gate_cluster.

Theorem C18_zero_sized_submodule_cluster : forall fx field self typ nodes, fd_kard field = Cluster 0 ->
  transform_submodule fx field self typ nodes = Err K_INVALID_SUBMODULE.
Proof. exact zero_sized_submodule_cluster_error. Qed.
Print Assumptions C18_zero_sized_submodule_cluster.

Theorem C18_unknown_gate : forall pos acc subs gates,
  (forall g, In g gates -> fd_ident g <> fd_ident acc) ->
  transform_connection_endpoint_inner pos [acc] subs gates = Err K_UNKNOWN_GATE_IN_CONNECTION.
Proof. exact unknown_gate_error. Qed.
Print Assumptions C18_unknown_gate.

Theorem C18_unknown_submodule : forall pos acc b rest subs gates,
  (forall s, In s subs -> fd_ident (fst s) <> fd_ident acc) ->
  transform_connection_endpoint_inner pos (acc :: b :: rest) subs gates = Err K_UNKNOWN_SUBMODULE_IN_CONNECTION.
Proof. exact unknown_submodule_error. Qed.
Print Assumptions C18_unknown_submodule.

Theorem C18_index_out_of_bounds : forall def access i,
  fd_kard access = Cluster i ->
  (fd_kard def = Atom \/ exists n, fd_kard def = Cluster n /\ (n <= i)%N) ->
  iter_for_kardinality_access def access = Err K_CONNECTION_INDEX_OUT_OF_BOUNDS.
Proof.
  intros def access i Ha [Hd|(n & Hd & Hle)].
  - exact (index_into_atom_error def access i Hd Ha).
  - exact (index_out_of_bounds_error def access n i Hd Ha Hle).
Qed.
Print Assumptions C18_index_out_of_bounds.

Theorem C18_unequal_cluster_sizes : forall def subs gates links lhs rhs,
  transform_connection_endpoint (cd_lhs def) subs gates = Ok lhs ->
  transform_connection_endpoint (cd_rhs def) subs gates = Ok rhs ->
  length lhs <> length rhs ->
  transform_connection def subs gates links = Err K_UNEQUAL_PEERS.
Proof. exact unequal_cluster_sizes_error. Qed.
Print Assumptions C18_unequal_cluster_sizes.

Theorem C18_unknown_link : forall def subs gates links lhs rhs l,
  transform_connection_endpoint (cd_lhs def) subs gates = Ok lhs ->
  transform_connection_endpoint (cd_rhs def) subs gates = Ok rhs ->
  length lhs = length rhs -> cd_link def = Some l -> lookup l links = None ->
  transform_connection def subs gates links = Err K_UNKNOWN_LINK.
Proof. exact unknown_link_error. Qed.
Print Assumptions C18_unknown_link.

Theorem C18_wrong_number_of_type_arguments : forall fx field self typ nodes node reqs,
  nonzero field -> is_binding (tc_args self) (tc_ident typ) = false ->
  lookup (match tc_args typ with [] => inner_ty_to_outer_ty (tc_args self) (tc_ident typ) | _ => tc_ident typ end) nodes = Some (node, reqs) ->
  length reqs <> length (tc_args typ) ->
  transform_submodule fx field self typ nodes = Err K_INVALID_TYP_STATEMENT.
Proof.
  intros fx field self typ nodes node reqs Hz Hb Hl Hlen. destruct (tc_args typ) as [|a r] eqn:E.
  - destruct reqs as [|g gs]; [cbn in Hlen; congruence|]. eapply missing_type_arguments_error; eassumption.
  - eapply wrong_number_of_type_arguments_error; try eassumption; rewrite E; [discriminate|exact Hlen].
Qed.
Print Assumptions C18_wrong_number_of_type_arguments.

Theorem C18_generic_type_arguments : forall self_args nodes gb req name args node,
  (is_binding self_args name = true ->
   replace_loop true self_args nodes (gb :: req) (name :: args) node = Err K_GENERIC_PASSED_AS_TYP_ARGUMENT) /\
  (forall repl d ds, is_binding self_args name = false -> lookup name nodes = Some (repl, d :: ds) ->
   replace_loop true self_args nodes (gb :: req) (name :: args) node = Err K_INVALID_TYP_STATEMENT).
Proof.
  intros. split; [apply generic_passed_on_error|]. intros repl d ds. apply generic_type_as_argument_error.
Qed.
Print Assumptions C18_generic_type_arguments.

Theorem C18_arguments_on_generic_parameter : forall field self typ nodes,
  nonzero field -> tc_args typ <> [] -> is_binding (tc_args self) (tc_ident typ) = true ->
  transform_submodule true field self typ nodes = Err K_INVALID_TYP_STATEMENT.
Proof. exact arguments_on_generic_parameter_error. Qed.
Print Assumptions C18_arguments_on_generic_parameter.

Theorem C18_non_conforming_type_argument : forall fx self_args nodes gb req name args node repl iface gi,
  is_binding self_args name = false -> lookup name nodes = Some (repl, []) ->
  lookup (g_bound gb) nodes = Some (iface, gi) -> conform_to repl iface = false ->
  replace_loop fx self_args nodes (gb :: req) (name :: args) node = Err K_DOES_NOT_CONFORM.
Proof. exact non_conforming_argument_error. Qed.
Print Assumptions C18_non_conforming_type_argument.


(* ---- the substitution step of generics (all instantiations) ---- *)
(* `x: G(A1..An)`: the field gets G's archetype in which EVERY submodule field runs through the substitution
   parameter_i := elaborated A_i ([subst_field]: a field whose type is the parameter takes the argument's node,
   any other field is unchanged); gates and connections of G are kept *)
Theorem C18_substitution_every_field : forall fx field self typ nodes node reqs res,
  tc_args typ <> [] -> lookup (tc_ident typ) nodes = Some (node, reqs) ->
  (fx && is_binding (tc_args self) (tc_ident typ)) = false ->
  transform_submodule fx field self typ nodes = Ok res ->
  res = (field, mkNode (n_typ node) (map (subst_field (sigma_of nodes reqs (tc_args typ))) (n_subs node))
                       (n_gates node) (n_conns node)).
Proof. exact transform_submodule_substitutes. Qed.
Print Assumptions C18_substitution_every_field.

(* every field of parameter type -- the first, the second, the n-th use alike -- carries the argument's node *)
Theorem C18_parameter_field_gets_argument : forall sigma f n b r,
  n_typ n = b -> (forall b' r', In (b', r') ((b, r) :: sigma) -> ~ In (n_typ r') (map fst ((b, r) :: sigma))) ->
  subst_field ((b, r) :: sigma) (f, n) = (f, r).
Proof. exact subst_field_hit. Qed.
Print Assumptions C18_parameter_field_gets_argument.

(* no field keeps a placeholder (the arguments' own symbols not being parameter names) *)
Theorem C18_no_placeholder_left : forall fx self_args nodes reqs args node node',
  replace_loop fx self_args nodes reqs args node = Ok node' ->
  (forall b r, In (b, r) (sigma_of nodes reqs args) -> ~ In (n_typ r) (map g_binding reqs)) ->
  forall s, In s (n_subs node') -> ~ In (n_typ (snd s)) (map g_binding reqs).
Proof. exact no_placeholder_left. Qed.
Print Assumptions C18_no_placeholder_left.

(* a type argument that differs from the interface only deep inside a submodule subtree does not conform: some submodule
   of the interface has no tree-equal partner among the argument's submodules (equal field name and type symbol do not
   suffice: tree equality descends, [sub_eqb_needs_equal_subtrees]) -> AssignedTypDoesNotConformToInterface *)
Theorem C18_deep_mismatch_does_not_conform : forall fx self_args nodes gb req name args node repl iface gi s,
  is_binding self_args name = false -> lookup name nodes = Some (repl, []) -> lookup (g_bound gb) nodes = Some (iface, gi) ->
  In s (n_subs iface) -> (forall o, In o (n_subs repl) -> sub_eqb o s = false) ->
  replace_loop fx self_args nodes (gb :: req) (name :: args) node = Err K_DOES_NOT_CONFORM.
Proof.
  intros. eapply non_conforming_argument_error; try eassumption. eapply deep_mismatch_not_conform; eassumption.
Qed.
Print Assumptions C18_deep_mismatch_does_not_conform.

Theorem C18_tree_equality_descends : forall f f' t t' subs subs' g g' c c',
  sub_eqb (f, mkNode t subs g c) (f', mkNode t' subs' g' c') = true ->
  length subs = length subs' /\ forall i a b, nth_error subs i = Some a -> nth_error subs' i = Some b -> sub_eqb a b = true.
Proof. exact sub_eqb_needs_equal_subtrees. Qed.
Print Assumptions C18_tree_equality_descends.

(* a definition's error is transform's error when everything before it elaborates *)
Theorem C18_first_error_is_reported : forall fx pre e post arch arch' links k,
  elaborate fx pre arch links = Ok arch' ->
  transform_module fx (fst (fst e)) (snd (fst e)) arch' links = Err k ->
  elaborate fx (pre ++ e :: post) arch links = Err k.
Proof. exact elaborate_first_error. Qed.
Print Assumptions C18_first_error_is_reported.

(* what the runners print on failure (the kinds any hash-map order can surface) versus transform in document order *)
Theorem C18_error_is_candidate : forall fx d k, transform fx d = Err k -> In k (cands fx d).
Proof. exact transform_err_in_cands. Qed.
Print Assumptions C18_error_is_candidate.

Theorem C18_ok_iff_no_candidate : forall d, wf_parsed d ->
  ((exists n, transform true d = Ok n) <-> cands true d = []).
Proof.
  intros d Hwf. split.
  - intros (n & H). exact (transform_ok_cands_nil true d n H).
  - intros H. exact (cands_nil_transform_ok true d (transform_total d Hwf) H).
Qed.
Print Assumptions C18_ok_iff_no_candidate.

(* ---- build_matches_denotation ---- *)
(* (1) descriptions with distinct definition names -- generic definitions and their instantiations included:
   the elaborated tree is exactly the tree the description denotes top-down (Denote.den_node) *)
Theorem C18_tree_is_denotation : forall d n,
  NoDup (names d) -> transform true d = Ok n -> denote_tree d = Some n.
Proof. exact transform_is_denotation. Qed.
Print Assumptions C18_tree_is_denotation.

(* (2) when the build succeeds, the simulation's modules (paths with symbols) and gates are exactly the
   flattening of the tree, and every symbol is one the registry knows *)
Theorem C18_build_modules_gates : forall registered n st, build registered n = Ok st ->
  bs_mods st = den_mods n [] /\ state_gates st = den_gates n [] /\
  (forall p s, In (p, s) (bs_mods st) -> registered s = true).
Proof.
  intros registered n st H. destruct (build_modules_gates registered n st H) as [H1 H2].
  split; [exact H1|]. split; [exact H2|]. exact (build_symbols_registered registered n st H).
Qed.
Print Assumptions C18_build_modules_gates.

(* (3) ... and its connections -- read gate by gate, both slots, with the link parameters of the channel --
   are, up to order, the connection set the tree's statements denote *)
Theorem C18_build_connections : forall registered n st, build registered n = Ok st ->
  Permutation (state_edges st) (conn_set (den_conns n []) []).
Proof. exact build_connections. Qed.
Print Assumptions C18_build_connections.

(* (1)+(2)+(3): when elaboration and build succeed, the simulation contains exactly the modules (paths,
   registered symbols), gates and connections with link parameters that the description denotes *)
Theorem C18_build_matches_denotation : forall registered d n st,
  NoDup (names d) ->
  transform true d = Ok n -> build registered n = Ok st ->
  exists dn, denote_tree d = Some dn /\
    bs_mods st = fst (fst (denotation dn)) /\
    state_gates st = snd (fst (denotation dn)) /\
    Permutation (state_edges st) (snd (denotation dn)) /\
    (forall p s, In (p, s) (bs_mods st) -> registered s = true).
Proof.
  intros registered d n st Hnd Ht Hb. exists n. split; [exact (transform_is_denotation d n Hnd Ht)|].
  destruct (build_modules_gates registered n st Hb) as [H1 H2]. unfold denotation. cbn [fst snd].
  split; [exact H1|]. split; [exact H2|]. split; [exact (build_connections registered n st Hb)|].
  exact (build_symbols_registered registered n st Hb).
Qed.
Print Assumptions C18_build_matches_denotation.

(* (4) build_succeeds_when_realisable, on the elaborated tree.  [realisable registered n] (Realisable.v, executable):
   every connection endpoint of every node names a chain of submodule fields (indices fitting the fields' shapes) and
   a gate position of the tree, no node has two submodule fields of one name and shape, every symbol is registered,
   and -- going through the connection statements in build order -- no statement connects a position to itself and none
   gives a position a third peer.  Such a tree is built: no panic site of des/src/net/ndl/mod.rs or Gate::connect is
   reached and the registry never misses *)
Theorem C18_realisable_builds : forall registered n,
  realisable registered n = true -> exists st, build registered n = Ok st.
Proof. exact realisable_builds. Qed.
Print Assumptions C18_realisable_builds.

(* read backwards: "cannot crate module .. already exists", expect("child"), expect("gate"), "Cannot connect gate to
   itself", "allready connected to multiple points" and MissingRegistrySymbol are reached only by non-realisable trees *)
Theorem C18_build_failure_not_realisable : forall registered n,
  (forall st, build registered n <> Ok st) -> realisable registered n = false.
Proof. exact build_failure_not_realisable. Qed.
Print Assumptions C18_build_failure_not_realisable.

(* on the description: outside the known class F11c (Known.v: the description elaborates to a tree with an endpoint
   that does not resolve or a duplicated field; witness in Refuted/C18.v), successful elaboration + registered symbols +
   realisable wiring give a successful build *)
Theorem C18_build_succeeds_when_realisable : forall registered d n,
  ~ KnownClass d -> transform true d = Ok n ->
  forallb (fun m => registered (snd m)) (den_mods n []) = true -> wiring_ok (den_conns n []) [] = true ->
  exists st, build registered n = Ok st.
Proof. exact build_succeeds_when_realisable. Qed.
Print Assumptions C18_build_succeeds_when_realisable.

(* Left open (full statements; all three are evaluated on every generated document: the runner prints [den] = 1 only
   if the tree is realisable, a failing build of a realisable tree would be flagged, and the monitor accepts a
   missing-gate / missing-child panic only for descriptions of the syntactic shape):
   - known_class_is_narrow_partial:  forall d, KnownClass d -> f11c_shape d = true
     (i.e. transform's output is tree_ok unless an inherited submodule's type is named like a type parameter);
   - realisable_necessary_partial:  forall registered n st, build registered n = Ok st -> realisable registered n = true. *)

(* ---- non-vacuity ---- *)
Local Open Scope N_scope.
(* entry M0; M0 { a: M1, b[2]: M1; a/p <-> b[0]/p (L0), b[1]/p <-> b[0]/q[1] }; M1 { p, q[2] }; L0 = 100us/5us/1000 *)
Example C18_example_builds :
  exists out, run [1; 1; 2; 77; 48; 2;
                   2; 77; 48; 0; 0; 2; 1; 97; 2; 77; 49; 4; 98; 91; 50; 93; 2; 77; 49;
                      2; 3; 97; 47; 112; 6; 98; 91; 48; 93; 47; 112; 1; 2; 76; 48;
                         6; 98; 91; 49; 93; 47; 112; 9; 98; 91; 48; 93; 47; 113; 91; 49; 93; 0;
                   2; 77; 49; 0; 2; 1; 112; 4; 113; 91; 50; 93; 0; 0;
                   1; 2; 76; 48; 100; 5; 1000; 0] = 1 :: out /\ In 5 out /\ last out 0 = 1.
Proof. eexists. split; [vm_compute; reflexivity|]. split; [vm_compute; tauto|reflexivity]. Qed.

(* the same with the link name misspelt: UnknownLink (kind 4) *)
Example C18_example_unknown_link :
  run [1; 1; 2; 77; 48; 2;
       2; 77; 48; 0; 0; 2; 1; 97; 2; 77; 49; 4; 98; 91; 50; 93; 2; 77; 49;
          1; 3; 97; 47; 112; 6; 98; 91; 48; 93; 47; 112; 1; 2; 76; 49;
       2; 77; 49; 0; 2; 1; 112; 4; 113; 91; 50; 93; 0; 0;
       1; 2; 76; 48; 100; 5; 1000; 0] = [2; 4].
Proof. vm_compute. reflexivity. Qed.

(* M0 { pair: M1(M3) }; M1(T0 <- M2) { left: T0, right[2]: T0 }; M2 { port }; M3: inherit M2 { up }:
   both fields of M1's instance are M3 nodes (77 51 = "M3"; no 84 48 = "T0" left) *)
Example C18_example_parameter_used_twice :
  exists rest, run [1; 1; 2; 77; 48; 4; 2; 77; 48; 0; 0; 1; 4; 112; 97; 105; 114; 6; 77; 49; 40; 77; 51; 41; 0; 12; 77; 49; 40; 84; 48; 32; 60; 45; 32; 77; 50; 41; 0; 0; 2; 4; 108; 101; 102; 116; 2; 84; 48; 8; 114; 105; 103; 104; 116; 91; 50; 93; 2; 84; 48; 0; 2; 77; 50; 0; 1; 4; 112; 111; 114; 116; 0; 0; 2; 77; 51; 1; 2; 77; 50; 1; 2; 117; 112; 0; 0; 0; 1] =
    [1; 2; 77; 48; 0; 1; 4; 112; 97; 105; 114; 0; 2; 77; 49; 0; 2; 4; 108; 101; 102; 116; 0; 2; 77; 51; 2; 2; 117; 112; 0; 4; 112; 111; 114; 116; 0; 0; 0; 5; 114; 105; 103; 104; 116; 3; 2; 77; 51; 2; 2; 117; 112; 0; 4; 112; 111; 114; 116; 0; 0; 0; 0; 0] ++ rest.
Proof. eexists. vm_compute. reflexivity. Qed.
