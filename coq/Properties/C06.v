(* C06 — All runnable async work finishes within the simulated instant that enabled it.
   Statements only.

   AS STATED ("however many tasks or wake-ups the instant involves") THE PROPERTY IS FALSE
   of the pinned code (finding F4, Refuted/C06.v): one module callback is one
   LocalSet::block_on(rt, async { f(); yield_now().await }), which gives the module's
   tasks ONE LocalSet tick (at most MAX_TASKS_PER_TICK = 61 polls) and ONE scheduler turn
   (at most event_interval = 61 polls), each poll under the cooperative budget of 128
   resource operations; what is still runnable afterwards runs at the module's next
   callback, at a later simulated time.

   What is proved here, for ALL values of the three budgets and ALL task systems of the
   model's language (Exec/Model.v: tasks are finite scripts over Log | Recv | Send t |
   Join t | Yield | End, spawned with spawn_local or tokio::spawn by the callback, one
   unbounded channel per task, JoinHandles, yield_now; callbacks = at_sim_start, messages
   handled by handle_message, messages CONSUMED by a processing element -- whose hooks run
   outside the runtime and may wake tasks through channels, tokio::spawn tasks then going
   through the scheduler's inject queue -- and the tear-down; every one of them drives the
   runtime with one Harness::exec, the consumed message with exec of an empty callback; a
   callback may request shutdown() / shutdow_and_restart_in(d): its exec runs as usual, then
   the runtime is dropped and replaced, messages are ignored until the restart replays
   at_sim_start):

   [KnownClass x] = the event x (budgets, instant, callback actions, state of the task
   system) is over budget: the first round of the executor WITHOUT budgets (one unbounded
   LocalSet tick, one unbounded scheduler turn) needs more than b_local / b_rt polls, or
   some poll attempts more than b_coop resource operations, or yields, or a LocalSet task
   is woken after the LocalSet's tick.  The main theorem has the form
   forall x, ~ KnownClass x -> P x. *)
From Coq Require Import List NArith.
From DesVerif Require Import Exec.Model Exec.Basics Exec.Measure Exec.Mode Exec.Budget Exec.Converse Exec.Wake Exec.Segments Exec.Witness.
Import ListNotations.
Open Scope N_scope.

(* The executor without budgets -- rounds of (LocalSet tick, scheduler turn) without poll
   limit and without cooperative budget, a yield re-queueing at once, repeated until no
   task is runnable -- terminates on every task system (its fuel, the measure of the
   state, is never exhausted) and ends with every queue empty. *)
Theorem C06_ideal_executor_reaches_quiescence : forall now acts s,
  exists s', ideal_event now acts s = Some s' /\ quiescent s' = true.
Proof. exact ideal_event_quiescent. Qed.
Print Assumptions C06_ideal_executor_reaches_quiescence.

(* quiescent_if_within_budget: outside the known class, the bounded executor (tokio's
   phases with budgets b_local, b_rt, b_coop and deferred wakes) returns with all queues
   empty and its result -- final state including the whole log, and what every poll did --
   is exactly that of the executor without budgets. *)
Theorem C06_quiescent_if_within_budget : forall x, ~ KnownClass x ->
  queue_after x = [] /\
  ideal_event (e_now x) (e_acts x) (e_st x) = Some (fst (fst (exec_bounded x))) /\
  exec_bounded x = ideal_first x.
Proof. exact quiescent_if_within_budget. Qed.
Print Assumptions C06_quiescent_if_within_budget.

(* the class is exactly "does not fit": [fits] spells out the five conditions *)
Theorem C06_known_class_is_over_budget : forall x,
  (KnownClass x -> ~ fits (e_b x) (snd (fst (ideal_first x))) (snd (ideal_first x))) /\
  (~ KnownClass x -> fits (e_b x) (snd (fst (ideal_first x))) (snd (ideal_first x))).
Proof.
  intros x. split; [intros Hk Hf; exact (within_not_known x Hf Hk)|exact (not_known_within x)].
Qed.
Print Assumptions C06_known_class_is_over_budget.

(* whenever the bounded executor returns with a task still queued, the event is in the class *)
Theorem C06_leftover_only_in_known_class : forall x, queue_after x <> [] -> KnownClass x.
Proof. exact leftover_known. Qed.
Print Assumptions C06_leftover_only_in_known_class.

(* The class is tight: an event of the class ALWAYS leaves work behind (a task still queued
   or a deferred task re-queued at the park).  So, for every event, every state and every
   value of the budgets: the bounded executor returns quiescent iff the event fits. *)
Theorem C06_quiescent_iff_within_budget : forall x, queue_after x = [] <-> ~ KnownClass x.
Proof. exact quiescent_iff_within_budget. Qed.
Print Assumptions C06_quiescent_iff_within_budget.

(* budget_monotone: larger budgets never change an event that fits *)
Theorem C06_budget_monotone : forall x b', ~ KnownClass x -> ble (e_b x) b' ->
  ~ KnownClass (with_budgets b' x) /\ exec_bounded (with_budgets b' x) = exec_bounded x.
Proof. exact budget_monotone. Qed.
Print Assumptions C06_budget_monotone.

(* await_observes_enabling_instant.  Every queue entry carries a wake record: the instant at
   which the task was made runnable (spawned; message sent to its channel while it awaited
   recv; awaited task finished; deferred wake).  A poll is logged as (task, woken, now).
   In a run of the bounded executor in which no event is in the known class, every poll
   has woken = now: the code that follows an await runs in, and observes, the instant
   that satisfied the await. *)
Theorem C06_await_observes_enabling_instant : forall b g ts start evs,
  run_within b g ts start evs -> polls_timely (run_model b g ts start evs).
Proof. exact await_observes_enabling_instant. Qed.
Print Assumptions C06_await_observes_enabling_instant.

(* ... and the time an operation (Log, completed Recv / Join / Yield, ...) records is the
   time of the poll it runs in: in the log read backwards, every operation record
   (task, t) directly follows the poll record of that task at t or another operation
   record of the same poll.  (Unconditional.) *)
Theorem C06_ops_within_their_poll : forall b g ts start evs, ops_ok (rev (run_model b g ts start evs)).
Proof. exact ops_within_their_poll. Qed.
Print Assumptions C06_ops_within_their_poll.

(* Independently of the budgets: one Harness::exec that STARTS with empty queues only
   polls tasks made runnable during that same exec.  Late polls can therefore only be of
   tasks left behind by an earlier, over-budget, event. *)
Theorem C06_exec_from_quiescence_is_timely : forall bl br c now now0 acts s,
  inv now0 s -> quiescent s = true -> polls_timely (trace (ee_st (exec_event bl br c now acts s))).
Proof. exact exec_from_quiescent_timely. Qed.
Print Assumptions C06_exec_from_quiescence_is_timely.

(* The consumed-message path (ModuleRef::handle_message when a processing element returns
   None): the element's hooks wake tasks outside the runtime, then exec(|| {}) drives it.
   Starting from empty queues, every task polled in that exec was made runnable by those
   hooks (or during the exec): nothing woken by a consuming element waits for a later event,
   as long as the exec itself fits the budgets (main theorem). *)
Theorem C06_consumed_message_is_driven : forall bl br c now now0 pre s,
  inv now0 s -> quiescent s = true ->
  polls_timely (trace (ee_st (exec_event bl br c now [] (pre_hooks now pre s)))).
Proof. exact consumed_event_timely. Qed.
Print Assumptions C06_consumed_message_is_driven.

(* A callback that requests a shutdown drives the runtime exactly as it would without the
   request (tasks it woke are polled in that event, before buf_process tears the runtime
   down): the exec of the callback's actions = the exec of the actions minus the request. *)
Theorem C06_shutdown_request_keeps_exec : forall bl br c now acts s,
  exec_event bl br c now acts s = exec_event bl br c now (no_shutdown acts) s.
Proof. exact shutdown_request_keeps_exec. Qed.
Print Assumptions C06_shutdown_request_keeps_exec.

(* Non-vacuity: tokio's budgets (global_queue_interval 31); a wake chain through both
   executors inside one instant.  Task 0 (tokio::spawn) sends to task 1 (spawn_local) --
   which was polled before, in the LocalSet tick, and awaits its channel -- so this event is
   in the known class ... *)
Definition tokio_budgets : budgets := {| b_local := 61; b_rt := 61; b_coop := 128 |}.

Example C06_cross_executor_chain_is_over_budget :
  let ts := [(false, [Log; Send 1]); (true, [Recv; Log])] in
  let evs := [(5, false, [], [Spawn 0; Spawn 1]); (7, false, [], [])] in
  run_model tokio_budgets 31 ts [] evs =
  [RStart 0; RClose 4 0 0 false; REvent 0 5; RPoll 1 5 5; RPoll 0 5 5; ROp 0 5; ROp 0 5; RClose 4 1 1 true;
   REvent 1 12; RPoll 1 5 12; ROp 1 12; ROp 1 12; RClose 4 1 0 false; RClose 5 0 0 false].
Proof. vm_compute. reflexivity. Qed.

(* ... whereas a chain  spawn_local 0 -> spawn_local 1 -> tokio::spawn 3 -> join by
   tokio::spawn 2  fits (LocalSet tick first, scheduler turn second): all of it runs at
   instant 12, the run is outside the class, and the theorems apply.  With a yield_now in
   task 3 the same chain is over budget and completes only at instant 15.  Tasks 1..3 are
   spawned by at_sim_start. *)
Definition chain_tasks (y : list op) : list (bool * list op) :=
  [(true, [Log; Send 1; Send 2]); (true, [Recv; Log; Send 3]); (false, [Recv; Log; Join 3; Log]); (false, [Recv] ++ y ++ [Log])].
Definition chain_start : list act := [Spawn 1; Spawn 2; Spawn 3].
Definition chain_events : list mevent := [(12, false, [], [Spawn 0]); (3, false, [], [])].

Example C06_nonvacuous :
  run_within tokio_budgets 31 (chain_tasks []) chain_start chain_events /\
  run_model tokio_budgets 31 (chain_tasks []) chain_start chain_events =
  [RStart 0; RPoll 1 0 0; RPoll 2 0 0; RPoll 3 0 0; RClose 4 1 2 false;
   REvent 0 12; RPoll 0 12 12; ROp 0 12; ROp 0 12; ROp 0 12; RPoll 1 12 12; ROp 1 12; ROp 1 12; ROp 1 12;
   RPoll 2 12 12; ROp 2 12; ROp 2 12; RPoll 3 12 12; ROp 3 12; ROp 3 12; RPoll 2 12 12; ROp 2 12; ROp 2 12;
   RClose 4 2 3 false; REvent 1 15; RClose 4 0 0 false; RClose 5 0 0 false].
Proof.
  split; [|vm_compute; reflexivity].
  unfold run_within, chain_events. cbn [all_within]. repeat split; try exact I;
    try (intro H; vm_compute in H; discriminate); vm_compute; try exact I; intro H; discriminate.
Qed.

Example C06_yield_is_over_budget :
  run_model tokio_budgets 31 (chain_tasks [Yield]) chain_start chain_events =
  [RStart 0; RPoll 1 0 0; RPoll 2 0 0; RPoll 3 0 0; RClose 4 1 2 false;
   REvent 0 12; RPoll 0 12 12; ROp 0 12; ROp 0 12; ROp 0 12; RPoll 1 12 12; ROp 1 12; ROp 1 12; ROp 1 12;
   RPoll 2 12 12; ROp 2 12; ROp 2 12; RPoll 3 12 12; ROp 3 12; RClose 4 2 2 true;
   REvent 1 15; RPoll 3 12 15; ROp 3 15; ROp 3 15; RPoll 2 15 15; ROp 2 15; ROp 2 15; RClose 4 0 2 false;
   RClose 5 0 0 false].
Proof. vm_compute. reflexivity. Qed.

(* A message consumed by a processing element whose incoming hook sends to task 0
   (tokio::spawn: inject queue) and task 1 (spawn_local): handle_message is not called (its
   actions are ignored), the exec of the empty callback polls both at instant 5; the next
   message is passed on, its hook wakes task 0 again. *)
Example C06_consumed_message_nonvacuous :
  let ts := [(false, [Recv; Log; Recv; Log]); (true, [Recv; Log])] in
  let evs := [(5, true, [ASend 0; ASend 1], [ASend 0]); (7, false, [ASend 0], [])] in
  run_within tokio_budgets 31 ts [Spawn 0; Spawn 1] evs /\
  run_model tokio_budgets 31 ts [Spawn 0; Spawn 1] evs =
  [RStart 0; RPoll 1 0 0; RPoll 0 0 0; RClose 4 1 1 false;
   REvent 0 5; RPoll 1 5 5; ROp 1 5; ROp 1 5; RPoll 0 5 5; ROp 0 5; ROp 0 5; RClose 4 1 1 false;
   REvent 1 12; RPoll 0 12 12; ROp 0 12; ROp 0 12; RClose 4 0 1 false; RClose 5 0 0 false].
Proof.
  split; [|vm_compute; reflexivity].
  unfold run_within. cbn [all_within]. repeat split; try exact I;
    try (intro H; vm_compute in H; discriminate); vm_compute; try exact I; intro H; discriminate.
Qed.

(* handle_message at instant 2 sends to tasks 0 and 1 and calls shutdow_and_restart_in(5):
   both are polled at 2, then the runtime is replaced (RReset); the messages at 3 and 7 find
   the module inactive (the restart event at 7 is queued behind the message scheduled for 7);
   at_sim_start runs again at 7 and spawns fresh tasks; the message at 8 is handled. *)
Example C06_wake_and_shutdown_nonvacuous :
  let ts := [(false, [Recv; Log; Recv; Log]); (true, [Recv; Log])] in
  let evs := [(1, false, [], [ASend 0]); (1, false, [], [ASend 0; ASend 1; AShutdown (Some 5)]);
              (1, false, [], [ASend 0]); (4, false, [], [ASend 0]); (1, false, [], [ASend 1])] in
  run_within tokio_budgets 31 ts [Spawn 0; Spawn 1] evs /\
  run_model tokio_budgets 31 ts [Spawn 0; Spawn 1] evs =
  [RStart 0; RPoll 1 0 0; RPoll 0 0 0; RClose 4 1 1 false;
   REvent 0 1; RPoll 0 1 1; ROp 0 1; ROp 0 1; RClose 4 0 1 false;
   REvent 1 2; RPoll 1 2 2; ROp 1 2; ROp 1 2; RPoll 0 2 2; ROp 0 2; ROp 0 2; RClose 4 1 1 false;
   RReset 2; RStart 7; RPoll 1 7 7; RPoll 0 7 7; RClose 4 1 1 false;
   REvent 4 8; RPoll 1 8 8; ROp 1 8; ROp 1 8; RClose 4 1 0 false; RClose 5 0 0 false].
Proof.
  split; [|vm_compute; reflexivity].
  unfold run_within. cbn [all_within]. repeat split; try exact I;
    try (intro H; vm_compute in H; discriminate); vm_compute; try exact I; intro H; discriminate.
Qed.
