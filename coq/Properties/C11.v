(* C11 — Runtime limits stop the run exactly where specified without losing events.
   Statements only.  The model is coq/Runtime/Model.v with the [repaired]
   variant: dispatch_event decides the limit on the timestamp of the next event
   without removing it; the future event set is the two-list specification of
   C01.  [boot S B L pre] is Builder::build with start time S and limit L
   followed by the pre-run add_event calls [pre] (B is the action budget of the
   scripted handlers P); [dispatch_all repaired P] is the event loop of
   Runtime::run; [log] the list of (label, SimTime::now()) written by the
   handlers; [lprefix L i sg] the longest prefix of [sg] no element of which, at
   its 1-based position counted from i, satisfies RuntimeLimit::applies. *)
From Coq Require Import List NArith Bool Sorting.Sorted Permutation.
From DesVerif Require Import CQueue.Spec Runtime.Limit Runtime.Model Runtime.Queue Runtime.Inv Runtime.Prefix.
Import ListNotations.
Open Scope N_scope.

(* For every program, start time, pre-run schedule and every limit tree: the
   run with the limit handles exactly the longest admissible prefix of what the
   run without a limit handles (same events, same order, same times).  Both
   event loops terminate (the results are [Some]). *)
Theorem C11_limited_log_is_longest_admissible_prefix :
  forall (P : prog) (S B : N) (pre : list (N * N)) (L : lim),
  exists u a,
    dispatch_all repaired P (boot S B LNone pre) = Some u /\
    dispatch_all repaired P (boot S B L pre) = Some a /\
    log a = lprefix L 0 (log u).
Proof. exact limited_log_is_longest_admissible_prefix. Qed.
Print Assumptions C11_limited_log_is_longest_admissible_prefix.

(* [lprefix] is what its name says: a prefix; every element of it is admitted at
   its position; the element after it (if any) makes the limit apply; and every
   admissible prefix of the sequence is a prefix of it. *)
Theorem C11_longest_admissible_prefix_spec :
  forall (L : lim) (i : N) (sg : list (N * N)),
  (exists rest, sg = lprefix L i sg ++ rest /\
     match rest with
     | [] => True
     | e :: _ => applies L (i + N.of_nat (length (lprefix L i sg)) + 1) (snd e) = true
     end) /\
  (forall k e, nth_error (lprefix L i sg) k = Some e -> applies L (i + N.of_nat k + 1) (snd e) = false) /\
  (forall p rest, sg = p ++ rest ->
     (forall k e, nth_error p k = Some e -> applies L (i + N.of_nat k + 1) (snd e) = false) ->
     exists r', lprefix L i sg = p ++ r').
Proof.
  intros L i sg. split; [apply lprefix_prefix|]. split; [apply lprefix_admissible|].
  intros p rest -> Ha. apply lprefix_longest. exact Ha.
Qed.
Print Assumptions C11_longest_admissible_prefix_spec.

(* Nothing is lost: every accepted add_event (before the run or inside a
   handler) is, as a (time, label) pair, either handled -- at exactly that time
   -- or returned in [remaining] (the sorted drain of the event set); the end
   time is the time of the last handled event (the start time if none); the
   event count is the number of handled events; handled times never decrease. *)
Theorem C11_nothing_lost :
  forall (P : prog) (S B : N) (pre : list (N * N)) (L : lim) (a : rt),
  dispatch_all repaired P (boot S B L pre) = Some a ->
  Permutation (accepted (adds a)) (handled (log a) ++ isort (pend (fes a))) /\
  ple_sorted (isort (pend (fes a))).
Proof. intros P S B pre L a H. destruct (limited_run_accounting P S B pre L a H) as [H1 [H2 _]]. split; assumption. Qed.
Print Assumptions C11_nothing_lost.

Theorem C11_end_time_and_count :
  forall (P : prog) (S B : N) (pre : list (N * N)) (L : lim) (a : rt),
  dispatch_all repaired P (boot S B L pre) = Some a ->
  finish a = OFinal (N.of_nat (length (log a))) (last (map snd (log a)) S) (log a) (adds a) (isort (pend (fes a))).
Proof.
  intros P S B pre L a H. destruct (limited_run_accounting P S B pre L a H) as [_ [_ [H3 [H4 _]]]].
  unfold finish. rewrite H3, H4. reflexivity.
Qed.
Print Assumptions C11_end_time_and_count.

(* EventCount(n): exactly the first min(n, available) events *)
Theorem C11_event_count_limit :
  forall (P : prog) (S B : N) (pre : list (N * N)) (n : N),
  exists u a, dispatch_all repaired P (boot S B LNone pre) = Some u /\
              dispatch_all repaired P (boot S B (LCount n) pre) = Some a /\
              log a = firstn (N.to_nat n) (log u).
Proof. exact count_limit_run. Qed.
Print Assumptions C11_event_count_limit.

(* SimTime(T): every event with timestamp <= T and none later *)
Theorem C11_time_limit :
  forall (P : prog) (S B : N) (pre : list (N * N)) (T : N),
  exists u a, dispatch_all repaired P (boot S B LNone pre) = Some u /\
              dispatch_all repaired P (boot S B (LTime T) pre) = Some a /\
              log a = filter (fun e => snd e <=? T) (log u).
Proof. exact time_limit_run. Qed.
Print Assumptions C11_time_limit.

(* And / Or: [applies] is the conjunction / disjunction of the two conditions,
   so by the first theorem the run stops at the first event where the logical
   combination holds; in terms of the two component runs, Or stops where the
   earlier one stops and And where the later one stops. *)
Theorem C11_and_or :
  (forall a b i t, applies (LAnd a b) i t = applies a i t && applies b i t) /\
  (forall a b i t, applies (LOr a b) i t = applies a i t || applies b i t) /\
  forall (P : prog) (S B : N) (pre : list (N * N)) (la lb : lim),
  exists a b o n,
    dispatch_all repaired P (boot S B la pre) = Some a /\ dispatch_all repaired P (boot S B lb pre) = Some b /\
    dispatch_all repaired P (boot S B (LOr la lb) pre) = Some o /\
    dispatch_all repaired P (boot S B (LAnd la lb) pre) = Some n /\
    length (log o) = Nat.min (length (log a)) (length (log b)) /\
    length (log n) = Nat.max (length (log a)) (length (log b)).
Proof. split; [reflexivity|]. split; [reflexivity|]. exact and_or_run. Qed.
Print Assumptions C11_and_or.

(* The Boolean algebra of the limit trees, up to "stops every run at the same place". *)
Theorem C11_limit_algebra :
  (forall a b, leqv (LAnd a b) (LAnd b a)) /\ (forall a b, leqv (LOr a b) (LOr b a)) /\
  (forall a b c, leqv (LAnd a (LAnd b c)) (LAnd (LAnd a b) c)) /\ (forall a b c, leqv (LOr a (LOr b c)) (LOr (LOr a b) c)) /\
  (forall a, leqv (LAnd a a) a) /\ (forall a, leqv (LOr a a) a) /\
  (forall a b c, leqv (LAnd a (LOr b c)) (LOr (LAnd a b) (LAnd a c))) /\
  (forall a b c, leqv (LOr a (LAnd b c)) (LAnd (LOr a b) (LOr a c))) /\
  (forall a b, leqv (LAnd a (LOr a b)) a) /\ (forall a b, leqv (LOr a (LAnd a b)) a) /\
  (forall a, leqv (LOr LNone a) a) /\ (forall a, leqv (LAnd LNone a) LNone) /\
  (forall l i t i' t', i <= i' -> t <= t' -> applies l i t = true -> applies l i' t' = true).
Proof.
  split; [exact land_comm|]. split; [exact lor_comm|]. split; [exact land_assoc|]. split; [exact lor_assoc|].
  split; [exact land_idem|]. split; [exact lor_idem|]. split; [exact land_lor_distr|]. split; [exact lor_land_distr|].
  split; [exact land_absorb|]. split; [exact lor_absorb|]. split; [exact lor_none_l|]. split; [exact land_none_l|].
  exact applies_mono.
Qed.
Print Assumptions C11_limit_algebra.

(* Builder::max_itr / max_time / limit, called in any mix and order, give a
   limit that applies exactly when one of the given limits applies. *)
Theorem C11_builder_composes_with_or :
  forall (cs : list bcall) (i t : N),
  applies (build_limit cs) i t = existsb (fun c => applies (lim_of c) i t) cs.
Proof. exact build_limit_or. Qed.
Print Assumptions C11_builder_composes_with_or.

(* The event loop terminates for every script: no output record of the three
   runs of [run_script] is the out-of-fuel record. *)
Theorem C11_run_total : forall sc : script, ~ In OFuel (run_script repaired sc).
Proof. exact run_total. Qed.
Print Assumptions C11_run_total.

(* Non-vacuity: three events at time 5 (a tie) and one at 9; the handler of
   label 0 schedules label 3 with zero delay and label 4 two units later.
   Limit (EventCount(2) and SimTime(6)) or SimTime(8): stops after the tie
   group, keeping the events at 7 and 9 as remaining. *)
Example C11_nonvacuous :
  let P := [[(0, 0, 3); (0, 2, 4)]] in
  let pre := [(5, 0); (5, 1); (9, 2); (5, 1)] in
  let L := LOr (LAnd (LCount 2) (LTime 6)) (LTime 8) in
  option_map log (dispatch_all repaired P (boot 0 10 LNone pre)) = Some [(0, 5); (3, 5); (1, 5); (1, 5); (4, 7); (2, 9)] /\
  option_map log (dispatch_all repaired P (boot 0 10 L pre)) = Some [(0, 5); (3, 5); (1, 5); (1, 5)] /\
  option_map (fun a => isort (pend (fes a))) (dispatch_all repaired P (boot 0 10 L pre)) = Some [(7, 4); (9, 2)] /\
  option_map log (dispatch_all repaired P (boot 0 10 (LCount 2) pre)) = Some [(0, 5); (3, 5)].
Proof. vm_compute. repeat split. Qed.

From DesVerif Require Import Runtime.ModelCq Runtime.Compose Runtime.ComposeProps.

(* ---------------------------------------------------------------------------
   The same for the runtime over the CALENDAR QUEUE.  Runtime/ModelCq.v is the
   runtime model threading the concrete queue state of des-cqueue (cq_new_at n t
   start, add, peek_time, fetch_next, len) for the parameters n, t of
   Builder::cqueue_options; Runtime/Compose.v proves by forward simulation
   (queue part: the refinement relation of C01) that it prints exactly what the
   model over the specification prints.  [run_gen_cq repaired] is what the
   extracted runner executes in the differential check. *)
Theorem C11_run_over_cqueue_eq_run_over_spec :
  (forall input : list N, run_gen_cq repaired input = run_gen repaired input) /\
  (forall (n t : N) (sc : script), n <> 0 -> t <> 0 -> crun_script repaired n t sc = run_script repaired sc).
Proof. split; [exact run_over_cqueue_eq_run_over_spec|exact run_script_over_cqueue]. Qed.
Print Assumptions C11_run_over_cqueue_eq_run_over_spec.

(* the headline statements, for every bucket count n >= 1 and width t >= 1 *)
Theorem C11_limited_log_is_longest_admissible_prefix_cq :
  forall (n t : N) (P : prog) (S B : N) (pre : list (N * N)) (L : lim), n <> 0 -> t <> 0 ->
  exists u a,
    cdispatch_all repaired P (cboot n t S B LNone pre) = Some u /\
    cdispatch_all repaired P (cboot n t S B L pre) = Some a /\
    clog a = lprefix L 0 (clog u).
Proof. exact limited_log_cq. Qed.
Print Assumptions C11_limited_log_is_longest_admissible_prefix_cq.

(* [cremaining] drains the calendar queue with fetch_next as finish does *)
Theorem C11_nothing_lost_cq :
  forall (n t : N) (P : prog) (S B : N) (pre : list (N * N)) (L : lim) (a : rtc), n <> 0 -> t <> 0 ->
  cdispatch_all repaired P (cboot n t S B L pre) = Some a ->
  Permutation (accepted (cadds a)) (handled (clog a) ++ isort (cremaining (cfes a))) /\
  ple_sorted (isort (cremaining (cfes a))) /\
  cfinish a = OFinal (N.of_nat (length (clog a))) (last (map snd (clog a)) S) (clog a) (cadds a) (isort (cremaining (cfes a))).
Proof. exact nothing_lost_cq. Qed.
Print Assumptions C11_nothing_lost_cq.

Theorem C11_event_count_limit_cq :
  forall (n t : N) (P : prog) (S B : N) (pre : list (N * N)) (k : N), n <> 0 -> t <> 0 ->
  exists u a, cdispatch_all repaired P (cboot n t S B LNone pre) = Some u /\
              cdispatch_all repaired P (cboot n t S B (LCount k) pre) = Some a /\
              clog a = firstn (N.to_nat k) (clog u).
Proof. exact count_limit_cq. Qed.
Print Assumptions C11_event_count_limit_cq.

Theorem C11_time_limit_cq :
  forall (n t : N) (P : prog) (S B : N) (pre : list (N * N)) (T : N), n <> 0 -> t <> 0 ->
  exists u a, cdispatch_all repaired P (cboot n t S B LNone pre) = Some u /\
              cdispatch_all repaired P (cboot n t S B (LTime T) pre) = Some a /\
              clog a = filter (fun e => snd e <=? T) (clog u).
Proof. exact time_limit_cq. Qed.
Print Assumptions C11_time_limit_cq.

(* all loops terminate, the bucket scans of fetch_next / peek_time included *)
Theorem C11_run_total_cq : forall (n t : N) (sc : script), n <> 0 -> t <> 0 -> ~ In OFuel (crun_script repaired n t sc).
Proof. exact run_total_cq. Qed.
Print Assumptions C11_run_total_cq.

Example C11_nonvacuous_cq :
  let P := [[(0, 0, 3); (0, 2, 4)]] in
  let pre := [(5, 0); (5, 1); (9, 2); (5, 1)] in
  let L := LOr (LAnd (LCount 2) (LTime 6)) (LTime 8) in
  option_map clog (cdispatch_all repaired P (cboot 3 2 0 10 L pre)) = Some [(0, 5); (3, 5); (1, 5); (1, 5)] /\
  option_map (fun a => isort (cremaining (cfes a))) (cdispatch_all repaired P (cboot 3 2 0 10 L pre)) = Some [(7, 4); (9, 2)].
Proof. vm_compute. split; reflexivity. Qed.


(* ===========================================================================
   C11 for the runtime over ANY future event set.  [E : evset]
   (coq/Runtime/EvSet.v) packages new / add / peek_time / fetch_next / len with
   six facts about them; [orc] is the oracle of a backend whose order among
   equal timestamps is unspecified (dispatch number -> hint; deterministic
   backends have hint = unit); the ev_* functions are the runtime of
   coq/Runtime/Generic.v with E's operations plugged in (coq/Runtime/EvRuntime.v).
   Instances: the specification (spec_evset), the calendar queue for every
   n, t >= 1 (cq_evset n t), the BinaryHeap backend for every oracle (heap_evset).
   Proofs: coq/Runtime/GenericProps.v, GenericPrefix.v. *)
From DesVerif Require Import Runtime.Generic Runtime.EvSet Runtime.GenericProps Runtime.GenericPrefix Runtime.GenericStep
  Runtime.EvRuntime Runtime.Instances Runtime.HeapSet Runtime.HeapRt Runtime.HeapSetProps.

Theorem C11_any_event_set_limited_log_is_longest_admissible_prefix :
  forall (E : evset) (orc : N -> eHint E) (P : prog) (S B : N) (pre : list (N * N)) (L : lim),
  exists u a,
    ev_dispatch_all E orc P (ev_boot E S B LNone pre) = Some u /\
    ev_dispatch_all E orc P (ev_boot E S B L pre) = Some a /\
    ev_log E a = lprefix L 0 (ev_log E u).
Proof. exact g_limited_log. Qed.
Print Assumptions C11_any_event_set_limited_log_is_longest_admissible_prefix.

Theorem C11_any_event_set_nothing_lost :
  forall (E : evset) (orc : N -> eHint E) (P : prog) (S B : N) (pre : list (N * N)) (L : lim) (a : ev_rt E),
  ev_dispatch_all E orc P (ev_boot E S B L pre) = Some a ->
  Permutation (accepted (ev_adds E a)) (handled (ev_log E a) ++ isort (ev_remaining E orc a)) /\
  ple_sorted (isort (ev_remaining E orc a)) /\
  ev_finish E orc a = OFinal (N.of_nat (length (ev_log E a))) (last (map snd (ev_log E a)) S) (ev_log E a) (ev_adds E a)
                             (isort (ev_remaining E orc a)) /\
  StronglySorted N.le (map snd (ev_log E a)).
Proof. exact g_nothing_lost. Qed.
Print Assumptions C11_any_event_set_nothing_lost.

Theorem C11_any_event_set_event_count_limit :
  forall (E : evset) (orc : N -> eHint E) (P : prog) (S B : N) (pre : list (N * N)) (n : N),
  exists u a, ev_dispatch_all E orc P (ev_boot E S B LNone pre) = Some u /\
              ev_dispatch_all E orc P (ev_boot E S B (LCount n) pre) = Some a /\
              ev_log E a = firstn (N.to_nat n) (ev_log E u).
Proof. exact g_count_limit. Qed.
Print Assumptions C11_any_event_set_event_count_limit.

Theorem C11_any_event_set_time_limit :
  forall (E : evset) (orc : N -> eHint E) (P : prog) (S B : N) (pre : list (N * N)) (T : N),
  exists u a, ev_dispatch_all E orc P (ev_boot E S B LNone pre) = Some u /\
              ev_dispatch_all E orc P (ev_boot E S B (LTime T) pre) = Some a /\
              ev_log E a = filter (fun e => snd e <=? T) (ev_log E u).
Proof. exact g_time_limit. Qed.
Print Assumptions C11_any_event_set_time_limit.

Theorem C11_any_event_set_and_or :
  forall (E : evset) (orc : N -> eHint E) (P : prog) (S B : N) (pre : list (N * N)) (la lb : lim),
  exists a b o n,
    ev_dispatch_all E orc P (ev_boot E S B la pre) = Some a /\ ev_dispatch_all E orc P (ev_boot E S B lb pre) = Some b /\
    ev_dispatch_all E orc P (ev_boot E S B (LOr la lb) pre) = Some o /\
    ev_dispatch_all E orc P (ev_boot E S B (LAnd la lb) pre) = Some n /\
    length (ev_log E o) = Nat.min (length (ev_log E a)) (length (ev_log E b)) /\
    length (ev_log E n) = Nat.max (length (ev_log E a)) (length (ev_log E b)).
Proof. exact g_and_or. Qed.
Print Assumptions C11_any_event_set_and_or.

(* every loop terminates: no record of a block (build, pre-run adds, schedule, dispatch_all, finish) is the
   out-of-fuel record.  (The limit algebra and the Builder composition, C11_limit_algebra and
   C11_builder_composes_with_or above, do not mention the event set at all.) *)
Theorem C11_any_event_set_run_total :
  forall (E : evset) (orc : N -> eHint E) (sc : script) (L : lim) (sched : list sop), ~ In OFuel (ev_run_block E orc sc L sched).
Proof. exact g_run_total. Qed.
Print Assumptions C11_any_event_set_run_total.

(* ---- instances ---- *)
(* (a), (b): the specification and the calendar queue as event sets; e.g. the main theorem *)
Theorem C11_limited_log_over_spec_event_set :
  forall (P : prog) (S B : N) (pre : list (N * N)) (L : lim),
  exists u a,
    ev_dispatch_all spec_evset (fun _ => tt) P (ev_boot spec_evset S B LNone pre) = Some u /\
    ev_dispatch_all spec_evset (fun _ => tt) P (ev_boot spec_evset S B L pre) = Some a /\
    ev_log spec_evset a = lprefix L 0 (ev_log spec_evset u).
Proof. exact (g_limited_log spec_evset (fun _ => tt)). Qed.
Print Assumptions C11_limited_log_over_spec_event_set.

Theorem C11_limited_log_over_calendar_queue_event_set :
  forall (n t : N) (Hn : n <> 0) (Ht : t <> 0) (P : prog) (S B : N) (pre : list (N * N)) (L : lim),
  let E := cq_evset n t Hn Ht in
  exists u a,
    ev_dispatch_all E (fun _ => tt) P (ev_boot E S B LNone pre) = Some u /\
    ev_dispatch_all E (fun _ => tt) P (ev_boot E S B L pre) = Some a /\
    ev_log E a = lprefix L 0 (ev_log E u).
Proof. intros n t Hn Ht. exact (g_limited_log (cq_evset n t Hn Ht) (fun _ => tt)). Qed.
Print Assumptions C11_limited_log_over_calendar_queue_event_set.

(* (c) the BinaryHeap backend (des built without `cqueue`), EVERY oracle; spelled with the
   functions of coq/Runtime/HeapRt.v, which the extracted runner of `check.py C01 --part heap` executes *)
Theorem C11_limited_log_is_longest_admissible_prefix_heap :
  forall (orc : N -> hint) (P : prog) (S B : N) (pre : list (N * N)) (L : lim),
  exists u a,
    hdispatch_all orc P (hboot S B LNone pre) = Some u /\
    hdispatch_all orc P (hboot S B L pre) = Some a /\
    glog hs a = lprefix L 0 (glog hs u).
Proof. exact (g_limited_log heap_evset). Qed.
Print Assumptions C11_limited_log_is_longest_admissible_prefix_heap.

Theorem C11_nothing_lost_heap :
  forall (orc : N -> hint) (P : prog) (S B : N) (pre : list (N * N)) (L : lim) (a : hrt),
  hdispatch_all orc P (hboot S B L pre) = Some a ->
  let rem := gremaining hs hint hp_fetch hp_len orc a in
  Permutation (accepted (gadds hs a)) (handled (glog hs a) ++ isort rem) /\
  ple_sorted (isort rem) /\
  gfinish hs hint hp_fetch hp_len orc a =
    OFinal (N.of_nat (length (glog hs a))) (last (map snd (glog hs a)) S) (glog hs a) (gadds hs a) (isort rem) /\
  StronglySorted N.le (map snd (glog hs a)).
Proof. exact (g_nothing_lost heap_evset). Qed.
Print Assumptions C11_nothing_lost_heap.

Theorem C11_event_count_limit_heap :
  forall (orc : N -> hint) (P : prog) (S B : N) (pre : list (N * N)) (n : N),
  exists u a, hdispatch_all orc P (hboot S B LNone pre) = Some u /\
              hdispatch_all orc P (hboot S B (LCount n) pre) = Some a /\
              glog hs a = firstn (N.to_nat n) (glog hs u).
Proof. exact (g_count_limit heap_evset). Qed.
Print Assumptions C11_event_count_limit_heap.

Theorem C11_time_limit_heap :
  forall (orc : N -> hint) (P : prog) (S B : N) (pre : list (N * N)) (T : N),
  exists u a, hdispatch_all orc P (hboot S B LNone pre) = Some u /\
              hdispatch_all orc P (hboot S B (LTime T) pre) = Some a /\
              glog hs a = filter (fun e => snd e <=? T) (glog hs u).
Proof. exact (g_time_limit heap_evset). Qed.
Print Assumptions C11_time_limit_heap.

Theorem C11_and_or_heap :
  forall (orc : N -> hint) (P : prog) (S B : N) (pre : list (N * N)) (la lb : lim),
  exists a b o n,
    hdispatch_all orc P (hboot S B la pre) = Some a /\ hdispatch_all orc P (hboot S B lb pre) = Some b /\
    hdispatch_all orc P (hboot S B (LOr la lb) pre) = Some o /\ hdispatch_all orc P (hboot S B (LAnd la lb) pre) = Some n /\
    length (glog hs o) = Nat.min (length (glog hs a)) (length (glog hs b)) /\
    length (glog hs n) = Nat.max (length (glog hs a)) (length (glog hs b)).
Proof. exact (g_and_or heap_evset). Qed.
Print Assumptions C11_and_or_heap.

Theorem C11_run_total_heap :
  forall (orc : N -> hint) (sc : script) (L : lim) (sched : list sop), ~ In OFuel (fst (hrun_block orc sc L sched)).
Proof. exact (g_run_total heap_evset). Qed.
Print Assumptions C11_run_total_heap.

(* Non-vacuity over the heap backend, oracle "last candidate": the tie group at 5 is dispatched 0, 3 (zero queue),
   then the two entries labelled 1; the limit stops after it and keeps (7,4), (9,2). *)
Example C11_nonvacuous_heap :
  let P := [[(0, 0, 3); (0, 2, 4)]] in
  let pre := [(5, 0); (5, 1); (9, 2); (5, 1)] in
  let L := LOr (LAnd (LCount 2) (LTime 6)) (LTime 8) in
  let orc := fun (_ : N) (cs : list (N * N)) => pred (length cs) in
  option_map (glog hs) (hdispatch_all orc P (hboot 0 10 L pre)) = Some [(1, 5); (1, 5); (0, 5); (3, 5)] /\
  option_map (fun a => isort (gremaining hs hint hp_fetch hp_len orc a)) (hdispatch_all orc P (hboot 0 10 L pre)) = Some [(7, 4); (9, 2)].
Proof. vm_compute. split; reflexivity. Qed.
