(* C03 — Equal-timestamp events are dispatched in a deterministic scheduling order.
   Statements only.  See coq/CQueue/Order.v. *)
From Coq Require Import List NArith Permutation.
From DesVerif Require Import CQueue.Model CQueue.Spec CQueue.ListX CQueue.Sim CQueue.SpecProps CQueue.Order.
Import ListNotations.
Open Scope N_scope.

(* The order does not depend on the queue parameters: for any two
   parameterisations the calendar queue gives identical answers on every history
   (both equal the parameter-free specification). *)
Theorem C03_order_independent_of_parameters : forall n t n' t' ops,
  n <> 0 -> t <> 0 -> n' <> 0 -> t' <> 0 -> run_ops true n t ops = run_ops true n' t' ops.
Proof. intros. rewrite !cq_refines by assumption. reflexivity. Qed.
Print Assumptions C03_order_independent_of_parameters.

(* Every reachable specification state satisfies the ordering invariant. *)
Theorem C03_invariant_reachable : forall ts ops, SI2 (ss (fst (sp_run_from (sp_init_at ts) ops))).
Proof. intros ts ops. apply SI2_reachable. exact (SI2_new_at ts). Qed.
Print Assumptions C03_invariant_reachable.

(* Fetch returns the pending event with the least dispatch key
   (time, class, scheduling sequence number), class 0 = scheduled for the
   then-current instant, class 1 = otherwise. *)
Theorem C03_fetch_min_dispatch_key : forall s s' p t,
  SI2 s -> sp_fetch s = (s', OFetched p t) ->
  exists x, In x (spend s) /\ epay x = p /\ etime x = t /\
            forall y, In y (spend s) -> y <> x -> dk_lt s x y.
Proof. exact fetch_min_dispatch_key. Qed.
Print Assumptions C03_fetch_min_dispatch_key.

(* The class is fixed at scheduling time ... *)
Theorem C03_class_fixed : forall a o e,
  SI (ss a) -> In e (spend (ss a)) -> In e (spend (ss (fst (sp_step a o)))) ->
  (In e (s_zero (ss a)) <-> In e (s_zero (ss (fst (sp_step a o))))).
Proof. exact class_fixed. Qed.
Print Assumptions C03_class_fixed.

(* ... and is 0 exactly when the event is scheduled for the current instant. *)
Theorem C03_new_event_class : forall s t p,
  s_tcur s <= t ->
  let s' := fst (fst (sp_add s t p)) in
  let e := {| etime := t; eid := s_next s; epay := p |} in
  (t = s_tcur s -> s_zero s' = s_zero s ++ [e] /\ s_rest s' = s_rest s) /\
  (t <> s_tcur s -> s_zero s' = s_zero s /\ Permutation (s_rest s') (e :: s_rest s)).
Proof. exact new_event_class. Qed.
Print Assumptions C03_new_event_class.

(* Two events scheduled one after the other for the same future instant are never reordered. *)
Theorem C03_same_future_instant_fifo : forall s s' p t a b,
  SI2 s -> sp_fetch s = (s', OFetched p t) ->
  In a (s_rest s) -> In b (s_rest s) -> etime a = etime b -> eid a < eid b ->
  ~ (epay b = p /\ etime b = t /\ forall x, In x (spend s) -> epay x = p -> etime x = t -> x = b).
Proof. exact same_future_instant_fifo. Qed.
Print Assumptions C03_same_future_instant_fifo.

(* Events scheduled for the current instant run first. *)
Theorem C03_current_instant_first : forall s s' p t a b,
  SI2 s -> sp_fetch s = (s', OFetched p t) ->
  In a (s_zero s) -> In b (s_rest s) ->
  ~ (epay b = p /\ etime b = t /\ forall x, In x (spend s) -> epay x = p -> etime x = t -> x = b).
Proof. exact current_instant_first. Qed.
Print Assumptions C03_current_instant_first.

(* Non-vacuity: ties straddling a year wrap (n*t = 6) with a zero-delay
   follow-up: B and C wait for instant 12, A is fetched at 12, then D is
   scheduled for the current instant 12 and overtakes B and C. *)
Example C03_nonvacuous :
  let ops := [Add 12 1; Add 12 2; Add 12 3; Fetch; Add 12 4; Fetch; Fetch; Fetch] in
  fetched_outs (run_ops true 3 2 ops) = [(1, 12); (4, 12); (2, 12); (3, 12)] /\
  run_ops true 3 2 ops = run_ops true 1028 5000000 ops.
Proof. vm_compute. split; reflexivity. Qed.
