(* C01 — Future event set: time-ordered, exactly-once, cancellable dispatch.
   Statements only.  [run_ops true n t] is the calendar-queue model of
   des-cqueue (coq/CQueue/Model.v), [sp_run_ops] the two-list specification
   (coq/CQueue/Spec.v), [ghost_run] the specification instrumented with the
   record of what was added / fetched / cancelled (coq/CQueue/SpecProps.v). *)
From Coq Require Import List NArith Sorting.Sorted Permutation.
From DesVerif Require Import CQueue.Model CQueue.Spec CQueue.ListX CQueue.Refine CQueue.InvBits CQueue.Sim CQueue.SpecProps.
Import ListNotations.
Open Scope N_scope.

(* For every bucket count n >= 1 and bucket width t >= 1 and every operation
   history (adds in the past and fetches on an empty queue included: they panic
   and leave the queue unchanged), the calendar queue answers exactly like the
   specification, which does not mention n or t. *)
Theorem C01_refines_spec : forall n t ops, n <> 0 -> t <> 0 -> run_ops true n t ops = sp_run_ops ops.
Proof. exact cq_refines. Qed.
Print Assumptions C01_refines_spec.

(* The same for a queue created with CQueue::new_at (clock starting at ts);
   histories may contain peek_time, which both sides answer identically and
   which changes nothing. *)
Theorem C01_refines_spec_at : forall n t ts ops, n <> 0 -> t <> 0 -> run_ops_at true n t ts ops = sp_run_ops_at ts ops.
Proof. exact cq_refines_at. Qed.
Print Assumptions C01_refines_spec_at.

(* No adaptive client -- one that picks each next operation from the answers seen
   so far, as the runtime's dispatch loop does -- can tell the calendar queue from
   the specification. *)
Theorem C01_indistinguishable_by_any_client : forall n t ts fuel (c : list out -> option op), n <> 0 -> t <> 0 ->
  interact fuel c (init_at n t ts) [] = sp_interact fuel c (sp_init_at ts) [].
Proof. exact cq_indistinguishable. Qed.
Print Assumptions C01_indistinguishable_by_any_client.

(* The representation invariant (window alignment, per-bucket order, bucket
   membership by slot, len counter, handle/ids discipline) holds in every
   reachable state. *)
Theorem C01_invariant_reachable : forall n t ops, n <> 0 -> t <> 0 ->
  Rst (fst (run_from true (init n t) ops)) (fst (sp_run_from sp_init ops)).
Proof. exact cq_inv_reachable. Qed.
Print Assumptions C01_invariant_reachable.

(* The executable representation-invariant bits (sorted buckets, bucket
   membership by index, no pending event older than the clock, len counter,
   window alignment) -- the same five predicates the harness evaluates on
   CQueue::verif_snapshot() -- are all ones in every reachable state. *)
Theorem C01_invariant_bits_reachable : forall n t ts ops, n <> 0 -> t <> 0 ->
  inv_bits (sq (fst (run_from true (init_at n t ts) ops))) = [1; 1; 1; 1; 1].
Proof.
  intros n t ts ops Hn Ht. destruct (cq_inv_reachable_at n t ts ops Hn Ht) as [HR _].
  exact (CQueue.InvBits.R_inv_bits _ _ _ HR).
Qed.
Print Assumptions C01_invariant_bits_reachable.

(* The head/t0/t1 scan of fetch_next terminates on every reachable state. *)
Theorem C01_scan_terminates : forall n t ts ops, n <> 0 -> t <> 0 ->
  ~ In OOutOfFuel (run_ops true n t ops) /\ ~ In OOutOfFuel (run_ops_at true n t ts ops).
Proof. intros; split; [apply cq_scan_total|apply cq_scan_total_at]; assumption. Qed.
Print Assumptions C01_scan_terminates.

(* fetch returns events in non-decreasing timestamp order *)
Theorem C01_fetch_nondecreasing : forall ts ops, StronglySorted N.le (fetched_times (sp_run_ops_at ts ops)).
Proof. exact fetch_nondecreasing_at. Qed.
Print Assumptions C01_fetch_nondecreasing.

(* every scheduled event is at every moment in exactly one of {fetched,
   cancelled while pending, pending}; what fetch returned is, in order, the
   payload and scheduling time of the fetched ones *)
Theorem C01_exactly_once : forall ts ops,
  let a := fst (ghost_run (sp_init_at ts) g0 ops) in
  let g := snd (ghost_run (sp_init_at ts) g0 ops) in
  (Permutation (g_added g) (g_fetched g ++ g_cancelled g ++ spend (ss a)) /\
   NoDup (map eid (g_fetched g ++ g_cancelled g ++ spend (ss a)))) /\
  fetched_outs (sp_run_ops_at ts ops) = map (fun x => (epay x, etime x)) (g_fetched g).
Proof. intros ts ops. split; [exact (exactly_once ts ops)|exact (fetched_are_ghost ts ops)]. Qed.
Print Assumptions C01_exactly_once.

Theorem C01_cancelled_never_returned : forall ts ops e,
  let g := snd (ghost_run (sp_init_at ts) g0 ops) in In e (g_cancelled g) -> ~ In e (g_fetched g).
Proof. exact cancelled_never_returned. Qed.
Print Assumptions C01_cancelled_never_returned.

(* reported length = scheduled - cancelled - fetched *)
Theorem C01_len_formula : forall ts ops,
  let a := fst (ghost_run (sp_init_at ts) g0 ops) in
  let g := snd (ghost_run (sp_init_at ts) g0 ops) in
  (N.to_nat (sp_len (ss a)) + length (g_cancelled g) + length (g_fetched g) = length (g_added g))%nat.
Proof. exact len_formula. Qed.
Print Assumptions C01_len_formula.

Theorem C01_cancel_after_fetch_noop : forall ts ops e,
  let a := fst (ghost_run (sp_init_at ts) g0 ops) in
  let g := snd (ghost_run (sp_init_at ts) g0 ops) in
  In e (g_fetched g) -> sp_cancel (ss a) (eid e) = ss a.
Proof. exact cancel_after_fetch_noop. Qed.
Print Assumptions C01_cancel_after_fetch_noop.

(* Non-vacuity: a history with a tie at the current time, a year wrap
   (n*t = 6), a far-future outlier and cancels, on which both sides agree and
   something non-trivial happens. *)
Example C01_nonvacuous :
  let ops := [Add 0 1; Add 13 2; Add 7 3; Add 13 4; Add 1000003 9; Fetch; Fetch; Add 7 5; Cancel 3;
              Fetch; Fetch; Fetch; Fetch; Len; Cancel 0; Fetch] in
  run_ops true 3 2 ops = sp_run_ops ops /\
  fetched_outs (sp_run_ops ops) = [(1, 0); (3, 7); (5, 7); (2, 13); (9, 1000003)].
Proof. vm_compute. split; reflexivity. Qed.

(* peek_time announces the next fetch and changes nothing; a queue started at
   ts = 25 (n*t = 6: window on bucket 12 mod 3 = 0) rejects earlier adds *)
Example C01_nonvacuous_at :
  run_ops_at true 3 2 25 [Add 24 1; Add 25 2; Add 31 3; Peek; Fetch; Peek; Time; Fetch; Peek; Len]
  = [OPanic 1; OAdded; OAdded; OPeek (Some 25); OFetched 2 25; OPeek (Some 31); OTime 25; OFetched 3 31; OPeek None; OLen 0].
Proof. vm_compute. reflexivity. Qed.


(* ===========================================================================
   The OTHER future event set: default_impl::FutureEventSet of
   des/src/runtime/event/event_set.rs (BinaryHeap ordered by time only + zero
   queue + last_event_simtime), what a des built without the `cqueue` feature
   runs (the copy under cfg_miri! is the same text).  Model: coq/Runtime/HeapSet.v.
   std's BinaryHeap does not say which of several equal-time entries `pop`
   returns, so the heap is a finite bag and `pop` returns A minimum-time entry
   chosen by an oracle; every statement below is for EVERY oracle
   (orc : position of the operation -> candidates -> index) and every
   cancel-free history [forallb heap_op ops = true] (the backend has no cancel).
   C03's tie order is not promised for this backend and is not claimed. *)
From DesVerif Require Import Runtime.HeapSet Runtime.HeapRt Runtime.HeapSetProps Runtime.Generic Runtime.Model.

(* fetch returns events in non-decreasing timestamp order *)
Theorem C01_heap_fetch_nondecreasing : forall (orc : oracle) ts ops,
  forallb heap_op ops = true -> StronglySorted N.le (fetched_times (hp_run_ops orc ts ops)).
Proof. exact heap_fetch_nondecreasing. Qed.
Print Assumptions C01_heap_fetch_nondecreasing.

(* every accepted add is, as a (payload, time) pair, fetched exactly once with
   that timestamp or still pending: a multiset equation *)
Theorem C01_heap_exactly_once : forall (orc : oracle) ts ops,
  let r := hp_run_from orc 0 (hp_new ts) ops in
  Permutation (accepted_adds ops (snd r)) (fetched_outs (snd r) ++ hpend_pt (fst r)).
Proof. exact heap_exactly_once. Qed.
Print Assumptions C01_heap_exactly_once.

(* len = accepted adds - fetched *)
Theorem C01_heap_len_formula : forall (orc : oracle) ts ops,
  let r := hp_run_from orc 0 (hp_new ts) ops in
  (N.to_nat (hp_len (fst r)) + length (fetched_outs (snd r)) = length (accepted_adds ops (snd r)))%nat.
Proof. exact heap_len_formula. Qed.
Print Assumptions C01_heap_len_formula.

(* in every reachable state: peek_time is None exactly on the empty set;
   otherwise it is the earliest pending time and the time of what fetch_next
   returns next, whichever entry the oracle picks; peek_time changes nothing *)
Theorem C01_heap_peek_is_next_fetch : forall (orc : oracle) ts ops,
  let h := fst (hp_run_from orc 0 (hp_new ts) ops) in
  (hp_peek h = None <-> hp_len h = 0) /\
  (forall t, hp_peek h = Some t ->
     Forall (fun e => t <= fst e) (hpend h) /\
     forall pick, exists p h', hp_step pick h Fetch = (h', OFetched p t) /\ hlast h' = t) /\
  (forall pick, fst (hp_step pick h Peek) = h).
Proof. exact heap_peek_is_next_fetch. Qed.
Print Assumptions C01_heap_peek_is_next_fetch.

(* Refinement of the two-list specification up to the order among equal
   timestamps of entries that are not in the zero queue.  [hp_trace] / [sp_trace]
   pair every answer with "this fetch was served by the zero queue"; [agree]:
   the flags are equal, a zero-queue fetch gives the very same answer, any
   other answer is equal except that a fetch may return another payload with
   the SAME time.  So: all add verdicts, len, time, peek_time answers and the
   time of every fetch coincide position by position, the zero-queue
   sub-sequence is identical, and (with C01_heap_exactly_once and
   C01_exactly_once) both fetched sequences are time-sorted arrangements of the
   same accepted events. *)
Theorem C01_heap_refines_spec_up_to_ties : forall (orc : oracle) ts ops,
  forallb heap_op ops = true ->
  Forall2 agree (hp_trace orc 0 (hp_new ts) ops) (sp_trace (sp_init_at ts) ops) /\
  map fst (hp_trace orc 0 (hp_new ts) ops) = hp_run_ops orc ts ops /\
  map fst (sp_trace (sp_init_at ts) ops) = sp_run_ops_at ts ops.
Proof. exact heap_refines_spec_up_to_ties. Qed.
Print Assumptions C01_heap_refines_spec_up_to_ties.

(* The runtime over this backend (coq/Runtime/Generic.v instantiated in
   HeapRt.v; the extracted runner of `check.py C01 --part heap`), any oracle
   (orc : dispatch number -> candidates -> index), any program, limit, pre-run
   adds and step schedule: every loop terminates, and in the booted, the paused
   and the final state the clock clauses of C02 hold -- see C02_holds_over_heap
   in Properties/C02.v for the statement spelled out. *)
Theorem C01_heap_runtime_total : forall (orc : N -> hint) S B L pre P ops,
  exists s1 xs sf,
    hexec_sched orc P (hboot S B L pre) ops = (Some s1, xs) /\ ~ In OFuel xs /\ hdispatch_all orc P s1 = Some sf /\
    hgood orc S (hboot S B L pre) /\ hgood orc S s1 /\ hgood orc S sf.
Proof. exact heap_runtime_good. Qed.
Print Assumptions C01_heap_runtime_total.

(* Non-vacuity: three entries at time 7 in the heap and one at 9; the oracle
   "last candidate" fetches them in the order 3, 2, 1 (the specification: 1, 2,
   3), all at time 7, then 9; an entry added at the current time 7 goes to the
   zero queue and is served before the remaining heap entries. *)
Example C01_heap_nonvacuous :
  let ops := [Add 7 1; Add 7 2; Add 9 4; Add 7 3; Peek; Fetch; Add 7 5; Fetch; Fetch; Len; Fetch; Fetch; Fetch] in
  hp_run_ops (fun _ cs => pred (length cs)) 0 ops =
    [OAdded; OAdded; OAdded; OAdded; OPeek (Some 7); OFetched 3 7; OAdded; OFetched 5 7; OFetched 2 7; OLen 2;
     OFetched 1 7; OFetched 4 9; OPanic 2] /\
  sp_run_ops_at 0 ops =
    [OAdded; OAdded; OAdded; OAdded; OPeek (Some 7); OFetched 1 7; OAdded; OFetched 5 7; OFetched 2 7; OLen 2;
     OFetched 3 7; OFetched 4 9; OPanic 2].
Proof. vm_compute. split; reflexivity. Qed.
