(* C13 — A panicking module is contained, attributed and does not disturb other modules.
   Statements only; same model and trace as Properties/C09.v (coq/Life/Model.v).  A callback
   panic of module m (handle_message, at_sim_start, at_sim_end) is the record [IPanic m 0 c]
   written just before the scripted panic!(), c being the module's on_panic_catch flag at that
   moment; Harness::exec / catch (unwind.rs) are modelled as: the rest of the callback and the
   yield are skipped, the module is deactivated, a PanicError is recorded unless the stereotype
   catches.  The stereotype is read when the panic is caught (after the callback), not before the
   callback: a callback may call set_stereotyp ([ASetCatch], record [ISetCatch m who b]) and
   panic afterwards, and the new value decides ([stereotype_in_force] below).  The scripted panic stands for an explicit panic!() and for a panic the library raises on the
   module's behalf inside the callback (schedule_at / send_at / shutdow_and_restart_at called with a time stamp in the past; coq/Life/Model.v
   decodes both to [APanic]).  Panics inside spawned tasks are caught
   by tokio and reported as JoinErrors by at_sim_end; they do not deactivate the module.
   Unwinding itself (that catch_unwind leaves tokio's and Rust's state intact) is not modelled. *)
From Coq Require Import List NArith Bool.
From DesVerif Require Import Life.ModelCq Life.CqInst Life.Model Life.Base Life.Step Life.Trace Life.Frame Life.Inert Life.Events Life.Panic Life.Silent Life.Term Life.Stereo Life.Errors Life.TearDown.
Import ListNotations.
Open Scope N_scope.

(* contained: [dead_after m pre]: in [pre] a callback of m panicked and m was not (re)started
   since.  A start-up stage or dispatched event that follows, unless it is a restart event of m (which
   exists only if m itself had requested shutdow_and_restart before it panicked), holds no record of
   m: no at_sim_start, no message handler, no wake-up, no task step, no send.  (Only the tear-down
   sweep still calls at_sim_end on m.) *)
Theorem C13_contained : forall sc m pre e post,
  trace sc = pre ++ e :: post -> dead_after m pre = true -> starts m e = false -> is_end e = false ->
  forallb (fun i => negb (of_mod m i)) (e_items e) = true.
Proof. exact contained. Qed.
Print Assumptions C13_contained.

(* errors_exact: the PanicError entries of the error returned by the run are exactly the callback
   panics [IPanic m 0 false], i.e. those caught while the module's stereotype does not catch, one per
   panic, in the order of the panics ([perrs], coq/Life/Panic.v); in particular the run returns Ok
   only if there is none *)
Theorem C13_errors_exact : forall sc,
  filter is_pe (r_err (run_script sc)) = perrs sc (items (trace sc)).
Proof. exact errors_exact. Qed.
Print Assumptions C13_errors_exact.

Theorem C13_ok_only_if_no_uncaught_panic : forall sc,
  r_err (run_script sc) = [] -> perrs sc (items (trace sc)) = [].
Proof. exact ok_only_if_no_uncaught_panic. Qed.
Print Assumptions C13_ok_only_if_no_uncaught_panic.

(* stereotype_in_force: the flag c of a panic record is the stereotype in force at that moment:
   the value of the last set_stereotyp of that module before the panic ([force]: the last
   [ISetCatch m _ b] record in the trace so far, in the panicking callback itself or any time
   earlier, shutdown / restart notwithstanding), else the configured one.  With errors_exact: a
   panic is reported iff the stereotype in force when it is caught does not catch.
   (A runtime that samples the stereotype before the callback violates this: seeded change
   stereotype_snapshot_before_callback.) *)
Theorem C13_stereotype_in_force : forall sc m l1 who c l2,
  items (trace sc) = l1 ++ IPanic m who c :: l2 -> c = force m (c_catch (cfg sc m)) l1.
Proof. exact stereotype_in_force. Qed.
Print Assumptions C13_stereotype_in_force.

(* only_catch_flag_matters.  A Stereotyp has five public flags; des reads on_panic_catch only (unwind.rs).  The scripts
   set all five -- bits 4..7 of a module's catch field for the initial stereotype, field a of the set_stereotyp actions
   (ops 8 / 9) at run time -- and the model never looks at the other four: a module's configuration depends on its catch
   field only through its low four bits (on_panic_catch and the join mask) and bit 8 (reset calls send), and the action decoded from a set_stereotyp
   quadruple does not depend on its field a.  So the run of the model -- trace and returned error -- is the same for all 16
   settings of the other four flags, initially and at every change; that the code behaves the same is what the
   differential runs over the full flag space check (seeded change stereotyp_bits_shift: a packed representation that
   lets on_panic_inform_parent land on the on_panic_catch bit). *)
Theorem C13_only_catch_flag_matters :
  (forall k ca ca' rest, ca mod 16 = ca' mod 16 -> N.testbit ca 8 = N.testbit ca' 8 -> dec_mod k (ca :: rest) = dec_mod k (ca' :: rest)) /\
  (forall k o a a' b c r, (o mod 20 =? 8) || (o mod 20 =? 9) = true -> quads k (o :: a :: b :: c :: r) = quads k (o :: a' :: b :: c :: r)).
Proof.
  split.
  - intros k ca ca' rest H H8. unfold dec_mod. cbn [nxt].
    assert (G1 : forall x, N.odd x = N.odd (x mod 16)).
    { intros x. rewrite (N.div_mod x 16) at 1 by discriminate. rewrite N.add_comm.
      replace (16 * (x / 16)) with (2 * (8 * (x / 16))) by (rewrite N.mul_assoc; reflexivity). apply N.odd_add_mul_2. }
    assert (G2 : forall x, (x / 2) mod 8 = (x mod 16) / 2).
    { intros x. rewrite (N.div_mod x 16) at 1 by discriminate.
      replace (16 * (x / 16) + x mod 16) with ((8 * (x / 16)) * 2 + x mod 16) by (rewrite <- N.mul_assoc, (N.mul_comm (x / 16) 2), N.mul_assoc; reflexivity).
      rewrite N.div_add_l by discriminate. rewrite N.add_comm, N.mul_comm, N.mod_add by discriminate.
      apply N.mod_small. apply N.div_lt_upper_bound; [discriminate|]. apply (N.mod_lt x 16). discriminate. }
    assert (E1 : N.odd ca = N.odd ca') by (rewrite (G1 ca), (G1 ca'), H; reflexivity).
    assert (E2 : (ca / 2) mod 8 = (ca' / 2) mod 8) by (rewrite !G2, H; reflexivity).
    rewrite E1, E2, H8. reflexivity.
  - intros k o a a' b c r H. cbn [quads]. apply orb_true_iff in H. destruct H as [H|H]; apply N.eqb_eq in H; rewrite H; reflexivity.
Qed.
Print Assumptions C13_only_catch_flag_matters.

(* globals_released: after every start-up step and every dispatched event -- panicking ones
   included -- the module-context slot (MOD_CTX) is empty and the event buffer (BUF_CTX.events)
   is drained; the context slot is empty after every module's at_sim_end as well *)
Theorem C13_globals_released : forall sc,
  (forall w tr, Gen sc w tr -> w_cur w = None /\ w_buf w = []) /\
  (forall now ms w, w_cur w = None -> w_cur (fst (end_seq sc now ms w)) = None).
Proof. intros sc. split; [exact (globals_released_gen sc)|intros now ms w; exact (end_seq_cur sc now ms w)]. Qed.
Print Assumptions C13_globals_released.

(* others_as_if_silent.  [quieten m sc] is the script in which module m's callbacks (handle_message,
   at_sim_start, at_sim_end) "fall silent" wherever those of [sc] panic: they return normally, request
   shutdown() unless a request is already pending, and the tasks polled in that event end at once.
   [events_of] drops the tear-down records; [others m] keeps, in order, every record of every module
   other than m (callbacks with their time stamps, task steps, sends, logs, requests, resets).  These
   are the same in the two runs, for every script and every module m: no other module can tell
   whether m panicked or merely fell silent -- whichever callbacks of m panic, however often (m may
   have requested a restart before panicking and panic again later), whatever its stereotype and
   number of start-up stages, and whatever m's left-over wake-ups do to the event set.
   (False of the code before 1526470 for every module with several start-up stages and before 9e87d89
   for catching ones: Refuted/C13.v, corpus/C13/multistage_panic.txt.)
   The tear-down records of the other modules: C13_others_teardown below. *)
Theorem C13_others_as_if_silent : forall sc m,
  others m (items (events_of (trace sc))) = others m (items (events_of (trace (quieten m sc)))).
Proof. intros sc m. apply (others_as_if_silent sc m); apply run_terminates. Qed.
Print Assumptions C13_others_as_if_silent.

(* others_teardown: the tear-down records of the other modules.  For every module j other than m the records of its
   at_sim_end (callback, the yield that follows, task steps, sends, logs, requests) are the same in the two runs once
   the time stamp of each call record is blanked ([rt]); [ends_of j] selects j's tear-down record.  The stamps themselves
   are the instant the simulation ends at, and that may differ: a dead module keeps its timer entries, so the time
   driver goes on scheduling wake-ups for it which the run in which it fell silent (and was reset) does not have.
   Proved with: when the event set has run empty no module has a pending timer or next_wakeup (Life/Wake.v), so
   activating a module for at_sim_end wakes nothing at either instant. *)
Theorem C13_others_teardown : forall sc m j, j <> m ->
  map rt (items (ends_of j (trace sc))) = map rt (items (ends_of j (trace (quieten m sc)))).
Proof. exact others_teardown. Qed.
Print Assumptions C13_others_teardown.

(* silent_ends_no_later: the run in which m falls silent does not end later than the one in which it panics: every
   tear-down record of the former is stamped no later than every tear-down record of the latter (all tear-down records
   of a run carry the instant its event loop ended at).  Proved with: nothing is scheduled into the past -- the event
   set's clock is the time of the last dispatched event, every queued event lies at or after it, timer queues are
   sorted (Life/Future.v) --, so the horizon of a run (the later of the clock and the latest queued event) never
   decreases and the run ends exactly at its final horizon; in the phase in which m is dead the silent run's horizon
   stays at or below the panicking run's: events of other modules add the same events to both, the dead m adds
   wake-ups only to the panicking run (in the silent run it was reset and has no timer left). *)
Theorem C13_silent_ends_no_later : forall sc m e e',
  In e (trace sc) -> In e' (trace (quieten m sc)) -> is_end e = true -> is_end e' = true -> e_time e' <= e_time e.
Proof. exact silent_ends_no_later. Qed.
Print Assumptions C13_silent_ends_no_later.

(* errors_exact_full: the complete error list run() returns, entry by entry.  Entries are (code, module): 0 PanicError,
   1 JoinError Paniced, 2 JoinError NotFinished, 3 JoinError Tokio(cancelled).  First the PanicErrors of the
   start-up phase and of the dispatched events, in the order of the panics ([body]: the trace without its tear-down
   records).  Then, module by module in tree order, what the module's at_sim_end contributes ([end_errs]): the
   PanicError of its at_sim_end callback if that panicked uncaught -- the join section is then skipped --, otherwise
   its join errors ([join_errs]): for every try_join handle, in the order the tasks were spawned over all
   incarnations ([spawned]: the module's [ISpawn] records), a Paniced entry if the task has panicked; then for every
   join handle, in that order, NotFinished if the task has not ended, Paniced if it panicked, Tokio if it was
   dropped with the tokio runtime of an earlier incarnation, nothing if it ran to completion.  What became of a task
   is its [ITaskEnd] record in the trace ([ended]; none: still running).  The tear-down goes on after an error, every
   module is asked.  ok_iff: run() returns Ok exactly if that list is empty. *)
Theorem C13_errors_exact_full : forall sc,
  r_err (run_script sc) = perrs sc (items (body (trace sc))) ++ flat_map (fun m => end_errs sc m (trace sc)) (mods sc).
Proof. exact errors_exact_full. Qed.
Print Assumptions C13_errors_exact_full.

Theorem C13_ok_iff : forall sc, r_err (run_script sc) = [] <->
  perrs sc (items (body (trace sc))) = [] /\ forall m, In m (mods sc) -> end_errs sc m (trace sc) = [].
Proof. exact ok_iff. Qed.
Print Assumptions C13_ok_iff.

(* Non-vacuity.  Module 0 panics in handle_message at t = 2; its two tasks (both join()ed, asleep until t = 3) are
   polled again only by the yield of its at_sim_end: one runs to completion, the other goes to sleep again and is
   reported NotFinished.  Module 1's try_join()ed task panics at t = 1.  Module 2 starts with the non-catching
   stereotype, switches to the catching one in at_sim_start and panics in that same callback. *)
Definition px_m0 : modcfg := {| c_catch := false; c_stages := 1; c_bud := 5; c_start := [[]];
  c_msg := [[ALog 1; APanic; ALog 2]; [ALog 3]]; c_tasks := [[ASleep 3; ALog 7]; [ASleep 3; ASleep 50; ALog 9]]; c_end := []; c_join := 3; c_rsend := false |}.
Definition px_m1 : modcfg := {| c_catch := false; c_stages := 1; c_bud := 5; c_start := [[]];
  c_msg := [[ALog 2]]; c_tasks := [[ASleep 1; APanic]]; c_end := []; c_join := 0; c_rsend := false |}.
Definition px_m2 : modcfg := {| c_catch := false; c_stages := 1; c_bud := 0; c_start := [[ASetCatch true; APanic]];
  c_msg := []; c_tasks := []; c_end := []; c_join := 0; c_rsend := false |}.
Definition px : script :=
  {| s_mods := [px_m0; px_m1; px_m2];
     s_inj := [(2, InjDeliver 0 0); (4, InjDeliver 0 1); (4, InjDeliver 1 0)] |}.

Example C13_nonvacuous :
  let tr := trace px in
  (* the panicking event: the rest of the handler is skipped, the module is inactive afterwards *)
  e_items (nth 5 tr (boot_rec px (init_world px))) = [ICall 0 (CbMsg 0) 2 true; ILog 0 0 1; IPanic 0 0 false; ISample 2 2] /\
  dead_after 0 (firstn 6 tr) = true /\
  (* its tasks' wake-up and a further message produce nothing; module 1 is served as usual *)
  map (fun e => (e_kind e, e_items e)) (firstn 3 (skipn 6 tr)) =
    [(KLoop (EvWake 0), [ISample 3 2]); (KLoop (EvDeliver 0 1), [ISample 4 2]);
     (KLoop (EvDeliver 1 0), [ICall 1 (CbMsg 0) 4 true; ILog 1 0 2; ISample 4 2])] /\
  e_items (nth 2 tr (boot_rec px (init_world px))) = [ICall 2 (CbStart 0) 0 true; ISetCatch 2 0 true; IPanic 2 0 true] /\
  (* the returned error: the uncaught callback panic, then module 0's unfinished join()ed task, then module 1's panicked task *)
  r_err (run_script px) = [(0, 0); (2, 0); (1, 1)] /\ perrs px (items tr) = [(0, 0)] /\
  map (fun m => end_errs px m tr) (mods px) = [[(2, 0)]; [(1, 1)]; []] /\
  (* module 1 sees the same in the run where module 0 falls silent instead (it is then reset and its tasks cancelled) *)
  others 0 (items (events_of tr)) = others 0 (items (events_of (trace (quieten 0 px)))) /\
  others 0 (items (events_of tr)) <> [] /\
  e_items (nth 5 (trace (quieten 0 px)) (boot_rec px (init_world px))) =
    [ICall 0 (CbMsg 0) 2 true; ILog 0 0 1; IQuiet 0; ICancel 0 0; ICancel 0 1; ITaskEnd 0 0 0 2; ITaskEnd 0 1 0 2; IReset 0 2 1; ISample 2 2] /\
  r_err (run_script (quieten 0 px)) = [(3, 0); (3, 0); (1, 1)].
Proof. vm_compute. repeat split; try reflexivity; discriminate. Qed.

(* Non-vacuity of others_teardown / silent_ends_no_later: the two runs end at different instants.  Module 0 has two
   sleeping tasks (deadlines 3 and 20) when it panics at t = 2.  Falling silent, it is reset and the run ends with
   the stale wake-up at 3; panicking, it keeps its timer entries and the time driver schedules a further wake-up for the
   second deadline: the run ends at 20.  Module 1's at_sim_end (a log and a send) is the same up to the time stamp. *)
Definition pt_m0 : modcfg := {| c_catch := false; c_stages := 1; c_bud := 5; c_start := [[]];
  c_msg := [[ALog 1; APanic]]; c_tasks := [[ASleep 3; ALog 7]; [ASleep 20; ALog 8]]; c_end := []; c_join := 0; c_rsend := false |}.
Definition pt_m1 : modcfg := {| c_catch := false; c_stages := 1; c_bud := 5; c_start := [[]];
  c_msg := [[ALog 2]]; c_tasks := [[ASleep 1; ALog 4]]; c_end := [ALog 30; ASend false 0 1]; c_join := 1; c_rsend := false |}.
Definition pt : script := {| s_mods := [pt_m0; pt_m1]; s_inj := [(2, InjDeliver 0 0)] |}.

Example C13_end_times_differ :
  map (fun e => (e_kind e, e_time e)) (skipn 5 (trace pt)) =
    [(KLoop (EvWake 0), 3); (KLoop (EvWake 0), 20); (KEnd 0, 20); (KEnd 1, 20)] /\
  map (fun e => (e_kind e, e_time e)) (skipn 5 (trace (quieten 0 pt))) =
    [(KLoop (EvWake 0), 3); (KEnd 0, 3); (KEnd 1, 3)] /\
  items (ends_of 1 (trace pt)) = [ICall 1 CbEnd 20 true; ILog 1 0 30; ISend 1 0 false 0 1] /\
  items (ends_of 1 (trace (quieten 0 pt))) = [ICall 1 CbEnd 3 true; ILog 1 0 30; ISend 1 0 false 0 1] /\
  map rt (items (ends_of 1 (trace pt))) = map rt (items (ends_of 1 (trace (quieten 0 pt)))).
Proof. vm_compute. repeat split; reflexivity. Qed.


(* ---- composition with C01: the same clauses for the run over the calendar queue ----
   [run_script_cq n t] (coq/Life/ModelCq.v) is the event loop of the model over des-cqueue's calendar queue with n buckets
   of width t instead of the specification event set; Properties/C09.v [C09_run_script_over_cqueue] (Life/CqSim.v,
   Life/CqInst.v, through the refinement relation R of C01) proves that it returns what [run_script] returns. *)
Theorem C13_others_as_if_silent_cq : forall n t sc m, n <> 0 -> t <> 0 ->
  others m (items (events_of (trace_cq n t sc))) = others m (items (events_of (trace_cq n t (quieten m sc)))).
Proof. intros n t sc m Hn Ht. rewrite !trace_over_cqueue by assumption. apply C13_others_as_if_silent. Qed.
Print Assumptions C13_others_as_if_silent_cq.

Theorem C13_others_teardown_cq : forall n t sc m j, n <> 0 -> t <> 0 -> j <> m ->
  map rt (items (ends_of j (trace_cq n t sc))) = map rt (items (ends_of j (trace_cq n t (quieten m sc)))).
Proof. intros n t sc m j Hn Ht. rewrite !trace_over_cqueue by assumption. apply others_teardown. Qed.
Print Assumptions C13_others_teardown_cq.

Theorem C13_silent_ends_no_later_cq : forall n t sc m e e', n <> 0 -> t <> 0 ->
  In e (trace_cq n t sc) -> In e' (trace_cq n t (quieten m sc)) -> is_end e = true -> is_end e' = true -> e_time e' <= e_time e.
Proof. intros n t sc m e e' Hn Ht. rewrite !trace_over_cqueue by assumption. apply silent_ends_no_later. Qed.
Print Assumptions C13_silent_ends_no_later_cq.

Theorem C13_errors_exact_full_cq : forall n t sc, n <> 0 -> t <> 0 ->
  r_err (run_script_cq n t sc) =
  perrs sc (items (body (trace_cq n t sc))) ++ flat_map (fun m => end_errs sc m (trace_cq n t sc)) (mods sc).
Proof. intros n t sc Hn Ht. unfold trace_cq. rewrite run_script_over_cqueue by assumption. apply errors_exact_full. Qed.
Print Assumptions C13_errors_exact_full_cq.

Theorem C13_ok_iff_cq : forall n t sc, n <> 0 -> t <> 0 -> (r_err (run_script_cq n t sc) = [] <->
  perrs sc (items (body (trace_cq n t sc))) = [] /\ forall m, In m (mods sc) -> end_errs sc m (trace_cq n t sc) = []).
Proof. intros n t sc Hn Ht. unfold trace_cq. rewrite run_script_over_cqueue by assumption. apply ok_iff. Qed.
Print Assumptions C13_ok_iff_cq.

(* non-vacuity: the two examples above over a queue of 4 buckets of width 3; the dead module's wake-up at 20 is fetched
   from the calendar queue as well *)
Example C13_nonvacuous_cq :
  run_script_cq 4 3 px = run_script px /\ r_err (run_script_cq 4 3 px) = [(0, 0); (2, 0); (1, 1)] /\
  map (fun e => (e_kind e, e_time e)) (skipn 5 (trace_cq 4 3 pt)) =
    [(KLoop (EvWake 0), 3); (KLoop (EvWake 0), 20); (KEnd 0, 20); (KEnd 1, 20)] /\
  map (fun e => (e_kind e, e_time e)) (skipn 5 (trace_cq 4 3 (quieten 0 pt))) =
    [(KLoop (EvWake 0), 3); (KEnd 0, 3); (KEnd 1, 3)].
Proof. vm_compute. repeat split; reflexivity. Qed.
