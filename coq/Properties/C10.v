(* C10 — Stepping a simulation is indistinguishable from running it uninterrupted.
   Statements only.  Model: coq/Runtime/Model.v, [repaired] variant
   (dispatch_event decides the limit on a peek of the next timestamp; the event
   set's clock starts at the start time).  [boot S B L pre] = Builder::build
   (start time S, configured limit L) + the pre-run add_event calls;
   [exec_sched repaired P s ops] runs a step schedule (SN k =
   dispatch_n_events(k), SUntil T = dispatch_events_until(T), SAdd t l =
   add_event while paused) and returns the paused state; [rest_of P s] is the
   sequence of (label, time) the runtime would still dispatch from [s] if it
   ran to the end without a limit.

   Scope (DESIGN.md 6/C10): the step functions swap the configured limit out,
   so "n events or all that remain" and "same as an uninterrupted run" are
   stated for a runtime built without a limit; the swap itself is
   C10_step_ignores_configured_limit, and the per-step theorems hold for every
   configured limit. *)
From Coq Require Import List NArith Bool Sorting.Sorted Permutation.
From DesVerif Require Import CQueue.Spec Runtime.Limit Runtime.Model Runtime.Queue Runtime.Inv Runtime.Prefix Runtime.Step.
Import ListNotations.
Open Scope N_scope.

(* For every program and every schedule of dispatch_n_events /
   dispatch_events_until steps (cuts inside groups of equal timestamps
   included): the schedule, then dispatch_all, ends in exactly the state in
   which the uninterrupted dispatch_all ends -- same log (events, order,
   times), same pending set, clock, counters, recorded adds.  All loops
   terminate. *)
Theorem C10_stepped_log_eq_run_log :
  forall (P : prog) (S B : N) (pre : list (N * N)) (ops : list sop),
  forallb is_dispatch ops = true ->
  exists s1 xs u,
    exec_sched repaired P (boot S B LNone pre) ops = (Some s1, xs) /\
    dispatch_all repaired P s1 = Some u /\
    dispatch_all repaired P (boot S B LNone pre) = Some u.
Proof.
  intros P S B pre ops Hd.
  destruct (sched_total P ops (boot S B LNone pre)) as [s1 [xs E1]].
  destruct (dispatch_all_total P s1) as [sf [Ef _]].
  destruct (dispatch_all_total P (boot S B LNone pre)) as [u [Eu _]].
  exists s1, xs, u. split; [exact E1|]. split; [|exact Eu].
  rewrite Ef. f_equal. eapply stepped_eq_run; try eassumption. apply boot_fields.
Qed.
Print Assumptions C10_stepped_log_eq_run_log.

(* the same on the printed records of a script: the stepped block ends with the
   final record (event_count, end time, log, adds, remaining) of run() *)
Theorem C10_stepped_block_eq_run_block :
  forall (sc : script) (sched : list sop),
  forallb is_dispatch sched = true ->
  exists o0 o1 u,
    run_block repaired sc LNone [] = o0 ++ [finish u] /\
    run_block repaired sc LNone sched = o0 ++ o1 ++ [finish u].
Proof. exact stepped_block_eq_run_block. Qed.
Print Assumptions C10_stepped_block_eq_run_block.

(* dispatch_n_events / dispatch_events_until behave the same whatever limit
   the runtime was configured with (it is swapped out and back) *)
Theorem C10_step_ignores_configured_limit :
  forall (P : prog) (s : rt) (L : lim),
  (forall k, dispatch_n_events repaired P (set_limit s L) k =
             option_map (fun s' => set_limit s' L) (dispatch_n_events repaired P s k)) /\
  (forall T, dispatch_events_until repaired P (set_limit s L) T =
             option_map (fun s' => set_limit s' L) (dispatch_events_until repaired P s T)).
Proof. intros P s L. split; intros x; apply step_ignores_configured_limit. Qed.
Print Assumptions C10_step_ignores_configured_limit.

(* In every paused state (any program, configured limit, schedule so far,
   external adds included): dispatch_n_events(k) dispatches exactly the next k
   events of the remaining run, or all of them if fewer remain. *)
Theorem C10_n_step_exact :
  forall (P : prog) (S B : N) (L : lim) (pre : list (N * N)) (ops : list sop) (s : rt) (xs : list sout) (k : N),
  exec_sched repaired P (boot S B L pre) ops = (Some s, xs) ->
  exists s' u,
    dispatch_n_events repaired P s k = Some s' /\
    dispatch_all repaired P (set_limit s LNone) = Some u /\ log u = log s ++ rest_of P s /\
    log s' = log s ++ firstn (N.to_nat k) (rest_of P s) /\
    itr s' = itr s + N.min k (N.of_nat (length (rest_of P s))).
Proof.
  intros P S B L pre ops s xs k H. pose proof (Inv_paused _ _ _ _ _ _ _ _ H) as HI.
  destruct (with_limit_total P (LCount (itr s + k)) s) as [s' E].
  destruct (dispatch_all_total P (set_limit s LNone)) as [u [Eu _]].
  exists s', u. split; [exact E|]. split; [exact Eu|]. split; [apply unlimited_rest; exact Eu|].
  eapply n_step_exact; eassumption.
Qed.
Print Assumptions C10_n_step_exact.

(* dispatch_events_until(T) dispatches exactly the events of the remaining run
   with timestamp <= T (the remaining run is time-ordered) *)
Theorem C10_until_step_exact :
  forall (P : prog) (S B : N) (L : lim) (pre : list (N * N)) (ops : list sop) (s : rt) (xs : list sout) (T : N),
  exec_sched repaired P (boot S B L pre) ops = (Some s, xs) ->
  exists s',
    dispatch_events_until repaired P s T = Some s' /\
    log s' = log s ++ filter (fun e => snd e <=? T) (rest_of P s) /\
    StronglySorted N.le (map snd (rest_of P s)).
Proof.
  intros P S B L pre ops s xs T H. pose proof (Inv_paused _ _ _ _ _ _ _ _ H) as HI.
  destruct (with_limit_total P (LTime T) s) as [s' E]. exists s'. split; [exact E|].
  split; [eapply until_step_exact; eassumption|eapply rest_sorted; exact HI].
Qed.
Print Assumptions C10_until_step_exact.

(* While paused: sim_time is the time of the last dispatched event (the start
   time before the first), num_events_dispatched the number of handled events,
   num_events_remaining the number of undelivered events, and these are
   exactly the scheduled-but-unhandled events. *)
Theorem C10_paused_state :
  forall (P : prog) (S B : N) (L : lim) (pre : list (N * N)) (ops : list sop) (s : rt) (xs : list sout),
  exec_sched repaired P (boot S B L pre) ops = (Some s, xs) ->
  status s = OStatus (N.of_nat (length (log s))) (N.of_nat (length (pend (fes s))))
                     (last (map snd (log s)) S) (N.of_nat (length (adds s))) /\
  Permutation (accepted (adds s)) (handled (log s) ++ pend (fes s)).
Proof.
  intros P S B L pre ops s xs H. pose proof (Inv_paused _ _ _ _ _ _ _ _ H) as HI.
  destruct (paused_state S s HI) as [H1 [H2 [H3 [H4 _]]]]. split; [|exact H4].
  unfold status. rewrite H2, H3, H1. reflexivity.
Qed.
Print Assumptions C10_paused_state.

(* While paused, add_event(t) is accepted iff t is not earlier than the
   reported time; a rejected call leaves the event set untouched. *)
Theorem C10_paused_add_ok_iff :
  forall (P : prog) (S B : N) (L : lim) (pre : list (N * N)) (ops : list sop) (s : rt) (xs : list sout) (t l : N),
  exec_sched repaired P (boot S B L pre) ops = (Some s, xs) ->
  step repaired P s (SAdd t l) = (Some (add_event false s t l), OAddRes (clock s <=? t)) /\
  (t < clock s -> fes (add_event false s t l) = fes s) /\
  (clock s <= t -> Permutation (pend (fes (add_event false s t l))) ((t, l) :: pend (fes s))).
Proof.
  intros P S B L pre ops s xs t l H. pose proof (Inv_paused _ _ _ _ _ _ _ _ H) as HI.
  destruct (paused_state S s HI) as [_ [_ [_ [_ [H5 H6]]]]]. split; [|split].
  - cbn [step]. rewrite H5. reflexivity.
  - apply H6.
  - intros Hle. unfold add_event. cbn [fes]. apply sp_add_ok. rewrite (I_clk _ _ HI). exact Hle.
Qed.
Print Assumptions C10_paused_add_ok_iff.

(* Non-vacuity.  (1) three events at time 0 whose first handler adds a
   zero-delay follow-up: cutting after one event, then inside the tie group
   again, gives the uninterrupted order.  (2) events at 1 and 10, paused at 1 by
   dispatch_events_until(2): an event added at 5 is accepted and runs in time
   order. *)
Example C10_nonvacuous :
  let P := [[(0, 0, 5)]] in
  let pre := [(0, 0); (0, 1); (0, 2)] in
  (option_map log (dispatch_all repaired P (boot 0 10 LNone pre)) = Some [(0, 0); (1, 0); (2, 0); (5, 0)] /\
   match exec_sched repaired P (boot 0 10 LNone pre) [SN 1; SN 1; SUntil 0] with
   | (Some s1, xs) => option_map log (dispatch_all repaired P s1) = Some [(0, 0); (1, 0); (2, 0); (5, 0)] /\
                      xs = [OStatus 1 3 0 4; OStatus 2 2 0 4; OStatus 4 0 0 4]
   | _ => False
   end) /\
  match exec_sched repaired [] (boot 0 0 LNone [(1, 7); (10, 8)]) [SUntil 2; SAdd 5 9; SAdd 0 9] with
  | (Some s1, xs) => xs = [OStatus 1 1 1 2; OAddRes true; OAddRes false] /\
                     option_map log (dispatch_all repaired [] s1) = Some [(7, 1); (9, 5); (8, 10)]
  | _ => False
  end.
Proof. vm_compute. repeat split. Qed.

From DesVerif Require Import Runtime.ModelCq Runtime.Compose Runtime.ComposeProps.

(* ---------------------------------------------------------------------------
   The same for the runtime over the CALENDAR QUEUE.  Runtime/ModelCq.v is the
   runtime model threading the concrete queue state of des-cqueue (cq_new_at n t
   start, add, peek_time, fetch_next, len) for the parameters n, t of
   Builder::cqueue_options; Runtime/Compose.v proves by forward simulation
   (queue part: the refinement relation of C01) that it prints exactly what the
   model over the specification prints.  [run_gen_cq repaired] is what the
   extracted runner executes in the differential check. *)
Theorem C10_run_over_cqueue_eq_run_over_spec :
  (forall input : list N, run_gen_cq repaired input = run_gen repaired input) /\
  (forall (n t : N) (sc : script), n <> 0 -> t <> 0 -> crun_script repaired n t sc = run_script repaired sc).
Proof. split; [exact run_over_cqueue_eq_run_over_spec|exact run_script_over_cqueue]. Qed.
Print Assumptions C10_run_over_cqueue_eq_run_over_spec.

Theorem C10_stepped_log_eq_run_log_cq :
  forall (n t : N) (P : prog) (S B : N) (pre : list (N * N)) (ops : list sop), n <> 0 -> t <> 0 ->
  forallb is_dispatch ops = true ->
  exists c1 xs cf u,
    cexec_sched repaired P (cboot n t S B LNone pre) ops = (Some c1, xs) /\
    cdispatch_all repaired P c1 = Some cf /\
    cdispatch_all repaired P (cboot n t S B LNone pre) = Some u /\
    cfinish cf = cfinish u /\ clog cf = clog u.
Proof. exact stepped_eq_run_cq. Qed.
Print Assumptions C10_stepped_log_eq_run_log_cq.

Theorem C10_stepped_block_eq_run_block_cq :
  forall (n t : N) (sc : script) (sched : list sop), n <> 0 -> t <> 0 ->
  forallb is_dispatch sched = true ->
  exists o0 o1 u,
    crun_block repaired n t sc LNone [] = o0 ++ [finish u] /\
    crun_block repaired n t sc LNone sched = o0 ++ o1 ++ [finish u].
Proof. exact stepped_block_cq. Qed.
Print Assumptions C10_stepped_block_eq_run_block_cq.

(* every paused state of the runtime over the calendar queue (any configured
   limit, any schedule so far): the reported values, the queue's own clock
   equals sim_time, add_event is accepted iff t >= sim_time, dispatch_n_events(k)
   dispatches exactly the next k events of the remaining run (or all),
   dispatch_events_until(T) exactly those with timestamp <= T *)
Theorem C10_paused_cq :
  forall (n t : N) (P : prog) (S B : N) (L : lim) (pre : list (N * N)) (ops : list sop) (c : rtc) (xs : list sout),
  n <> 0 -> t <> 0 ->
  cexec_sched repaired P (cboot n t S B L pre) ops = (Some c, xs) ->
  cstatus c = OStatus (N.of_nat (length (clog c))) (N.of_nat (length (cremaining (cfes c))))
                      (last (map snd (clog c)) S) (N.of_nat (length (cadds c))) /\
  Permutation (accepted (cadds c)) (handled (clog c) ++ cremaining (cfes c)) /\
  CQueue.Model.tcur (cfes c) = cclock c /\
  (forall tm l, cstep repaired P c (SAdd tm l) = (Some (cadd_event false c tm l), OAddRes (cclock c <=? tm))) /\
  (forall k, exists c' u,
     cdispatch_n_events repaired P c k = Some c' /\ cdispatch_all repaired P (cset_limit c LNone) = Some u /\
     clog c' = clog c ++ firstn (N.to_nat k) (skipn (length (clog c)) (clog u))) /\
  (forall T, exists c' u,
     cdispatch_events_until repaired P c T = Some c' /\ cdispatch_all repaired P (cset_limit c LNone) = Some u /\
     clog c' = clog c ++ filter (fun e => snd e <=? T) (skipn (length (clog c)) (clog u))).
Proof. exact paused_cq. Qed.
Print Assumptions C10_paused_cq.

Example C10_nonvacuous_cq :
  match cexec_sched repaired [[(0, 0, 5)]] (cboot 3 2 0 10 LNone [(0, 0); (0, 1); (0, 2)]) [SN 1; SN 1; SUntil 0] with
  | (Some c1, xs) => option_map clog (cdispatch_all repaired [[(0, 0, 5)]] c1) = Some [(0, 0); (1, 0); (2, 0); (5, 0)] /\
                     xs = [OStatus 1 3 0 4; OStatus 2 2 0 4; OStatus 4 0 0 4]
  | _ => False
  end.
Proof. vm_compute. split; reflexivity. Qed.


(* ===========================================================================
   C10 for the runtime over ANY future event set [E : evset]
   (coq/Runtime/EvSet.v; runtime: coq/Runtime/Generic.v / EvRuntime.v; proofs:
   coq/Runtime/GenericStep.v), hence for the specification, the calendar queue
   (every n, t >= 1) and the BinaryHeap backend (every oracle).
   Two things make "stepped = uninterrupted" a theorem even for a backend whose
   order among equal timestamps is unspecified: (1) peek_time cannot change the
   event set -- in the interface it returns no state (the seventh interface
   fact; both real backends have it since fix: commit f4552a6) -- so a paused
   runtime holds exactly the event set the uninterrupted run holds at that
   point; (2) the oracle [orc] is asked with the dispatch number and the
   candidates, so the two runs put the same question when they dispatch the same
   event, which is how a deterministic heap behaves: its answer is a function of
   its push/pop history, and that history is the same in both runs. *)
From DesVerif Require Import Runtime.Generic Runtime.EvSet Runtime.GenericProps Runtime.GenericPrefix Runtime.GenericStep
  Runtime.EvRuntime Runtime.Instances Runtime.HeapSet Runtime.HeapRt Runtime.HeapSetProps.

Theorem C10_any_event_set_stepped_log_eq_run_log :
  forall (E : evset) (orc : N -> eHint E) (P : prog) (S B : N) (pre : list (N * N)) (ops : list sop),
  forallb is_dispatch ops = true ->
  exists s1 xs u,
    ev_exec_sched E orc P (ev_boot E S B LNone pre) ops = (Some s1, xs) /\
    ev_dispatch_all E orc P s1 = Some u /\
    ev_dispatch_all E orc P (ev_boot E S B LNone pre) = Some u.
Proof. exact g_stepped_eq_run. Qed.
Print Assumptions C10_any_event_set_stepped_log_eq_run_log.

Theorem C10_any_event_set_stepped_block_eq_run_block :
  forall (E : evset) (orc : N -> eHint E) (sc : script) (sched : list sop),
  forallb is_dispatch sched = true ->
  exists o0 o1 u,
    ev_run_block E orc sc LNone [] = o0 ++ [ev_finish E orc u] /\
    ev_run_block E orc sc LNone sched = o0 ++ o1 ++ [ev_finish E orc u].
Proof. exact g_stepped_block. Qed.
Print Assumptions C10_any_event_set_stepped_block_eq_run_block.

Theorem C10_any_event_set_step_ignores_configured_limit :
  forall (E : evset) (orc : N -> eHint E) (P : prog) (L' L : lim) (s : ev_rt E),
  ev_with_limit E orc P L' (ev_set_limit E s L) = option_map (fun s' => ev_set_limit E s' L) (ev_with_limit E orc P L' s).
Proof. exact g_step_ignores_configured_limit. Qed.
Print Assumptions C10_any_event_set_step_ignores_configured_limit.

(* every paused state (any program, configured limit, schedule so far, external adds included): the reported
   values; add_event accepted iff t >= sim_time, a rejected one changes nothing; the remaining run is
   time-ordered; dispatch_n_events(k) dispatches exactly its next k events (or all), dispatch_events_until(T)
   exactly those with timestamp <= T *)
Theorem C10_any_event_set_paused :
  forall (E : evset) (orc : N -> eHint E) (P : prog) (S B : N) (L : lim) (pre : list (N * N)) (ops : list sop)
         (s : ev_rt E) (xs : list sout),
  ev_exec_sched E orc P (ev_boot E S B L pre) ops = (Some s, xs) ->
  ev_status E s = OStatus (N.of_nat (length (ev_log E s))) (N.of_nat (length (ev_remaining E orc s)))
                          (last (map snd (ev_log E s)) S) (N.of_nat (length (ev_adds E s))) /\
  Permutation (accepted (ev_adds E s)) (handled (ev_log E s) ++ ev_remaining E orc s) /\
  e_clock E (ev_fes E s) = ev_clock E s /\
  (forall tm l, ev_step E orc P s (SAdd tm l) = (Some (ev_add E false s tm l), OAddRes (ev_clock E s <=? tm))) /\
  (forall tm l, tm < ev_clock E s -> ev_fes E (ev_add E false s tm l) = ev_fes E s) /\
  StronglySorted N.le (map snd (ev_rest E orc P s)) /\
  (exists u, ev_dispatch_all E orc P (ev_set_limit E s LNone) = Some u /\ ev_log E u = ev_log E s ++ ev_rest E orc P s) /\
  (forall k, exists s', ev_dispatch_n_events E orc P s k = Some s' /\
                        ev_log E s' = ev_log E s ++ firstn (N.to_nat k) (ev_rest E orc P s) /\
                        ev_itr E s' = ev_itr E s + N.min k (N.of_nat (length (ev_rest E orc P s)))) /\
  (forall T, exists s', ev_dispatch_events_until E orc P s T = Some s' /\
                        ev_log E s' = ev_log E s ++ filter (fun e => snd e <=? T) (ev_rest E orc P s)).
Proof. exact g_paused. Qed.
Print Assumptions C10_any_event_set_paused.

(* ---- instances ---- *)
Theorem C10_stepped_log_eq_run_log_over_spec_event_set :
  forall (P : prog) (S B : N) (pre : list (N * N)) (ops : list sop),
  forallb is_dispatch ops = true ->
  exists s1 xs u,
    ev_exec_sched spec_evset (fun _ => tt) P (ev_boot spec_evset S B LNone pre) ops = (Some s1, xs) /\
    ev_dispatch_all spec_evset (fun _ => tt) P s1 = Some u /\
    ev_dispatch_all spec_evset (fun _ => tt) P (ev_boot spec_evset S B LNone pre) = Some u.
Proof. exact (g_stepped_eq_run spec_evset (fun _ => tt)). Qed.
Print Assumptions C10_stepped_log_eq_run_log_over_spec_event_set.

Theorem C10_stepped_log_eq_run_log_over_calendar_queue_event_set :
  forall (n t : N) (Hn : n <> 0) (Ht : t <> 0) (P : prog) (S B : N) (pre : list (N * N)) (ops : list sop),
  let E := cq_evset n t Hn Ht in
  forallb is_dispatch ops = true ->
  exists s1 xs u,
    ev_exec_sched E (fun _ => tt) P (ev_boot E S B LNone pre) ops = (Some s1, xs) /\
    ev_dispatch_all E (fun _ => tt) P s1 = Some u /\
    ev_dispatch_all E (fun _ => tt) P (ev_boot E S B LNone pre) = Some u.
Proof. intros n t Hn Ht. exact (g_stepped_eq_run (cq_evset n t Hn Ht) (fun _ => tt)). Qed.
Print Assumptions C10_stepped_log_eq_run_log_over_calendar_queue_event_set.

(* the BinaryHeap backend, EVERY oracle (functions of coq/Runtime/HeapRt.v) *)
Theorem C10_stepped_log_eq_run_log_heap :
  forall (orc : N -> hint) (P : prog) (S B : N) (pre : list (N * N)) (ops : list sop),
  forallb is_dispatch ops = true ->
  exists s1 xs u,
    hexec_sched orc P (hboot S B LNone pre) ops = (Some s1, xs) /\
    hdispatch_all orc P s1 = Some u /\
    hdispatch_all orc P (hboot S B LNone pre) = Some u.
Proof. exact (g_stepped_eq_run heap_evset). Qed.
Print Assumptions C10_stepped_log_eq_run_log_heap.

Theorem C10_stepped_block_eq_run_block_heap :
  forall (orc : N -> hint) (sc : script) (sched : list sop),
  forallb is_dispatch sched = true ->
  exists o0 o1 u,
    fst (hrun_block orc sc LNone []) = o0 ++ [gfinish hs hint hp_fetch hp_len orc u] /\
    fst (hrun_block orc sc LNone sched) = o0 ++ o1 ++ [gfinish hs hint hp_fetch hp_len orc u].
Proof. exact (g_stepped_block heap_evset). Qed.
Print Assumptions C10_stepped_block_eq_run_block_heap.

Theorem C10_step_ignores_configured_limit_heap :
  forall (orc : N -> hint) (P : prog) (L' L : lim) (s : hrt),
  gwith_limit hs hint hp_add hp_peek hp_fetch hp_len orc P L' (gset_limit hs s L) =
  option_map (fun s' => gset_limit hs s' L) (gwith_limit hs hint hp_add hp_peek hp_fetch hp_len orc P L' s).
Proof. exact (g_step_ignores_configured_limit heap_evset). Qed.
Print Assumptions C10_step_ignores_configured_limit_heap.

(* C10_n_step_exact, C10_until_step_exact, C10_paused_state, C10_paused_add_ok_iff for the heap backend, in one statement *)
Theorem C10_paused_heap :
  forall (orc : N -> hint) (P : prog) (S B : N) (L : lim) (pre : list (N * N)) (ops : list sop) (s : hrt) (xs : list sout),
  hexec_sched orc P (hboot S B L pre) ops = (Some s, xs) ->
  let rem := gremaining hs hint hp_fetch hp_len orc s in
  let rest := grest heap_evset orc P s in
  gstatus hs hp_len s = OStatus (N.of_nat (length (glog hs s))) (N.of_nat (length rem))
                                (last (map snd (glog hs s)) S) (N.of_nat (length (gadds hs s))) /\
  Permutation (accepted (gadds hs s)) (handled (glog hs s) ++ rem) /\
  hlast (gfes hs s) = gclock hs s /\
  (forall tm l, gstep hs hint hp_add hp_peek hp_fetch hp_len orc P s (SAdd tm l) =
                (Some (gadd_event hs hp_add false s tm l), OAddRes (gclock hs s <=? tm))) /\
  (forall tm l, tm < gclock hs s -> gfes hs (gadd_event hs hp_add false s tm l) = gfes hs s) /\
  StronglySorted N.le (map snd rest) /\
  (exists u, hdispatch_all orc P (gset_limit hs s LNone) = Some u /\ glog hs u = glog hs s ++ rest) /\
  (forall k, exists s', gdispatch_n_events hs hint hp_add hp_peek hp_fetch hp_len orc P s k = Some s' /\
                        glog hs s' = glog hs s ++ firstn (N.to_nat k) rest /\
                        gitr hs s' = gitr hs s + N.min k (N.of_nat (length rest))) /\
  (forall T, exists s', gdispatch_events_until hs hint hp_add hp_peek hp_fetch hp_len orc P s T = Some s' /\
                        glog hs s' = glog hs s ++ filter (fun e => snd e <=? T) rest).
Proof. exact (g_paused heap_evset). Qed.
Print Assumptions C10_paused_heap.

(* Non-vacuity over the heap backend, oracle "last candidate": three entries at time 7 in the heap; cutting after
   one event and again inside the tie group gives the order of the uninterrupted run (3, 2, 1 -- not the
   specification's 1, 2, 3), and an event added while paused at 7 goes first. *)
Example C10_nonvacuous_heap :
  let orc := fun (_ : N) (cs : list (N * N)) => pred (length cs) in
  let pre := [(7, 1); (7, 2); (7, 3); (9, 4)] in
  option_map (glog hs) (hdispatch_all orc [] (hboot 0 0 LNone pre)) = Some [(3, 7); (2, 7); (1, 7); (4, 9)] /\
  match hexec_sched orc [] (hboot 0 0 LNone pre) [SN 1; SUntil 7] with
  | (Some s1, xs) => xs = [OStatus 1 3 7 4; OStatus 3 1 7 4] /\
                     option_map (glog hs) (hdispatch_all orc [] s1) = Some [(3, 7); (2, 7); (1, 7); (4, 9)]
  | _ => False
  end /\
  match hexec_sched orc [] (hboot 0 0 LNone pre) [SN 1; SAdd 7 5; SAdd 6 5] with
  | (Some s1, xs) => xs = [OStatus 1 3 7 4; OAddRes true; OAddRes false] /\
                     option_map (glog hs) (hdispatch_all orc [] s1) = Some [(3, 7); (5, 7); (2, 7); (1, 7); (4, 9)]
  | _ => False
  end.
Proof. vm_compute. repeat split. Qed.
