(* C02 — The simulation clock is monotone and equals the timestamp of the running event.
   Statements only.  Model: coq/Runtime/Model.v, [repaired] variant (the event
   set's clock starts at Builder::start_time; dispatch_event peeks).  The
   statements quantify over [reachable S B s]: every state a runtime built with
   start time S can be in -- before the run, between two events, in the middle
   of a handler, paused between steps -- under the transition system [tr] of
   coq/Runtime/Mono.v, which allows any add_event at any moment, any limit swap
   and the dispatch of the next event; C02_run_reachable shows that every run
   and every stepped run of every script stays inside it. *)
From Coq Require Import List NArith Bool Sorting.Sorted Permutation.
From DesVerif Require Import CQueue.Spec Runtime.Limit Runtime.Model Runtime.Queue Runtime.Inv Runtime.Prefix Runtime.Mono.
Import ListNotations.
Open Scope N_scope.

(* For every start time S: the clock starts at S, no transition decreases it,
   and the sequence S, now()@handler1, now()@handler2, ... is non-decreasing;
   the clock is the time of the last handled event (S before the first). *)
Theorem C02_clock_monotone :
  forall (S B : N) (s : rt), reachable S B s ->
  S <= clock s /\ (forall s', tr s s' -> clock s <= clock s') /\
  StronglySorted N.le (S :: map snd (log s)) /\ clock s = last (map snd (log s)) S.
Proof. exact clock_monotone. Qed.
Print Assumptions C02_clock_monotone.

(* The clock has a single writer: a transition either leaves it alone or is the
   dispatch of the next event (label l, scheduled time t), which was pending
   with exactly that timestamp, sets the clock to t before the handler runs, and
   the handler logs (l, now() = t). *)
Theorem C02_now_is_event_time :
  forall (S B : N) (s s' : rt), reachable S B s -> tr s s' ->
  clock s' = clock s \/
  exists l t, nextev (fes s) = Some (l, t) /\ In (t, l) (pend (fes s)) /\ s' = fetched s l t /\
              clock s' = t /\ log s' = log s ++ [(l, t)] /\ pend (fes s) = (t, l) :: pend (fes s').
Proof. exact now_is_event_time. Qed.
Print Assumptions C02_now_is_event_time.

(* Events are handled in non-decreasing timestamp order, each exactly once: at
   every moment the accepted add_event calls are, as a multiset of
   (time, label), the handled events (each logged with now() equal to its
   scheduled time) plus the pending ones; the dispatch counter is the number of
   handled events. *)
Theorem C02_dispatch_sorted_once :
  forall (S B : N) (s : rt), reachable S B s ->
  StronglySorted N.le (map snd (log s)) /\
  Permutation (accepted (adds s)) (handled (log s) ++ pend (fes s)) /\
  itr s = N.of_nat (length (log s)).
Proof. exact dispatch_sorted_once. Qed.
Print Assumptions C02_dispatch_sorted_once.

(* Scheduling at or after the current simulated time always succeeds (from
   outside or inside a handler, at any start time), and the event becomes
   pending with that timestamp; add_event_in never fails. *)
Theorem C02_add_at_or_after_now_ok :
  forall (S B : N) (s : rt) (inh : bool) (t l : N), reachable S B s ->
  (clock s <= t ->
     option_map a_ok (last_rec (add_event inh s t l)) = Some true /\
     Permutation (pend (fes (add_event inh s t l))) ((t, l) :: pend (fes s)) /\
     clock (add_event inh s t l) = clock s) /\
  (forall d, option_map a_ok (last_rec (add_event_in s d l)) = Some true).
Proof.
  intros S B s inh t l HR. split; [apply (add_at_or_after_now_ok S B); exact HR|].
  intros d. apply (add_event_in_ok S B); exact HR.
Qed.
Print Assumptions C02_add_at_or_after_now_ok.

(* Scheduling before the current simulated time is rejected (the recorded
   outcome is the panic) and changes neither the event set nor the clock nor
   the log -- in particular before a non-zero start time. *)
Theorem C02_add_before_now_panics :
  forall (S B : N) (s : rt) (inh : bool) (t l : N), reachable S B s -> t < clock s ->
  option_map a_ok (last_rec (add_event inh s t l)) = Some false /\
  fes (add_event inh s t l) = fes s /\ clock (add_event inh s t l) = clock s /\ log (add_event inh s t l) = log s.
Proof. exact add_before_now_panics. Qed.
Print Assumptions C02_add_before_now_panics.

(* every recorded attempt of a run was accepted iff its time was not before the now() it was made at *)
Theorem C02_all_adds_ok_iff :
  forall (S B : N) (s : rt), reachable S B s -> Forall (fun r => a_ok r = (a_now r <=? a_time r)) (adds s).
Proof. exact all_adds_ok_iff. Qed.
Print Assumptions C02_all_adds_ok_iff.

(* The transition system covers the model: for every program, limit, pre-run
   adds and step schedule, the booted state, every paused state and the final
   state are reachable (the handlers' intermediate states are, too:
   Mono.reach_actions). *)
Theorem C02_run_reachable :
  forall (S B : N) (L : lim) (pre : list (N * N)) (P : prog) (ops : list sop) (s1 : rt) (xs : list sout) (sf : rt),
  exec_sched repaired P (boot S B L pre) ops = (Some s1, xs) ->
  dispatch_all repaired P s1 = Some sf ->
  reachable S B (boot S B L pre) /\ reachable S B s1 /\ reachable S B sf.
Proof. exact run_reachable. Qed.
Print Assumptions C02_run_reachable.

(* the event loop terminates for every script *)
Theorem C02_run_total : forall sc : script, ~ In OFuel (run_script repaired sc).
Proof. exact run_total. Qed.
Print Assumptions C02_run_total.

(* Non-vacuity: start time 10; add_event(5) and add_event(9) are rejected,
   add_event(10) and add_event(12) accepted; the handler of label 0 schedules
   label 1 with zero delay and tries label 2 at the absolute time 3 (rejected);
   the clock goes 10, 10, 12 and the run ends at 12. *)
Example C02_nonvacuous :
  let P := [[(0, 0, 1); (1, 3, 2)]] in
  let s0 := boot 10 5 LNone [(5, 0); (12, 7); (10, 0); (9, 0)] in
  map a_ok (adds s0) = [false; true; true; false] /\
  match dispatch_all repaired P s0 with
  | Some sf => log sf = [(0, 10); (1, 10); (7, 12)] /\ clock sf = 12 /\
               map (fun r => (a_time r, a_now r, a_ctx r, a_ok r)) (adds sf) =
               [(5, 10, 0, false); (12, 10, 0, true); (10, 10, 0, true); (9, 10, 0, false);
                (10, 10, 1, true); (3, 10, 1, false)]
  | None => False
  end.
Proof. vm_compute. repeat split. Qed.

From DesVerif Require Import Runtime.ModelCq Runtime.Compose Runtime.ComposeProps.

(* ---------------------------------------------------------------------------
   The same for the runtime over the CALENDAR QUEUE.  Runtime/ModelCq.v is the
   runtime model threading the concrete queue state of des-cqueue (cq_new_at n t
   start, add, peek_time, fetch_next, len) for the parameters n, t of
   Builder::cqueue_options; Runtime/Compose.v proves by forward simulation
   (queue part: the refinement relation of C01) that it prints exactly what the
   model over the specification prints.  [run_gen_cq repaired] is what the
   extracted runner executes in the differential check. *)
Theorem C02_run_over_cqueue_eq_run_over_spec :
  (forall input : list N, run_gen_cq repaired input = run_gen repaired input) /\
  (forall (n t : N) (sc : script), n <> 0 -> t <> 0 -> crun_script repaired n t sc = run_script repaired sc).
Proof. split; [exact run_over_cqueue_eq_run_over_spec|exact run_script_over_cqueue]. Qed.
Print Assumptions C02_run_over_cqueue_eq_run_over_spec.

(* C02 over the calendar queue, for every start time and every queue
   parameterisation: in the booted state, every paused state and the final
   state of every (stepped) run of every program
     - the clock is at or after the start time and is the time of the last
       handled event; S, now()@handler1, now()@handler2, ... never decreases;
     - the calendar queue's own clock (CQueue::time) equals the reported time;
     - every add_event so far was accepted iff its time was not before the
       now() it was made at;
     - the accepted adds are, as a multiset of (time, label), the handled events
       (logged with now() = scheduled time) plus what fetch_next still drains;
     - a further add_event(t) is accepted iff t >= now(), never moves the clock,
       and when rejected leaves the queue untouched. *)
Theorem C02_holds_over_cqueue :
  forall (n t S B : N) (L : lim) (pre : list (N * N)) (P : prog) (ops : list sop) (c1 : rtc) (xs : list sout) (cf : rtc),
  n <> 0 -> t <> 0 ->
  cexec_sched repaired P (cboot n t S B L pre) ops = (Some c1, xs) ->
  cdispatch_all repaired P c1 = Some cf ->
  forall c, c = cboot n t S B L pre \/ c = c1 \/ c = cf ->
  S <= cclock c /\
  StronglySorted N.le (S :: map snd (clog c)) /\
  cclock c = last (map snd (clog c)) S /\
  CQueue.Model.tcur (cfes c) = cclock c /\
  Forall (fun r => a_ok r = (a_now r <=? a_time r)) (cadds c) /\
  Permutation (accepted (cadds c)) (handled (clog c) ++ cremaining (cfes c)) /\
  (forall inh tm l, clast_ok (cadd_event inh c tm l) = (cclock c <=? tm) /\
                    cclock (cadd_event inh c tm l) = cclock c /\
                    (tm < cclock c -> cfes (cadd_event inh c tm l) = cfes c)).
Proof.
  intros n t S B L pre P ops c1 xs cf Hn Ht H1 H2 c Hc.
  destruct (run_good_cq n t S B L pre P ops c1 xs cf Hn Ht H1 H2) as [G0 [G1 Gf]].
  destruct Hc as [ -> | [ -> | -> ] ]; assumption.
Qed.
Print Assumptions C02_holds_over_cqueue.

Theorem C02_run_total_cq : forall (n t : N) (sc : script), n <> 0 -> t <> 0 -> ~ In OFuel (crun_script repaired n t sc).
Proof. exact run_total_cq. Qed.
Print Assumptions C02_run_total_cq.

Example C02_nonvacuous_cq :
  let P := [[(0, 0, 1); (1, 3, 2)]] in
  let c0 := cboot 7 3 10 5 LNone [(5, 0); (12, 7); (10, 0); (9, 0)] in
  map a_ok (cadds c0) = [false; true; true; false] /\
  match cdispatch_all repaired P c0 with
  | Some cf => clog cf = [(0, 10); (1, 10); (7, 12)] /\ cclock cf = 12 /\ CQueue.Model.tcur (cfes cf) = 12
  | None => False
  end.
Proof. vm_compute. repeat split. Qed.


(* ---------------------------------------------------------------------------
   C02 for the runtime over the OTHER future event set (BinaryHeap + zero queue,
   des built without `cqueue`; coq/Runtime/HeapSet.v, HeapRt.v), for EVERY oracle
   resolving BinaryHeap's unspecified order among equal timestamps.  The proofs
   are those of coq/Runtime/GenericProps.v -- the runtime over an abstract event
   set satisfying six facts -- instantiated with the heap backend
   (coq/Runtime/HeapSetProps.v). *)
From DesVerif Require Import Runtime.HeapSet Runtime.Generic Runtime.GenericProps Runtime.HeapRt Runtime.HeapSetProps.

Theorem C02_holds_over_heap :
  forall (orc : N -> hint) (S B : N) (L : lim) (pre : list (N * N)) (P : prog) (ops : list sop),
  exists s1 xs sf,
    hexec_sched orc P (hboot S B L pre) ops = (Some s1, xs) /\ ~ In OFuel xs /\ hdispatch_all orc P s1 = Some sf /\
    forall s, s = hboot S B L pre \/ s = s1 \/ s = sf ->
      let rem := gremaining hs hint hp_fetch hp_len orc s in
      S <= gclock hs s /\
      StronglySorted N.le (S :: map snd (glog hs s)) /\
      gclock hs s = last (map snd (glog hs s)) S /\
      hlast (gfes hs s) = gclock hs s /\
      gitr hs s = N.of_nat (length (glog hs s)) /\
      hp_len (gfes hs s) = N.of_nat (length rem) /\
      Forall (fun r => a_ok r = (a_now r <=? a_time r)) (gadds hs s) /\
      Permutation (accepted (gadds hs s)) (handled (glog hs s) ++ rem) /\
      (forall inh tm l, glast_ok hs (gadd_event hs hp_add inh s tm l) = (gclock hs s <=? tm) /\
                        gclock hs (gadd_event hs hp_add inh s tm l) = gclock hs s /\
                        (tm < gclock hs s -> gfes hs (gadd_event hs hp_add inh s tm l) = gfes hs s)).
Proof.
  intros orc S B L pre P ops. destruct (heap_runtime_good orc S B L pre P ops) as [s1 [xs [sf [H1 [H2 [H3 [G0 [G1 Gf]]]]]]]].
  exists s1, xs, sf. split; [exact H1|]. split; [exact H2|]. split; [exact H3|].
  intros s [ -> | [ -> | -> ] ]; assumption.
Qed.
Print Assumptions C02_holds_over_heap.

(* one dispatch: the event was pending with exactly the timestamp that now()
   shows inside its handler, and that time is not before the previous now() *)
Theorem C02_heap_now_is_event_time :
  forall (orc : N -> hint) S B L pre P ops s1 xs s',
  hexec_sched orc P (hboot S B L pre) ops = (Some s1, xs) ->
  gdispatch_event hs hint hp_add hp_peek hp_fetch orc P s1 = inl s' ->
  exists t l, In (t, l) (hpend (gfes hs s1)) /\ gclock hs s1 <= t /\ gclock hs s' = t /\ glog hs s' = glog hs s1 ++ [(l, t)].
Proof. exact heap_dispatch_now. Qed.
Print Assumptions C02_heap_now_is_event_time.

Example C02_heap_nonvacuous :
  let P := [[(0, 0, 1); (1, 3, 2)]] in
  let orc := fun (_ : N) (cs : list (N * N)) => pred (length cs) in
  let s0 := hboot 10 5 LNone [(5, 0); (12, 7); (10, 0); (9, 0); (12, 8)] in
  map a_ok (gadds hs s0) = [false; true; true; false; true] /\
  match hdispatch_all orc P s0 with
  | Some sf => glog hs sf = [(0, 10); (1, 10); (8, 12); (7, 12)] /\ gclock hs sf = 12 /\ hlast (gfes hs sf) = 12
  | None => False
  end.
Proof. vm_compute. repeat split. Qed.

(* The harness dimension "concurrent build" (script fields cbk, cbt: while the
   cbk-th event is handled another thread calls Builder::start_time(cbt).build())
   is invisible to a runtime whose simulation lock is taken before the
   process-global clock is touched: the three models (over the specification,
   over the calendar queue, over the heap backend) do not look at the fields.
   The differential check therefore demands that the real runtime prints the
   same with and without the intruding thread. *)
Theorem C02_concurrent_build_irrelevant :
  forall (n t u s b k x k' x' : N) (r : list N),
  run_gen repaired (n :: t :: u :: s :: b :: k :: x :: r) = run_gen repaired (n :: t :: u :: s :: b :: k' :: x' :: r) /\
  run_gen_cq repaired (n :: t :: u :: s :: b :: k :: x :: r) = run_gen_cq repaired (n :: t :: u :: s :: b :: k' :: x' :: r) /\
  hrun (n :: t :: u :: s :: b :: k :: x :: r) = hrun (n :: t :: u :: s :: b :: k' :: x' :: r).
Proof. intros. split; [reflexivity|]. split; reflexivity. Qed.
Print Assumptions C02_concurrent_build_irrelevant.
