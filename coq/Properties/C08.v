(* C08 — A message sent into a gate chain reaches the module at the far end.
   Statements only.  The model is coq/Gate/Model.v (gate.rs connect / next_hop /
   PathIter, events.rs handle_with_sink, ctx.rs buf_send_at).  Every theorem is
   about [exec (init owners) ops] for ALL gate declarations [owners] and ALL
   operation lists [ops]: connect calls in any order and orientation, with or
   without channels, repeated, rejected (self-connect, third peer) — interleaved
   with queries.  [slot gs g i] is connection slot i of gate g, a [conn] is
   (peer gate, slot index used on the peer, channel latency?). *)
From Coq Require Import List NArith.
From DesVerif Require Import Gate.Model Gate.Sym Gate.Walk Gate.Deliver Gate.Reach Gate.Spawn Gate.Queue.
Import ListNotations.
Open Scope N_scope.

(* Representation invariant (Sym, Fill, NoSelf, Distinct) in every reachable state. *)
Theorem C08_invariant_reachable : forall owners ops, Inv (sgates (fst (exec (init owners) ops))).
Proof. exact reach_inv. Qed.
Print Assumptions C08_invariant_reachable.

(* Sym: if g.slot i = (h, j) then h.slot j = (g, i), with the same channel configuration. *)
Theorem C08_sym : forall owners ops g i c,
  let gs := sgates (fst (exec (init owners) ops)) in
  slot gs g i = Some c ->
  exists c', slot gs (endpoint c) (endpoint_id c) = Some c' /\
             endpoint c' = g /\ endpoint_id c' = i /\ channel c' = channel c.
Proof. exact reach_sym. Qed.
Print Assumptions C08_sym.

(* slot 1 is used only if slot 0 is *)
Theorem C08_fill_order : forall owners ops g,
  let gs := sgates (fst (exec (init owners) ops)) in
  slot gs g S1 <> None -> slot gs g S0 <> None.
Proof. exact reach_fill. Qed.
Print Assumptions C08_fill_order.

(* a gate never has more than two peers; they are distinct and never the gate itself *)
Theorem C08_degree_le_2 : forall owners ops g,
  let gs := sgates (fst (exec (init owners) ops)) in
  (length (peers gs g) <= 2)%nat /\ NoDup (peers gs g) /\ ~ In g (peers gs g).
Proof. exact reach_degree. Qed.
Print Assumptions C08_degree_le_2.

(* ... and an established connection is never overwritten by anything executed later *)
Theorem C08_slots_monotone : forall owners ops more g i c,
  slot (sgates (fst (exec (init owners) ops))) g i = Some c ->
  slot (sgates (fst (exec (init owners) (ops ++ more)))) g i = Some c.
Proof. exact reach_mono. Qed.
Print Assumptions C08_slots_monotone.

(* ... and a gate with two peers rejects a third, in either orientation, leaving the table unchanged *)
Theorem C08_third_peer_rejected : forall owners ops a b ch p q,
  let s := fst (exec (init owners) ops) in
  slot (sgates s) a S0 = Some p -> slot (sgates s) a S1 = Some q ->
  endpoint p <> b -> endpoint q <> b -> lookup (sgates s) b <> None ->
  (exists site, snd (connect s a b ch) = OPanic site) /\ sgates (fst (connect s a b ch)) = sgates s /\
  (exists site, snd (connect s b a ch) = OPanic site) /\ sgates (fst (connect s b a ch)) = sgates s.
Proof. exact reach_third_peer. Qed.
Print Assumptions C08_third_peer_rejected.

(* connecting is symmetric: a.connect(b) and b.connect(a) produce the same gate
   table (and, when no lock is poisoned by an earlier caught panic, the same
   answer); after a successful connect each gate lists the other *)
Theorem C08_connect_symmetric : forall owners ops a b ch,
  let s := fst (exec (init owners) ops) in
  (sgates (fst (connect s a b ch)) = sgates (fst (connect s b a ch)) /\
   (poisoned s = [] -> snd (connect s a b ch) = snd (connect s b a ch))) /\
  (snd (connect s a b ch) = OUnit ->
   connected (sgates (fst (connect s a b ch))) a b /\ connected (sgates (fst (connect s a b ch))) b a).
Proof. intros owners ops a b ch. split; [exact (reach_connect_symmetric owners ops a b ch)|exact (reach_connect_connected owners ops a b ch)]. Qed.
Print Assumptions C08_connect_symmetric.

(* ... and idempotent: repeating a successful connect, in either orientation and
   with any channel argument, returns without changing anything *)
Theorem C08_connect_idempotent : forall owners ops a b ch ch',
  let s := fst (exec (init owners) ops) in
  poisoned s = [] -> snd (connect s a b ch) = OUnit ->
  let s1 := fst (connect s a b ch) in
  connect s1 a b ch' = (s1, OUnit) /\ connect s1 b a ch' = (s1, OUnit).
Proof. exact reach_connect_idempotent. Qed.
Print Assumptions C08_connect_idempotent.

(* the walk from a non-transit gate terminates within the fuel 2*|gates|+1:
   path_iter enumerates a path, a send never runs out of fuel, and no operation
   of any script reports fuel exhaustion *)
Theorem C08_walk_from_endpoint_terminates : forall owners ops,
  let gs := sgates (fst (exec (init owners) ops)) in
  (forall g x, lookup gs g = Some x -> kind_of x <> Transit ->
     (exists p, path_iter gs g = Some (Some p)) /\
     (forall h sender t, buf_send_at gs h sender g t <> SOutOfFuel)) /\
  ~ In OOutOfFuel (snd (exec (init owners) ops)).
Proof. intros owners ops. split; [intros g x; exact (reach_walk_terminates owners ops g x)|exact (script_no_fuel owners ops)]. Qed.
Print Assumptions C08_walk_from_endpoint_terminates.

(* walked from its other end, a chain enumerates as the exact mirror image:
   gates reversed (the far end replaced by the start), channels reversed *)
Theorem C08_mirror : forall owners ops g p,
  let gs := sgates (fst (exec (init owners) ops)) in
  path_iter gs g = Some (Some p) ->
  exists q, path_iter gs (last (map endpoint p) g) = Some (Some q) /\
            map endpoint q = tl (rev (g :: map endpoint p)) /\
            map channel q = rev (map channel p).
Proof. exact reach_mirror. Qed.
Print Assumptions C08_mirror.

(* a message object carrying ANY header h (fresh, or stamped by an earlier leg)
   sent on a non-transit gate g at time t by module [sender] yields exactly one
   result: a delivery to the owner of the far end of g's chain, at t + sum of
   the per-hop channel delays, with header sender = the module that performed
   THIS send, receiver = the far owner, last_gate = the far-end gate *)
Theorem C08_delivered_once_to_far_owner : forall owners ops h sender g x t,
  let gs := sgates (fst (exec (init owners) ops)) in
  lookup gs g = Some x -> kind_of x <> Transit ->
  exists p, path_iter gs g = Some (Some p) /\
    let far := last (map endpoint p) g in
    buf_send_at gs h sender g t =
    SDelivered {| d_to := owner_of gs far; d_time := t + path_delay p;
                  d_sender := sender; d_receiver := owner_of gs far; d_last := far |}.
Proof. exact reach_delivered. Qed.
Print Assumptions C08_delivered_once_to_far_owner.

(* path_delay is the sum over the hops of (transmission time of the message at
   the hop's bitrate + the hop's latency): the delay of an idle channel.  Scope:
   each direction of a hop has its own channel instance; the statement covers
   runs in which the traffic of one direction of a hop does not overlap in time
   (no message meets a busy channel - busy/drop/queue is C07); opposite
   directions may overlap freely. *)
Theorem C08_path_delay_sum : forall p,
  path_delay p = fold_right N.add 0
    (map (fun c => match channel c with Some (lat, br) => tx br + lat | None => 0 end) p).
Proof. exact path_delay_sum. Qed.
Print Assumptions C08_path_delay_sum.

(* the other direction: sent on the far end, the message reaches g's owner after the same total delay *)
Theorem C08_both_directions : forall owners ops h sender g p t,
  let gs := sgates (fst (exec (init owners) ops)) in
  path_iter gs g = Some (Some p) ->
  let far := last (map endpoint p) g in
  buf_send_at gs h sender far t =
  SDelivered {| d_to := owner_of gs g; d_time := t + path_delay p;
                d_sender := sender; d_receiver := owner_of gs g; d_last := g |}.
Proof. exact reach_both_directions. Qed.
Print Assumptions C08_both_directions.

(* relayed messages (the received object is sent on by the receiving module,
   echoed back or forwarded onto another chain, at most [b] times): the legs of
   one message form a chain in which every delivery names as sender the module
   that performed that leg's send (the first: [cur]; each later one: the module
   that received the previous leg), receiver = the module it was delivered to;
   there are between 1 and b+1 legs, and each leg is buf_send_at applied to the
   header the previous delivery left on the object *)
Theorem C08_relay_header_per_leg : forall b gs rules h cur g t leg,
  chain_ok cur (legs b gs rules h cur g t leg) /\
  (1 <= length (legs b gs rules h cur g t leg) <= b + 1)%nat /\
  legs b gs rules h cur g t leg =
  (leg, buf_send_at gs h cur g t) ::
  match buf_send_at gs h cur g t, b with
  | SDelivered d, S b' =>
      match find_rule rules (d_last d) with
      | Some (g', dl) => legs b' gs rules (hdr_of d) (d_to d) g' (d_time d + dl) (leg + 1)
      | None => []
      end
  | _, _ => []
  end.
Proof. intros. split; [apply legs_sender_chain|split; [apply legs_length|apply legs_unfold]]. Qed.
Print Assumptions C08_relay_header_per_leg.

(* whole scripts: the delivery log has exactly one entry (list of legs) per
   send, and the k-th send (owner of g calls send_at(fresh msg, g, t+d) at time
   t; d = 0 immediate, d > 0 delayed; relay budget b) on a gate that is not
   transit in the final table starts with the delivery described above, followed
   by at most b relay legs whose headers name their own senders *)
Theorem C08_script_deliveries : forall owners ops k g t d b x,
  let gs := sgates (fst (exec (init owners) ops)) in
  let rules := rules_of gs ops in
  nth_error (sends_of gs ops) k = Some (g, t, d, b) ->
  lookup gs g = Some x -> kind_of x <> Transit ->
  length (map (send_one gs rules) (sends_of gs ops)) = length (sends_of gs ops) /\
  exists p rest, path_iter gs g = Some (Some p) /\
    let far := last (map endpoint p) g in
    nth_error (map (send_one gs rules) (sends_of gs ops)) k =
    Some ((0, SDelivered {| d_to := owner_of gs far; d_time := t + d + path_delay p;
                            d_sender := owner_of gs g; d_receiver := owner_of gs far; d_last := far |}) :: rest) /\
    chain_ok (owner_of gs far) rest /\ (length rest <= N.to_nat b)%nat.
Proof. exact script_deliveries. Qed.
Print Assumptions C08_script_deliveries.

(* Gates created at run time through a spawner ([Spawn caller target size],
   executed inside at_sim_start by module [caller]): the j-th new gate gets the
   next free id and is owned by [target], the module the spawner is bound to -
   whoever executed the call and whatever is executed afterwards.  All theorems
   above are stated for every operation list, Spawn / RConnect included, so the
   receiver of a message is the owner so declared. *)
Theorem C08_spawned_gates_owner : forall owners ops caller target size more j,
  (j < N.to_nat size)%nat ->
  owner_of (sgates (fst (exec (init owners) (ops ++ Spawn caller target size :: more))))
           (N.of_nat (length (sgates (fst (exec (init owners) ops)))) + N.of_nat j) = target.
Proof. exact spawned_gates_owner. Qed.
Print Assumptions C08_spawned_gates_owner.

(* A message that waits in the queue of a busy Queue-policy channel continues
   on exactly the connection it was offered on: the buffer keeps (target gate,
   slot index on the target gate) of every offer, in FIFO order; after the wait
   send_message restores the channel handle, giving back the offered connection;
   and the gate / module a walk ends at does not depend on when it continues.
   (How long the message waits is C07's subject.) *)
Theorem C08_queue_preserves_connection : forall offers : list (N * conn),
  let b := enqueue_all [] offers in
  map (fun x => (fst x, (endpoint (snd x), endpoint_id (snd x)))) (dequeue_all (length b) b) =
  map (fun x => (fst x, (endpoint (snd x), endpoint_id (snd x)))) offers.
Proof. exact queue_preserves_connection. Qed.
Print Assumptions C08_queue_preserves_connection.

Theorem C08_queued_message_resumes_on_offered_connection : forall ch con m,
  channel con = Some ch ->
  (forall c' r, dequeue (enqueue [] m con) = Some ((m, c'), r) -> restore ch c' = con) /\
  (forall gs fuel now last_g o t l, handle_with_sink fuel gs con now last_g = Some (o, t, l) ->
     forall now', exists t', handle_with_sink fuel gs con now' last_g = Some (o, t', l)).
Proof.
  intros ch con m Hc. split; [exact (resume_same_connection ch con m Hc)|].
  intros gs fuel now last_g o t l. exact (hws_route_time_indep gs fuel con now last_g o t l).
Qed.
Print Assumptions C08_queued_message_resumes_on_offered_connection.

(* Non-vacuity (run-time wiring): module 0 creates gate g1 on itself and gate g2
   on module 1 through module 1's spawner, connects them at run time and sends:
   the message reaches module 1. *)
Example C08_nonvacuous_spawn :
  let ops := [Spawn 0 0 1; Spawn 0 1 1; RConnect 0 1 2 (Some (3, 0)); Send 1 5 0 0] in
  let r := exec (init [2]) ops in
  snd r = [OSpawn; OSpawn; OUnit; OSent] /\
  map (send_one (sgates (fst r)) (rules_of (sgates (fst r)) ops)) (sends_of (sgates (fst r)) ops) =
    [[(0, SDelivered {| d_to := 1; d_time := 8; d_sender := 0; d_receiver := 1; d_last := 2 |})]].
Proof. vm_compute. split; reflexivity. Qed.

(* Non-vacuity: a 3-hop chain g3 - g1 - g0 - g2 over modules 0,1,2,0 built
   middle-first with mixed orientation (so g1 and g0 hold their onward
   direction in slot 0 resp. slot 1), a 5 ns latency channel on g1-g0 and a zero-latency
   72 Gbit/s channel on g0-g2 (8 ns transmission time for the 72-byte message), a self-connect, a query on a transit gate and an echo rule at g2. *)
Example C08_nonvacuous :
  let ops := [Connect 0 1 (Some (5, 0)); Connect 2 0 (Some (0, 72000000000)); Connect 3 1 None; Connect 1 0 None; Connect 2 2 None;
              PathIter 3; PathIter 2; PathIter 0; Kind 1; NextGate 3; PathEnd 3; Send 3 10 0 0; Relay 2 2 1; Send 2 0 4 0; Send 3 0 0 2] in
  let r := exec (init [0; 1; 2; 0]) ops in
  snd r = [OUnit; OUnit; OUnit; OUnit; OPanic 1;
           OIter (Some [{| endpoint := 1; endpoint_id := S1; channel := None |};
                        {| endpoint := 0; endpoint_id := S0; channel := Some (5, 0) |};
                        {| endpoint := 2; endpoint_id := S0; channel := Some (0, 72000000000) |}]);
           OIter (Some [{| endpoint := 0; endpoint_id := S1; channel := Some (0, 72000000000) |};
                        {| endpoint := 1; endpoint_id := S0; channel := Some (5, 0) |};
                        {| endpoint := 3; endpoint_id := S0; channel := None |}]);
           OIter None; OKind Transit; ONext (Some 1); OEnd (Some 2); OSent; ORule; OSent; OSent] /\
  map (send_one (sgates (fst r)) (rules_of (sgates (fst r)) ops)) (sends_of (sgates (fst r)) ops) =
    [[(0, SDelivered {| d_to := 2; d_time := 23; d_sender := 0; d_receiver := 2; d_last := 2 |})];
     [(0, SDelivered {| d_to := 0; d_time := 17; d_sender := 2; d_receiver := 0; d_last := 3 |})];
     (* budget 2: m0 sends on g3, m2 echoes the received object back on g2 after 1 ns (sender = m2), no rule at g3 *)
     [(0, SDelivered {| d_to := 2; d_time := 13; d_sender := 0; d_receiver := 2; d_last := 2 |});
      (1, SDelivered {| d_to := 0; d_time := 27; d_sender := 2; d_receiver := 0; d_last := 3 |})]].
Proof. vm_compute. split; reflexivity. Qed.
