(* C07 — Channels account for every message with the specified delay, busy and
   drop rules.  Statements only.

   [reach tx mt bursts oracle n] is the state of the model of
   des/src/net/channel.rs + the event loop (coq/Channel/Model.v, the code as it
   is in /repo now) after n events, for an arbitrary transmission-time function
   [tx : len -> ns] (the f64 result of calculate_busy), arbitrary metrics
   [mt] (latency, jitter, Drop | Queue None | Queue (Some limit)), an arbitrary
   script [bursts] (times, message ids and lengths; one burst = the sends of one
   handler invocation) and an arbitrary jitter oracle.  [log] is the record of
   what happened, newest item first (coq/Channel/Trace.v); [pend (q s)] are the
   pending events in the order the event set (CQueue.Spec, C01) returns them. *)
From Coq Require Import List NArith Permutation.
From DesVerif Require Import CQueue.Model CQueue.Spec Channel.Model Channel.Queue Channel.Trace Channel.Core
  Channel.Account Channel.Timing Channel.Props Channel.Term Channel.Order Channel.Multi Channel.Project Channel.Links Channel.MTerm Channel.ModelCq Channel.OverCq Channel.OverCqProps Channel.DrawModel Channel.Draw.
Import ListNotations.
Open Scope N_scope.

(* account: every message of the script is, at every event boundary, in exactly one of
   delivered / dropped because busy / dropped because the queue cannot hold it /
   queued / in flight (Exit event pending) / not yet offered (wake-up pending) *)
Theorem C07_account : forall tx mt bursts oracle n,
  let s := reach tx mt bursts oracle n in
  Permutation (all_ids bursts)
    (delivered (log s) ++ dropped_busy (log s) ++ dropped_full (log s) ++ map fst (buffer (ch s))
     ++ exits (pend (q s)) ++ pending_ids bursts (pend (q s))).
Proof. exact account. Qed.
Print Assumptions C07_account.

(* none twice *)
Theorem C07_account_none_twice : forall tx mt bursts oracle n,
  NoDup (all_ids bursts) ->
  let s := reach tx mt bursts oracle n in
  NoDup (delivered (log s) ++ dropped_busy (log s) ++ dropped_full (log s) ++ map fst (buffer (ch s))
         ++ exits (pend (q s)) ++ pending_ids bursts (pend (q s))).
Proof. exact account_nodup. Qed.
Print Assumptions C07_account_none_twice.

(* the run of a script (offers (time, length), ids = positions) ends within the fuel of
   Model.run_model with no pending event, an idle channel, an empty queue, and every message
   delivered or dropped exactly once *)
Theorem C07_run_completes : forall tx mt oracle offs,
  let bs := group offs 0 in
  let s := steps current enc_ev tx mt bs (fuel_for offs) (init enc_ev bs oracle) in
  step current enc_ev tx mt bs s = None /\ pend (q s) = [] /\ busy (ch s) = false /\ buffer (ch s) = [] /\
  Permutation (ids_from 0 (length offs)) (delivered (log s) ++ dropped_busy (log s) ++ dropped_full (log s)) /\
  NoDup (delivered (log s) ++ dropped_busy (log s) ++ dropped_full (log s)).
Proof. exact run_completes. Qed.
Print Assumptions C07_run_completes.

(* idle_implies_queue_empty (the F5 statement): at every event boundary an idle channel has an
   empty queue; idle = no Unbusy event pending, busy = exactly one, stamped with the finish time *)
Theorem C07_idle_implies_queue_empty : forall tx mt bursts oracle n,
  let s := reach tx mt bursts oracle n in
  (busy (ch s) = false -> buffer (ch s) = []) /\
  unbusies (pend (q s)) = (if busy (ch s) then [finish (ch s)] else []).
Proof. exact idle_implies_queue_empty. Qed.
Print Assumptions C07_idle_implies_queue_empty.

(* delivery_time: = start + tx len + latency + j, j the sample drawn for that transmission;
   0 <= j holds in N; j = 0 without jitter, j < jitter if the oracle's samples are *)
Theorem C07_delivery_time : forall tx mt bursts oracle n m t',
  let s := reach tx mt bursts oracle n in
  In (IDeliver m t') (log s) ->
  exists len t j fq, In (IStart m len t j fq) (log s) /\ t' = t + (m_lat mt + tx len + j) /\
    (m_jit mt = 0 -> j = 0) /\ (Forall (fun j => j < m_jit mt) oracle -> m_jit mt <> 0 -> j < m_jit mt).
Proof. exact delivery_time. Qed.
Print Assumptions C07_delivery_time.

(* ... and a transmission that started is delivered at that time or still has its Exit event pending for it *)
Theorem C07_started_delivered_or_in_flight : forall tx mt bursts oracle n m len t j fq,
  let s := reach tx mt bursts oracle n in
  In (IStart m len t j fq) (log s) ->
  In (IDeliver m (t + (m_lat mt + tx len + j))) (log s) \/
  exit_at (pend (q s)) m (t + (m_lat mt + tx len + j)).
Proof. exact started_delivered_or_in_flight. Qed.
Print Assumptions C07_started_delivered_or_in_flight.

(* busy_span, in event order (Trace.wf_log / item_ok): a transmission with tx len <> 0 makes the
   channel busy until the Unbusy event stamped start + tx len; in between every offer is
   dropped or queued and every sample reads busy with that finish time; outside, offers start at
   once and samples read idle; the channel record agrees with the log; the Unbusy event is pending *)
Theorem C07_busy_span : forall tx mt bursts oracle n,
  let s := reach tx mt bursts oracle n in
  wf_log tx mt (log s) /\
  cur_of tx (log s) = (if busy (ch s) then Some (finish (ch s)) else None) /\
  unbusies (pend (q s)) = (if busy (ch s) then [finish (ch s)] else []).
Proof. exact busy_span. Qed.
Print Assumptions C07_busy_span.

Theorem C07_unbusy_stamp : forall tx mt bursts oracle n l2 t r,
  log (reach tx mt bursts oracle n) = l2 ++ IUnbusy t :: r -> cur_of tx r = Some t.
Proof. exact unbusy_stamp. Qed.
Print Assumptions C07_unbusy_stamp.

(* fifo_start: a message leaves the queue only as its head, during the handling of the Unbusy
   event (deq_ctx) stamped with that very time, with the channel idle; a direct start happens
   only with an empty queue (no overtaking); accepted offers in offer order = transmissions in
   start order followed by the queue *)
Theorem C07_fifo_start : forall tx mt bursts oracle n l2 m len t j r,
  log (reach tx mt bursts oracle n) = l2 ++ IStart m len t j true :: r ->
  hd_error (queue_of r) = Some (m, len) /\ deq_ctx tx r = Some t /\ cur_of tx r = None.
Proof. exact fifo_start. Qed.
Print Assumptions C07_fifo_start.

Theorem C07_direct_start : forall tx mt bursts oracle n l2 m len t j r,
  log (reach tx mt bursts oracle n) = l2 ++ IStart m len t j false :: r -> cur_of tx r = None /\ queue_of r = [].
Proof. exact direct_start. Qed.
Print Assumptions C07_direct_start.

Theorem C07_fifo_order : forall tx mt bursts oracle n,
  let s := reach tx mt bursts oracle n in
  rev (accepted (log s)) = rev (started (log s)) ++ map fst (buffer (ch s)).
Proof. exact fifo_order. Qed.
Print Assumptions C07_fifo_order.

(* zero_jitter_preserves_order: with jitter 0 the deliveries, in order, are an initial piece of the
   accepted offers, in offer order; then come the messages in flight (in the order the event set
   will return them), then the queue *)
Theorem C07_zero_jitter_preserves_order : forall tx mt bursts, m_jit mt = 0 -> forall oracle n,
  let s := steps current enc_ev tx mt bursts n (init enc_ev bursts oracle) in
  rev (accepted (log s)) = rev (delivered (log s)) ++ exits (pend (q s)) ++ map fst (buffer (ch s)).
Proof. exact zero_jitter_preserves_order. Qed.
Print Assumptions C07_zero_jitter_preserves_order.

(* queue_limit: acc_bytes is the sum of the queued lengths; a busy offer under Queue(limit) is
   queued iff acc + len <= limit (always for Queue(None)), else dropped; under Drop it is dropped *)
Theorem C07_queue_limit : forall tx mt bursts oracle n,
  let s := reach tx mt bursts oracle n in
  acc (ch s) = qsum (buffer (ch s)) /\ queue_of (log s) = buffer (ch s) /\
  (forall l2 m len t r, log s = l2 ++ IEnq m len t :: r ->
     cur_of tx r <> None /\ exists lim, m_pol mt = PQueue lim /\
     match lim with None => True | Some l => qsum (queue_of r) + len <= l end) /\
  (forall l2 m len t r, log s = l2 ++ IDropFull m len t :: r ->
     cur_of tx r <> None /\ exists l, m_pol mt = PQueue (Some l) /\ l < qsum (queue_of r) + len) /\
  (forall l2 m len t r, log s = l2 ++ IDropBusy m len t :: r -> cur_of tx r <> None /\ m_pol mt = PDrop).
Proof. exact queue_limit. Qed.
Print Assumptions C07_queue_limit.

(* ---- several channel instances on one event set (coq/Channel/Multi.v): both directions of a link,
   several links built from one template handle, links connected at run time.
   [mreach tx mt mbursts template oracles n] is the state after n events; a burst may send into
   several channels; [plog c] is channel c's part of the shared log, [pbursts mbursts c] channel
   c's part of the script, [own_run ... c k] the single-channel run on that part. ---- *)

(* links_independent: channel c of a multi-channel run -- its instance, its remaining jitter samples,
   its part of the log -- is a state of the single-channel run with c's own metrics [mts c], [txs c] on
   c's own part of the script.  That run mentions no other channel: what is offered to other channels,
   their metrics and their states have no influence. *)
Theorem C07_links_independent : forall txs mts mbursts oracles c n,
  c < NCH ->
  exists k, inst_of (mreach txs mts mbursts oracles n) c = ch (own_run txs mts mbursts oracles c k) /\
            orcs (mreach txs mts mbursts oracles n) c = orc (own_run txs mts mbursts oracles c k) /\
            plog c (mlog (mreach txs mts mbursts oracles n)) = log (own_run txs mts mbursts oracles c k).
Proof. exact links_independent. Qed.
Print Assumptions C07_links_independent.

(* hence every invariant of the single-channel model holds of every channel of a multi-channel run *)
Theorem C07_multi_transfer : forall txs mts mbursts oracles (P : chan -> list item -> Prop) c n,
  c < NCH ->
  (forall k, P (ch (own_run txs mts mbursts oracles c k)) (log (own_run txs mts mbursts oracles c k))) ->
  P (inst_of (mreach txs mts mbursts oracles n) c) (plog c (mlog (mreach txs mts mbursts oracles n))).
Proof. exact multi_transfer. Qed.
Print Assumptions C07_multi_transfer.

(* for instance: busy span, FIFO start, queue limit, no message stuck -- per channel, with its own metrics *)
Theorem C07_multi_channel_wf : forall txs mts mbursts oracles c n,
  c < NCH ->
  let l := plog c (mlog (mreach txs mts mbursts oracles n)) in
  let r := inst_of (mreach txs mts mbursts oracles n) c in
  wf_log (txs c) (mts c) l /\ cur_of (txs c) l = (if busy r then Some (finish r) else None) /\ queue_of l = buffer r /\
  acc r = qsum (buffer r) /\ (busy r = false -> buffer r = []).
Proof. exact multi_channel_wf. Qed.
Print Assumptions C07_multi_channel_wf.

(* a new instance (Channel::dup) starts idle with an empty queue whatever state its template is in --
   also when the template is the live channel of a link that is transmitting at that moment; in the
   model an instance comes into being when a handler first uses it, by dup from the live template *)
Theorem C07_new_instance_starts_idle : forall template, dup template = idle_chan.
Proof. exact dup_fresh. Qed.
Print Assumptions C07_new_instance_starts_idle.

Theorem C07_created_idle : forall s c, chs s c = None -> inst_of s c = idle_chan.
Proof. exact created_idle. Qed.
Print Assumptions C07_created_idle.

(* multi_run_completes: the run of every script (offers (time, channel, length), grouped into bursts per
   sending module) ends within the fuel of Multi.run with no event pending, whatever the per-channel
   metrics, transmission times and oracles -- every step of the shared loop is a step of at least one
   channel's own run, so the sum of the single-channel termination measures decreases.  The samples of
   at_sim_end leave the event set alone: the marker 9 of the model's output is never printed. *)
Theorem C07_multi_run_completes : forall txs mts oracles offs,
  let bs := sched_order (mgroup offs 0) in
  let s := msteps own_instance txs mts bs (mfuel offs) (minit bs oracles) in
  mstep own_instance txs mts bs s = None /\ pend (mq s) = [] /\
  forall cs, s_zero (mq (fold_left (fun s c => on c sample s) cs s)) ++ s_rest (mq (fold_left (fun s c => on c sample s) cs s)) = [].
Proof.
  intros txs mts oracles offs. cbv zeta. destruct (multi_run_completes txs mts oracles offs) as [H1 H2].
  refine (conj H1 (conj H2 _)). intros cs. rewrite final_samples_keep_queue. exact H2.
Qed.
Print Assumptions C07_multi_run_completes.

(* ---- composition with C01: the loop over the calendar queue ----
   The model above threads the two-list SPECIFICATION of the event set (CQueue.Spec); the crate runs
   on the calendar queue.  Channel/ModelCq.v is the same loop with the calendar-queue model of C01
   (cq_new n t, add, fetch_next, tcur, qlen) in place of the specification's operations.  By forward
   simulation with C01's relation R it computes the same thing for every n, t >= 1: *)

(* wire level: the runner over the calendar queue prints what the extracted runner prints *)
Theorem C07_run_over_cqueue_eq_run_over_spec : forall n t input,
  n <> 0 -> t <> 0 -> run_cq n t input = Multi.run input.
Proof. exact run_cq_eq_run. Qed.
Print Assumptions C07_run_over_cqueue_eq_run_over_spec.

(* state level, one channel: same channel record, same samples left, same log, and the calendar
   queue is empty exactly when the specification has no event pending *)
Theorem C07_single_over_cqueue_eq_over_spec : forall n t tx mt bursts oracle k,
  n <> 0 -> t <> 0 ->
  let a := csteps current enc_ev tx mt bursts k (cinit enc_ev bursts n t oracle) in
  let b := steps current enc_ev tx mt bursts k (init enc_ev bursts oracle) in
  cch a = ch b /\ corc a = orc b /\ clog a = log b /\
  (qlen (cqs a) =? 0) = match s_zero (q b) ++ s_rest (q b) with [] => true | _ => false end.
Proof. exact run_over_cqueue_eq_run_over_spec. Qed.
Print Assumptions C07_single_over_cqueue_eq_over_spec.

(* state level, several channels *)
Theorem C07_multi_over_cqueue_eq_over_spec : forall n t txs mts mbursts oracles k,
  n <> 0 -> t <> 0 ->
  let a := cmsteps own_instance txs mts mbursts k (cminit mbursts n t oracles) in
  let b := msteps own_instance txs mts mbursts k (minit mbursts oracles) in
  (forall c, cinst_of a c = inst_of b c) /\ (forall c, corcs a c = orcs b c) /\ cmlog a = mlog b /\
  (qlen (cmq a) =? 0) = match s_zero (mq b) ++ s_rest (mq b) with [] => true | _ => false end.
Proof. exact multi_over_cqueue_eq_over_spec. Qed.
Print Assumptions C07_multi_over_cqueue_eq_over_spec.

(* the headline theorems for the run over the calendar queue; its pending events are the
   current-instant list followed by the buckets (CQueue.Refine.pend) *)
Theorem C07_account_cq : forall n t, n <> 0 -> t <> 0 -> forall tx mt bursts oracle k,
  let s := reach_cq n t tx mt bursts oracle k in
  Permutation (all_ids bursts)
    (delivered (clog s) ++ dropped_busy (clog s) ++ dropped_full (clog s) ++ map fst (buffer (cch s))
     ++ exits (Refine.pend (cqs s)) ++ pending_ids bursts (Refine.pend (cqs s))).
Proof. exact account_cq. Qed.
Print Assumptions C07_account_cq.

Theorem C07_delivery_time_cq : forall n t, n <> 0 -> t <> 0 -> forall tx mt bursts oracle k m t',
  let s := reach_cq n t tx mt bursts oracle k in
  In (IDeliver m t') (clog s) ->
  exists len t0 j fq, In (IStart m len t0 j fq) (clog s) /\ t' = t0 + (m_lat mt + tx len + j) /\
    (m_jit mt = 0 -> j = 0) /\ (Forall (fun j => j < m_jit mt) oracle -> m_jit mt <> 0 -> j < m_jit mt).
Proof. exact delivery_time_cq. Qed.
Print Assumptions C07_delivery_time_cq.

Theorem C07_busy_span_cq : forall n t, n <> 0 -> t <> 0 -> forall tx mt bursts oracle k,
  let s := reach_cq n t tx mt bursts oracle k in
  wf_log tx mt (clog s) /\
  cur_of tx (clog s) = (if busy (cch s) then Some (finish (cch s)) else None) /\
  unbusies (Refine.pend (cqs s)) = (if busy (cch s) then [finish (cch s)] else []) /\
  (busy (cch s) = false -> buffer (cch s) = []).
Proof. exact busy_span_cq. Qed.
Print Assumptions C07_busy_span_cq.

Theorem C07_fifo_order_cq : forall n t, n <> 0 -> t <> 0 -> forall tx mt bursts oracle k,
  let s := reach_cq n t tx mt bursts oracle k in
  rev (accepted (clog s)) = rev (started (clog s)) ++ map fst (buffer (cch s)).
Proof. exact fifo_order_cq. Qed.
Print Assumptions C07_fifo_order_cq.

(* channel c of a multi-channel run over a calendar queue (n, t) is a state of c's own run over a
   calendar queue of its own (n', t'), whatever the four parameters *)
Theorem C07_links_independent_cq : forall n t, n <> 0 -> t <> 0 -> forall txs mts mbursts oracles n' t' c k,
  n' <> 0 -> t' <> 0 -> c < NCH ->
  exists k', cinst_of (mreach_cq n t txs mts mbursts oracles k) c = cch (own_run_cq txs mts mbursts oracles n' t' c k') /\
             corcs (mreach_cq n t txs mts mbursts oracles k) c = corc (own_run_cq txs mts mbursts oracles n' t' c k') /\
             plog c (cmlog (mreach_cq n t txs mts mbursts oracles k)) = clog (own_run_cq txs mts mbursts oracles n' t' c k').
Proof. exact links_independent_cq. Qed.
Print Assumptions C07_links_independent_cq.

(* the run of every script over the calendar queue ends within the fuel with an empty queue *)
Theorem C07_multi_run_completes_cq : forall n t, n <> 0 -> t <> 0 -> forall txs mts oracles offs,
  let bs := sched_order (mgroup offs 0) in
  qlen (cmq (cmsteps own_instance txs mts bs (mfuel offs) (cminit bs n t oracles))) = 0.
Proof. exact multi_run_completes_cq. Qed.
Print Assumptions C07_multi_run_completes_cq.

(* ---- the jitter draw of ChannelMetrics::calculate_duration (fix 4f31432), modelled exactly ----
   [jit_of_word J w]: the generator returns the 64-bit word w; rand's StandardUniform keeps its top 53 bits,
   u = (w >> 11) * 2^-53; the code computes (u * J as f64) as u64.  The harness calls the public function
   with generators that return scripted words and compares the answer with this function; the range
   statement of the property holds for EVERY word, not only for the draws a seeded run happens to see: *)
Theorem C07_jitter_below_bound_for_every_draw : forall J w, 0 < J -> jit_of_word J w < J.
Proof. exact jit_of_word_lt. Qed.
Print Assumptions C07_jitter_below_bound_for_every_draw.

Theorem C07_no_jitter_no_offset : forall w, jit_of_word 0 w = 0.
Proof. exact jit_of_word_zero. Qed.
Print Assumptions C07_no_jitter_no_offset.

(* ---- non-vacuity: a script that queues, drains two zero-time messages in one Unbusy, drops on a
   full queue and delivers in order (2 Tbit/s: 64 B -> 0 ns, 1088 B -> 4 ns; latency 0) ---- *)
Definition ex_tx (len : N) : N := if len =? 64 then 0 else 4.
Definition ex_mt : metrics := {| m_lat := 0; m_jit := 0; m_pol := PQueue (Some 128) |}.
Definition ex_offs : list (N * N) := [(0, 1088); (0, 64); (0, 64); (0, 64); (4, 1088)].
Definition ex_final : st := steps current enc_ev ex_tx ex_mt (group ex_offs 0) (fuel_for ex_offs) (init enc_ev (group ex_offs 0) []).

Example C07_example_fates :
  rev (delivered (log ex_final)) = [0; 1; 2] /\ dropped_full (log ex_final) = [4; 3] /\
  pend (q ex_final) = [] /\ buffer (ch ex_final) = [].
Proof. vm_compute. repeat split. Qed.

Example C07_example_dequeues :
  In (IUnbusy 4) (log ex_final) /\ In (IStart 1 64 4 0 true) (log ex_final) /\ In (IStart 2 64 4 0 true) (log ex_final) /\
  In (IDeliver 0 4) (log ex_final) /\ In (IDeliver 2 4) (log ex_final) /\ In (IDropFull 4 1088 4) (log ex_final).
Proof. vm_compute. intuition. Qed.

(* both directions of a link busy at once, and the reverse directions of two links built from one
   handle busy at once (8 kbit/s: 64 B = 64 ms; latency 100 ms; Drop): nothing is dropped *)
Definition ex_mb : list (N * list (N * N * N)) :=
  [(0, [(0, 0, 64)]); (10000000, [(1, 1, 64); (3, 2, 64)])].
Definition ex_mfinal : mst :=
  msteps own_instance (fun _ _ => 64000000) (fun _ => {| m_lat := 100000000; m_jit := 0; m_pol := PDrop |}) ex_mb 20
    (minit ex_mb (fun _ => [])).

Example C07_example_links :
  rev (delivered (plog 0 (mlog ex_mfinal))) = [0] /\ rev (delivered (plog 1 (mlog ex_mfinal))) = [1] /\
  rev (delivered (plog 3 (mlog ex_mfinal))) = [2] /\ In (IStart 1 64 10000000 0 false) (plog 1 (mlog ex_mfinal)) /\
  In (IStart 2 64 10000000 0 false) (plog 3 (mlog ex_mfinal)) /\ pend (mq ex_mfinal) = [].
Proof. vm_compute. intuition. Qed.

(* the same script over a calendar queue with 3 buckets of width 7 ms (the run wraps around it several times) *)
Example C07_example_over_cqueue :
  cmlog (cmsteps own_instance (fun _ _ => 64000000) (fun _ => {| m_lat := 100000000; m_jit := 0; m_pol := PDrop |}) ex_mb 20
           (cminit ex_mb 3 7000000 (fun _ => []))) = mlog ex_mfinal.
Proof. vm_compute. reflexivity. Qed.

(* the largest draw under jitter values of the families a double rounding would push onto the bound *)
Example C07_example_largest_draw :
  map (fun J => jit_of_word J (2 ^ 64 - 1)) [2; 41; 1250; 5000; 10000; 80000; 2 ^ 52] =
  [1; 40; 1249; 4999; 9999; 79999; 2 ^ 52 - 1].
Proof. vm_compute. reflexivity. Qed.
