(* C12 — Start-up and tear-down callbacks run once, stage by stage, in
   module-tree order.  Statements only.

   Vocabulary (coq/Tree):
     Path.v    ObjectPath as (bytes, last_element_offset, len): from, parent, appended, name
     Model.v   tree_add = ModuleTree::add, raw = SimBuilder::raw, at_sim_start / at_sim_end =
               the SimLifecycle loops, run = the script interpreter compared with the real crate
     PathLaws  good n    : n is a non-empty byte string without '.'   (any bytes: UTF-8 names included)
               join l    : the dotted string "n1.n2.…"
     Refine.v  wf_path p : p is a non-empty list of good names
               wf_ins l  : l is a list of (stage count, wf_path)          -- ANY such list:
                           duplicates and orphans are allowed and get rejected
               built l   : builder state after node(join p, module with st stages) for every (st,p) of l
               accepted l: the declarations the contract accepts, in order, each with
                           (creation ordinal, stage count, parent ordinal)
               forest_of : rose forest in which every declaration was appended as LAST child of its parent
               preorder d: depth-first pre-order of forest_of d (node before children, children left to right)
               valid l   : no path repeated, every nested path's parent earlier in l
     Indep.v   child_names q F : names of the children of node q in forest F, left to right
               kids_order ps q : last elements of those paths of ps whose parent is q, in order of ps
     NdlBlock.v  raw_ndl / ndl_paths / ndl_all (Model.v): SimBuilder::raw_ndl and the depth-first instantiation
               of an NDL described block (levels = (cluster size or 0, submodule name) per nesting level)
               block q levels : the block's nodes below attach point q in depth-first order, as name lists
               zipd ps sts    : the i-th path with the i-th stage count *)
From Coq Require Import List NArith Arith Bool.
From DesVerif Require Import Tree.Path Tree.PathLaws Tree.Model Tree.Forest Tree.Refine Tree.Stages
  Tree.Script Tree.Indep Tree.Lookup Tree.NdlBlock Tree.Main.
Import ListNotations.
Local Open Scope nat_scope.

(* --- add_is_preorder ---------------------------------------------------- *)
(* For EVERY sequence of insertions of well-formed paths the module vector is
   the depth-first pre-order of the declared tree with siblings in creation
   order (rejected insertions leave it unchanged). *)
Theorem C12_add_is_preorder : forall l, wf_ins l ->
  modules (built l) = map to_mref (preorder (accepted l)).
Proof. exact add_is_preorder_thm. Qed.
Print Assumptions C12_add_is_preorder.

(* the forest used above is the declared tree: the children of every node, left
   to right, are exactly its declared children in declaration order *)
Theorem C12_forest_is_declared_tree : forall l, wf_ins l ->
  forall q, child_names pay q (forest_of (accepted l)) = kids_order (map fst (accepted l)) q.
Proof. exact forest_is_declared_tree. Qed.
Print Assumptions C12_forest_is_declared_tree.

(* a valid sequence is accepted entirely *)
Theorem C12_valid_all_accepted : forall l, valid l ->
  map fst (accepted l) = map snd l /\ Forall (fun v => v = Accept) (snd (spec_run [] l)).
Proof. exact valid_all_accepted. Qed.
Print Assumptions C12_valid_all_accepted.

(* hence: two valid insertion orders that declare, for every parent, the same
   children in the same order — however the declarations of different parents
   are interleaved — produce the same vector of paths *)
Theorem C12_interleaving_independent : forall l1 l2, wf_ins l1 -> wf_ins l2 -> valid l1 -> valid l2 ->
  (forall q, kids_order (map snd l1) q = kids_order (map snd l2) q) ->
  map mpath (modules (built l1)) = map mpath (modules (built l2)).
Proof. exact valid_interleaving_independent. Qed.
Print Assumptions C12_interleaving_independent.

(* scripts with queries interleaved reach the same builder state *)
Theorem C12_script_state : forall ops l, no_ndl ops -> node_ins ops = strs l -> build ops = built l.
Proof. exact build_is_built. Qed.
Print Assumptions C12_script_state.

(* --- the second way of adding nodes: NDL described blocks ---------------- *)
(* In every state reached by well-formed insertions, sim.node(q, Ndl{..}) with an acceptable
   attach path q (new, parent present or top level; anywhere relative to existing siblings) is
   the same as sim.node for each node of the block in depth-first order.  The extended
   sequence is again well formed and valid, so every theorem of this file applies to it. *)
Theorem C12_ndl_block_is_adds : forall l q levels sts, wf_ins l -> wf_path q -> good_levels levels ->
  judge (accepted l) q = Accept ->
  let adds := zipd (block q levels) sts in
  ndl_all (built l) (ndl_paths (from (join q)) levels) sts = (built (l ++ adds), None) /\
  wf_ins (l ++ adds) /\ valid_from (map fst (accepted l)) adds.
Proof. exact ndl_block_is_adds_thm. Qed.
Print Assumptions C12_ndl_block_is_adds.

(* a block whose root is a duplicate or an orphan panics and leaves the builder unchanged *)
Theorem C12_ndl_block_rejected : forall l q levels sts, wf_ins l -> wf_path q ->
  (judge (accepted l) q = RejDup ->
     ndl_all (built l) (ndl_paths (from (join q)) levels) sts = (built l, Some P_NDL_DUP)) /\
  (judge (accepted l) q = RejOrphan ->
     ndl_all (built l) (ndl_paths (from (join q)) levels) sts = (built l, Some P_NDL_ORPHAN)).
Proof. exact ndl_block_rejected_thm. Qed.
Print Assumptions C12_ndl_block_rejected.

(* --- stage_barrier ------------------------------------------------------ *)
(* in the call log of at_sim_start, a call that comes earlier never has a
   larger stage: all stage-i calls precede every stage-(i+1) call *)
Theorem C12_stage_barrier : forall ms l1 x l2 y l3,
  at_sim_start ms = l1 ++ x :: l2 ++ y :: l3 -> snd x <= snd y.
Proof. exact stage_barrier_thm. Qed.
Print Assumptions C12_stage_barrier.

(* within stage st the calls are, in call order, the modules declaring more than
   st stages in pre-order of the declared tree *)
Theorem C12_stage_in_preorder : forall l st, wf_ins l ->
  filter (fun c => snd c =? st) (at_sim_start (modules (built l)))
  = map (fun m => (m, st)) (filter (fun m => st <? mstages m) (map to_mref (preorder (accepted l)))).
Proof. exact stage_in_preorder_built. Qed.
Print Assumptions C12_stage_in_preorder.

(* --- start_once_per_declared_stage -------------------------------------- *)
(* the calls received by module m are at_sim_start(0), …, at_sim_start(stages-1),
   each exactly once and in this order; nothing else is ever called *)
Theorem C12_start_once_per_declared_stage : forall l m, wf_ins l -> In m (modules (built l)) ->
  filter (is_mod m) (at_sim_start (modules (built l))) = map (fun st => (m, st)) (seq 0 (mstages m)).
Proof. exact start_once_built. Qed.
Print Assumptions C12_start_once_per_declared_stage.

Theorem C12_start_calls_declared : forall l c, In c (at_sim_start (modules (built l))) ->
  In (fst c) (modules (built l)) /\ snd c < mstages (fst c).
Proof. exact start_calls_declared. Qed.
Print Assumptions C12_start_calls_declared.

(* --- end_once_per_module ------------------------------------------------ *)
Theorem C12_end_once_per_module : forall l, wf_ins l ->
  at_sim_end (modules (built l)) = map to_mref (preorder (accepted l)) /\
  NoDup (map mord (at_sim_end (modules (built l)))) /\
  (forall m, In m (modules (built l)) ->
     count_occ N.eq_dec (map mord (at_sim_end (modules (built l)))) (mord m) = 1).
Proof. exact end_once_built. Qed.
Print Assumptions C12_end_once_per_module.

(* --- dup_and_orphan_rejected -------------------------------------------- *)
(* in every reachable builder state: a path already declared panics (duplicate),
   a nested path whose parent is not declared panics (orphan), everything else
   is accepted and lands at its pre-order position *)
Theorem C12_dup_and_orphan_rejected : forall l st p, wf_ins l -> wf_path p ->
  let s := built l in
  let seen := map fst (accepted l) in
  (In p seen -> raw s (from (join p)) st = Panic P_DUP) /\
  (~ In p seen -> 2 <= length p -> ~ In (removelast p) seen -> raw s (from (join p)) st = Panic P_ORPHAN) /\
  (~ In p seen -> (length p = 1 \/ In (removelast p) seen) ->
     exists s', raw s (from (join p)) st = Ok s' /\
                modules s' = map to_mref (preorder (accepted l ++ [new_node (accepted l) st p]))).
Proof. exact dup_and_orphan_rejected_thm. Qed.
Print Assumptions C12_dup_and_orphan_rejected.

(* the builder's outputs over a whole sequence are the contract's verdicts *)
Theorem C12_builder_verdicts : forall l, wf_ins l ->
  snd (raw_all sim_new l) = map site_of (snd (spec_run [] l)).
Proof. exact builder_verdicts_thm. Qed.
Print Assumptions C12_builder_verdicts.

(* the panic inside ModuleTree::add itself cannot be reached through the builder *)
Theorem C12_tree_add_panic_unreachable : forall l st p k, wf_ins l -> wf_path p ->
  raw (built l) (from (join p)) st = Panic k -> k = P_DUP \/ k = P_ORPHAN.
Proof. exact tree_add_panic_unreachable. Qed.
Print Assumptions C12_tree_add_panic_unreachable.

(* --- lookups agree with the declared tree ----------------------------- *)
(* every module of the vector is `to_mref y` for a declaration y (C12_add_is_preorder);
   its parent pointer is the module declared at its parent path (none for a
   top-level node), child(n) is the module declared at path.n (none if there is
   no such declaration), and its object path is the declared one *)
Theorem C12_parent_lookup : forall l y, wf_ins l -> In y (accepted l) ->
  mparent (to_mref y) = ord_of (accepted l) (removelast (fst y)).
Proof. exact parent_lookup_thm. Qed.
Print Assumptions C12_parent_lookup.

Theorem C12_child_lookup : forall l y n, wf_ins l -> In y (accepted l) ->
  ctx_child (built l) (to_mref y) n = ord_of (accepted l) (fst y ++ [n]).
Proof. exact child_lookup_thm. Qed.
Print Assumptions C12_child_lookup.

Theorem C12_object_path : forall l y, wf_ins l -> In y (accepted l) ->
  mpath (to_mref y) = from (join (fst y)) /\
  as_str (mpath (to_mref y)) = join (fst y) /\
  name (mpath (to_mref y)) = last (fst y) [] /\
  len (mpath (to_mref y)) = length (fst y).
Proof. exact object_path_thm. Qed.
Print Assumptions C12_object_path.

(* --- path_laws ---------------------------------------------------------- *)
(* for every path p parsed from a dotted string of good names (the root, l = [],
   included) and every good name n *)
Theorem C12_path_laws : forall (l : list (list N)) (n : list N),
  Forall good l -> good n ->
  let p := from (join l) in
  parent (appended p n) = Some p /\
  name (appended p n) = n /\
  len (appended p n) = S (len p) /\
  from (as_str (appended p n)) = appended p n /\
  from (as_str p) = p.
Proof. exact path_laws_thm. Qed.
Print Assumptions C12_path_laws.

(* --- non-vacuity -------------------------------------------------------- *)
Local Open Scope N_scope.
Definition nA : list N := [97].            (* a   *)
Definition nAB : list N := [97; 98].       (* ab  *)
Definition nA_B : list N := [97; 45; 98].  (* a-b *)
Definition nE : list N := [195; 169].      (* é   *)

(* children of a and of ab interleaved in two different ways, names sharing
   prefixes, a multi-byte name, stage counts 0..3: same vector, and it is the
   pre-order a, a.é, a.é.a, a.ab, ab, ab.a, ab.a-b, a-b *)
Example C12_nonvacuous :
  let l1 := [(1%nat, [nA]); (2%nat, [nAB]); (0%nat, [nA; nE]); (3%nat, [nAB; nA]); (1%nat, [nA_B]);
             (1%nat, [nA; nAB]); (2%nat, [nAB; nA_B]); (1%nat, [nA; nE; nA])] in
  let l2 := [(1%nat, [nA]); (0%nat, [nA; nE]); (1%nat, [nA; nE; nA]); (1%nat, [nA; nAB]); (2%nat, [nAB]);
             (1%nat, [nA_B]); (3%nat, [nAB; nA]); (2%nat, [nAB; nA_B])] in
  valid l1 /\ valid l2 /\
  map (fun m => data (mpath m)) (modules (built l1))
    = map join [[nA]; [nA; nE]; [nA; nE; nA]; [nA; nAB]; [nAB]; [nAB; nA]; [nAB; nA_B]; [nA_B]] /\
  map mpath (modules (built l1)) = map mpath (modules (built l2)) /\
  map (fun c => (mord (fst c), snd c)) (at_sim_start (modules (built l1)))
    = [(0, 0%nat); (7, 0%nat); (5, 0%nat); (1, 0%nat); (3, 0%nat); (6, 0%nat); (4, 0%nat);
       (1, 1%nat); (3, 1%nat); (6, 1%nat); (3, 2%nat)].
Proof.
  cbv zeta. split; [|split; [|split; [|split]]].
  - apply validb_sound. vm_compute. reflexivity.
  - apply validb_sound. vm_compute. reflexivity.
  - vm_compute. reflexivity.
  - vm_compute. reflexivity.
  - vm_compute. reflexivity.
Qed.

(* dc, edge, then the NDL block dc.rack{host[2]} attached below dc although its later sibling
   edge exists, then edge.fw: pre-order dc, dc.rack, dc.rack.host[0], dc.rack.host[1], edge, edge.fw *)
Example C12_nonvacuous_ndl :
  let dc := [100; 99] in let edge := [101; 100; 103; 101] in let rack := [114; 97; 99; 107] in
  let host := [104; 111; 115; 116] in let fw := [102; 119] in
  let ops := [Node 1 dc; Node 1 edge; NdlBlock (dc ++ [46] ++ rack) [(2%nat, host)] [2%nat; 1%nat; 0%nat];
              Node 1 (edge ++ [46] ++ fw)] in
  map (fun m => (data (mpath m), mord m)) (modules (build ops))
  = [(dc, 0); (dc ++ [46] ++ rack, 2); (dc ++ [46] ++ rack ++ [46] ++ host ++ [91; 48; 93], 3);
     (dc ++ [46] ++ rack ++ [46] ++ host ++ [91; 49; 93], 4); (edge, 1); (edge ++ [46] ++ fw, 5)].
Proof. vm_compute. reflexivity. Qed.

(* duplicates and orphans are rejected, the vector is unaffected *)
Example C12_nonvacuous_rejects :
  snd (raw_all sim_new [(1%nat, [nA]); (1%nat, [nA]); (1%nat, [nAB; nA]); (1%nat, [nA; nE]); (1%nat, [nA; nE])])
  = [0; P_DUP; P_ORPHAN; 0; P_DUP].
Proof. vm_compute. reflexivity. Qed.
