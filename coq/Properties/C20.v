(* C20 -- dropping a simulation releases every module, task and message exactly once.
   Statements only.  The heap is the executable reference-count heap of
   coq/Own/Heap.v ([release_all s roots] drops the handles [roots] one after the
   other; [freed] is the destructor log, [bad] the handles released after the
   free), the schema ([typed false] = the code as it is now) is coq/Own/Shape.v,
   the scripted simulations are coq/Own/Model.v.

   PARTIAL: the theorems are about the ownership graph.  Rust's Arc/Rc/Weak
   counting and tokio's task ownership are not modelled; the schema is tied to
   the real crate by destructor counters on every run (tools/props/c20.py). *)
From Coq Require Import List NArith Arith Bool.
From DesVerif Require Import Own.Heap Own.Frame Own.Inv Own.Shape Own.Rank Own.Check Own.Cycle Own.Safe Own.SafeP Own.Ops Own.World Own.Model Own.Reach Own.Main.
Import ListNotations.
Local Open Scope nat_scope.

(* For EVERY heap (consistent counts or not, cycles or not) and EVERY release
   sequence, with any amount of fuel: a destructor log that lists only freed
   objects, each once, stays that way -- no object is ever freed twice. *)
Theorem C20_freed_at_most_once : forall fuel s todo,
  (NoDup (freed s) /\ forall o, In o (freed s) -> is_live (hp s) o = false) ->
  let s' := fst (run_release fuel s todo) in
  NoDup (freed s') /\ forall o, In o (freed s') -> is_live (hp s') o = false.
Proof. exact freed_at_most_once_any. Qed.
Print Assumptions C20_freed_at_most_once.

(* On a heap whose counts are consistent (count = strong in-degree + handles
   about to be dropped; freed objects have count 0 and no edges) no handle is
   ever released after its object was freed, and consistency is kept. *)
Theorem C20_no_release_after_free : forall s roots, inv s roots ->
  bad (release_all s roots) = [] /\ NoDup (freed (release_all s roots)) /\ inv (release_all s roots) [].
Proof. exact no_release_after_free. Qed.
Print Assumptions C20_no_release_after_free.

(* The release machine stops on every heap: [release_all] never runs out of fuel. *)
Theorem C20_release_terminates : forall fuel s todo,
  measure (hp s) todo < fuel -> snd (run_release fuel s todo) = [].
Proof. exact run_release_done. Qed.
Print Assumptions C20_release_terminates.

(* THE MAIN THEOREM.  For every graph that is count-consistent, typed by the
   schema of the current code, and whose connected gates are listed by a module
   context: once all root handles have been dropped -- in whatever order
   [roots] lists them -- NO object is allocated any more, and every object of
   the graph is in the destructor log exactly once. *)
Theorem C20_all_freed_after_root_release : forall s roots, good false s roots ->
  (forall o ob, nth_error (hp (release_all s roots)) o = Some ob -> live ob = false) /\
  (forall o, o < length (hp s) -> cnt o (freed (release_all s roots)) = 1).
Proof. intros s roots G. split; [exact (all_freed s roots G)|exact (freed_exactly_once s roots G)]. Qed.
Print Assumptions C20_all_freed_after_root_release.

(* Corollary for what a user can observe: every module state (with its
   processing stack), processing element, task capture and message of such a
   graph is in the destructor log exactly once and is not alive. *)
Theorem C20_user_objects_freed_exactly_once : forall s roots, good false s roots ->
  forall o t, tag_of (hp s) o = Some t -> user_tag t = true ->
    cnt o (freed (release_all s roots)) = 1%nat /\ is_live (hp (release_all s roots)) o = false.
Proof. exact user_objects_freed_exactly_once. Qed.
Print Assumptions C20_user_objects_freed_exactly_once.

(* The boolean checker that the model runs on every graph it builds (its
   verdict is the first number of the model's output) implies the hypotheses. *)
Theorem C20_checker_sound : forall pin s roots, goodb pin s roots = true -> good pin s roots.
Proof. exact goodb_sound. Qed.
Print Assumptions C20_checker_sound.

(* Why the schema must not contain a cycle of ordinary fields: a set of objects each of which
   is the target of a non-connection strong edge from a member of the set is never freed,
   whatever is released (count-consistent heaps).  Both repaired defects (6ce5d8e, 012bc88) were
   instances: see Refuted/C20.v. *)
Theorem C20_supported_set_never_freed : forall (S : nat -> Prop) s roots, inv s roots -> supported S (hp s) ->
  forall o, S o -> is_live (hp (release_all s roots)) o = true.
Proof. exact supported_survives. Qed.
Print Assumptions C20_supported_set_never_freed.

(* REACHABILITY.  The simulation model touches the heap only through the primitives of
   coq/Own/Safe.v (allocate behind a handle, clone a handle, move it into a field, move it out,
   drop it, record a Weak).  Each keeps the state well formed, whatever its arguments: *)
Theorem C20_primitives_preserve_wf : forall pin r,
  G pin r ->
  (forall t, G pin (fst (p_alloc r t))) /\ (forall x, G pin (p_clone r x)) /\
  (forall src k x, G pin (p_move_in r src k x)) /\ (forall src k x, G pin (p_edge r src k x)) /\
  (forall src p, G pin (fst (p_detach r src p))) /\ (forall x, G pin (p_release r x)) /\
  (forall src l t, G pin (p_weak r src l t)).
Proof.
  intros pin r H. split; [intros; apply p_alloc_good; assumption|]. split; [intros; apply p_clone_good; assumption|].
  split; [intros; apply p_move_in_good; assumption|]. split; [intros; apply p_edge_good; assumption|].
  split; [intros; apply p_detach_good; assumption|]. split; [intros; apply p_release_good; assumption|].
  intros; apply p_weak_good; assumption.
Qed.
Print Assumptions C20_primitives_preserve_wf.

(* ... hence every operation built from them does (one lemma per operation in coq/Own/OpsP.v,
   WorldP.v, Reach.v: create module / child, create gate, connect with or without channel,
   schedule / send / deliver a message, a message entering and leaving a channel buffer, spawn a
   task, register a timer, activate / deactivate, shutdown, restart, dispatch of every event
   kind, start-up, the event loop under every limit, tear-down), and by induction over the
   script: EVERY graph a scripted simulation reaches, at EVERY stopping point, together with
   the handles that are dropped then, is well formed.  (This was `C20_reachable_graphs_wf_partial`,
   proved for the empty simulation only, with a run-time checker for the rest.) *)
Theorem C20_reachable_graphs_wf : forall pin input,
  let '(s, roots, _) := stop_state pin input in good pin s roots.
Proof. exact stop_state_good. Qed.
Print Assumptions C20_reachable_graphs_wf.

(* END TO END, without the run-time checker: for every script (every simulation of the model's
   language, every stopping point, every drop order) dropping the Sim / the runtime, the
   remaining events and the caller's handles frees every object exactly once, releases no
   handle after the free, leaves nothing allocated -- and the verdict the model prints is
   forced: once = created for every class, 0 dropped otherwise, 0 alive, nothing allocated. *)
Theorem C20_every_simulation_releases_everything : forall input,
  let '(s, roots, _) := stop_state false input in
  let s' := release_all s roots in
  good false s roots /\
  (forall o ob, nth_error (hp s') o = Some ob -> live ob = false) /\
  (forall o, o < length (hp s) -> cnt o (freed s') = 1) /\
  bad s' = [] /\
  exists created, verdict s' = (created, created, 0, 0, 0)%N.
Proof. exact every_simulation_releases_everything. Qed.
Print Assumptions C20_every_simulation_releases_everything.

(* the same, read off the line that `run` prints (two identical records, then 0) *)
Theorem C20_model_output_all_freed : forall input,
  exists ok res nrem time created lg cnts,
    run input = ([ok; res; nrem; time] ++ created ++ created ++ [0; 0; N.of_nat (length lg / 4)] ++ lg ++ cnts
                 ++ [ok; res; nrem; time] ++ created ++ created ++ [0; 0; N.of_nat (length lg / 4)] ++ lg ++ cnts ++ [0])%N.
Proof. exact run_prints_all_freed. Qed.
Print Assumptions C20_model_output_all_freed.

(* The drop path (scopes left normally, or a panic unwinding through the owner of the Sim /
   runtime / result: bit 1 of the script's `order` field, which only the implementation runner
   reads) is not an input of the release: same graph, same handles, same printed line.  So every
   theorem above covers a simulation dropped by unwinding as well. *)
Theorem C20_drop_path_irrelevant : forall pin stop arg o rest,
  stop_state pin (stop :: arg :: (o + 2) :: rest)%N = stop_state pin (stop :: arg :: o :: rest)
  /\ run_gen pin (stop :: arg :: (o + 2) :: rest)%N = run_gen pin (stop :: arg :: o :: rest).
Proof. exact drop_path_irrelevant. Qed.
Print Assumptions C20_drop_path_irrelevant.

(* The reference counts the model prints at a stopping point (compared on every run with
   Arc::strong_count / Arc::weak_count of the real objects) are exactly the schema's edges: in
   every reachable graph the strong count of an object is the number of strong fields holding it
   plus the number of handles held from outside the heap. *)
Theorem C20_counts_are_in_degrees : forall pin input,
  let '(s, roots, _) := stop_state pin input in
  forall o, o < length (hp s) ->
    strong_of (hp s) o = N.of_nat (cnt o (targets (hp s)) + cnt o roots).
Proof. exact counts_are_in_degrees. Qed.
Print Assumptions C20_counts_are_in_degrees.

(* Non-vacuity (scripts: see coq/Own/Model.v; output: ok res nrem time created*4 once*4 notonce alive). *)
Local Open Scope N_scope.

(* (1) the F14 shape: a module sending five messages to itself over a slow queueing channel,
   a timer and a receive-blocked task pending, stopped by max_itr(6) with a backlog, the
   profiler (3 remaining events) dropped before the Sim, the caller keeping its refs: the
   checker accepts; 1 module state, 1 element, 2 tasks, 6 messages, all freed exactly once *)
Example C20_nonvacuous_backlog :
  firstn 14 (run [2; 6; 1; 1;  1;  0;1;5;0;2;3000000000;0;0;0;0;2;1;  1; 0;0;0;1;1;  0])
  = [1; 1; 3; 2100000000; 1; 1; 2; 6; 1; 1; 2; 6; 0; 0].
Proof. vm_compute. reflexivity. Qed.

(* (2) a parent with nested children in a channel ring, a restart and a panic: ends with an
   error, everything is dropped inside run() *)
Example C20_nonvacuous_error :
  firstn 14 (run [2; 9; 1; 1;  3;  0;0;2;1;5;1;10;0;0;0;2;0;  1;2;1;0;2;1000000000;0;2;1;1000000000;2;0;  2;0;1;1;1000000000;0;3;2;0;2;0;
                  3; 0;0;1;1;1; 1;0;2;1;0; 2;0;0;1;1;  2; 0;2;5; 1;0;2000000000])
  = [1; 2; 0; 0; 3; 2; 3; 8; 3; 2; 3; 8; 0; 0].
Proof. vm_compute. reflexivity. Qed.

(* (3) a closed ring of four gates (every gate a transit gate) next to a transit chain with
   channels, two injected messages, dropped without ever being started *)
Example C20_nonvacuous_gate_ring :
  firstn 14 (run [1; 0; 0; 0;  4;  0;0;3;0;0;0;0;0;3;0;  0;0;0;0;2;5;5;1;2;0;3;0;  0;1;2;2;1;1;0;0;0;0;3;0;  3;0;1;0;1;2000000000;0;0;0;3;1;
                  7; 0;2;1;2;0; 1;2;2;2;1; 2;2;3;2;0; 3;2;0;2;0; 0;0;1;1;1; 1;1;2;1;0; 2;0;3;0;1;  2; 1;2;0; 0;1;1000000000])
  = [1; 0; 2; 0; 4; 1; 0; 2; 4; 1; 0; 2; 0; 0].
Proof. vm_compute. reflexivity. Qed.
