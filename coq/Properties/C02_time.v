(* C02, time part — the representation of simulated time.
   SimTime is a (seconds : u64, nanoseconds : u32 < 10^9) pair, the process-global clock a pair of atomics.
   Every other model of this development writes a time as ONE natural number of nanoseconds; these
   theorems make that abstraction a proved fact about the pair-level model of des/src/time/{mod,duration}.rs
   (coq/Time/Model.v), and the correspondence check of this part runs that model against the real SimTime.
   Not covered: f64 conversions and serde of SimTime (they are not used by the runtime, the net layer or
   the timers: `grep -n "as_secs_f64\|from_secs_f64" des/src` hits only time/mod.rs, time/duration.rs,
   the profiler output and the jitter draw of channel.rs, which C07 models). *)
From Coq Require Import List NArith Lia.
From DesVerif Require Import Common.Codec Time.Model Time.Props.
Import ListNotations.
Open Scope N_scope.

(* The pair representation is an order isomorphism between well-formed pairs and [0, 2^64 * 10^9). *)
Theorem C02_time_representation_iso :
  (forall d, wf d -> to_ns d < LIMIT /\ of_ns (to_ns d) = d) /\
  (forall n, n < LIMIT -> wf (of_ns n) /\ to_ns (of_ns n) = n) /\
  (forall a b, wf a -> wf b -> dur_cmp a b = (to_ns a ?= to_ns b)).
Proof. exact repr_iso. Qed.
Print Assumptions C02_time_representation_iso.

(* SimTime + Duration: exact nanosecond addition, refused (None / panic) exactly when the sum leaves the range. *)
Theorem C02_time_add_exact : forall a b, wf a -> wf b ->
  match dur_checked_add a b with
  | Some c => wf c /\ to_ns c = to_ns a + to_ns b
  | None => LIMIT <= to_ns a + to_ns b
  end.
Proof. exact checked_add_spec. Qed.
Print Assumptions C02_time_add_exact.

(* SimTime - Duration, SimTime - SimTime: exact subtraction, refused exactly when it would go below zero. *)
Theorem C02_time_sub_exact : forall a b, wf a -> wf b ->
  match dur_checked_sub a b with
  | Some c => wf c /\ to_ns b <= to_ns a /\ to_ns c = to_ns a - to_ns b
  | None => to_ns a < to_ns b
  end.
Proof. exact checked_sub_spec. Qed.
Print Assumptions C02_time_sub_exact.

(* What SimTime::set_now stores, SimTime::now reads back: the clock shows exactly the stored time. *)
Theorem C02_clock_roundtrip : forall t, wf t -> now (set_now t) = Some t.
Proof. exact clock_roundtrip. Qed.
Print Assumptions C02_clock_roundtrip.

(* A runtime can be built at every start time except inside the last bucket width of the representable range
   (the calendar queue's scan window [t0, t0 + width] must itself be representable): with the default options
   the start times from 2^64 s - 2.5 ms on are refused with a panic, every earlier one is accepted. *)
Theorem C02_start_time_buildable_iff : forall t, wf t ->
  build_ok t = (to_ns t <? LIMIT - WIDTH).
Proof.
  intros t Ht. rewrite (build_ok_spec t Ht).
  pose proof (N.div_mod (to_ns t) WIDTH ltac:(discriminate)) as Hdm.
  pose proof (N.mod_lt (to_ns t) WIDTH ltac:(discriminate)) as Hm.
  assert (HL : LIMIT = WIDTH * 7378697629483820646400) by reflexivity.
  set (q := to_ns t / WIDTH) in *. set (r := to_ns t mod WIDTH) in *. clearbody q r.
  destruct (N.ltb_spec (q * WIDTH + WIDTH) LIMIT) as [A|A];
    destruct (N.ltb_spec (to_ns t) (LIMIT - WIDTH)) as [B|B]; try reflexivity; exfalso;
    rewrite HL in *; change WIDTH with 2500000 in *; nia.
Qed.
Print Assumptions C02_start_time_buildable_iff.

(* Every script over SimTime values (set, +, +=, -, -=, checked_add/sub, comparisons, duration_since in its
   three flavours, duration_diff, eq_approx, the clock, the constants) prints exactly what the same script
   prints when times are plain natural numbers of nanoseconds with range checks. *)
Theorem C02_time_as_nanoseconds_is_faithful : forall script,
  run script = aexec 0 (map abs_op (decode script)).
Proof. exact run_is_nanosecond_arithmetic. Qed.
Print Assumptions C02_time_as_nanoseconds_is_faithful.

(* Non-vacuity: carry, borrow, the top of the range and a refused addition. *)
Example C02_time_nonvacuous :
  run [1; 5; 999999999;  2; 0; 2;  4; 6; 0;  4; 0; 1;  11; 2;  2; 0; 1;  8; 18446744073709551615; 999999998; 10;  4; 0; 2500000; 10]
  = [1; 5; 999999999;   2; 0; 6; 1;   4; 0; 0; 1;   4; 0; 0; 0;   11; 18446744073709551615; 999999999;   2; 9;
     8; 2; 0; 1; 0; 1; 0; 1; 0; 1;   10; 9;   4; 0; 18446744073709551615; 997499999;   10; 0; 18446744073709551615; 997499999].
Proof. vm_compute. reflexivity. Qed.
