(* C15 — Calendar-queue memory is safe and every payload is dropped exactly once.
   Statements only.

   Memory half.  [Alloc.Model] is the model of des-cqueue/src/stable/alloc.rs:
   a first-fit free list of (address, size) regions over pages whose addresses
   come from an oracle [base : page index -> address].  [params_ok nsz nal page]:
   the page size and align_of::<ListNode>() = nal are powers of two, nal <= page,
   size_of::<ListNode>() = nsz is a positive multiple of nal and fits a page
   (the pinned target: nsz = 16, nal = 8, every page = 2^k >= 64).
   [oracle_ok base page] is the ORACLE ASSUMPTION: the pages the system allocator
   returns are page-aligned and pairwise disjoint.  [reach] = the states reachable
   from with_page_size(page) by allocate/deallocate histories whose requests
   satisfy the guard [req_ok l]: the alignment is a power of two <= page and the
   adjusted size s = fst (size_align l) is NOT in the band page - nsz < s < page
   (s > page is allowed: refused).  Inside the band find_region adds pages
   forever (Refuted/C15.v); that corner is excluded by statement.

   Payload half.  On the model side it is C01's accounting theorem (cited). *)
From Coq Require Import List NArith Permutation.
From DesVerif Require Import CQueue.Model CQueue.Spec CQueue.SpecProps.
From DesVerif Require Import Alloc.Model Alloc.Arith Alloc.Inv Alloc.Hist Alloc.Safety Alloc.Payload.
Import ListNotations.
Open Scope N_scope.

(* the representation invariant (page list = oracle prefix; free regions node-aligned,
   >= a node, inside an owned page; live blocks aligned and inside an owned page; free
   regions and live blocks pairwise disjoint; byte counter) holds in every reachable state *)
Theorem C15_invariant_reachable : forall base nsz nal page, params_ok nsz nal page -> oracle_ok base page ->
  forall s, reach base nsz nal page s -> Inv base nsz nal page s.
Proof. exact reach_inv. Qed.
Print Assumptions C15_invariant_reachable.

(* no two live allocations overlap *)
Theorem C15_live_disjoint : forall base nsz nal page, params_ok nsz nal page -> oracle_ok base page ->
  forall s, reach base nsz nal page s -> PD (lranges nsz nal s).
Proof. exact live_disjoint. Qed.
Print Assumptions C15_live_disjoint.

(* every live allocation is aligned to the requested alignment, to the node
   alignment, and to the adjusted alignment (their maximum) *)
Theorem C15_aligned : forall base nsz nal page, params_ok nsz nal page -> oracle_ok base page ->
  forall s, reach base nsz nal page s -> forall p l, In (p, l) (live s) ->
  (snd l | p) /\ (nal | p) /\ (snd (size_align nsz nal l) | p).
Proof. exact aligned. Qed.
Print Assumptions C15_aligned.

(* the pages the allocator owns are exactly the ones the oracle handed out, and
   every live allocation lies inside one of them *)
Theorem C15_inside_owned_page : forall base nsz nal page, params_ok nsz nal page -> oracle_ok base page ->
  forall s, reach base nsz nal page s ->
  pages s = map (fun i => base (N.of_nat i)) (seq 0 (length (pages s))) /\
  forall p l, In (p, l) (live s) ->
    exists b, In b (pages s) /\ b <= p /\ p + fst (size_align nsz nal l) <= b + page.
Proof. exact inside_owned_page. Qed.
Print Assumptions C15_inside_owned_page.

(* free regions are pairwise disjoint, disjoint from every live allocation, and inside owned pages *)
Theorem C15_free_list_disjoint_from_live : forall base nsz nal page, params_ok nsz nal page -> oracle_ok base page ->
  forall s, reach base nsz nal page s ->
  PD (free s) /\
  (forall r e, In r (free s) -> In e (live s) -> disj r (lrange nsz nal e)) /\
  (forall r, In r (free s) -> exists b, In b (pages s) /\ b <= fst r /\ fst r + snd r <= b + page).
Proof. exact free_list_disjoint_from_live. Qed.
Print Assumptions C15_free_list_disjoint_from_live.

(* memory is reused only after it was released: in the record of any history
   (RAlloc ptr size align / RFree ptr size / ...), if two allocate calls returned
   overlapping blocks then the earlier block was deallocated in between *)
Theorem C15_reuse_only_after_free : forall base nsz nal page, params_ok nsz nal page -> oracle_ok base page ->
  forall s0 ops, init base nsz nal page = Some s0 -> Forall (op_ok nsz nal page) ops ->
  forall pre p1 s1 a1 st1 mid p2 s2 a2 st2 post,
    run_ops base nsz nal s0 ops = pre ++ (RAlloc p1 s1 a1, st1) :: mid ++ (RAlloc p2 s2 a2, st2) :: post ->
    In (RFree p1 s1) (map fst mid) \/ disj (p1, s1) (p2, s2).
Proof. exact reuse_only_after_free. Qed.
Print Assumptions C15_reuse_only_after_free.

(* allocate terminates: with ANY non-zero fuel (number of pages find_region may
   add) it returns the same result, never panics, and adds at most one page; a
   request larger than a page is refused without effect.  The resulting state is
   again reachable. *)
Theorem C15_alloc_total : forall base nsz nal page, params_ok nsz nal page -> oracle_ok base page ->
  forall s l, reach base nsz nal page s -> req_ok nsz nal page l ->
  (page < fst (size_align nsz nal l) /\ forall f, allocate_f base nsz nal f s l = AErr) \/
  (exists s' p, (forall f, allocate_f base nsz nal (S f) s l = AOk s' p) /\ reach base nsz nal page s' /\
                (length (pages s') <= S (length (pages s)))%nat).
Proof. exact alloc_total. Qed.
Print Assumptions C15_alloc_total.

(* deallocate of a live block does not panic (both assertions of add_free_region hold, no underflow) *)
Theorem C15_dealloc_total : forall base nsz nal page, params_ok nsz nal page -> oracle_ok base page ->
  forall s k, reach base nsz nal page s -> (k < length (live s))%nat ->
  exists s' p size, deallocate nsz nal s k = DOk s' p size /\ reach base nsz nal page s'.
Proof. exact dealloc_total. Qed.
Print Assumptions C15_dealloc_total.

(* with_page_size succeeds, and no history that respects the guard panics or runs out of fuel *)
Theorem C15_history_total : forall base nsz nal page, params_ok nsz nal page -> oracle_ok base page ->
  (exists s0, init base nsz nal page = Some s0 /\ reach base nsz nal page s0) /\
  forall s0 ops, init base nsz nal page = Some s0 -> Forall (op_ok nsz nal page) ops ->
    length (run_ops base nsz nal s0 ops) = length ops /\
    Forall (fun x => halting (fst x) = false /\ Inv base nsz nal page (snd x)) (run_ops base nsz nal s0 ops).
Proof. intros base nsz nal page Hp Ho. split; [exact (init_total base nsz nal page Hp Ho)|exact (history_total base nsz nal page Hp Ho)]. Qed.
Print Assumptions C15_history_total.

(* allocated_mem = sum of the adjusted sizes of the live allocations *)
Theorem C15_allocated_mem_formula : forall base nsz nal page, params_ok nsz nal page -> oracle_ok base page ->
  forall s, reach base nsz nal page s -> allocated_mem s = sum_sizes nsz nal (live s).
Proof. exact allocated_mem_formula. Qed.
Print Assumptions C15_allocated_mem_formula.

(* the instance the runners use: ListNode is 16 bytes, 8-aligned; pages are powers
   of two >= 64; the symbolic oracle (page i at (i+1) * 2^40) satisfies the oracle
   assumption for every page size up to 2^40 *)
Theorem C15_instance : forall page, pow2 page -> 64 <= page -> page <= 2 ^ 40 ->
  params_ok 16 8 page /\ oracle_ok sym_base page.
Proof. intros page Hp H1 H2. split; [apply params_ok_16_8; assumption|apply sym_oracle_ok; assumption]. Qed.
Print Assumptions C15_instance.

(* ---- payload half (model side): corollaries of C01_exactly_once ---- *)
(* Every payload moved into the queue has its destructor run exactly once over a
   history followed by the drop of the queue - by the caller for what fetch
   returned, inside cancel, or with the queue for what is still pending
   (drop_log = fetched ++ cancelled ++ pending) - and nothing else is dropped. *)
Theorem C15_payload_dropped_exactly_once : forall ts ops,
  let a := fst (ghost_run (sp_init_at ts) g0 ops) in
  let g := snd (ghost_run (sp_init_at ts) g0 ops) in
  (forall e, In e (g_added g) <-> In e (drop_log a g)) /\
  (forall e, In e (g_added g) -> count_occ N.eq_dec (map eid (drop_log a g)) (eid e) = 1%nat) /\
  NoDup (map eid (g_added g)).
Proof. exact payload_dropped_exactly_once. Qed.
Print Assumptions C15_payload_dropped_exactly_once.

(* what the calendar queue (any n, t) returns from fetch is, in order, the payload
   and time of events that were inserted: payloads come back as inserted *)
Theorem C15_payload_returned_as_inserted : forall n t ts ops, n <> 0 -> t <> 0 ->
  let g := snd (ghost_run (sp_init_at ts) g0 ops) in
  fetched_outs (run_ops_at true n t ts ops) = map (fun x => (epay x, etime x)) (g_fetched g) /\
  (forall e, In e (g_fetched g) -> In e (g_added g)).
Proof. exact payload_returned_as_inserted. Qed.
Print Assumptions C15_payload_returned_as_inserted.

(* ---- non-vacuity ---- *)
(* 64-byte page: split with the tail kept, a second page when only an 8-byte
   tail would remain, release, first-fit reuse of the released block (exact
   fit), alignment padding (align 32 in a region starting at offset 16 of page 1),
   and a request inside the band stopped by the fuel *)
Example C15_nonvacuous_run :
  run [1; 64; 16; 8;  1; 16; 8;  1; 24; 8;  1; 1; 1;  2; 0;  1; 16; 16;  1; 8; 32;  3;  1; 56; 8]
  = [1; 0; 0; 16; 8; 1; 16; 1;      1; 0; 16; 24; 8; 1; 40; 1;      1; 1; 0; 16; 8; 2; 56; 2;
     2; 0; 0; 16; 2; 40; 3;         1; 0; 0; 16; 16; 2; 56; 2;      1; 1; 32; 32; 32; 2; 88; 1;
     5; 1; 0; 40; 24;  4; 0; 16; 24;  1; 0; 16;  0; 0; 16;  1; 32; 32;
     8].
Proof. vm_compute. reflexivity. Qed.

(* reuse after free on the model: the same block is handed out twice, with its release in between *)
Example C15_nonvacuous_reuse :
  exists s0 p st1 st2 st3, init sym_base 16 8 64 = Some s0 /\
    run_ops sym_base 16 8 s0 [OAlloc 16 8; OFree 0; OAlloc 16 8] = [(RAlloc p 16 8, st1); (RFree p 16, st2); (RAlloc p 16 8, st3)].
Proof. vm_compute. repeat eexists. Qed.

(* a CQueue<P> history (node layout 72/8, n = 3, t = 10): sentinels, adds into the
   zero bucket and into bucket lists, fetch, cancel, reuse of released nodes, and
   the drop of the queue with events pending *)
Example C15_nonvacuous_queue :
  run [2; 2; 1; 4096; 16; 8; 72; 8; 3; 10;  1; 0;  1; 5;  1; 25;  3;  2; 1;  3;  1; 7]
  = [20; 6; 1; 0; 0; 1; 0; 72; 1; 0; 144; 1; 0; 216; 1; 0; 288; 1; 0; 360; 432; 1; 1; 0;
     1; 0; 432; 1; 1; 1; 0;        1; 1; 1; 0; 432; 504; 1; 1; 2; 0;     1; 1; 1; 0; 504; 576; 1; 1; 3; 0;
     2; 0; 0; 1; 0; 576; 1; 1; 2; 0;     5; 1; 2; 0; 432; 504; 1; 1; 1; 1; 1;
     2; 2; 25; 1; 1; 2; 0; 504; 432; 1; 1; 0; 0;     1; 1; 1; 0; 504; 504; 1; 1; 1; 0;
     10; 7; 2; 0; 504; 2; 0; 0; 2; 0; 72; 2; 0; 144; 2; 0; 216; 2; 0; 288; 2; 0; 360; 0; 0; 1; 3; 11; 1; 1; 1].
Proof. vm_compute. reflexivity. Qed.
