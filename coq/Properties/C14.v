(* C14 — Processing elements bracket every module event in stack order.
   Statements only.  [trace sc] is the list of brackets (and Module::reset records) of the
   run of script [sc] in the model of processing.rs / events.rs (coq/Proc/Model.v);
   [flat_log sc] is the flat call log that the model runner prints and the implementation
   runner reproduces.  A script fixes, for each of the two modules, ANY processing stack
   (list of elements that pass / modify / consume and send from every hook), a handler
   script (which may make a callback panic under a catching stereotype), and any list of
   injected messages; all statements hold for every script. *)
From Coq Require Import List NArith.
From DesVerif Require Import Proc.Model Proc.Shape Proc.Corollaries Proc.Trace Proc.Emit Proc.Order Proc.Term.
From DesVerif Require Import Proc.ModelCq Proc.CqSim Proc.CqInst.
Import ListNotations.
Open Scope N_scope.

(* bracket_shape: the callbacks of one delivered event are exactly
     start_0 [in_0] start_1 [in_1] .. start_{n-1} [in_{n-1}]  [handler]  [task]  end_{n-1} .. end_0
   ([shape], coq/Proc/Shape.v): in_i is present iff the event carries a message and none of
   the elements 0..i-1 consumes, and carries the payload as modified by elements 0..i-1; the
   handler is present iff the event has one (message not consumed / start-up stage / tear-down). *)
Theorem C14_bracket_shape : forall sc b, In (IBrk b) (trace sc) ->
  calls (b_log b) = shape (b_mod b) (b_time b) (m_stack (cfg sc (b_mod b))) (b_kind b) (b_woken b).
Proof. intros sc b H. exact (proj1 (bracket_in_trace sc b H)). Qed.
Print Assumptions C14_bracket_shape.

(* every installed element sees event_start exactly once, in stack order *)
Theorem C14_start_once_in_order : forall sc b, In (IBrk b) (trace sc) ->
  filter is_start (b_log b) =
  map (fun i => mk (b_mod b) (Elem i) (HStart (b_time b))) (seq 0 (length (m_stack (cfg sc (b_mod b))))).
Proof. intros sc b H. exact (start_once_in_order _ _ (bracket_in_trace sc b H)). Qed.
Print Assumptions C14_start_once_in_order.

(* the message is offered to the elements in stack order until one consumes it:
   element i gets incoming (once) iff no element before it consumes *)
Theorem C14_incoming_until_consumed : forall sc b, In (IBrk b) (trace sc) ->
  let els := m_stack (cfg sc (b_mod b)) in
  filter is_in (b_log b) =
  flat_map (fun i => match kind_msg (b_kind b) with
                     | Some x => if consumed (firstn i els) then []
                                 else [mk (b_mod b) (Elem i) (HIn (pay x (firstn i els)))]
                     | None => [] end) (seq 0 (length els)).
Proof. intros sc b H. exact (incoming_until_consumed _ _ (bracket_in_trace sc b H)). Qed.
Print Assumptions C14_incoming_until_consumed.

(* the handler of a message event runs (exactly once, with the payload modified by the
   whole stack) iff no element of the stack consumes *)
Theorem C14_handler_iff_not_consumed : forall sc b x, In (IBrk b) (trace sc) -> b_kind b = KMsg x ->
  let els := m_stack (cfg sc (b_mod b)) in
  (forall y t', In (mk (b_mod b) Handler (HHandle y t')) (b_log b) ->
     (forall e, In e els -> el_act e <> Consume) /\ y = pay x els /\ t' = b_time b) /\
  ((forall e, In e els -> el_act e <> Consume) ->
     filter is_handler_call (b_log b) = [mk (b_mod b) Handler (HHandle (pay x els) (b_time b))]) /\
  ((exists e, In e els /\ el_act e = Consume) -> filter is_handler_call (b_log b) = []).
Proof.
  intros sc b x H Hk. pose proof (bracket_in_trace sc b H) as Hok.
  destruct (handler_iff_not_consumed _ _ Hok x Hk) as [H1 H2].
  split; [exact H1|split; [exact H2|exact (handler_skipped_when_consumed _ _ Hok x Hk)]].
Qed.
Print Assumptions C14_handler_iff_not_consumed.

(* event_end runs exactly once per element, in reverse stack order, after every other
   callback of the event (in particular after the handler) *)
Theorem C14_end_once_reverse_after_handler : forall sc b, In (IBrk b) (trace sc) ->
  exists pre, calls (b_log b) =
              pre ++ map (fun i => mk (b_mod b) (Elem i) HEnd) (rev (seq 0 (length (m_stack (cfg sc (b_mod b)))))) /\
              Forall (fun e => is_end e = false) pre.
Proof. intros sc b H. exact (end_once_reverse_after_handler _ _ (bracket_in_trace sc b H)). Qed.
Print Assumptions C14_end_once_reverse_after_handler.

(* a callback that panics (caught by the stereotype, which deactivates the module) does not
   leave the event open: after the panic come only the poll of a woken task and event_end of
   every element in reverse order.  (The other statements above cover such brackets too.) *)
Theorem C14_caught_panic_bracket_closed : forall sc b, In (IBrk b) (trace sc) ->
  brk_panics (cfg sc (b_mod b)) b = true ->
  exists pre post, b_log b = pre ++ mk (b_mod b) Handler HPanic :: post /\
    calls post = task_shape (b_mod b) (b_time b) (b_woken b) ++ down_shape (b_mod b) (m_stack (cfg sc (b_mod b))).
Proof. intros sc b H. exact (proj2 (proj2 (bracket_in_trace sc b H))). Qed.
Print Assumptions C14_caught_panic_bracket_closed.

(* brackets never interleave: the flat call log of a whole run is a concatenation of
   well-formed brackets, each made of entries of a single module ([brk_ok]), with
   Module::reset records between brackets only *)
Theorem C14_brackets_do_not_interleave : forall sc, Brackets sc (flat_log sc).
Proof. exact flat_log_brackets. Qed.
Print Assumptions C14_brackets_do_not_interleave.

(* messages sent during an event are emitted in program order: the event set after the
   event is the event set before it with the images of the send records of the event's log
   added one by one in log order (then the restart event, if a shutdown was requested) *)
Theorem C14_emitted_in_program_order : forall sc w t ev m, ev_module ev = Some m ->
  w_fes (fst (process sc w t ev)) = fes_after t m (flat_map item_log (snd (process sc w t ev))) (w_fes w).
Proof. exact process_fes. Qed.
Print Assumptions C14_emitted_in_program_order.

(* consequently two sends of one event with arrival times t1 <= t2 stand in program order
   in the dispatch order of the event set, in every world the main loop reaches *)
Theorem C14_sends_keep_order : forall sc w t ev f m a p1 b p2 c,
  Reach sc w -> fes_fetch (w_fes w) = Some (t, ev, f) -> ev_module ev = Some m ->
  pend_of t (flat_map item_log (snd (process sc (set_fes w f) t ev))) = a ++ p1 :: b ++ p2 :: c ->
  fst p1 <= fst p2 ->
  Subseq [p1; p2] (fes_order (w_fes (fst (process sc (set_fes w f) t ev)))).
Proof. exact sends_keep_order. Qed.
Print Assumptions C14_sends_keep_order.

(* [Reach] is what the main loop of [run_script] goes through *)
Theorem C14_loop_states_reachable : forall sc k,
  match Common.Fuel.iter_nat k (loop_step sc) (fst (sim_start sc (init_world sc)), 0, snd (sim_start sc (init_world sc))) with
  | inl st | inr st => Reach sc (fst (fst st)) end.
Proof. exact loop_states_reach. Qed.
Print Assumptions C14_loop_states_reachable.

(* every run ends: the fuel of the event loop is never exhausted *)
Theorem C14_run_terminates : forall sc, snd (run_script sc) = true.
Proof. exact run_terminates. Qed.
Print Assumptions C14_run_terminates.

(* ---- composition with C01: the same event loop over the CONCRETE calendar queue ----
   [run_script_cq n t] / [run_cq n t] (coq/Proc/ModelCq.v) thread des-cqueue's calendar queue
   (CQueue.Model.cq with n buckets of width t, entries carrying an index into an event store)
   where [run_script] / [run] thread the two-list specification.  Through the refinement
   relation of C01 (R_add, R_fetch, R_new_at) both print the same, for every n, t >= 1. *)
Theorem C14_run_script_over_cqueue : forall n t sc, n <> 0 -> t <> 0 -> run_script_cq n t sc = run_script sc.
Proof. exact run_script_over_cqueue. Qed.
Print Assumptions C14_run_script_over_cqueue.

Theorem C14_run_over_cqueue_eq_run_over_spec : forall n t input, n <> 0 -> t <> 0 -> run_cq n t input = run input.
Proof. exact run_over_cqueue. Qed.
Print Assumptions C14_run_over_cqueue_eq_run_over_spec.

(* the same over des-cqueue's own specification type (CQueue/Spec.v [sp], with the event store) *)
Theorem C14_run_over_cqueue_spec : forall sc, run_script_sp sc = run_script sc.
Proof. exact run_over_sp_eq. Qed.
Print Assumptions C14_run_over_cqueue_spec.

(* brackets never interleave in the run over the calendar queue *)
Theorem C14_brackets_do_not_interleave_cq : forall n t sc, n <> 0 -> t <> 0 -> Brackets sc (flat_log_cq n t sc).
Proof. intros n t sc Hn Ht. rewrite flat_log_over_cqueue by assumption. apply flat_log_brackets. Qed.
Print Assumptions C14_brackets_do_not_interleave_cq.

(* what an event adds to the calendar queue: its send records, in log order, through
   CQueue::add ([cq_add]), then the restart event -- for every state of the queue *)
Theorem C14_emitted_in_program_order_cq : forall sc (g : cworld) now ev m, ev_module ev = Some m ->
  g_q (fst (process_cq sc g now ev)) = cq_after now m (flat_map item_log (snd (process_cq sc g now ev))) (g_q g).
Proof. intros sc g now ev m. exact (gprocess_q cqs cq_add sc g now ev m). Qed.
Print Assumptions C14_emitted_in_program_order_cq.

(* two sends of one event with arrival times t1 <= t2 leave the calendar queue in program
   order: [dispatch_order_cq] is what draining the queue with fetch_next yields *)
Theorem C14_sends_keep_order_cq : forall n t sc g now ev q' m a p1 b p2 c,
  n <> 0 -> t <> 0 ->
  ReachCq n t sc g -> cq_fetch (g_q g) = Some (now, ev, q') -> ev_module ev = Some m ->
  pend_of now (flat_map item_log (snd (process_cq sc (gset_q cqs g q') now ev))) = a ++ p1 :: b ++ p2 :: c ->
  fst p1 <= fst p2 ->
  Subseq [p1; p2] (dispatch_order_cq (g_q (fst (process_cq sc (gset_q cqs g q') now ev)))).
Proof. exact sends_keep_order_cq. Qed.
Print Assumptions C14_sends_keep_order_cq.

(* [ReachCq] is what the main loop of [run_script_cq] goes through *)
Theorem C14_loop_states_reachable_cq : forall n t sc k,
  match Common.Fuel.iter_nat k (loop_step_cq sc)
          (fst (sim_start_cq sc (init_world_cq n t sc)), 0, snd (sim_start_cq sc (init_world_cq n t sc))) with
  | inl st | inr st => ReachCq n t sc (fst (fst st)) end.
Proof. exact loop_states_reach_cq. Qed.
Print Assumptions C14_loop_states_reachable_cq.

(* Non-vacuity: module 0 has the stack [pass; modify +5; consume; pass], module 1 the stack
   [modify +1; modify +10] and a handler that sends twice; both receive payload 7 at t = 3. *)
Definition ex_elem (a : act) : elem := {| el_act := a; el_start := []; el_in := []; el_end := [] |}.
Definition ex_handler : handler :=
  {| h_stages := 1; h_extra := XNone; h_start := [];
     h_msg := [{| e_peer := false; e_delay := 2; e_id := 50 |}; {| e_peer := false; e_delay := 2; e_id := 51 |}];
     h_end := []; h_task := [] |}.
Definition ex_script : script :=
  {| s_bud := 2;
     s_m0 := {| m_stack := [ex_elem Pass; ex_elem (Modify 5); ex_elem Consume; ex_elem Pass]; m_handler := ex_handler |};
     s_m1 := {| m_stack := [ex_elem (Modify 1); ex_elem (Modify 10)]; m_handler := ex_handler |};
     s_inj := [(3, EvDeliver 0 7); (3, EvDeliver 1 7)] |}.
Definition msg_logs (it : item) : list (list entry) :=
  match it with IBrk b => match b_kind b with KMsg _ => [b_log b] | _ => [] end | _ => [] end.

Example C14_nonvacuous :
  firstn 2 (flat_map msg_logs (trace ex_script)) =
  [ [mk 0 (Elem 0) (HStart 3); mk 0 (Elem 0) (HIn 7); mk 0 (Elem 1) (HStart 3); mk 0 (Elem 1) (HIn 7);
     mk 0 (Elem 2) (HStart 3); mk 0 (Elem 2) (HIn 12); mk 0 (Elem 3) (HStart 3);
     mk 0 (Elem 3) HEnd; mk 0 (Elem 2) HEnd; mk 0 (Elem 1) HEnd; mk 0 (Elem 0) HEnd];
    [mk 1 (Elem 0) (HStart 3); mk 1 (Elem 0) (HIn 7); mk 1 (Elem 1) (HStart 3); mk 1 (Elem 1) (HIn 8);
     mk 1 Handler (HHandle 18 3); mk 1 Handler (HSched 2 50); mk 1 Handler (HSched 2 51);
     mk 1 (Elem 1) HEnd; mk 1 (Elem 0) HEnd] ] /\
  (* the two messages sent by the handler of module 1 arrive in program order *)
  map (fun l => nth 1 l (mk 9 Task HReset)) (skipn 2 (flat_map msg_logs (trace ex_script))) =
  [mk 1 (Elem 0) (HIn 50); mk 1 (Elem 0) (HIn 51)].
Proof. vm_compute. split; reflexivity. Qed.

(* Non-vacuity of the caught-panic case: module 0 = [modify +5; pass] around a handler that
   panics in handle_message of payload 12; the bracket is closed, the module is inert
   afterwards (the second message produces no bracket), tear-down still brackets it. *)
Definition ex_panic_script : script :=
  {| s_bud := 2;
     s_m0 := {| m_stack := [ex_elem (Modify 5); ex_elem Pass];
                m_handler := {| h_stages := 1; h_extra := XPanic 0 12 0; h_start := []; h_msg := []; h_end := []; h_task := [] |} |};
     s_m1 := {| m_stack := []; m_handler := {| h_stages := 0; h_extra := XNone; h_start := []; h_msg := []; h_end := []; h_task := [] |} |};
     s_inj := [(3, EvDeliver 0 7); (4, EvDeliver 0 7)] |}.

Example C14_nonvacuous_panic :
  flat_map msg_logs (trace ex_panic_script) =
  [ [mk 0 (Elem 0) (HStart 3); mk 0 (Elem 0) (HIn 7); mk 0 (Elem 1) (HStart 3); mk 0 (Elem 1) (HIn 12);
     mk 0 Handler (HHandle 12 3); mk 0 Handler HPanic; mk 0 (Elem 1) HEnd; mk 0 (Elem 0) HEnd] ] /\
  skipn 13 (flat_log ex_panic_script) =
  [mk 0 (Elem 0) (HStart 4); mk 0 (Elem 1) (HStart 4); mk 0 Handler (HSimEnd 4); mk 0 (Elem 1) HEnd; mk 0 (Elem 0) HEnd;
   mk 1 Handler (HSimEnd 4)].
Proof. vm_compute. split; reflexivity. Qed.

(* Non-vacuity of the composition: the model over a calendar queue of 3 buckets of width 2 ns
   (year wraps, scans) is executable and prints the same log. *)
Example C14_nonvacuous_cq :
  run_script_cq 3 2 ex_script = run_script ex_script /\ length (flat_log_cq 3 2 ex_script) = 62%nat.
Proof. vm_compute. split; reflexivity. Qed.
