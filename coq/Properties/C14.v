(* placeholder, filled below *)
From DesVerif Require Import Proc.Model Proc.Shape Proc.Corollaries Proc.Trace Proc.Emit Proc.Order Proc.Term.
