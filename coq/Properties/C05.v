(* C05 — Timers fire exactly at their deadline and are never lost.
   Statements only.  Layers:
     coq/Timer/Driver.v   the per-module timer driver (slot queue, next_wakeup, the
                          AsyncWakeupEvents [scheduled] in the event set; activate/deactivate)
     coq/Timer/Futures.v  Sleep / Timeout / Interval as pure functions of [now] and the driver
   A history of a module is a list of events: [EOther t ops] (a message, start-up stage,
   restart ... at time t) or [EWake ops] (the earliest scheduled AsyncWakeupEvent fires);
   [ops] is ANY list of register / drop / reset operations that the tasks polled during the
   event perform (contract [ops_wf]: Sleep::poll registers only deadlines > now).  An event
   is  activate t; ops; deactivate.  [ev_valid] says only that the event set is served in
   time order: t is not in the past and not after a scheduled wake-up.
   The composition with the task executor (coq/Timer/Model.v) is validated by the
   correspondence check, not proved: C05 is `partial` in that sense (DESIGN.md section 10). *)
From Coq Require Import List NArith Permutation Lia.
From DesVerif Require Import Timer.Driver Timer.QueueLemmas Timer.Inv Timer.Exact Timer.Futures Timer.FutureLaws Timer.Model Timer.Compose
  Timer.Frag Timer.E2EInv Timer.E2ELoop Timer.E2EInit Timer.Fresh Timer.ModelCq Timer.OverCq Timer.OverCqProps.
From DesVerif Require CQueue.Model.
Import ListNotations.
Open Scope N_scope.

(* proves  Forall (fun tk => Forall frag_step .. /\ Forall (< TMAX) (expected tk)) (decode <concrete script>)  *)
Ltac init_ok_by_computation :=
  match goal with |- Forall _ ?e => let v := eval vm_compute in e in replace e with v by (vm_compute; reflexivity) end;
  repeat (apply Forall_cons || apply Forall_nil);
  (split;
   [repeat (apply Forall_cons || apply Forall_nil || split); try exact I; try reflexivity
   |match goal with |- Forall _ ?e => let v := eval vm_compute in e in replace e with v by (vm_compute; reflexivity) end;
    repeat constructor]).

(* Inv_wake (with the bookkeeping facts that make it inductive: slots sorted, live slots in
   the future, next_wakeup is a scheduled wake-up) is preserved by every event, whatever the
   tasks do to their timers during it. *)
Theorem C05_Inv_wake_preserved : forall st e, Inv (fst st) (snd st) -> ev_valid st e ->
  Inv (fst (fst (step_event true st e))) (snd (fst (step_event true st e))).
Proof. exact step_event_inv. Qed.
Print Assumptions C05_Inv_wake_preserved.

(* At every event boundary of every history: each slot that holds a live timer is covered
   by a wake-up w in the event set with now <= w <= deadline. *)
Theorem C05_Inv_wake_every_history : forall tr, valid_trace (0, new_driver) tr ->
  let now := fst (fst (run_trace true (0, new_driver) tr)) in
  let dr := snd (fst (run_trace true (0, new_driver) tr)) in
  forall d es, In (d, es) (pending dr) -> es <> [] -> d < TMAX ->
  exists w, In w (scheduled dr) /\ now <= w /\ w <= d.
Proof. intros tr Hv. exact (proj2 (trace_inv tr (0, new_driver) inv_init Hv)). Qed.
Print Assumptions C05_Inv_wake_every_history.

(* The shape of the driver between two events, in every history -- this is what the
   correspondence check evaluates on the REAL driver after every event through the hook
   Driver::verif_snapshot: slots sorted by distinct deadlines, none in the past, the front slot
   holds a timer, and next_wakeup itself is a scheduled wake-up w with now < w <= deadline for
   every slot that holds a live timer.  [TMAX] is SimTime::MAX, the deadline of a far-future
   Sleep (`now + duration` not representable): such a timer never elapses, the code never
   schedules a wake-up for it (deactivate compares with next_wakeup = MAX), and the theorems
   speak about the finite deadlines d < TMAX. *)
Theorem C05_snapshot_invariant : forall tr, valid_trace (0, new_driver) tr ->
  let now := fst (fst (run_trace true (0, new_driver) tr)) in
  let dr := snd (fst (run_trace true (0, new_driver) tr)) in
  sorted (pending dr) /\
  (forall d es, In (d, es) (pending dr) -> now < d) /\
  match pending dr with (_, []) :: _ => False | _ => True end /\
  (forall d es, In (d, es) (pending dr) -> es <> [] -> d < TMAX ->
     exists w, next_wakeup dr = Some w /\ In w (scheduled dr) /\ now < w /\ w <= d).
Proof.
  intros tr Hv. destruct (trace_snap tr (0, new_driver) inv_init Hv snap_init) as [H1 H2 H3 H4].
  split; [exact H1|]. split; [exact H2|]. split; [exact H3|exact H4].
Qed.
Print Assumptions C05_snapshot_invariant.

(* never early: activation at [now] wakes only slots whose deadline has been reached
   (and, the queue being sorted, all of them) *)
Theorem C05_never_early : forall now dr,
  (forall d es, In (d, es) (fst (activate now dr)) -> d <= now) /\
  (sorted (pending dr) -> forall d es, In (d, es) (pending dr) -> d <= now -> In (d, es) (fst (activate now dr))).
Proof. intros now dr. split; [exact (never_early now dr)|intros Hs d es; exact (bump_takes_all_due now dr d es Hs)]. Qed.
Print Assumptions C05_never_early.

(* in every history, the event that wakes a timer is stamped exactly with its deadline *)
Theorem C05_woken_exactly_at_deadline : forall tr, valid_trace (0, new_driver) tr ->
  forall t d es, In (t, (d, es)) (snd (run_trace true (0, new_driver) tr)) -> es <> [] -> d < TMAX -> t = d.
Proof. intros tr Hv. exact (log_exact tr (0, new_driver) inv_init Hv). Qed.
Print Assumptions C05_woken_exactly_at_deadline.

(* never late, never lost: a timer that is registered under deadline d and whose Sleep is
   left alone is, after any continuation of the history, either already woken -- by an event
   at exactly d -- or still registered with now < d and a wake-up w, now <= w <= d, waiting
   in the event set (so the run cannot end and no event can overtake d). *)
Theorem C05_never_late_never_lost : forall tr st id d,
  Inv (fst st) (snd st) -> valid_trace st tr -> live (snd st) id d -> d < TMAX -> untouched id tr ->
  (exists es, In (d, (d, es)) (snd (run_trace true st tr)) /\ In id es) \/
  (live (snd (fst (run_trace true st tr))) id d /\ fst (fst (run_trace true st tr)) < d /\
   exists w, In w (scheduled (snd (fst (run_trace true st tr)))) /\ fst (fst (run_trace true st tr)) <= w /\ w <= d).
Proof. exact never_late_never_lost. Qed.
Print Assumptions C05_never_late_never_lost.

(* a run that has ended (no wake-up left in the event set) woke it at exactly d *)
Theorem C05_complete_run_wakes_at_deadline : forall tr st id d,
  Inv (fst st) (snd st) -> valid_trace st tr -> live (snd st) id d -> d < TMAX -> untouched id tr ->
  scheduled (snd (fst (run_trace true st tr))) = [] ->
  exists es, In (d, (d, es)) (snd (run_trace true st tr)) /\ In id es.
Proof. exact complete_run_wakes_at_deadline. Qed.
Print Assumptions C05_complete_run_wakes_at_deadline.

(* the futures touch the driver only through contract-respecting operations, so the
   invariant theorems above cover everything Sleep, Timeout and Interval do *)
Theorem C05_futures_keep_invariant : forall t dr, Mid t dr ->
  (forall s, Mid t (snd (sleep_poll t s dr))) /\
  (forall s d', Mid t (snd (sleep_reset s d' dr))) /\
  (forall s, Mid t (sleep_drop s dr)) /\
  (forall iv, Mid t (snd (poll_tick t iv dr))) /\
  (forall V (vpoll : N -> V -> driver -> bool * V * driver),
     (forall v0 dr0, acts t dr0 (snd (vpoll t v0 dr0))) ->
     forall v dl, Mid t (snd (timeout_poll vpoll t v dl dr))).
Proof.
  intros t dr Hm. split; [|split; [|split; [|split]]].
  - intros s. exact (acts_mid _ _ _ (sleep_poll_acts t s dr) Hm).
  - intros s d'. exact (acts_mid _ _ _ (sleep_reset_acts t s d' dr) Hm).
  - intros s. exact (acts_mid _ _ _ (sleep_drop_acts t s dr) Hm).
  - intros iv. exact (acts_mid _ _ _ (poll_tick_acts t iv dr) Hm).
  - intros V vpoll Hv v dl. exact (acts_mid _ _ _ (timeout_poll_acts V vpoll t v dl dr Hv) Hm).
Qed.
Print Assumptions C05_futures_keep_invariant.

(* The composite model that predicts the implementation's logs (coq/Timer/Model.v: scripted
   tasks, FIFO executor, drivers, event set) is tied to the theorems above this far: during one
   event of module m at time t -- whatever tasks are woken or spawned and however they run --
   the driver of m goes through exactly an [event_body] with a contract-respecting operation
   list, and the other module's driver is untouched.  Not proved about the composite: that its
   event set serves events in time order (C01) and that its task logs are what the property
   demands; the correspondence check validates those on every run. *)
Theorem C05_composite_event_is_driver_event : forall (wfix : bool) (t m : N) (spawn : list nat) (fire : bool) (w : world),
  (exists ops, ops_wf t ops /\
     drv_of (module_event wfix t m spawn fire w) m =
     snd (event_body true t ops (if fire then sched_fire t (drv_of w m) else drv_of w m))) /\
  forall m', (m' =? 0) <> (m =? 0) -> drv_of (module_event wfix t m spawn fire w) m' = drv_of w m'.
Proof. exact module_event_is_driver_event. Qed.
Print Assumptions C05_composite_event_is_driver_event.

(* END TO END, for the composite model itself (scripted tasks + FIFO executor + the two
   drivers + the event set + waker table), on the fragment {sleep(d), sleep_until(t), log}:
   for EVERY list of tasks -- any number, on either module, spawned at start-up or by a message
   at any instant, any durations (zero, equal, coinciding across tasks and modules ...) -- the
   run of the model ENDS (the loop's fuel is never exhausted), every task has finished, and
   task k has logged exactly  exp_run (t_start k) None noarr (t_steps k)  (None: the task starts without an interval; noarr: no channels):  the entry after sleep(d) begun
   at x is x + d, after sleep_until(t) it is max x t -- every await returned at exactly its
   deadline.  [init_ok]: the task is as the decoder produces it (not yet polled, module < 2),
   its steps lie in the fragment and the deadlines it prescribes are finite (< TMAX); [decode_init_ok] shows that every script line over the
   fragment decodes to such tasks.  The proof composes the driver invariant
   (event_body_inv / deactivate_snap), the futures' contract, the executor's run over the
   woken tasks, and the event-set facts of C01's specification (SI: fetch returns a pending
   event of minimal time).  The same theorem covers the steps added to the fragment since --
   reset / drop, timeout(d, sleep x), interval, the keep-alive select of step 13: see the
   theorems (1)-(4) below, which spell out frag_step and exp_run for them.  Still covered
   for the composite by the correspondence check only: timeout over flip, hand-over of a polled Sleep, message-driven receives, and
   Duration::MAX deadlines that stay registered. *)
Theorem C05_composite_sleep_exact : forall ts, Forall init_ok ts ->
  exists w, run_tasks true ts = (w, true) /\
    Forall2 (fun tk0 tk => t_fin tk = true /\ t_log tk = exp_run (t_start tk0) None noarr (t_steps tk0)) ts (w_tasks w).
Proof. exact composite_sleep_exact. Qed.
Print Assumptions C05_composite_sleep_exact.

(* ... and at every point of the run nothing has been logged that the property does not
   demand: after any number n of loop iterations each task's log is a prefix of exp_run *)
Theorem C05_composite_sleep_prefix : forall ts, Forall init_ok ts -> forall n,
  let w := match Common.Fuel.iter_nat n (loop_step true) (sim_start true (init_world ts)) with inl w => w | inr w => w end in
  Forall2 (fun tk0 tk => exists rest, exp_run (t_start tk0) None noarr (t_steps tk0) = t_log tk ++ rest) ts (w_tasks w).
Proof. exact composite_sleep_prefix. Qed.
Print Assumptions C05_composite_sleep_prefix.

(* (1) reset and drop of registered sleeps are part of the proved fragment: a pinned Sleep that
   is created, polled (registered) and reset is awaited until exactly its NEW deadline; a pinned
   Sleep that is polled and dropped costs no time; in both cases the timers of all other tasks
   still fire at exactly their deadlines, although the driver now holds emptied slots (the
   fresh id makes the removal hit the right entry: Timer/TempOps.v; Inv_wake covers the
   emptied slots).  Durations are finite (< FARK = 2^61 ns; FARK and above stands for
   Duration::MAX, which the correspondence check covers). *)
Theorem C05_composite_reset_drop_exact :
  (forall p d1 d2, d1 < FARK -> d2 < FARK -> frag_step (SReset p d1 d2)) /\
  (forall d, d < FARK -> frag_step (SDropSleep d)) /\
  (forall now iv arr p d1 d2 r, exp_run now iv arr (SReset p d1 d2 :: r) = (now + d2) :: exp_run (now + d2) iv arr r) /\
  (forall now iv arr d r, exp_run now iv arr (SDropSleep d :: r) = now :: exp_run now iv arr r) /\
  (forall ts, Forall init_ok ts ->
     exists w, run_tasks true ts = (w, true) /\
       Forall2 (fun tk0 tk => t_fin tk = true /\ t_log tk = exp_run (t_start tk0) None noarr (t_steps tk0)) ts (w_tasks w)).
Proof.
  split; [intros p d1 d2 H1 H2; split; assumption|]. split; [intros d H; exact H|].
  split; [reflexivity|]. split; [reflexivity|exact composite_sleep_exact].
Qed.
Print Assumptions C05_composite_reset_drop_exact.

(* (2a) timeout(d, sleep(x)) inside the proved fragment.  A task that reaches the step at instant
   [now] (x, d below the far-future cut-off FARK, so both deadlines are now + x and now + d)
   gets its result exactly at now + min x d, and the result is Ok (logged 1) iff x <= d -- the
   tie goes to the inner sleep because Timeout::poll polls the value first -- and Elapsed
   (logged 0) otherwise; the other of the two Sleeps is dropped at that instant and can never
   wake the task again.  As for the other steps of the fragment this is a statement about
   COMPLETE runs of the composite model (both drivers, the waker table, the event set as
   specified in CQueue.Spec, at most two modules, any number of tasks, tasks spawned at
   sim-start or by a message): the run ends, every task is finished and has logged exactly
   the closed form exp_run.  No fairness or FIFO hypothesis is needed: inside one event the
   run queue is polled in FIFO order (a fact of the model, checked against des by L2), but
   exp_run does not depend on that order since the tasks of the fragment do not communicate. *)
Theorem C05_composite_timeout_sleep_exact :
  (forall d x, d < FARK -> x < FARK -> frag_step (STimeout d (ISleep x))) /\
  (forall now iv arr d x r, exp_run now iv arr (STimeout d (ISleep x) :: r) =
     (now + N.min x d) :: (if x <=? d then 1 else 0) :: exp_run (now + N.min x d) iv arr r) /\
  (forall ts, Forall init_ok ts ->
     exists w, run_tasks true ts = (w, true) /\
       Forall2 (fun tk0 tk => t_fin tk = true /\ t_log tk = exp_run (t_start tk0) None noarr (t_steps tk0)) ts (w_tasks w)).
Proof.
  split; [intros d x H1 H2; split; assumption|].
  split; [intros now iv arr d x r; cbn [exp_run step_log step_time step_iv step_arr app]; destruct (x <=? d); reflexivity|exact composite_sleep_exact].
Qed.
Print Assumptions C05_composite_timeout_sleep_exact.

(* (3) interval ticks inside the proved fragment, all three MissedTickBehavior variants.  The
   log demanded of a task now depends on its interval, of which exp_run carries (nominal
   instant nx of the next tick, period, behaviour):  interval(period) created at instant x has
   nx = x (creation, like dropping it, takes no time and logs nothing);  tick().await begun at
   [now] returns at max(now, nx) -- at nx if the task is early, AT ONCE if the tick is due or
   was missed -- with the value nx (logged [instant; value]), and the next tick is nominally
   due at tick_next: nx + period if the tick was taken at most 5 ms late (any behaviour) and
   always under Burst (so a late task catches up, tick k has the value start + k * period
   whatever the delays: exp_run_burst);  for a tick taken more than 5 ms late, now + period
   under Delay, and under Skip the next instant nx + j * period (j integer) strictly after now.
   As before this is a statement about complete runs of the composite model: for every list of
   tasks over the fragment the run ends, every task has finished and has logged exactly
   exp_run.  The Sleep of an interval keeps its id over all its ticks while every other Sleep
   gets a fresh one, so the invariant now tracks the ids of Sleeps a task OWNS without having
   them registered (Base.b_own, b_distinct) -- removal by id still hits the right entry.
   No FIFO or fairness hypothesis. *)
Theorem C05_composite_interval_exact :
  (forall p b, 0 < p -> frag_step (SIvNew p b)) /\ frag_step SIvTick /\ frag_step SIvDrop /\
  (forall now iv arr p b r, exp_run now iv arr (SIvNew p b :: r) = exp_run now (Some (now, p, b)) arr r) /\
  (forall now iv arr r, exp_run now iv arr (SIvDrop :: r) = exp_run now None arr r) /\
  (forall now nx p b arr r, exp_run now (Some (nx, p, b)) arr (SIvTick :: r) =
     N.max now nx :: nx :: exp_run (N.max now nx) (Some (tick_next b nx (N.max now nx) p, p, b)) arr r) /\
  (forall now arr r, exp_run now None arr (SIvTick :: r) = now :: 0 :: exp_run now None arr r) /\
  (forall b nx t p, t <= nx + GRACE -> tick_next b nx t p = nx + p) /\
  (forall nx t p, tick_next Burst nx t p = nx + p) /\
  (forall nx t p, nx + GRACE < t -> tick_next Delay nx t p = t + p) /\
  (forall nx t p, nx + GRACE < t -> 0 < p ->
     tick_next Skip nx t p = nx + ((t - nx) / p + 1) * p /\ t < tick_next Skip nx t p <= t + p) /\
  (forall busy now start p k arr r,
     exp_run now (Some (start + N.of_nat k * p, p, Burst)) arr (ticks busy ++ r) =
     burst_log now start p k busy ++
     exp_run (burst_end now start p k busy) (Some (start + N.of_nat (k + length busy) * p, p, Burst)) arr r) /\
  (forall ts, Forall init_ok ts ->
     exists w, run_tasks true ts = (w, true) /\
       Forall2 (fun tk0 tk => t_fin tk = true /\ t_log tk = exp_run (t_start tk0) None noarr (t_steps tk0)) ts (w_tasks w)).
Proof.
  split; [intros p b H; exact H|]. split; [exact I|]. split; [exact I|].
  split; [reflexivity|]. split; [reflexivity|]. split; [reflexivity|]. split; [reflexivity|].
  split; [exact tick_next_nominal|]. split; [exact tick_next_burst|]. split; [exact tick_next_delay|].
  split; [exact tick_next_skip|]. split; [exact exp_run_burst|exact composite_sleep_exact].
Qed.
Print Assumptions C05_composite_interval_exact.

(* (4) the biased two-way select! of step 13 (keep-alive timer) inside the proved fragment:
     let kept = Box::pin(sleep(d0)); poll it once; kept.reset(now + d2);
     select! { biased; _ = &mut kept => 0, _ = sleep(x) => 1 }
     on 1:  rearm: kept.reset(now + d3); kept.await      otherwise: drop(kept)
   begun at [now] (d2, x, d3 finite; d0 ARBITRARY, also Duration::MAX -- the far-future
   constructor path -- since that deadline only exists between the first poll and the reset).
   The select returns at now + min(d2, x); branch 0 iff d2 <= x -- the kept timer wins the tie
   because `biased` polls it first; on branch 1 the re-armed timer is awaited until exactly
   (now + x) + d3, the task logging [now + x; 1; now + x + d3] (without rearm [now + x; 1; now + x]).
   The losing Sleep is removed from the driver by its id at that instant; the re-armed timer
   keeps ITS id and is registered a second time under the new deadline (Sleep::reset removes
   the old entry through the handle) -- the invariant shows no entry is lost or hit twice.
   Complete runs of the composite model, any number of tasks on both modules, mixed with all
   other steps of the fragment: the run ends, all tasks finished, logs = exp_run.
   No FIFO or fairness hypothesis: both branches of this select are timers of the same task,
   polled in program order within one poll of the task. *)
Theorem C05_composite_keepalive_select_exact :
  (forall rearm d0 d2 x d3, d2 < FARK -> x < FARK -> d3 < FARK -> frag_step (SKeep rearm d0 d2 x d3)) /\
  (forall now iv arr rearm d0 d2 x d3 r, exp_run now iv arr (SKeep rearm d0 d2 x d3 :: r) =
     if d2 <=? x then (now + d2) :: 0 :: exp_run (now + d2) iv arr r
     else (now + x) :: 1 :: (now + x + (if rearm then d3 else 0)) :: exp_run (now + x + (if rearm then d3 else 0)) iv arr r) /\
  (forall ts, Forall init_ok ts ->
     exists w, run_tasks true ts = (w, true) /\
       Forall2 (fun tk0 tk => t_fin tk = true /\ t_log tk = exp_run (t_start tk0) None noarr (t_steps tk0)) ts (w_tasks w)).
Proof.
  split; [intros rearm d0 d2 x d3 H1 H2 H3; repeat split; assumption|].
  split; [intros now iv arr rearm d0 d2 x d3 r; cbn [exp_run step_log step_time step_iv step_arr app]; destruct (d2 <=? x); reflexivity|exact composite_sleep_exact].
Qed.
Print Assumptions C05_composite_keepalive_select_exact.

(* (4') beyond the list: select! over two fresh sleeps (step 4), biased or not, is in the proved
   fragment as well.  select! { sleep(a) => 0, sleep(b) => 1 } begun at [now] (a, b finite) returns
   at exactly now + min(a, b); the branch is 0 if a < b, 1 if b < a, and on a tie 0 under
   `biased`; without `biased` tokio may take either branch of a tie, which the scripts log as
   2 (sel_code) -- the instant is now + a = now + b in both cases.  The losing Sleep is removed
   from the driver at that instant. *)
Theorem C05_composite_select_exact :
  (forall biased a b, a < FARK -> b < FARK -> frag_step (SSelect biased a b)) /\
  (forall now iv arr biased a b r, exp_run now iv arr (SSelect biased a b :: r) =
     (now + N.min a b) :: (if a <? b then 0 else if b <? a then 1 else if biased then 0 else 2) :: exp_run (now + N.min a b) iv arr r) /\
  (forall ts, Forall init_ok ts ->
     exists w, run_tasks true ts = (w, true) /\
       Forall2 (fun tk0 tk => t_fin tk = true /\ t_log tk = exp_run (t_start tk0) None noarr (t_steps tk0)) ts (w_tasks w)).
Proof.
  split; [intros biased a b H1 H2; split; assumption|]. split; [|exact composite_sleep_exact].
  intros now iv arr biased a b r. cbn [exp_run step_log step_time step_iv step_arr app]. rewrite sel_code_cases. reflexivity.
Qed.
Print Assumptions C05_composite_select_exact.

(* (2b) timeout(d, receive from ch), with the messages sent by other tasks of the module, inside
   the proved fragment.  A sender hands over a boxed sleep(0) that it has polled once -- an
   already elapsed Sleep, which is never registered: a mere token (SHandOver ch 0; the hand-over
   of a LIVE registered Sleep stays outside the proved fragment, see C05_woken_through_last_poller
   and the correspondence check).  The instants at which messages enter channel ch of module m
   are fixed by the scripts of the senders: [arrivals ts m ch] is their sorted list.  A receive
   begun at [now] whose next message arrives at instant a:
     a < now + d   ->  Ok (logged 1) at max(now, a): at once if the message is waiting, else at the
                       very instant it is sent (the send wakes the receiver within the same event);
     otherwise     ->  Elapsed (0) at exactly now + d, the message staying for the next receive.
   The delay timer of a receive that got its message is removed from the driver; this is the
   first step of the fragment in which a registered timer is cancelled in a LATER event than the
   one that registered it, so wake-ups can now go stale (next_wakeup_stuck's territory): the
   invariant no longer claims next_wakeup's slot is live, and termination is proved with the
   measure 2 * work + |event set| + stale wake-ups (Timer/E2EEvent.v module_event_measure).
   HYPOTHESES on the task list, all in [chan_ok] (decidable: chan_okb):
     (R1) a task either receives or sends, not both (frag_step2 (rcv_of tk));
     (R2) at most one task of a module receives (one_recv);
     (R3) no message arrives at the very instant the receive it would satisfy elapses, a = now + d
          (recv_ok; also now + d < SimTime::MAX).
   (R3) is where the EXECUTOR'S ORDER would decide: at such a tie the receiver (woken by its
   delay timer) and the sender are polled in the same event, and the result is Ok iff the sender
   is polled first.  In the model the run queue of an event is FIFO in wake order: the due timer
   entries in slot order, i.e. registration order, then the tasks spawned by the event, then
   receivers woken by sends (Model.v run_queue; proved properties of it: Timer/E2EPoll.v
   run_queue_frag).  des itself wakes in that order and tokio's current_thread LocalSet polls
   woken tasks FIFO as long as fewer than 61 are woken per tick (C06: coq/Exec/Model.v has the
   budget rules); a multi-thread runtime, a LIFO slot or a larger batch may order them otherwise.
   Without ties the result does not depend on that order, and the theorem needs no FIFO or
   fairness hypothesis.  (R1), (R2) keep the arrivals a static list; relaxing them needs a
   fixpoint over the tasks' schedules.
   As before: complete runs of the composite model, both modules, any number of tasks, all
   other steps of the fragment mixed in; the run ends, all tasks finished, logs = exp_run. *)
Theorem C05_composite_timeout_recv_exact :
  (forall rcv d ch, frag_step2 rcv (STimeoutRecv d ch) <-> rcv = true /\ d < FARK) /\
  (forall rcv ch d, frag_step2 rcv (SHandOver ch d) <-> rcv = false /\ d = 0) /\
  (forall now iv arr ch d r, exp_run now iv arr (SHandOver ch d :: r) = now :: exp_run now iv arr r) /\
  (forall now iv arr d ch r, exp_run now iv arr (STimeoutRecv d ch :: r) =
     match arr ch with
     | a :: _ => if a <? now + d then N.max now a :: 1 :: exp_run (N.max now a) iv (arr_pop arr ch) r
                 else (now + d) :: 0 :: exp_run (now + d) iv arr r
     | [] => (now + d) :: 0 :: exp_run (now + d) iv arr r
     end) /\
  (forall now iv arr d ch r, recv_ok now iv arr (STimeoutRecv d ch :: r) <->
     (now + d < TMAX /\ match arr ch with a :: _ => a <> now + d | [] => True end) /\
     recv_ok (step_time now iv arr (STimeoutRecv d ch)) iv (step_arr now arr (STimeoutRecv d ch)) r) /\
  (forall ts m c, sortedN (arrivals ts m c) /\
     Permutation (flat_map (fun tk0 => if t_mod tk0 =? m then on_chan c (exp_sends (t_start tk0) None (t_steps tk0)) else []) ts) (arrivals ts m c)) /\
  (forall ts, chan_ok ts <-> Forall (init_ok2 (arrivals ts)) ts /\ one_recv ts) /\
  (forall ts, chan_ok ts ->
     exists w, run_tasks true ts = (w, true) /\
       Forall2 (fun tk0 tk => t_fin tk = true /\ t_log tk = exp_run (t_start tk0) None (arrivals ts (t_mod tk0)) (t_steps tk0)) ts (w_tasks w)).
Proof.
  split; [intros rcv d ch; reflexivity|]. split; [intros rcv ch d; reflexivity|]. split; [reflexivity|].
  split; [intros now iv arr d ch r; cbn [exp_run step_log step_time step_iv step_arr recv_hit app];
          destruct (arr ch) as [|a l]; [reflexivity|cbn [recv_hit]; destruct (a <? now + d); reflexivity]|].
  split; [intros now iv arr d ch r; reflexivity|].
  split; [intros ts m c; split; [apply isort_sorted|apply isort_perm]|].
  split; [intros ts; reflexivity|exact composite_exact].
Qed.
Print Assumptions C05_composite_timeout_recv_exact.

Theorem C05_fragment_scripts_decode_ok : forall input,
  Forall (fun tk => Forall frag_step (t_steps tk) /\ Forall (fun x => x < TMAX) (exp_run (t_start tk) None noarr (t_steps tk))) (decode input) ->
  Forall init_ok (decode input).
Proof. exact decode_init_ok. Qed.
Print Assumptions C05_fragment_scripts_decode_ok.

(* COMPOSITION WITH C01.  The composite model above (Timer/Model.v) takes the fetch order from
   C01's event-set SPECIFICATION; the real crate runs on the calendar queue.  Timer/ModelCq.v is
   the same model with the concrete calendar queue of C01 (CQueue.Model.cq: buckets, head, t0/t1
   window; cq_new_at n t 0, add, fetch_next, qlen = 0 for "no event pending") in place of the
   specification; tasks, futures, executor, drivers, waker table and channels are shared.  By
   forward simulation over C01's refinement relation R (Timer/OverCq.v; R_new_at, R_add,
   R_fetch, R_len) both models print the same output for EVERY script line and every
   parameterisation n, t >= 1 of the queue (Builder::cqueue_options).  (R_add asks for adds at
   or after the set's clock; an add before the clock is rejected by both sets alike, so no
   hypothesis on the script is needed; inside the proved fragment there is no such add.) *)
Theorem C05_run_over_cqueue_eq_run_over_spec : forall n t script, n <> 0 -> t <> 0 -> run_cq n t script = run script.
Proof. intros n t script Hn Ht. exact (run_cq_eq_run n t script Hn Ht). Qed.
Print Assumptions C05_run_over_cqueue_eq_run_over_spec.

(* ... so the end-to-end theorems hold of the run over the calendar queue: for the whole proved
   fragment (sleep, sleep_until, log, reset / drop, timeout over a sleep, select over two sleeps,
   interval, keep-alive select, and with channels timeout over a receive: chan_ok), for every
   n, t >= 1, the run over the calendar queue ends, every task has finished and has logged
   exactly exp_run *)
Theorem C05_composite_exact_cq : forall n t ts, n <> 0 -> t <> 0 -> chan_ok ts ->
  exists cw, run_tasks_cq true n t ts = (cw, true) /\
    Forall2 (fun tk0 tk => t_fin tk = true /\ t_log tk = exp_run (t_start tk0) None (arrivals ts (t_mod tk0)) (t_steps tk0))
            ts (w_tasks (c_w cw)).
Proof. exact composite_exact_cq. Qed.
Print Assumptions C05_composite_exact_cq.

(* ... in the form of C05_composite_sleep_exact (scripts without channels) *)
Theorem C05_composite_sleep_exact_cq : forall n t ts, n <> 0 -> t <> 0 -> Forall init_ok ts ->
  exists cw, run_tasks_cq true n t ts = (cw, true) /\
    Forall2 (fun tk0 tk => t_fin tk = true /\ t_log tk = exp_run (t_start tk0) None noarr (t_steps tk0)) ts (w_tasks (c_w cw)).
Proof. exact composite_sleep_exact_cq. Qed.
Print Assumptions C05_composite_sleep_exact_cq.

(* C05_woken_exactly_at_deadline for the run over the calendar queue (proved fragment): in the
   state the run is in after any number k of iterations of the main loop, whenever the
   calendar queue hands out the next event -- payload pay (0 / 1: the AsyncWakeupEvent of module
   0 / 1; 2 + j: the message that spawns task j), stamped te -- every slot WITH a timer that the
   activation of that event pops from its module's driver has the deadline d = te: no timer is
   woken by an event other than the one at exactly its deadline *)
Theorem C05_woken_exactly_at_deadline_cq : forall n t ts, n <> 0 -> t <> 0 -> chan_ok ts -> forall k,
  let cw := state_of (Common.Fuel.iter_nat k (loop_step_cq true) (sim_start_cq true (init_world_cq n t ts))) in
  forall q' pay te, CQueue.Model.fetch_next (c_q cw) = (q', CQueue.Model.OFetched pay te) ->
  forall m fire, ev_module pay (w_tasks (c_w cw)) m fire ->
  forall d es, In (d, es) (fst (activate te (if fire then sched_fire te (drv_of (c_w cw) m) else drv_of (c_w cw) m))) ->
               es <> [] -> d = te.
Proof. exact woken_exactly_at_deadline_cq. Qed.
Print Assumptions C05_woken_exactly_at_deadline_cq.

(* The premise under the removal-by-id arguments: TimerSlot::remove(id) takes the FIRST entry
   with that id.  If the ids of a slot are pairwise distinct this is exactly the entry of the
   Sleep that asks (it is gone afterwards, every other entry stays, distinctness is kept);
   and every Sleep a task step creates draws a fresh id from the counter (at least its value
   before the step, below its value after, all different), which reset and poll never change.
   (For the sleep/sleep_until/log fragment distinctness is part of the proved end-to-end
   invariant; for the other steps it rests on these two facts.  The hook a166d25 reports
   entry COUNTS only, so the check cannot read ids off the real driver.) *)
Theorem C05_removal_by_id_needs_distinct_ids :
  (forall id es es', NoDup es -> ents_remove id es = Some es' ->
     ~ In id es' /\ NoDup es' /\ forall x, x <> id -> (In x es <-> In x es')) /\
  (forall now s iv dr nid lg,
     let r := start_step0 now s iv dr nid lg in
     nid <= snd (fst r) /\
     match fst (fst (fst (fst r))) with
     | Some a => NoDup (aw_sids a) /\ forall i, In i (aw_sids a) -> nid <= i /\ i < snd (fst r)
     | None => True
     end) /\
  (forall now s dr, sid (snd (fst (sleep_poll now s dr))) = sid s) /\
  (forall s d' dr, sid (fst (sleep_reset s d' dr)) = sid s).
Proof.
  split; [exact ents_remove_exact|]. split; [exact start_step0_fresh|]. split; [exact sleep_poll_sid|exact sleep_reset_sid].
Qed.
Print Assumptions C05_removal_by_id_needs_distinct_ids.

(* a deadline that is already reached completes at once, without registering *)
Theorem C05_due_deadline_completes_immediately : forall now s dr, deadline s <= now ->
  sleep_poll now s dr = (true, {| deadline := deadline s; sid := sid s; handle := None |}, dr).
Proof. exact due_deadline_completes_immediately. Qed.
Print Assumptions C05_due_deadline_completes_immediately.

(* A registered Sleep follows whoever polls it (commit 5af9a5f): after any sequence of polls
   before the deadline the entry is registered once and the waker stored with it is the one of
   the LAST poll.  [k] in (t, k) is the identity of the WAKER the poll was made with (what
   Waker::will_wake compares), not of a task: two wakers of the same task -- the task's own and the
   one a sub-executor (FuturesUnordered, JoinSet, select_all ...) hands to its children -- are
   different identities, and the theorem does not care which task they belong to.  (A rule keyed
   on the task id instead is refuted: coq/Refuted/C05.v C05_reregister_by_task_id_refuted.) *)
Theorem C05_woken_through_last_poller : forall polls t k s dr tab,
  Forall (fun p => fst p < deadline s) (polls ++ [(t, k)]) ->
  let r := poll_seq true (polls ++ [(t, k)]) s dr tab in
  waker_of (snd r) (sid s) = Some k /\
  snd (fst r) = match handle s with None => register (sid s) (deadline s) dr | Some _ => dr end /\
  handle (fst (fst r)) = Some (match handle s with None => deadline s | Some h => h end).
Proof. exact woken_through_last_poller. Qed.
Print Assumptions C05_woken_through_last_poller.

(* ... stated over the poll sequence as a whole: for ANY non-empty sequence of polls before the
   deadline -- a hand-over chain of any length, also one that returns to a waker that polled the
   Sleep earlier (A, B, A / A, B, C, A / A, B, A, B: script step 15) -- the stored waker is the one
   of the last element.  (A rule that compares with a waker cached at registration is refuted by
   the round trip: coq/Refuted/C05.v C05_waker_cache_never_refreshed_refuted.) *)
Theorem C05_woken_through_last_poller_of_any_sequence : forall l s dr tab,
  l <> [] -> Forall (fun p => fst p < deadline s) l ->
  waker_of (snd (poll_seq true l s dr tab)) (sid s) = Some (snd (last l (0, 0%nat))).
Proof.
  intros l s dr tab Hne Hall.
  destruct (exists_last Hne) as [l' [[t k] El]]. rewrite El in *.
  rewrite last_last. cbn [snd]. exact (proj1 (woken_through_last_poller l' t k s dr tab Hall)).
Qed.
Print Assumptions C05_woken_through_last_poller_of_any_sequence.

Example C05_round_trip_wakes_the_returning_poller : forall s dr tab a b, 2 < deadline s ->
  waker_of (snd (poll_seq true [(0, a); (1, b); (2, a)] s dr tab)) (sid s) = Some a.
Proof.
  intros s dr tab a b H.
  apply (C05_woken_through_last_poller_of_any_sequence [(0, a); (1, b); (2, a)] s dr tab); [discriminate|].
  repeat constructor; cbn [fst]; lia.
Qed.

(* ... spelled out for two wakers of ONE task, in either order (script step 14): wakers are
   numbered so that w / 2 is the task they wake; polled under w0 and then under w1 <> w0 with
   w0 / 2 = w1 / 2, the stored waker is w1 *)
Theorem C05_woken_through_last_waker_of_same_task : forall t0 t1 w0 w1 s dr tab,
  Nat.div2 w0 = Nat.div2 w1 -> w0 <> w1 -> t0 < deadline s -> t1 < deadline s ->
  waker_of (snd (poll_seq true [(t0, w0); (t1, w1)] s dr tab)) (sid s) = Some w1 /\
  waker_of (snd (poll_seq true [(t0, w0); (t1, w1)] s dr tab)) (sid s) <> Some w0.
Proof.
  intros t0 t1 w0 w1 s dr tab _ Hne H0 H1.
  destruct (woken_through_last_poller [(t0, w0)] t1 w1 s dr tab) as (E & _); [repeat constructor; assumption|].
  cbn [app] in E. split; [exact E|]. rewrite E. intros H. injection H as H. exact (Hne (eq_sym H)).
Qed.
Print Assumptions C05_woken_through_last_waker_of_same_task.

(* Timeout, for ANY value future that becomes ready at instant r: polled at instants before
   min r D and then at min r D (the wake-up the driver guarantees), it completes at min r D,
   with the value iff r <= D (a tie goes to the value, which is polled first), Elapsed iff D < r *)
Theorem C05_timeout_ok_iff_inner_first :
  forall (V : Type) (vpoll : N -> V -> driver -> bool * V * driver) (r : N),
  (forall now v dr, fst (fst (vpoll now v dr)) = (r <=? now)) ->
  forall pre post v dl dr, Forall (fun t => t < N.min r (deadline dl)) pre ->
  exists res, timeout_run vpoll (pre ++ N.min r (deadline dl) :: post) v dl dr = Some (N.min r (deadline dl), res) /\
              (res = TOk <-> r <= deadline dl) /\ (res = TElapsed <-> deadline dl < r).
Proof. exact timeout_ok_iff_inner_first. Qed.
Print Assumptions C05_timeout_ok_iff_inner_first.

(* Interval: ticks taken within 5 ms of their nominal instant, and ticks under Burst however
   late, return start, start + period, start + 2 period, ...; a tick taken more than 5 ms late
   returns its nominal instant and re-schedules by the behaviour: Burst one period after the
   nominal instant, Delay one period after now, Skip at the next instant of the original
   schedule strictly after now *)
Theorem C05_interval_ticks :
  (forall ts iv dr, on_time (deadline (iv_delay iv)) (iv_period iv) ts ->
     tick_seq ts iv dr = schedule (deadline (iv_delay iv)) (iv_period iv) (length ts)) /\
  (forall ts iv dr, iv_beh iv = Burst -> not_before (deadline (iv_delay iv)) (iv_period iv) ts ->
     tick_seq ts iv dr = schedule (deadline (iv_delay iv)) (iv_period iv) (length ts)) /\
  (forall start period n k, (k < n)%nat -> nth k (schedule start period n) 0 = start + N.of_nat k * period) /\
  (forall now iv dr, deadline (iv_delay iv) + GRACE < now -> 0 < iv_period iv ->
     let tm := deadline (iv_delay iv) in
     let nx := deadline (iv_delay (snd (fst (poll_tick now iv dr)))) in
     fst (fst (poll_tick now iv dr)) = Some tm /\
     match iv_beh iv with
     | Burst => nx = tm + iv_period iv
     | Delay => nx = now + iv_period iv
     | Skip => now < nx /\ nx <= now + iv_period iv /\ nx = tm + ((now - tm) / iv_period iv + 1) * iv_period iv
     end).
Proof.
  split; [exact interval_no_miss|]. split; [exact interval_burst|]. split; [exact schedule_nth|exact interval_missed].
Qed.
Print Assumptions C05_interval_ticks.

(* Non-vacuity.  The history of finding F3 on the repaired code: timer 1 registered for 5 and
   dropped in the same event, timer 2 registered for 10; deactivate prunes the emptied slot
   and schedules the wake-up for 10; that wake-up wakes timer 2 at exactly 10. *)
Example C05_nonvacuous_f3_history :
  let tr := [EOther 0 [Register 1 5; DropEntry 1 5; Register 2 10]; EWake []] in
  valid_trace (0, new_driver) tr /\
  run_trace true (0, new_driver) tr = (10, {| pending := []; next_wakeup := None; scheduled := [] |}, [(10, (10, [2]))]).
Proof.
  cbn zeta. split; [|vm_compute; reflexivity].
  split.
  - split; [apply N.le_refl|]. split; [intros w []|].
    repeat constructor.
  - split; [|exact I]. exists 10. split; [vm_compute; reflexivity|constructor].
Qed.

(* a reset to a deadline in the past leaves an empty slot at the front; equal deadlines
   share a slot; a message event at 7 sees the scheduled wake-up for 10 untouched and
   schedules an earlier one for 8; when that one has fired next_wakeup is cleared, so the
   wake-up for 10 is scheduled a second time -- the duplicate fires as an event that wakes nothing *)
Example C05_nonvacuous_two_wakeups :
  let tr := [EOther 3 [Register 1 10; Register 2 10; Register 3 20; ResetEntry 3 20 2];
             EOther 7 [Register 4 8]; EWake []; EWake [DropEntry 2 10]; EWake []] in
  valid_trace (0, new_driver) tr /\
  snd (run_trace true (0, new_driver) tr) = [(8, (8, [4])); (10, (10, [1; 2]))] /\
  scheduled (snd (fst (run_trace true (0, new_driver) tr))) = [].
Proof.
  cbn zeta. split; [|vm_compute; split; reflexivity].
  split; [split; [vm_compute; discriminate|split; [intros w []|repeat constructor]]|].
  split; [split; [vm_compute; discriminate|split; [|repeat constructor]]|].
  - vm_compute. intros w [<-|[]]. discriminate.
  - split; [exists 8; split; [vm_compute; reflexivity|constructor]|].
    split; [exists 10; split; [vm_compute; reflexivity|repeat constructor]|].
    split; [exists 10; split; [vm_compute; reflexivity|constructor]|exact I].
Qed.

(* hand-over in the composite model: task 0 polls a boxed sleep(10) at 0 and sends it to task 1,
   then sleeps 30; task 1 receives it at 0 and resumes at exactly 10 *)
Example C05_nonvacuous_hand_over :
  firstn 10 (run [0; 2; 7; 0; 0; 9; 0; 10; 1; 30; 4; 0; 0; 10; 0]) = [2; 0; 30; 1; 2; 0; 10; 1; 1; 30].
Proof. vm_compute. reflexivity. Qed.

(* A stale wake-up event is an ordinary event of the histories the theorems quantify over:
   [EWake] asks only that a wake-up is scheduled, not that its bump pops anything.  Timer 1
   (deadline 10, wake-up 10 scheduled) is dropped by a message event at 2, which also registers
   timer 2 for 20 (not earlier than next_wakeup = 10: nothing is scheduled); the wake-up 10 then
   fires with nothing to bump, clears next_wakeup because it is due, and its deactivate
   schedules 20; timer 2 is woken at exactly 20. *)
Example C05_nonvacuous_stale_wakeup :
  let tr := [EOther 0 [Register 1 10]; EOther 2 [DropEntry 1 10; Register 2 20]; EWake []; EWake []] in
  valid_trace (0, new_driver) tr /\
  snd (run_trace true (0, new_driver) [EOther 0 [Register 1 10]; EOther 2 [DropEntry 1 10; Register 2 20]; EWake []]) = [] /\
  run_trace true (0, new_driver) tr = (20, {| pending := []; next_wakeup := None; scheduled := [] |}, [(20, (20, [2]))]).
Proof.
  cbn zeta. split; [|vm_compute; split; reflexivity].
  split; [split; [vm_compute; discriminate|split; [intros w []|repeat constructor]]|].
  split; [split; [vm_compute; discriminate|split; [|repeat constructor]]|].
  - vm_compute. intros w [<-|[]]. discriminate.
  - split; [exists 10; split; [vm_compute; reflexivity|constructor]|].
    split; [exists 20; split; [vm_compute; reflexivity|constructor]|exact I].
Qed.

(* the same in the composite model: task 0 waits in timeout(10, receive), then sleep_until(20);
   a message at 2 spawns task 1, which sends at once *)
Example C05_nonvacuous_message_cancels_earliest_timer :
  firstn 10 (run [0; 2; 7; 0; 0; 11; 10; 0; 2; 20; 5; 0; 2; 9; 0; 5]) = [3; 2; 1; 20; 1; 1; 2; 1; 1; 20].
Proof. vm_compute. reflexivity. Qed.

(* A far-future Sleep (deadline SimTime::MAX = TMAX) is registered like any other but never
   gets a wake-up: timer 1 (deadline TMAX) and timer 2 (deadline 10) are registered at 0; only
   10 is scheduled; after it fired the queue still holds timer 1, nothing is scheduled, and the
   run ends -- Inv_wake speaks about the finite deadlines. *)
Example C05_nonvacuous_far_future :
  let tr := [EOther 0 [Register 1 TMAX; Register 2 10]; EWake []] in
  valid_trace (0, new_driver) tr /\
  run_trace true (0, new_driver) tr =
    (10, {| pending := [(TMAX, [1])]; next_wakeup := None; scheduled := [] |}, [(10, (10, [2]))]).
Proof.
  cbn zeta. split; [|vm_compute; reflexivity].
  split; [split; [vm_compute; discriminate|split; [intros w []|repeat constructor]]|].
  split; [exists 10; split; [vm_compute; reflexivity|constructor]|exact I].
Qed.

(* the keep-alive scenario of the seeded change far_future_shared_id in the composite model: both
   tasks create a far-future sleep at 3 and arm it for 13; task 0 re-arms at 7 (to 27), task 1's
   timer still fires at exactly 13 *)
Example C05_nonvacuous_keepalive_equal_deadlines :
  firstn 14 (run [0; 2; 10; 0; 0; 1; 3; 13; 1; 2305843009213693952; 10; 4; 20;
                        10; 0; 0; 1; 3; 13; 1; 2305843009213693952; 10; 50; 5])
  = [4; 3; 7; 1; 27; 1;  3; 3; 13; 0; 1;  1; 27; 0].
Proof. vm_compute. reflexivity. Qed.

(* non-vacuity of (1): three tasks on two modules; task 0 resets a polled sleep(5) to now + 10,
   drops a polled sleep(5), sleeps 10; task 1 (spawned by a message at 3) drops, resets 20 -> 7,
   logs; task 2 sleeps 10, resets an unpolled sleep to now + 0 and a polled one 4 -> 4.  The script
   satisfies the theorem's hypothesis and the model's run gives the demanded logs. *)
Example C05_nonvacuous_reset_drop :
  let script := [1; 3; 10; 0; 0; 6; 1; 5; 10; 7; 5; 1; 10; 9; 0; 3; 7; 7; 6; 1; 20; 7; 8; 12; 1; 0; 1; 10; 6; 0; 3; 0; 6; 1; 4; 4] in
  Forall init_ok (decode script) /\
  map (fun tk => exp_run (t_start tk) None noarr (t_steps tk)) (decode script) = [[10; 10; 20]; [3; 10; 10]; [10; 10; 14]] /\
  firstn 17 (run script) = [3; 10; 10; 20; 1;  3; 3; 10; 10; 1;  3; 10; 10; 14; 1;  1; 20].
Proof.
  cbn zeta. split; [|vm_compute; split; reflexivity].
  apply decode_init_ok. init_ok_by_computation.
Qed.

(* non-vacuity of (2a): three tasks on two modules.  Task 0: timeout(10, sleep 4) is Ok at 4,
   timeout(5, sleep 5) is the tie: Ok at 9, timeout(3, sleep 8) elapses at 12, log.  Task 1
   (module 1, spawned by a message at 2): timeout(2, sleep 2) ties at 4, sleep 5, timeout(0,
   sleep 1) elapses at once at 9, timeout(4, sleep 0) is Ok at once.  Task 2 (module 0):
   timeout(7, sleep 9) elapses at 7, sleep 2, timeout(3, sleep 3) ties at 12 -- the instant
   task 0's timeout elapses in the same module.  The script satisfies the theorem's hypothesis
   and the model's run gives the demanded logs. *)
Example C05_nonvacuous_timeout_sleep :
  let script := [1; 3; 15; 0; 0; 3; 10; 0; 4; 3; 5; 0; 5; 3; 3; 0; 8; 8;  16; 1; 2; 3; 2; 0; 2; 1; 5; 3; 0; 0; 1; 3; 4; 0; 0;
                 12; 0; 0; 3; 7; 0; 9; 1; 2; 3; 3; 0; 3] in
  Forall init_ok (decode script) /\
  map (fun tk => exp_run (t_start tk) None noarr (t_steps tk)) (decode script) = [[4; 1; 9; 1; 12; 0; 12]; [4; 1; 9; 9; 0; 9; 1]; [7; 0; 9; 12; 1]] /\
  firstn 27 (run script) = [7; 4; 1; 9; 1; 12; 0; 12; 1;  7; 4; 1; 9; 9; 0; 9; 1; 1;  5; 7; 0; 9; 12; 1; 1;  1; 12].
Proof.
  cbn zeta. split; [|vm_compute; split; reflexivity].
  apply decode_init_ok. init_ok_by_computation.
Qed.

(* non-vacuity of (3): period 10 ms, three tasks on two modules, each: tick, tick, 27 ms of
   work, tick (nominal instant 20 ms, taken 17 ms late), tick.  Task 0, Skip: the fourth tick
   is at 40 ms, the next instant of the schedule after 37 ms.  Task 1, Burst: the fourth tick,
   nominal 30 ms, returns at once at 37 ms; then a log.  Task 2 (module 1, spawned by a message
   at 3 ms), Delay: the third tick is taken at 40 ms (nominal 23 ms), the fourth at 50 ms = 40 ms +
   period; then sleeps of 2 ms and 1 ms around the drop of the interval. *)
Example C05_nonvacuous_interval :
  let script := [1; 3; 10; 0; 0; 5; 10000000; 2; 4; 0; 27000000; 0; 0;  11; 0; 0; 5; 10000000; 0; 4; 0; 27000000; 0; 0; 8;
                 12; 1; 3000000; 5; 10000000; 1; 4; 0; 27000000; 0; 2000000; 1; 1000000] in
  Forall init_ok (decode script) /\
  map (fun tk => exp_run (t_start tk) None noarr (t_steps tk)) (decode script) =
    [[0; 0; 10000000; 10000000; 37000000; 37000000; 20000000; 40000000; 40000000];
     [0; 0; 10000000; 10000000; 37000000; 37000000; 20000000; 37000000; 30000000; 37000000];
     [3000000; 3000000; 13000000; 13000000; 40000000; 40000000; 23000000; 50000000; 50000000; 52000000; 53000000]] /\
  firstn 38 (run script) =
    [9; 0; 0; 10000000; 10000000; 37000000; 37000000; 20000000; 40000000; 40000000; 1;
     10; 0; 0; 10000000; 10000000; 37000000; 37000000; 20000000; 37000000; 30000000; 37000000; 1;
     11; 3000000; 3000000; 13000000; 13000000; 40000000; 40000000; 23000000; 50000000; 50000000; 52000000; 53000000; 1;
     1; 53000000].
Proof.
  cbn zeta. split; [|vm_compute; split; reflexivity].
  apply decode_init_ok. init_ok_by_computation.
Qed.

(* non-vacuity of (4): three tasks on two modules.  Task 0: kept timer created far-future
   (Duration::MAX), armed for 10, sleep(4) wins at 4, re-armed for 7 more: [4; 1; 11]; then a
   tie (d2 = x = 3): the kept timer wins at 14; log.  Task 1 (module 1, spawned by a message at
   2): no rearm, sleep(2) wins: [4; 1; 4]; x = 0 with rearm d3 = 0: [4; 1; 4] at once; d2 = 0: [4; 0]
   at once; x = 0 with rearm 3 (created far-future): blocks on the re-armed timer in its first
   poll, [4; 1; 7].  Task 2 (module 0): sleep(4), then sleep(7) wins at 11 -- the instant task 0's
   re-armed timer fires, same slot -- and re-arms to 16. *)
Example C05_nonvacuous_keepalive_select :
  let script := [1; 3; 15; 0; 0; 13; 1; 2305843009213693952; 10; 4; 7; 13; 0; 5; 3; 3; 0; 8;
                 26; 1; 2; 13; 0; 0; 9; 2; 1; 13; 1; 1; 5; 0; 0; 13; 1; 1; 0; 3; 2; 13; 1; 2305843009213693952; 6; 0; 3;
                 10; 0; 0; 1; 4; 13; 1; 3; 8; 7; 5] in
  Forall init_ok (decode script) /\
  map (fun tk => exp_run (t_start tk) None noarr (t_steps tk)) (decode script) =
    [[4; 1; 11; 14; 0; 14]; [4; 1; 4; 4; 1; 4; 4; 0; 4; 1; 7]; [4; 11; 1; 16]] /\
  firstn 29 (run script) = [6; 4; 1; 11; 14; 0; 14; 1;  11; 4; 1; 4; 4; 1; 4; 4; 0; 4; 1; 7; 1;  4; 4; 11; 1; 16; 1;  1; 16].
Proof.
  cbn zeta. split; [|vm_compute; split; reflexivity].
  apply decode_init_ok. init_ok_by_computation.
Qed.

(* non-vacuity of (4'): task 0: biased select(3, 7) takes 0 at 3; unbiased tie select(5, 5): 2 at 8;
   biased tie: 0 at 13; select(9, 2) takes 1 at 15; log.  Task 1 (module 1, message at 1): a = 0,
   b = 0 with a > 0, and the unbiased tie a = b = 0, all at once at 1.  Task 2 (module 0): sleep to 7
   (from 3), select(6, 3) takes 1 at 10. *)
Example C05_nonvacuous_select :
  let script := [1; 3; 19; 0; 0; 4; 1; 3; 7; 4; 0; 5; 5; 4; 1; 5; 5; 4; 0; 9; 2; 8;
                 14; 1; 1; 4; 0; 0; 4; 4; 1; 2; 0; 4; 0; 0; 0;   8; 0; 3; 1; 4; 4; 1; 6; 3] in
  Forall init_ok (decode script) /\
  map (fun tk => exp_run (t_start tk) None noarr (t_steps tk)) (decode script) =
    [[3; 0; 8; 2; 13; 0; 15; 1; 15]; [1; 0; 1; 1; 1; 2]; [7; 10; 1]] /\
  firstn 25 (run script) = [9; 3; 0; 8; 2; 13; 0; 15; 1; 15; 1;  6; 1; 0; 1; 1; 1; 2; 1;  3; 7; 10; 1; 1;  1].
Proof.
  cbn zeta. split; [|vm_compute; split; reflexivity].
  apply decode_init_ok. init_ok_by_computation.
Qed.

(* non-vacuity of (2b): two modules, four tasks.  Task 0 (module 0) sends into channel 0 at 5 and
   15 and into channel 1 at 15.  Task 1 (module 0) receives: timeout(8, ch 0) begun at 0 is Ok at 5,
   the instant of the send; timeout(3, ch 0) begun at 5 elapses at 8 (next message: 15); after
   sleeping to 18, timeout(0, ch 0) finds the message of 15 waiting: Ok at 18; timeout(4, ch 1):
   waiting as well, Ok at 18; timeout(2, ch 1): nothing more, Elapsed at 20.  Task 2 (module 1,
   message at 3): timeout(4, ch 0) elapses at 7 -- the only message of module 1 is sent at 20, by
   task 3, and is never received.  The hypotheses hold (by computation, chan_okb) and the model's
   run gives the demanded logs. *)
Example C05_nonvacuous_timeout_recv :
  let script := [1; 4; 16; 0; 0; 1; 5; 9; 0; 0; 1; 10; 9; 0; 0; 8; 9; 1; 0;
                 19; 0; 0; 11; 8; 0; 11; 3; 0; 1; 10; 11; 0; 0; 11; 4; 1; 11; 2; 1;
                 7; 1; 3; 11; 4; 0; 1; 1;   8; 1; 0; 1; 20; 9; 0; 0; 8] in
  chan_ok (decode script) /\
  (arrivals (decode script) 0 0, arrivals (decode script) 0 1, arrivals (decode script) 1 0) = ([5; 15], [15], [20]) /\
  map (fun tk => exp_run (t_start tk) None (arrivals (decode script) (t_mod tk)) (t_steps tk)) (decode script) =
    [[5; 5; 15; 15; 15; 15]; [5; 1; 8; 0; 18; 18; 1; 18; 1; 20; 0]; [7; 0; 8]; [20; 20; 20]] /\
  firstn 33 (run script) = [6; 5; 5; 15; 15; 15; 15; 1;  11; 5; 1; 8; 0; 18; 18; 1; 18; 1; 20; 0; 1;  3; 7; 0; 8; 1;  3; 20; 20; 20; 1;  1; 20].
Proof.
  cbn zeta. split; [apply decode_chan_okb; vm_compute; reflexivity|]. vm_compute. repeat split; reflexivity.
Qed.

(* the model over the calendar queue runs: 3 buckets of width 7 ns, the script of the timeout-over-receive
   example -- the same output as over the specification, the task logs included *)
Example C05_nonvacuous_run_over_cqueue :
  let script := [1; 4; 16; 0; 0; 1; 5; 9; 0; 0; 1; 10; 9; 0; 0; 8; 9; 1; 0;
                 19; 0; 0; 11; 8; 0; 11; 3; 0; 1; 10; 11; 0; 0; 11; 4; 1; 11; 2; 1;
                 7; 1; 3; 11; 4; 0; 1; 1;   8; 1; 0; 1; 20; 9; 0; 0; 8] in
  run_cq 3 7 script = run script /\
  firstn 33 (run_cq 3 7 script) = [6; 5; 5; 15; 15; 15; 15; 1;  11; 5; 1; 8; 0; 18; 18; 1; 18; 1; 20; 0; 1;  3; 7; 0; 8; 1;  3; 20; 20; 20; 1;  1; 20].
Proof. cbn zeta. split; vm_compute; reflexivity. Qed.
