(* C04 — Seeded simulations are reproducible.  (partial: see the CLAIM)
   A Gallina model is a function, so "the model is deterministic" holds by
   construction and says nothing.  What is proved is that the sources of
   run-to-run variation that exist in the code cannot reach the observable trace
   of the model: process-global identifier counters (module ids, event sequence
   numbers) are only compared for equality, and the random stream is consumed at
   fixed sites.  Whether the real crate is reproducible is decided by executing
   every generated simulation three times (twice in one process, once in a child
   process) and comparing complete histories: see tools/props/c04.py. *)
From Coq Require Import List NArith.
From DesVerif Require Import CQueue.Model CQueue.Spec CQueue.Rename Determ.Model Determ.Props.
Import ListNotations.
Open Scope N_scope.

(* Any two injective supplies of module identifiers give the same trace (and the
   same termination flag), for every ring size, latencies, jitters, injected
   messages and every pair of random streams. *)
Theorem C04_trace_invariant_under_module_ids : forall c mid1 mid2 ks rs0 js0,
  c_k c <> 0 -> inj_on mid1 (c_k c) -> inj_on mid2 (c_k c) ->
  log (fst (simulate (cfg_with c mid1) ks rs0 js0)) = log (fst (simulate (cfg_with c mid2) ks rs0 js0)) /\
  snd (simulate (cfg_with c mid1) ks rs0 js0) = snd (simulate (cfg_with c mid2) ks rs0 js0).
Proof. exact trace_invariant_under_module_ids. Qed.
Print Assumptions C04_trace_invariant_under_module_ids.

(* The answers of the future event set do not depend on where its sequence
   numbers start (every operation history, every offset). *)
Theorem C04_event_ids_irrelevant : forall c ops a,
  snd (sp_run_from (shift_sst c a) ops) = snd (sp_run_from a ops).
Proof. exact outputs_independent_of_id_origin. Qed.
Print Assumptions C04_event_ids_irrelevant.

(* The k-th handler draw is consumed by the k-th handled message: exactly one
   draw per handled message, whatever the streams contain. *)
Theorem C04_one_draw_per_handled_message : forall c ks rs0 js0,
  used_r (fst (simulate c ks rs0 js0)) = N.of_nat (length (log (fst (simulate c ks rs0 js0)))).
Proof. exact one_draw_per_handled_message. Qed.
Print Assumptions C04_one_draw_per_handled_message.

(* Non-vacuity: a 3-ring with jitter on two hops; the trace under the default
   identifiers (255+i, as the crate hands them out in a fresh process) equals
   the trace under identifiers continuing from an earlier simulation. *)
Example C04_nonvacuous :
  let input := [42; 3; 100; 7; 50; 0; 200; 3; 2; 5; 0; 6; 9; 1; 4; 3; 40; 2; 1; 5; 2; 0; 2; 2; 0; 2; 0; 1] in
  run input = [1; 1; 5; 0; 5; 6; 0; 2; 0; 1; 9; 4; 1; 0; 0; 1; 105; 5; 0; 2; 0; 2; 155; 4; 0; 2; 0; 0; 356; 3; 0; 0; 1] /\
  run_with (fun i => 1000 + 7 * i) input = run input.
Proof. vm_compute. split; reflexivity. Qed.
