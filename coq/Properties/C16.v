(* C16 — Message bodies are type safe, value preserving and measured consistently.
   Statements only.  [final ops] is the state of the body model (coq/Body/Model.v:
   type-erased box pointer + vtable over a ghost heap, the Message content API on
   four slots) after the operation sequence [ops]; [view st s] is what slot s
   shows: nothing, or a message with header id h and, if it has a body, the
   body's type tag, value, serial, declared length and clonability
   (coq/Body/Props.v).  All statements hold for EVERY operation sequence and for
   every type tag (any number), not only the 17 tags of the harness. *)
From Coq Require Import List NArith Bool.
From Coq Require Import Permutation.
From DesVerif Require Import Body.Derive Body.StdLen Body.Model Body.Heap Body.Inv Body.Step Body.Props Body.Frame
  Body.DeriveProps Body.Main Body.StdLenProps.
Import ListNotations.
Open Scope N_scope.

(* can_cast / try_content / try_cast succeed iff the requested type is the type
   the body holds.  A successful cast hands out exactly the stored value (the
   ghost cell i, not destroyed) and consumes the message; a cast to any other
   type — or of a message without body — returns the message intact: the whole
   state is unchanged and the result is the observation of the same message. *)
Theorem C16_cast_iff_same_tag : forall ops s tag,
  let st := final ops in
  match view st s with
  | VEmpty => step st (OCanCast s tag) = (st, RNone) /\ step st (OTryContent s tag) = (st, RNone) /\
              step st (OTryCast s tag) = (st, RNone)
  | VBroken => False
  | VMsg h bv =>
      step st (OCanCast s tag) = (st, RBool (same_tag bv tag)) /\
      step st (OTryContent s tag) =
        (st, match bv with
             | Some v => if bv_tag v =? tag then RSome (bv_val v) (bv_ser v) else RNoContent
             | None => RNoContent
             end) /\
      (if same_tag bv tag then
         exists v i c, bv = Some v /\
           step st (OTryCast s tag) = (set_slot st (smem st) s None (held st ++ [i]), RCast (bv_val v) (bv_ser v) h) /\
           view (fst (step st (OTryCast s tag))) s = VEmpty /\
           nth_error (heap (smem st)) i = Some c /\ ctag c = tag /\ cval c = bv_val v /\ cser c = bv_ser v /\ cdrops c = 0
       else step st (OTryCast s tag) = (st, RCastErr (obs_of h bv)))
  end.
Proof. exact cast_iff_same_tag. Qed.
Print Assumptions C16_cast_iff_same_tag.

(* What was put in is what the slot shows — tag, value, serial, declared length —
   after ANY operations that do not overwrite/drop that slot or cast it to the
   stored type: casts and borrows with other types, can_cast, reads, clones of it,
   anything on other slots and on cast-out values.  Together with
   C16_cast_iff_same_tag: what is read or cast out equals the value put in, and
   the tag that succeeds is the tag the body was created with. *)
Theorem C16_value_preserved : forall ops s mode tag v L ops',
  Forall (fun o => ~ touches tag s o) ops' ->
  view (final (ops ++ ONew s mode tag v L :: ops')) s =
  VMsg (next_hid (final ops)) (Some (created (final ops) mode tag v L)).
Proof. exact value_preserved. Qed.
Print Assumptions C16_value_preserved.

(* the same for set_content & co. on an existing message (header id kept) *)
Theorem C16_value_preserved_set : forall ops s mode tag v L ops' h bv,
  view (final ops) s = VMsg h bv ->
  Forall (fun o => ~ touches tag s o) ops' ->
  view (final (ops ++ OSet s mode tag v L :: ops')) s = VMsg h (Some (created (final ops) mode tag v L)).
Proof. exact value_preserved_set. Qed.
Print Assumptions C16_value_preserved_set.

(* try_clone / clone: None / panic iff the body was stored non-clonable; otherwise
   the target slot shows the same header id, tag, value and declared length (a
   new instance: fresh serial), and the source is unchanged. *)
Theorem C16_clone_preserves_value : forall ops s d h bv,
  let st := final ops in
  view st s = VMsg h bv ->
  match bv with
  | Some v =>
      if bv_clon v then
        step st (OClone s d) = step st (OTryClone s d) /\
        snd (step st (OTryClone s d)) = RCloned (bv_ser (clone_of st v)) /\
        view (fst (step st (OTryClone s d))) d = VMsg h (Some (clone_of st v))
      else step st (OTryClone s d) = (st, RNotClonable) /\ step st (OClone s d) = (st, RPanic 1)
  | None =>
      step st (OClone s d) = step st (OTryClone s d) /\
      snd (step st (OTryClone s d)) = RCloned 0 /\
      view (fst (step st (OTryClone s d))) d = VMsg h None
  end.
Proof. intros ops s d h bv st. apply clone_view, inv_reachable. Qed.
Print Assumptions C16_clone_preserves_value.

Theorem C16_clone_source_unchanged : forall ops s d,
  let st := final ops in
  slot_ix d <> slot_ix s ->
  view (fst (step st (OTryClone s d))) s = view st s /\ view (fst (step st (OClone s d))) s = view st s.
Proof. intros ops s d st. apply clone_source_unchanged, inv_reachable. Qed.
Print Assumptions C16_clone_source_unchanged.

(* Ghost-heap invariant, by induction over the operation list: at every point
   every stored value (cell j) is either referenced exactly once (by one body in
   a slot or one cast-out value) and its destructor has not run, or it is
   unreferenced and its destructor has run exactly once; no reference dangles or
   is duplicated.  After the tear-down (all slots and cast-out values dropped)
   the destructor of every value ever stored has run exactly once. *)
Theorem C16_drop_exactly_once : forall ops,
  let st := final ops in
  (forall j, (j < hlen (smem st))%nat ->
     (cnt j (refs st) = 1 /\ drops (smem st) j = 0) \/ (cnt j (refs st) = 0 /\ drops (smem st) j = 1)) /\
  (forall j, In j (refs st) -> (j < hlen (smem st))%nat) /\
  NoDup (refs st) /\
  hlen (smem (finish st)) = hlen (smem st) /\ mem_le (smem st) (smem (finish st)) /\
  (forall j, (j < hlen (smem (finish st)))%nat -> drops (smem (finish st)) j = 1).
Proof. exact drop_exactly_once. Qed.
Print Assumptions C16_drop_exactly_once.

(* a stored value's cell (tag, value, serial) persists through everything that
   follows and its destructor counter never decreases *)
Theorem C16_heap_persists : forall ops ops', mem_le (smem (final ops)) (smem (final (ops ++ ops'))).
Proof. exact heap_persists. Qed.
Print Assumptions C16_heap_persists.

(* Message::length = the length declared at creation + 64, after any sequence of
   operations that leaves the value in place (failed casts, clones, ...);
   declared = byte_len of the value (new / new_non_clonable), size_of
   (new_non_debugable) or the explicit length (new_with_len). *)
Theorem C16_length_is_header_plus_declared : forall ops s mode tag v L ops',
  Forall (fun o => ~ touches tag s o) ops' ->
  let st := final (ops ++ ONew s mode tag v L :: ops') in
  step st (OLength s) = (st, RLen (declared_len mode tag v L + HEADER_LEN)) /\
  snd (step (final ops) (ONew s mode tag v L)) = RNew (bv_ser (created (final ops) mode tag v L)) (declared_len mode tag v L).
Proof. exact length_is_header_plus_declared. Qed.
Print Assumptions C16_length_is_header_plus_declared.

Theorem C16_length_of_view : forall ops s,
  let st := final ops in
  match view st s with
  | VMsg h bv => step st (OLength s) = (st, RLen (match bv with Some v => bv_len v | None => 0 end + HEADER_LEN)) /\
                 step st (OObserve s) = (st, RObs (obs_of h bv))
  | _ => True
  end.
Proof. exact length_of_view. Qed.
Print Assumptions C16_length_of_view.

(* derive(MessageBody): for every declaration with distinct field / variant names
   and every value of it, the generated byte_len body evaluates to the sum of the
   byte lengths of the fields of the value's active variant (all fields of a struct). *)
Theorem C16_derive_sums_active_variant : forall d rv,
  wf d -> value_of d rv -> byte_len d rv = Some (sum (field_lens rv)).
Proof. exact derive_sums_active_variant. Qed.
Print Assumptions C16_derive_sums_active_variant.

(* no operation sequence dereferences a null, dangling or wrongly typed box pointer *)
Theorem C16_no_undefined_behaviour : forall ops, ~ In RUB (map fst (run_ops ops)).
Proof. exact no_undefined_behaviour. Qed.
Print Assumptions C16_no_undefined_behaviour.

(* ---- structural byte lengths of the std impls of MessageBody (coq/Body/StdLen.v) ---- *)
(* [T; N], Vec, VecDeque, LinkedList, &[T], HashSet, BTreeSet, BinaryHeap: the sum over ALL elements,
   for every element list (not "N times the first element") *)
Theorem C16_array_len_is_sum : forall k xs, std_byte_len (VSeq k xs) = sum (map std_byte_len xs).
Proof. exact seq_len_is_sum. Qed.
Print Assumptions C16_array_len_is_sum.

Theorem C16_map_len_is_sum : forall k kvs,
  std_byte_len (VMap k kvs) = sum (map (fun kv => std_byte_len (fst kv) + std_byte_len (snd kv)) kvs).
Proof. exact map_len_is_sum. Qed.
Print Assumptions C16_map_len_is_sum.

Theorem C16_tuple_len : forall xs, std_byte_len (VTuple xs) = sum (map std_byte_len xs).
Proof. exact tuple_len. Qed.
Print Assumptions C16_tuple_len.

(* Option / Result / Box: the payload of the active variant, nothing for None *)
Theorem C16_option_len : forall x,
  std_byte_len VNone = 0 /\ std_byte_len (VSome x) = std_byte_len x /\
  std_byte_len (VOk x) = std_byte_len x /\ std_byte_len (VErr x) = std_byte_len x /\ std_byte_len (VBox x) = std_byte_len x.
Proof. intros x. repeat split. Qed.
Print Assumptions C16_option_len.

(* iteration order and collection kind are irrelevant (hash sets and maps) *)
Theorem C16_collection_len_order_irrelevant : forall k k' xs ys,
  Permutation xs ys -> std_byte_len (VSeq k xs) = std_byte_len (VSeq k' ys).
Proof. exact seq_len_perm. Qed.
Print Assumptions C16_collection_len_order_irrelevant.

(* a message whose body was created from a value of the std family measures 64 + the structural byte length *)
Theorem C16_std_message_length : forall ops s mode fam v L ops',
  mode mod 4 < 2 ->
  Forall (fun o => ~ touches (STD_BASE + fam) s o) ops' ->
  let st := final (ops ++ ONew s mode (STD_BASE + fam) v L :: ops') in
  step st (OLength s) = (st, RLen (std_byte_len (fam_value fam (unpack v)) + HEADER_LEN)).
Proof. exact std_message_length. Qed.
Print Assumptions C16_std_message_length.

(* the script numbers a value is built from survive the packing into one model value *)
Theorem C16_unpack_pack : forall l, Forall (fun x => x < B62) l -> unpack (pack l) = l.
Proof. exact unpack_pack. Qed.
Print Assumptions C16_unpack_pack.

(* ---- non-vacuity ---- *)
(* Tok (tag 9) value 7 in slot 0; failed casts to the layout-compatible Tok2 (10)
   and to u32 (1); clone into slot 1; cast slot 0 out; clone of a non-clonable
   body refused; everything is destroyed exactly once at the end. *)
Example C16_nonvacuous_body :
  let ops := [ONew 0 0 9 7 0; OTryCast 0 10; OTryContent 0 1; OTryClone 0 1; OTryCast 0 9;
              OTryContent 1 9; OLength 1; ONew 2 1 9 8 0; OTryClone 2 3; OClone 2 3; ODropHeld 0] in
  map fst (run_ops ops) =
    [RNew 1 6; RCastErr {| otag := 9; oval := 7; oser := 1; oblen := 6; omlen := 70; ohid := 1 |};
     RNoContent; RCloned 2; RCast 7 1 1; RSome 7 2; RLen 70; RNew 3 9; RNotClonable; RPanic 1; RHeldDropped] /\
  map snd (run_ops ops) = [[]; []; []; []; []; []; []; []; []; []; [1]] /\
  log_between (final ops) (finish (final ops)) = [2; 3] /\
  view (final ops) 1 = VMsg 1 (Some {| bv_tag := 9; bv_val := 7; bv_ser := 2; bv_len := 6; bv_clon := true |}).
Proof. vm_compute. repeat split; reflexivity. Qed.

(* enum E { A, B(L,L,L), C { x, y }, D(L) }: a value C { x: 5, y: 9 } measures 14 *)
Example C16_nonvacuous_derive :
  wf fam_E3 /\ value_of fam_E3 (e3_value 2 5 9 100) /\ byte_len fam_E3 (e3_value 2 5 9 100) = Some 14 /\
  ds_len 8 = 3 * 3 + 8 + 1.
Proof.
  split; [|split; [|split; reflexivity]].
  - cbn. split; [repeat constructor; cbn; intuition discriminate|].
    repeat constructor; cbn; auto. intros [E|[]]; discriminate.
  - exists {| vname := 2; vfields := named [1; 2] |}. cbn. intuition.
Qed.

(* [String; 3] = ["a", "bcd", ""] as a message body: 4 bytes, message length 68 (not 3 * 1 + 64) *)
Example C16_nonvacuous_std :
  run [3; 0; 0; 1; 3; 0] = [16; 4; 68; 68] /\ run [3; 1; 1; 0; 1; 1; 0] = [16; 8; 72; 72].
Proof. vm_compute. split; reflexivity. Qed.
