(* C19 — Topology views mirror the gate graph and answer graph queries correctly.
   Statements only.  The model of des/src/net/topology.rs is coq/Topo/Model.v
   (from_modules, spanned, dijkstra, connected, bidirectional, filter_nodes,
   filter_edges as the code is now, both work lists FIFO); the vocabulary
   (endpoints, far_end, exact_view, walk, treach, topo_ok) is coq/Topo/Graph.v.

   A world is the gate layer as topology.rs sees it: per module the ordered
   list of its gates; an endpoint gate carries the list of gates that path_iter
   visits, the last being the far end.  [short w]: every chain has at most the
   16 hops from_modules supports; [closed w]: every far end is a gate of a
   module of the world. *)
From Coq Require Import List Arith NArith.
From DesVerif Require Import Topo.Model Topo.Graph Topo.FromGates Topo.Spanned Topo.Conn Topo.Filter Topo.Bfs Topo.World Topo.History.
Import ListNotations.

(* Global view: one node per module, in module order; node i carries, in gate
   order, exactly one edge per endpoint gate of module i, labelled with that
   gate and the gate at the other end of its chain, and leading to the node of
   the module that owns that other gate. *)
Theorem C19_global_view_exact : forall w,
  short w -> closed w ->
  nodes (global_topology w) = seq 0 (length w) /\ exact_view w (global_topology w).
Proof. exact global_view_exact. Qed.
Print Assumptions C19_global_view_exact.

(* from_modules on any duplicate-free list of modules: the same, restricted to
   the chains that end at one of the listed modules. *)
Theorem C19_from_modules_exact : forall w ms,
  short w -> NoDup ms -> exact_view_on (sel_in ms) w (from_modules w ms).
Proof. exact from_modules_exact. Qed.
Print Assumptions C19_from_modules_exact.

(* View spanned from any root (chains of any length): the loop terminates, the
   nodes are exactly the modules reachable from the root, each once, the root
   first; every edge's dst indexes the owner of its end gate (the index
   prediction of the work list is right). *)
Theorem C19_spanned_exact : forall w root,
  closed w -> root < length w ->
  exists t, spanned w root = Some t /\ exact_view w t /\ hd_error (nodes t) = Some root /\
            forall m, In m (nodes t) <-> mreach w root m.
Proof. exact spanned_exact. Qed.
Print Assumptions C19_spanned_exact.

(* exact views are well-formed topologies with distinct nodes: the hypotheses
   of the query theorems below hold for every view *)
Theorem C19_views_wellformed : forall sel w t, exact_view_on sel w t -> topo_ok t /\ NoDup (nodes t).
Proof. intros sel w t H. split; [exact (exact_view_on_ok sel w t H)|exact (proj1 H)]. Qed.
Print Assumptions C19_views_wellformed.

Theorem C19_connected_iff : forall t,
  topo_ok t ->
  (connected t = true <-> forall u v, u < length (nodes t) -> v < length (nodes t) -> treach t u v).
Proof. exact connected_iff. Qed.
Print Assumptions C19_connected_iff.

Theorem C19_bidirectional_iff : forall t,
  bidirectional t = true <->
  forall u e, In e (bundle t u) -> exists e', In e' (bundle t (e_dst e)) /\ e_dst e' = u.
Proof. exact bidirectional_iff. Qed.
Print Assumptions C19_bidirectional_iff.

(* filter_nodes: the nodes are the selected ones, in order; every node of the
   result is [rank i] for a selected old node i; its edges are the old edges of
   i whose target is selected, the target re-indexed by [rank], which is the
   position of the same module in the new node list. *)
Theorem C19_filter_exact : forall p t,
  topo_ok t ->
  let t' := filter_nodes p t in
  nodes t' = filter p (nodes t) /\ topo_ok t' /\
  (forall j m, nth_error (nodes t') j = Some m ->
               exists i, nth_error (nodes t) i = Some m /\ p m = true /\ rank p (nodes t) i = j) /\
  (forall i m, nth_error (nodes t) i = Some m -> p m = true ->
               nth_error (nodes t') (rank p (nodes t) i) = Some m /\
               bundle t' (rank p (nodes t) i)
               = map (redst p (nodes t)) (filter (dst_kept p (nodes t)) (bundle t i))).
Proof. exact filter_exact. Qed.
Print Assumptions C19_filter_exact.

(* ... so a node-filtered exact view is the exact view of the selected modules *)
Theorem C19_filter_nodes_view : forall sel p w t,
  exact_view_on sel w t ->
  exact_view_on (fun gc => sel gc && p (fst (far_end (fst gc) (snd gc))))%bool w (filter_nodes p t).
Proof. exact filter_nodes_view. Qed.
Print Assumptions C19_filter_nodes_view.

Theorem C19_filter_edges_exact : forall f t,
  nodes (filter_edges f t) = nodes t /\ forall i, bundle (filter_edges f t) i = filter (f i) (bundle t i).
Proof. exact filter_edges_exact. Qed.
Print Assumptions C19_filter_edges_exact.

(* dijkstra from node s (module ms): no panic, terminates; every node v <> s
   that s reaches is mapped to an edge leaving s that starts a walk to v no walk
   from s to v is shorter than; s itself and unreachable nodes are not mapped. *)
Theorem C19_first_hop_of_shortest_path : forall t s ms,
  topo_ok t -> NoDup (nodes t) -> nth_error (nodes t) s = Some ms ->
  exists m, dijkstra t ms = DjOk m /\
    forall v mv, nth_error (nodes t) v = Some mv ->
      (v <> s -> treach t s v ->
         exists e p, lookup mv m = Some (s, e) /\ walk t s (e :: p) v /\
                     forall q, walk t s q v -> length (e :: p) <= length q) /\
      (v = s \/ ~ treach t s v -> lookup mv m = None).
Proof. exact first_hop_of_shortest_path. Qed.
Print Assumptions C19_first_hop_of_shortest_path.

(* The hypotheses are met by every world the correspondence check can wire
   (Model.build_world: any gate counts, any list of declared chains; chains
   that re-use or invent gates are not wired): always closed, and short when
   every declared chain has at most 17 gates = 16 hops. *)
Theorem C19_script_worlds : forall counts chains,
  closed (build_world counts chains) /\
  ((forall c, In c chains -> length (pairs (tl c)) <= S MAX_HOPS) -> short (build_world counts chains)).
Proof. intros counts chains. split; [apply build_world_closed|apply build_world_short]. Qed.
Print Assumptions C19_script_worlds.

(* Histories.  The gate graph may change after a view was taken (gates created
   and connected while the simulation is built, or by a module while it runs); a
   script is a history [pre] of queries and wiring operations after the header
   (counts, chains).  [world_after] is the gate graph the header and the wiring
   operations of [pre] build, [state_after] the state of the script interpreter
   (Model.step) after [pre].  Every view query made at that point returns the
   exact view of THAT graph; the graph is closed, and short when every declared
   chain has at most 16 hops. *)
(* Module activity (shut down, waiting for a restart, down after a caught
   panic) is not part of the gate graph: the world has no activity field, the
   operation [ODown] that declares modules down during the run-time part of a
   script leaves the interpreter state unchanged (Model.step), so the statement
   below covers histories with any modules down: `view (set_active w m b) = view w`
   holds by construction for every view function. *)
Theorem C19_history_exact : forall counts chains pre,
  let s := state_after (init_state (build_world counts chains)) pre in
  let w := world_after (build_world counts chains) pre in
  h_world s = w /\ closed w /\
  ((forall c, In c chains -> length (pairs (tl c)) <= S MAX_HOPS) -> Forall op_short pre -> short w) /\
  (h_topo (fst (step s (OQuery QGlobal))) = global_topology w /\
   (short w -> nodes (global_topology w) = seq 0 (length w) /\ exact_view w (global_topology w))) /\
  (forall r, r < length w ->
     exists t, spanned w r = Some t /\ h_topo (fst (step s (OQuery (QSpanned r)))) = t /\
               exact_view w t /\ hd_error (nodes t) = Some r /\ forall m, In m (nodes t) <-> mreach w r m) /\
  (forall ms, let sel := select_modules (length w) [] ms in
     h_topo (fst (step s (OQuery (QFromModules ms)))) = from_modules w sel /\
     (short w -> exact_view_on (sel_in sel) w (from_modules w sel))).
Proof. exact history_exact. Qed.
Print Assumptions C19_history_exact.

(* Premise of all of the above: a module index stands for a ModuleId, and
   from_modules / spanned find the owner of a chain end by id.  Ids come from a
   wrapping 16-bit counter (ModuleId::gen); wherever it stands (p), the n <= 2^16
   modules of one simulation get pairwise distinct ids.  The runner reports the
   same fact about the real ids of every script (first output record), and the
   model's record is computed by [distinctb] on these ids. *)
Theorem C19_module_ids_distinct : forall p n,
  (N.of_nat n <= ID_SPACE)%N -> NoDup (gen_ids p n) /\ distinctb (gen_ids p n) = true.
Proof. intros p n H. split; [apply gen_ids_NoDup; exact H|apply distinctb_true; apply gen_ids_NoDup; exact H]. Qed.
Print Assumptions C19_module_ids_distinct.

(* Non-vacuity: the triangle s-a, s-b, a-b with the gates of s created in the
   order to-b, to-a (s = module 0, a = 1, b = 2). *)
Definition triangle : world :=
  [[Endpoint [(2, 0)]; Endpoint [(1, 0)]];
   [Endpoint [(0, 1)]; Endpoint [(2, 1)]];
   [Endpoint [(0, 0)]; Endpoint [(1, 1)]]].

Example C19_nonvacuous_global :
  edges (global_topology triangle) =
  [[{| e_dst := 2; e_start := (0, 0); e_stop := (2, 0) |}; {| e_dst := 1; e_start := (0, 1); e_stop := (1, 0) |}];
   [{| e_dst := 0; e_start := (1, 0); e_stop := (0, 1) |}; {| e_dst := 2; e_start := (1, 1); e_stop := (2, 1) |}];
   [{| e_dst := 0; e_start := (2, 0); e_stop := (0, 0) |}; {| e_dst := 1; e_start := (2, 1); e_stop := (1, 1) |}]].
Proof. vm_compute. reflexivity. Qed.

(* spanned from a: nodes a, s, b; the edge a.to-b, scanned while b is still
   pending behind s, gets the predicted index 2 *)
Example C19_nonvacuous_spanned :
  spanned triangle 1 =
  Some {| nodes := [1; 0; 2];
          edges := [[{| e_dst := 1; e_start := (1, 0); e_stop := (0, 1) |}; {| e_dst := 2; e_start := (1, 1); e_stop := (2, 1) |}];
                    [{| e_dst := 2; e_start := (0, 0); e_stop := (2, 0) |}; {| e_dst := 0; e_start := (0, 1); e_stop := (1, 0) |}];
                    [{| e_dst := 1; e_start := (2, 0); e_stop := (0, 0) |}; {| e_dst := 0; e_start := (2, 1); e_stop := (1, 1) |}]] |}.
Proof. vm_compute. reflexivity. Qed.

(* b is a direct neighbour of s: the first hop towards b is s.to-b *)
Example C19_nonvacuous_dijkstra :
  exists m, dijkstra (global_topology triangle) 0 = DjOk m /\
            lookup 2 m = Some (0, {| e_dst := 2; e_start := (0, 0); e_stop := (2, 0) |}) /\
            lookup 1 m = Some (0, {| e_dst := 1; e_start := (0, 1); e_stop := (1, 0) |}) /\
            lookup 0 m = None.
Proof. eexists. split; [vm_compute; reflexivity|]. vm_compute. repeat split. Qed.

(* a history: a-b wired, look, then b-c connected late, look again: the second
   view has the new edges and is connected *)
Example C19_nonvacuous_history :
  let w0 : world := [[Endpoint [(1, 0)]]; [Endpoint [(0, 0)]; Standalone]; [Standalone]] in
  let late := OConnect [(1, 1); (2, 0)] in
  let s1 := state_after (init_state w0) [OQuery QGlobal] in
  let s2 := state_after (init_state w0) [OQuery QGlobal; late; OQuery QGlobal] in
  connected (h_topo s1) = false /\ length (concat (edges (h_topo s1))) = 2 /\
  connected (h_topo s2) = true /\ length (concat (edges (h_topo s2))) = 4 /\
  h_world s2 = world_after w0 [late].
Proof. vm_compute. repeat split. Qed.

Example C19_activity_ignored : forall s m k, fst (step s (ODown m k)) = s.
Proof. reflexivity. Qed.

Example C19_nonvacuous_filter :
  let t := filter_nodes (fun m => negb (m =? 1)) (global_topology triangle) in
  nodes t = [0; 2] /\
  edges t = [[{| e_dst := 1; e_start := (0, 0); e_stop := (2, 0) |}]; [{| e_dst := 0; e_start := (2, 0); e_stop := (0, 0) |}]] /\
  connected t = true /\ bidirectional t = true /\
  connected (filter_edges (fun src _ => src =? 0) t) = false /\
  bidirectional (filter_edges (fun src _ => src =? 0) t) = false.
Proof. vm_compute. repeat split. Qed.
