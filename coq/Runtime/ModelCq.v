(* The runtime model of Runtime/Model.v once more, this time threading the
   CONCRETE calendar queue (CQueue.Model.cq, des-cqueue/src/stable/mod.rs) with
   the parameters n, t of Builder::cqueue_options, and calling it exactly where
   the cqueue-backed FutureEventSet (des/src/runtime/event/event_set.rs,
   cqueue_impl) calls it:
     new_with   -> CQueue::new_at(n, t, start_time)      cq_new_at
     add        -> CQueue::add(time, event)              add
     peek_time  -> CQueue::peek_time()                   peek_time
     fetch_next -> CQueue::fetch_next()                  fetch_next
     len / is_empty -> CQueue::len()                     qlen
   The runtime never cancels, so handles are dropped.  Every definition is the
   one of Model.v with the event-set calls replaced (prefix c); the limit,
   script, wire format and output types are shared.  Runtime/Compose.v proves
   that for all n, t >= 1 this model prints exactly what Model.v prints.
   No proofs in this file.  [run] is what the extracted runner executes. *)
From Coq Require Import List NArith PArith Bool.
From DesVerif Require Import Common.Fuel Common.Codec CQueue.Model Runtime.Limit Runtime.Model.
Import ListNotations.
Open Scope N_scope.

Record rtc := {
  cfes : cq; cclock : N; citr : N; climit : lim; cbudget : N; clog : list (N * N); cadds : list add_rec }.

Definition cset_limit (c : rtc) (l : lim) : rtc :=
  {| cfes := cfes c; cclock := cclock c; citr := citr c; climit := l; cbudget := cbudget c; clog := clog c; cadds := cadds c |}.
Definition cset_fes (c : rtc) (q : cq) : rtc :=
  {| cfes := q; cclock := cclock c; citr := citr c; climit := climit c; cbudget := cbudget c; clog := clog c; cadds := cadds c |}.
Definition cdec_budget (c : rtc) : rtc :=
  {| cfes := cfes c; cclock := cclock c; citr := citr c; climit := climit c; cbudget := cbudget c - 1; clog := clog c; cadds := cadds c |}.

Definition cnew_fes (v : variant) (n t start : N) : cq := if v_start v then cq_new_at n t start else cq_new n t.

Definition crt_new (v : variant) (n t start bud : N) (l : lim) : rtc :=
  {| cfes := cnew_fes v n t start; cclock := start; citr := 0; climit := l; cbudget := bud; clog := []; cadds := [] |}.

Definition cadd_event (inh : bool) (c : rtc) (time label : N) : rtc :=
  let r := add (cfes c) time label in
  {| cfes := fst (fst r); cclock := cclock c; citr := citr c; climit := climit c; cbudget := cbudget c; clog := clog c;
     cadds := cadds c ++ [{| a_time := time; a_label := label; a_now := cclock c;
                             a_ctx := if inh then citr c else 0; a_ok := added_ok (snd r) |}] |}.

Definition clast_ok (c : rtc) : bool := match rev (cadds c) with r :: _ => a_ok r | [] => false end.

Definition cadd_event_in (c : rtc) (dur label : N) : rtc := cadd_event true c (cclock c + dur) label.

Fixpoint cdo_actions (acts : list action) (c : rtc) : rtc :=
  match acts with
  | [] => c
  | (k, x, l) :: r =>
      if cbudget c =? 0 then c
      else cdo_actions r (if k =? 0 then cadd_event_in (cdec_budget c) x l else cadd_event true (cdec_budget c) x l)
  end.

Definition chandle (P : prog) (label : N) (c : rtc) : rtc := cdo_actions (nth (N.to_nat label) P []) c.

Definition cpeek (q : cq) : option N := match peek_time q with OPeek o => o | _ => None end.

Definition cdeliver (P : prog) (c : rtc) (q : cq) (label time : N) : rtc :=
  chandle P label {| cfes := q; cclock := time; citr := citr c + 1; climit := climit c; cbudget := cbudget c;
                     clog := clog c ++ [(label, time)]; cadds := cadds c |}.

Definition cdispatch_event_peek (P : prog) (c : rtc) : rtc + rtc :=
  match cpeek (cfes c) with
  | None => inr c
  | Some time =>
      if applies (climit c) (citr c + 1) time then inr c
      else match fetch_next (cfes c) with
           | (q, OFetched label tm) => inl (cdeliver P c q label tm)
           | _ => inr c
           end
  end.

Definition cdispatch_event_putback (P : prog) (c : rtc) : rtc + rtc :=
  if qlen (cfes c) =? 0 then inr c
  else match fetch_next (cfes c) with
       | (q, OFetched label tm) =>
           if applies (climit c) (citr c + 1) tm then inr (cset_fes c (fst (fst (add q tm label))))
           else inl (cdeliver P c q label tm)
       | _ => inr c
       end.

Definition cdispatch_event (v : variant) (P : prog) (c : rtc) : rtc + rtc :=
  if v_peek v then cdispatch_event_peek P c else cdispatch_event_putback P c.

Definition cloop_fuel (c : rtc) : positive := N.succ_pos (cbudget c + qlen (cfes c)).

Definition cdispatch_all (v : variant) (P : prog) (c : rtc) : option rtc :=
  match iter_until (cloop_fuel c) (cdispatch_event v P) c with
  | inr c' => Some c'
  | inl _ => None
  end.

Definition cwith_limit (v : variant) (P : prog) (l : lim) (c : rtc) : option rtc :=
  match cdispatch_all v P (cset_limit c l) with
  | Some c' => Some (cset_limit c' (climit c))
  | None => None
  end.
Definition cdispatch_n_events (v : variant) (P : prog) (c : rtc) (k : N) : option rtc :=
  cwith_limit v P (LCount (citr c + k)) c.
Definition cdispatch_events_until (v : variant) (P : prog) (c : rtc) (T : N) : option rtc :=
  cwith_limit v P (LTime T) c.

(* finish: while !is_empty { remaining.push(fetch_next()) } *)
Fixpoint cdrain (k : nat) (q : cq) : list (N * N) :=
  match k with
  | O => []
  | S k' => match fetch_next q with
            | (q', OFetched label tm) => (tm, label) :: cdrain k' q'
            | _ => []
            end
  end.
Definition cremaining (q : cq) : list (N * N) := cdrain (N.to_nat (qlen q)) q.

Definition cstatus (c : rtc) : sout := OStatus (citr c) (qlen (cfes c)) (cclock c) (N.of_nat (length (cadds c))).

Definition cstep (v : variant) (P : prog) (c : rtc) (o : sop) : option rtc * sout :=
  match o with
  | SN k => match cdispatch_n_events v P c k with Some c' => (Some c', cstatus c') | None => (None, OFuel) end
  | SUntil T => match cdispatch_events_until v P c T with Some c' => (Some c', cstatus c') | None => (None, OFuel) end
  | SAdd t l => let c' := cadd_event false c t l in (Some c', OAddRes (clast_ok c'))
  end.

Definition cfinish (c : rtc) : sout := OFinal (citr c) (cclock c) (clog c) (cadds c) (isort (cremaining (cfes c))).

Fixpoint cexec_sched (v : variant) (P : prog) (c : rtc) (ops : list sop) : option rtc * list sout :=
  match ops with
  | [] => (Some c, [])
  | o :: r => match cstep v P c o with
              | (Some c', x) => let '(c'', xs) := cexec_sched v P c' r in (c'', x :: xs)
              | (None, x) => (None, [x])
              end
  end.

Fixpoint cpre_adds (c : rtc) (pre : list (N * N)) : rtc * list sout :=
  match pre with
  | [] => (c, [])
  | (t, l) :: r => let c' := cadd_event false c t l in
                   let '(c'', xs) := cpre_adds c' r in (c'', OAddRes (clast_ok c') :: xs)
  end.

Definition crun_block (v : variant) (n t : N) (sc : script) (l : lim) (sched : list sop) : list sout :=
  let '(c0, o0) := cpre_adds (crt_new v n t (sc_start sc) (sc_budget sc) l) (sc_pre sc) in
  match cexec_sched v (sc_prog sc) c0 sched with
  | (Some c1, o1) => match cdispatch_all v (sc_prog sc) c1 with
                     | Some c2 => o0 ++ o1 ++ [cfinish c2]
                     | None => o0 ++ o1 ++ [OFuel]
                     end
  | (None, o1) => o0 ++ o1
  end.

Definition crun_script (v : variant) (n t : N) (sc : script) : list sout :=
  crun_block v n t sc LNone [] ++ crun_block v n t sc (build_limit (sc_calls sc)) []
  ++ crun_block v n t sc (build_limit (sc_calls sc)) (sc_sched sc).

(* same wire format as Model.run_gen; here n and t are used *)
Definition run_gen_cq (v : variant) (input : list N) : list N :=
  match input with
  | n :: t :: u0 :: r =>
      if (n =? 0) || (t =? 0) then [7]
      else let u := unit_of u0 in
           flat_map enc_sout (map (unscale_sout u) (crun_script v n t (scale_script u (dec_script r))))
  | _ => [7]
  end.

Definition run (input : list N) : list N := run_gen_cq repaired input.
