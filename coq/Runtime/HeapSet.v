(* The future event set of a des built WITHOUT the `cqueue` feature:
   des/src/runtime/event/event_set.rs, default_impl::FutureEventSet (the copy
   under cfg_miri! is the same text):
       heap: BinaryHeap<EventNode>      ordered by time only (reversed: pop = a minimum)
       zero_queue: VecDeque<EventNode>  events scheduled for the current instant, FIFO
       last_event_simtime: SimTime
   std's BinaryHeap does not specify which of several equal elements `pop`
   returns, and EventNode's order looks at the time only.  The heap is therefore
   a finite bag, and `pop` returns A minimum-time element chosen by an oracle
   [pick] that sees the candidates; every theorem quantifies over all oracles.
   Entries are (time, payload).  No proofs in this file. *)
From Coq Require Import List NArith Bool.
From DesVerif Require Import Common.Codec CQueue.Model.
Import ListNotations.
Open Scope N_scope.

Record hs := { hzero : list (N * N); hbag : list (N * N); hlast : N }.

(* new_with(options): empty, last_event_simtime = options.start_time *)
Definition hp_new (ts : N) : hs := {| hzero := []; hbag := []; hlast := ts |}.

(* len = len_zero + len_nonzero *)
Definition hp_len (h : hs) : N := N.of_nat (length (hzero h) + length (hbag h)).

(* add: assert!(time >= last_event_simtime); if last_event_simtime == time
   { zero_queue.push_back } else { heap.push }.  false = the assert fired. *)
Definition hp_add (h : hs) (time pay : N) : hs * bool :=
  if time <? hlast h then (h, false)
  else if hlast h =? time
       then ({| hzero := hzero h ++ [(time, pay)]; hbag := hbag h; hlast := hlast h |}, true)
       else ({| hzero := hzero h; hbag := hbag h ++ [(time, pay)]; hlast := hlast h |}, true).

Fixpoint min_time (l : list (N * N)) : option N :=
  match l with
  | [] => None
  | e :: r => match min_time r with None => Some (fst e) | Some m => Some (N.min (fst e) m) end
  end.

(* the elements `pop` may return: those of minimum time *)
Definition cands (l : list (N * N)) : list (N * N) :=
  match min_time l with
  | None => []
  | Some m => filter (fun e => fst e =? m) l
  end.

Definition pair_eqb (a b : N * N) : bool := (fst a =? fst b) && (snd a =? snd b).

Fixpoint remove1 (e : N * N) (l : list (N * N)) : list (N * N) :=
  match l with
  | [] => []
  | x :: r => if pair_eqb x e then r else x :: remove1 e r
  end.

(* peek_time: zero_queue.front().or_else(|| heap.peek()).map(|node| node.time) *)
Definition hp_peek (h : hs) : option N :=
  match hzero h with
  | x :: _ => Some (fst x)
  | [] => min_time (hbag h)
  end.

(* fetch_next: zero_queue.pop_front(), else heap.pop().expect(..); both set
   last_event_simtime = event.time.  None = the expect fired (empty set). *)
Definition hp_fetch (pick : list (N * N) -> nat) (h : hs) : hs * option (N * N) :=
  match hzero h with
  | x :: z => ({| hzero := z; hbag := hbag h; hlast := fst x |}, Some x)
  | [] => match cands (hbag h) with
          | [] => (h, None)
          | c :: cs => let e := nth (pick (c :: cs)) (c :: cs) c in
                       ({| hzero := []; hbag := remove1 e (hbag h); hlast := fst e |}, Some e)
          end
  end.

(* ---- operation histories, with the operation and output types of the
   calendar queue so that they can be compared with CQueue.Spec.  The backend
   has no cancel: [Cancel] (and the verif-only [Check]) do nothing. ---- *)
Definition heap_op (o : op) : bool := match o with Cancel _ | Check => false | _ => true end.

(* the oracle of a history: position of the operation, candidates -> index *)
Definition oracle := nat -> list (N * N) -> nat.

Definition hp_step (pick : list (N * N) -> nat) (h : hs) (o : op) : hs * out :=
  match o with
  | Add t p => let '(h', ok) := hp_add h t p in (h', if ok then OAdded else OPanic 1)
  | Fetch => match hp_fetch pick h with
             | (h', Some e) => (h', OFetched (snd e) (fst e))
             | (h', None) => (h', OPanic 2)
             end
  | Len => (h, OLen (hp_len h))
  | Time => (h, OTime (hlast h))
  | Peek => (h, OPeek (hp_peek h))
  | Cancel _ => (h, OUnit)
  | Check => (h, OInv [1; 1; 1; 1; 1])
  end.

Fixpoint hp_run_from (orc : oracle) (i : nat) (h : hs) (ops : list op) : hs * list out :=
  match ops with
  | [] => (h, [])
  | o :: r => let '(h', x) := hp_step (orc i) h o in
              let '(h'', xs) := hp_run_from orc (S i) h' r in (h'', x :: xs)
  end.

Definition hp_run_ops (orc : oracle) (ts : N) (ops : list op) : list out := snd (hp_run_from orc 0 (hp_new ts) ops).
