(* C10: stepping is indistinguishable from running. *)
From Coq Require Import List Arith NArith PArith Lia Bool Sorting.Sorted Permutation ZifyBool.
From DesVerif Require Import Common.Fuel Common.Codec CQueue.Model CQueue.Spec CQueue.ListX CQueue.SpecProps
  Runtime.Limit Runtime.Model Runtime.Queue Runtime.Inv Runtime.Prefix.
Import ListNotations.
Open Scope N_scope.

(* [u] is where the run that ignores limits ends when started in [s] *)
Definition completes (P : prog) (s u : rt) : Prop := exists k, iter_nat k (D P) (set_limit s LNone) = inr u.

Lemma set_limit_id s : set_limit s (limit s) = s.
Proof. destruct s; reflexivity. Qed.

Lemma D_none_go P s l t :
  nextev (fes s) = Some (l, t) -> D P (set_limit s LNone) = inl (set_limit (ustep P s l t) LNone).
Proof. intros E. rewrite (D_go P (set_limit s LNone) l t E eq_refl), ustep_set_limit. reflexivity. Qed.

Lemma completes_det P s u u' : completes P s u -> completes P s u' -> u = u'.
Proof.
  intros [k H] [k' H'].
  pose proof (iter_nat_mono (D P) k (Nat.max k k') _ _ (Nat.le_max_l k k') H) as M.
  pose proof (iter_nat_mono (D P) k' (Nat.max k k') _ _ (Nat.le_max_r k k') H') as M'.
  congruence.
Qed.

(* a limited run only walks along the unlimited one *)
Lemma step_fwd P k : forall s s1 u, iter_nat k (D P) s = inr s1 -> completes P s u -> completes P s1 u.
Proof.
  induction k as [|k IH]; intros s s1 u H C; cbn [iter_nat] in H; [discriminate|].
  destruct (D_cases P s) as [[_ E]|[[l [t [_ [_ E]]]]|[l [t [En [_ E]]]]]]; rewrite E in H.
  - injection H as <-. exact C.
  - injection H as <-. exact C.
  - apply (IH _ _ _ H). destruct C as [[|k'] C]; cbn [iter_nat] in C; [discriminate|].
    rewrite (D_none_go P s l t En) in C. exists k'. exact C.
Qed.

Lemma step_back P k : forall s s1 u, iter_nat k (D P) s = inr s1 -> completes P s1 u -> completes P s u.
Proof.
  induction k as [|k IH]; intros s s1 u H C; cbn [iter_nat] in H; [discriminate|].
  destruct (D_cases P s) as [[_ E]|[[l [t [_ [_ E]]]]|[l [t [En [_ E]]]]]]; rewrite E in H.
  - injection H as <-. exact C.
  - injection H as <-. exact C.
  - destruct (IH _ _ _ H C) as [k' C']. exists (S k'). cbn [iter_nat]. rewrite (D_none_go P s l t En). exact C'.
Qed.

Lemma completes_set_limit P s L u : completes P (set_limit s L) u <-> completes P s u.
Proof. unfold completes. change (set_limit (set_limit s L) LNone) with (set_limit s LNone). reflexivity. Qed.

Lemma dispatch_all_completes P s u : dispatch_all repaired P (set_limit s LNone) = Some u -> completes P s u.
Proof. intros H. apply dispatch_all_inv in H. eexists. exact H. Qed.

Lemma iter_limit P k : forall s s', iter_nat k (D P) s = inr s' -> limit s' = limit s.
Proof.
  induction k as [|k IH]; intros s s' H; cbn [iter_nat] in H; [discriminate|].
  destruct (D_cases P s) as [[_ E]|[[l [t [_ [_ E]]]]|[l [t [En [_ E]]]]]]; rewrite E in H.
  - injection H as <-. reflexivity.
  - injection H as <-. reflexivity.
  - rewrite (IH _ _ H). apply ustep_fields.
Qed.

Lemma with_limit_spec P L s s' :
  with_limit repaired P L s = Some s' ->
  exists s1, iter_nat (S (mu s)) (D P) (set_limit s L) = inr s1 /\ s' = set_limit s1 (limit s).
Proof.
  unfold with_limit. destruct (dispatch_all repaired P (set_limit s L)) as [s1|] eqn:E; [|discriminate].
  intros H. injection H as <-. exists s1. split; [|reflexivity]. apply dispatch_all_inv in E. exact E.
Qed.

Lemma with_limit_completes P L s s' u : with_limit repaired P L s = Some s' -> completes P s u -> completes P s' u.
Proof.
  intros H C. destruct (with_limit_spec P L s s' H) as [s1 [I ->]]. apply completes_set_limit.
  eapply step_fwd; [exact I|]. apply completes_set_limit. exact C.
Qed.

Lemma with_limit_limit P L s s' : with_limit repaired P L s = Some s' -> limit s' = limit s.
Proof. intros H. destruct (with_limit_spec P L s s' H) as [s1 [_ ->]]. reflexivity. Qed.

Definition is_dispatch (o : sop) : bool := match o with SAdd _ _ => false | _ => true end.

Lemma step_completes P s o s' x u :
  is_dispatch o = true -> step repaired P s o = (Some s', x) -> completes P s u -> completes P s' u /\ limit s' = limit s.
Proof.
  destruct o as [k|T|t l]; cbn [is_dispatch step]; unfold dispatch_n_events, dispatch_events_until; intros Hd H C.
  - destruct (with_limit repaired P (LCount (itr s + k)) s) as [s1|] eqn:E; [|discriminate]. injection H as <- _.
    split; [eapply with_limit_completes|eapply with_limit_limit]; eassumption.
  - destruct (with_limit repaired P (LTime T) s) as [s1|] eqn:E; [|discriminate]. injection H as <- _.
    split; [eapply with_limit_completes|eapply with_limit_limit]; eassumption.
  - discriminate.
Qed.

Lemma sched_completes P ops : forall s s' xs u,
  forallb is_dispatch ops = true -> exec_sched repaired P s ops = (Some s', xs) -> completes P s u ->
  completes P s' u /\ limit s' = limit s.
Proof.
  induction ops as [|o ops IH]; intros s s' xs u Hd H C; cbn [exec_sched] in H.
  - injection H as <- _. split; [exact C|reflexivity].
  - cbn [forallb] in Hd. apply andb_true_iff in Hd. destruct Hd as [Ho Hr].
    destruct (step repaired P s o) as [[s1|] x] eqn:E; [|discriminate].
    destruct (exec_sched repaired P s1 ops) as [s2 ys] eqn:E2. injection H as -> _.
    destruct (step_completes _ _ _ _ _ _ Ho E C) as [C1 L1].
    destruct (IH _ _ _ _ Hr E2 C1) as [C2 L2]. split; [exact C2|congruence].
Qed.

(* Any combination of dispatch_n_events and dispatch_events_until followed by
   dispatch_all ends in exactly the state in which the uninterrupted
   dispatch_all ends: same log (events, order, times), same event set, same
   clock, same counters. *)
Theorem stepped_eq_run P s0 ops s1 xs sf u :
  limit s0 = LNone -> forallb is_dispatch ops = true ->
  exec_sched repaired P s0 ops = (Some s1, xs) ->
  dispatch_all repaired P s1 = Some sf ->
  dispatch_all repaired P s0 = Some u ->
  sf = u.
Proof.
  intros HL Hd Hs Hf Hu.
  assert (C0 : completes P s0 u).
  { apply dispatch_all_completes. rewrite <- HL, set_limit_id. exact Hu. }
  destruct (sched_completes P ops s0 s1 xs u Hd Hs C0) as [C1 L1].
  assert (Cf : completes P s1 sf).
  { apply dispatch_all_completes. rewrite <- HL, <- L1, set_limit_id. exact Hf. }
  eapply completes_det; eassumption.
Qed.

(* on the printed records: the stepped block ends with the same final record *)
Corollary stepped_block_eq_run_block sc sched :
  forallb is_dispatch sched = true ->
  exists o0 o1 u,
    run_block repaired sc LNone [] = o0 ++ [finish u] /\
    run_block repaired sc LNone sched = o0 ++ o1 ++ [finish u].
Proof.
  intros Hd. unfold run_block.
  destruct (pre_adds (rt_new repaired (sc_start sc) (sc_budget sc) LNone) (sc_pre sc)) as [s0 o0] eqn:E0.
  assert (HL : limit s0 = LNone).
  { pose proof (pre_adds_fields (sc_pre sc) (rt_new repaired (sc_start sc) (sc_budget sc) LNone)) as H.
    rewrite E0 in H. cbn [fst] in H. apply H. }
  cbn [exec_sched]. destruct (dispatch_all_total (sc_prog sc) s0) as [u [Eu _]]. rewrite Eu.
  destruct (sched_total (sc_prog sc) sched s0) as [s1 [o1 E1]]. rewrite E1.
  destruct (dispatch_all_total (sc_prog sc) s1) as [sf [Ef _]]. rewrite Ef.
  rewrite (stepped_eq_run _ _ _ _ _ _ _ HL Hd E1 Ef Eu). exists o0, o1, u. split; reflexivity.
Qed.

(* the configured limit plays no role in a step *)
Theorem step_ignores_configured_limit P L' L s :
  with_limit repaired P L' (set_limit s L) = option_map (fun s' => set_limit s' L) (with_limit repaired P L' s).
Proof.
  unfold with_limit. change (set_limit (set_limit s L) L') with (set_limit s L').
  destruct (dispatch_all repaired P (set_limit s L')); reflexivity.
Qed.

(* ---- what one step dispatches ---- *)
(* everything the runtime would still dispatch from [s] if it ran to the end *)
Definition rest_of (P : prog) (s : rt) : list (N * N) := useq P (S (mu s)) s.

Lemma unlimited_rest P s u : dispatch_all repaired P (set_limit s LNone) = Some u -> log u = log s ++ rest_of P s.
Proof.
  intros H. apply dispatch_all_inv in H. apply run_log_lprefix in H.
  cbn [limit set_limit log itr] in H. rewrite lprefix_none, useq_set_limit in H. exact H.
Qed.

Lemma with_limit_log P L s s' :
  with_limit repaired P L s = Some s' -> log s' = log s ++ lprefix L (itr s) (rest_of P s).
Proof.
  intros H. destruct (with_limit_spec P L s s' H) as [s1 [I ->]]. apply run_log_lprefix in I.
  cbn [limit set_limit log itr] in *. rewrite useq_set_limit in I. exact I.
Qed.

Lemma sorted_app_r l r : StronglySorted N.le (l ++ r) -> StronglySorted N.le r.
Proof. induction l as [|x l IH]; cbn [app]; intros H; [exact H|]. inversion H; subst. auto. Qed.

Lemma rest_sorted S P s : Inv S s -> StronglySorted N.le (times (rest_of P s)).
Proof.
  intros HI. destruct (dispatch_all_total P (set_limit s LNone)) as [u [Eu _]].
  pose proof (Inv_dispatch_all S P _ _ (Inv_set_limit S s LNone HI) Eu) as HIu.
  pose proof (I_sorted _ _ HIu) as Hs. rewrite (unlimited_rest P s u Eu) in Hs.
  unfold times in *. rewrite map_app in Hs. eapply sorted_app_r; exact Hs.
Qed.

(* dispatch_n_events(k): exactly the next k events, or all that remain *)
Theorem n_step_exact S P s k s' :
  Inv S s -> dispatch_n_events repaired P s k = Some s' ->
  log s' = log s ++ firstn (N.to_nat k) (rest_of P s) /\
  itr s' = itr s + N.min k (N.of_nat (length (rest_of P s))).
Proof.
  intros HI H. unfold dispatch_n_events in H.
  pose proof (Inv_with_limit S P _ s s' HI H) as HI'.
  apply with_limit_log in H. rewrite lprefix_count in H. split; [exact H|].
  rewrite (I_itr _ _ HI'), (I_itr _ _ HI), H, app_length, firstn_length. lia.
Qed.

(* dispatch_events_until(T): exactly the events with timestamp <= T *)
Theorem until_step_exact S P s T s' :
  Inv S s -> dispatch_events_until repaired P s T = Some s' ->
  log s' = log s ++ filter (fun e => snd e <=? T) (rest_of P s).
Proof.
  intros HI H. unfold dispatch_events_until in H. apply with_limit_log in H.
  rewrite lprefix_time in H by (eapply rest_sorted; exact HI). exact H.
Qed.

(* ---- the paused runtime ---- *)
Lemma last_ok_add inh s t l : last_ok (add_event inh s t l) = (s_tcur (fes s) <=? t).
Proof. unfold last_ok, add_event. cbn [adds]. rewrite rev_app_distr. cbn [rev app a_ok]. apply added_ok_iff. Qed.

Theorem paused_state S s :
  Inv S s ->
  clock s = last (times (log s)) S /\                                  (* sim_time = time of the last dispatched event *)
  itr s = N.of_nat (length (log s)) /\                                (* num_events_dispatched *)
  sp_len (fes s) = N.of_nat (length (pend (fes s))) /\                (* num_events_remaining = |undelivered| *)
  Permutation (accepted (adds s)) (handled (log s) ++ pend (fes s)) /\ (* undelivered = scheduled - handled *)
  (forall t l, last_ok (add_event false s t l) = (clock s <=? t)) /\   (* add_event succeeds iff t >= sim_time *)
  (forall t l, t < clock s -> fes (add_event false s t l) = fes s).    (* a rejected add changes nothing *)
Proof.
  intros HI. split; [apply (I_last _ _ HI)|]. split; [apply (I_itr _ _ HI)|]. split.
  { unfold sp_len, pend. rewrite map_length, app_length. reflexivity. }
  split; [apply (I_acct _ _ HI)|]. split.
  - intros t l. rewrite last_ok_add, (I_clk _ _ HI). reflexivity.
  - intros t l Hlt. unfold add_event. cbn [fes]. rewrite sp_add_past; [reflexivity|]. rewrite (I_clk _ _ HI). exact Hlt.
Qed.

(* every state the runtime pauses in, for every schedule (external adds included) *)
Lemma Inv_paused S B L pre P ops s xs :
  exec_sched repaired P (boot S B L pre) ops = (Some s, xs) -> Inv S s.
Proof. intros H. eapply Inv_sched; [|exact H]. apply Inv_boot. Qed.
