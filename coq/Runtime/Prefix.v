(* C11: a limited run dispatches the longest admissible prefix of the
   unlimited dispatch sequence. *)
From Coq Require Import List Arith NArith PArith Lia Bool Sorting.Sorted Permutation ZifyBool.
From DesVerif Require Import Common.Fuel Common.Codec CQueue.Model CQueue.Spec CQueue.ListX CQueue.SpecProps
  Runtime.Limit Runtime.Model Runtime.Queue Runtime.Inv.
Import ListNotations.
Open Scope N_scope.

(* the longest prefix of [sg] none of whose elements, at its 1-based position
   counted from [i], makes the limit apply *)
Fixpoint lprefix (L : lim) (i : N) (sg : list (N * N)) : list (N * N) :=
  match sg with
  | [] => []
  | e :: r => if applies L (i + 1) (snd e) then [] else e :: lprefix L (i + 1) r
  end.

(* the first k elements of the dispatch sequence of the run that ignores limits *)
Fixpoint useq (P : prog) (k : nat) (s : rt) : list (N * N) :=
  match k with
  | O => []
  | S k' => match nextev (fes s) with
            | None => []
            | Some (l, t) => (l, t) :: useq P k' (ustep P s l t)
            end
  end.

(* ---- the limit is not looked at by anything but the test in dispatch_event ---- *)
Lemma do_actions_set_limit acts L : forall s, do_actions acts (set_limit s L) = set_limit (do_actions acts s) L.
Proof.
  induction acts as [|[[k x] l] acts IH]; intros s; cbn [do_actions]; [reflexivity|].
  change (budget (set_limit s L)) with (budget s). destruct (budget s =? 0); [reflexivity|].
  destruct (k =? 0).
  - change (add_event_in (dec_budget (set_limit s L)) x l) with (set_limit (add_event_in (dec_budget s) x l) L). apply IH.
  - change (add_event true (dec_budget (set_limit s L)) x l) with (set_limit (add_event true (dec_budget s) x l) L). apply IH.
Qed.

Lemma ustep_set_limit P s L l t : ustep P (set_limit s L) l t = set_limit (ustep P s l t) L.
Proof.
  unfold ustep, deliver, handle. cbn [fes set_limit itr limit budget log adds clock].
  rewrite <- do_actions_set_limit. reflexivity.
Qed.

Lemma useq_set_limit P L k : forall s, useq P k (set_limit s L) = useq P k s.
Proof.
  induction k as [|k IH]; intros s; cbn [useq]; [reflexivity|].
  change (fes (set_limit s L)) with (fes s). destruct (nextev (fes s)) as [[l t]|]; [|reflexivity].
  rewrite ustep_set_limit, IH. reflexivity.
Qed.

Lemma pre_adds_set_limit pre L : forall s, fst (pre_adds (set_limit s L) pre) = set_limit (fst (pre_adds s pre)) L.
Proof.
  induction pre as [|[t l] pre IH]; intros s; cbn [pre_adds]; [reflexivity|].
  specialize (IH (add_event false s t l)).
  change (add_event false (set_limit s L) t l) with (set_limit (add_event false s t l) L).
  destruct (pre_adds (set_limit (add_event false s t l) L) pre) as [a xa].
  destruct (pre_adds (add_event false s t l) pre) as [b xb]. exact IH.
Qed.

Lemma pre_adds_fields pre : forall s,
  log (fst (pre_adds s pre)) = log s /\ itr (fst (pre_adds s pre)) = itr s /\
  clock (fst (pre_adds s pre)) = clock s /\ limit (fst (pre_adds s pre)) = limit s.
Proof.
  induction pre as [|[t l] pre IH]; intros s; cbn [pre_adds]; [repeat split|].
  specialize (IH (add_event false s t l)). destruct (pre_adds (add_event false s t l) pre) as [a xa]. exact IH.
Qed.

(* Builder::build, then the add_event calls made before the run *)
Definition boot (S B : N) (L : lim) (pre : list (N * N)) : rt := fst (pre_adds (rt_new repaired S B L) pre).

Lemma boot_limit S B L pre : boot S B L pre = set_limit (boot S B LNone pre) L.
Proof. unfold boot. rewrite <- pre_adds_set_limit. reflexivity. Qed.

Lemma boot_fields S B L pre :
  log (boot S B L pre) = [] /\ itr (boot S B L pre) = 0 /\ clock (boot S B L pre) = S /\ limit (boot S B L pre) = L.
Proof. unfold boot. destruct (pre_adds_fields pre (rt_new repaired S B L)) as [H1 [H2 [H3 H4]]]. rewrite H1, H2, H3, H4. repeat split. Qed.

Lemma Inv_boot S B L pre : Inv S (boot S B L pre).
Proof. apply Inv_pre_adds. apply Inv_new. Qed.

(* ---- the run with a limit follows the unlimited sequence while admitted ---- *)
Lemma run_log_lprefix P k : forall s a,
  iter_nat k (D P) s = inr a -> log a = log s ++ lprefix (limit s) (itr s) (useq P k s).
Proof.
  induction k as [|k IH]; intros s a H; cbn [iter_nat] in H; [discriminate|]. cbn [useq].
  destruct (D_cases P s) as [[En E]|[[l [t [En [A E]]]]|[l [t [En [A E]]]]]]; rewrite E in H; rewrite En.
  - injection H as <-. cbn [lprefix]. rewrite app_nil_r. reflexivity.
  - injection H as <-. cbn [lprefix snd]. rewrite A, app_nil_r. reflexivity.
  - cbn [lprefix snd]. rewrite A. rewrite (IH _ _ H).
    destruct (ustep_fields P s l t) as [_ [Hi [Hl Hg]]]. rewrite Hi, Hl, Hg, <- app_assoc. reflexivity.
Qed.

Lemma lprefix_none i sg : lprefix LNone i sg = sg.
Proof. revert i; induction sg as [|e r IH]; intros i; cbn [lprefix applies]; [reflexivity|]. rewrite IH. reflexivity. Qed.

Theorem limited_log_is_longest_admissible_prefix P S B pre L :
  exists u a,
    dispatch_all repaired P (boot S B LNone pre) = Some u /\
    dispatch_all repaired P (boot S B L pre) = Some a /\
    log a = lprefix L 0 (log u).
Proof.
  destruct (dispatch_all_total P (boot S B LNone pre)) as [u [Eu Iu]].
  destruct (dispatch_all_total P (boot S B L pre)) as [a [Ea Ia]].
  exists u, a. split; [exact Eu|]. split; [exact Ea|].
  apply run_log_lprefix in Iu, Ia.
  destruct (boot_fields S B LNone pre) as [Hl0 [Hi0 [_ HL0]]]. destruct (boot_fields S B L pre) as [Hl [Hi [_ HL]]].
  rewrite Hl0, Hi0, HL0, lprefix_none in Iu. rewrite Hl, Hi, HL in Ia. cbn [app] in *.
  rewrite Iu, Ia, boot_limit, useq_set_limit. reflexivity.
Qed.

(* ---- what [lprefix] is: prefix, admissible, stopped by an applying element, longest ---- *)
Definition admissible (L : lim) (i : N) (p : list (N * N)) : Prop :=
  forall k e, nth_error p k = Some e -> applies L (i + N.of_nat k + 1) (snd e) = false.

Lemma lprefix_prefix L sg : forall i,
  exists rest, sg = lprefix L i sg ++ rest /\
    match rest with
    | [] => True
    | e :: _ => applies L (i + N.of_nat (length (lprefix L i sg)) + 1) (snd e) = true
    end.
Proof.
  induction sg as [|e r IH]; intros i; cbn [lprefix].
  - exists []. split; [reflexivity|exact I].
  - destruct (applies L (i + 1) (snd e)) eqn:A.
    + exists (e :: r). split; [reflexivity|]. cbn [length]. rewrite N.add_0_r. exact A.
    + destruct (IH (i + 1)) as [rest [E Hr]]. exists rest. split; [cbn [app]; rewrite <- E; reflexivity|].
      destruct rest as [|x rest]; [exact I|]. cbn [length].
      replace (i + N.of_nat (S (length (lprefix L (i + 1) r))) + 1) with (i + 1 + N.of_nat (length (lprefix L (i + 1) r)) + 1) by lia.
      exact Hr.
Qed.

Lemma lprefix_admissible L sg : forall i, admissible L i (lprefix L i sg).
Proof.
  induction sg as [|e r IH]; intros i k x H; cbn [lprefix] in H.
  - destruct k; discriminate.
  - destruct (applies L (i + 1) (snd e)) eqn:A; [destruct k; discriminate|].
    destruct k as [|k]; cbn [nth_error] in H.
    + injection H as <-. rewrite N.add_0_r. exact A.
    + specialize (IH (i + 1) k x H). replace (i + N.of_nat (S k) + 1) with (i + 1 + N.of_nat k + 1) by lia. exact IH.
Qed.

Lemma lprefix_longest L p : forall i rest, admissible L i p -> exists r', lprefix L i (p ++ rest) = p ++ r'.
Proof.
  induction p as [|e p IH]; intros i rest Ha; cbn [app].
  - eexists; reflexivity.
  - cbn [lprefix]. pose proof (Ha 0%nat e eq_refl) as A. rewrite N.add_0_r in A. rewrite A.
    destruct (IH (i + 1) rest) as [r' E].
    { intros k x H. specialize (Ha (S k) x H). replace (i + 1 + N.of_nat k + 1) with (i + N.of_nat (S k) + 1) by lia. exact Ha. }
    exists r'. rewrite E. reflexivity.
Qed.

(* EventCount(n): exactly min(n, available) events *)
Lemma lprefix_count sg : forall i k, lprefix (LCount (i + k)) i sg = firstn (N.to_nat k) sg.
Proof.
  induction sg as [|e r IH]; intros i k; cbn [lprefix applies]; [rewrite firstn_nil; reflexivity|].
  destruct (i + k <? i + 1) eqn:E.
  - assert (k = 0) as -> by lia. reflexivity.
  - replace (i + k) with (i + 1 + (k - 1)) by lia. rewrite IH.
    replace (N.to_nat k) with (S (N.to_nat (k - 1))) by lia. reflexivity.
Qed.

Corollary lprefix_count_length n sg : length (lprefix (LCount n) 0 sg) = Nat.min (N.to_nat n) (length sg).
Proof. rewrite <- (N.add_0_l n) at 1. rewrite lprefix_count. apply firstn_length. Qed.

Lemma filter_none {A} (f : A -> bool) l : (forall x, In x l -> f x = false) -> filter f l = [].
Proof.
  induction l as [|y l IH]; intros H; cbn [filter]; [reflexivity|].
  rewrite (H y (or_introl eq_refl)). apply IH. intros x Hx. apply H. right; exact Hx.
Qed.

(* SimTime(T) on a time-ordered sequence: every event with timestamp <= T and none later *)
Lemma lprefix_time T sg : forall i,
  StronglySorted N.le (times sg) -> lprefix (LTime T) i sg = filter (fun e => snd e <=? T) sg.
Proof.
  induction sg as [|e r IH]; intros i Hs; cbn [lprefix applies filter]; [reflexivity|].
  cbn [times map] in Hs. inversion Hs as [|? ? Hs' Hall]; subst.
  destruct (T <? snd e) eqn:E.
  - replace (snd e <=? T) with false by lia.
    symmetry. apply filter_none. intros x Hx.
    rewrite Forall_forall in Hall. specialize (Hall (snd x) (in_map snd _ _ Hx)). lia.
  - replace (snd e <=? T) with true by lia. rewrite (IH (i + 1) Hs'). reflexivity.
Qed.

(* Or stops where the first of the two stops *)
Lemma lprefix_or a b sg : forall i,
  length (lprefix (LOr a b) i sg) = Nat.min (length (lprefix a i sg)) (length (lprefix b i sg)).
Proof.
  induction sg as [|e r IH]; intros i; cbn [lprefix applies]; [reflexivity|].
  destruct (applies a (i + 1) (snd e)), (applies b (i + 1) (snd e)); cbn [orb length]; try lia.
  rewrite IH. reflexivity.
Qed.

Lemma lprefix_and_left a b sg : forall i,
  (forall k e, nth_error sg k = Some e -> applies a (i + N.of_nat k + 1) (snd e) = true) ->
  lprefix (LAnd a b) i sg = lprefix b i sg.
Proof.
  induction sg as [|e r IH]; intros i H; cbn [lprefix applies]; [reflexivity|].
  pose proof (H 0%nat e eq_refl) as A. rewrite N.add_0_r in A. rewrite A. cbn [andb].
  rewrite IH; [reflexivity|]. intros k x Hk. specialize (H (S k) x Hk).
  replace (i + 1 + N.of_nat k + 1) with (i + N.of_nat (S k) + 1) by lia. exact H.
Qed.

Lemma land_swap a b sg : forall i, lprefix (LAnd a b) i sg = lprefix (LAnd b a) i sg.
Proof.
  induction sg as [|e r IH]; intros i; cbn [lprefix applies]; [reflexivity|].
  rewrite andb_comm, IH. reflexivity.
Qed.

Lemma applies_later L i e r :
  StronglySorted N.le (times (e :: r)) -> applies L (i + 1) (snd e) = true ->
  forall k x, nth_error r k = Some x -> applies L (i + 1 + N.of_nat k + 1) (snd x) = true.
Proof.
  intros Hs A k x Hk. cbn [times map] in Hs. inversion Hs as [|? ? _ Hall]; subst.
  rewrite Forall_forall in Hall. apply nth_error_In in Hk. specialize (Hall (snd x) (in_map snd _ _ Hk)).
  eapply applies_mono; [| |exact A]; lia.
Qed.

(* And stops where the later of the two stops, on a time-ordered sequence
   (limits are monotone, so a condition that held keeps holding) *)
Lemma lprefix_and a b sg : forall i,
  StronglySorted N.le (times sg) ->
  length (lprefix (LAnd a b) i sg) = Nat.max (length (lprefix a i sg)) (length (lprefix b i sg)).
Proof.
  induction sg as [|e r IH]; intros i Hs; [reflexivity|].
  assert (Hs' : StronglySorted N.le (times r)) by (cbn [times map] in Hs; inversion Hs; assumption).
  cbn [lprefix applies].
  destruct (applies a (i + 1) (snd e)) eqn:A, (applies b (i + 1) (snd e)) eqn:Bb; cbn [andb length].
  - reflexivity.
  - rewrite (lprefix_and_left a b r (i + 1) (applies_later a i e r Hs A)). lia.
  - rewrite land_swap, (lprefix_and_left b a r (i + 1) (applies_later b i e r Hs Bb)). lia.
  - rewrite (IH (i + 1) Hs'). lia.
Qed.

(* ---- nothing is lost; end time; event count ---- *)
Theorem limited_run_accounting P S B pre L a :
  dispatch_all repaired P (boot S B L pre) = Some a ->
  Permutation (accepted (adds a)) (handled (log a) ++ isort (pend (fes a))) /\
  ple_sorted (isort (pend (fes a))) /\
  clock a = last (times (log a)) S /\
  itr a = N.of_nat (length (log a)) /\
  StronglySorted N.le (times (log a)).
Proof.
  intros H. pose proof (Inv_dispatch_all S P _ _ (Inv_boot S B L pre) H) as [H1 H2 H3 H4 H5 H6 H7 H8 H9].
  split; [|split; [apply isort_sorted|repeat split; assumption]].
  rewrite H9. apply Permutation_app_head. symmetry. apply isort_perm.
Qed.

(* ---- no record of any run is the out-of-fuel record ---- *)
Lemma pre_adds_no_fuel pre : forall s, ~ In OFuel (snd (pre_adds s pre)).
Proof.
  induction pre as [|[t l] pre IH]; intros s; cbn [pre_adds]; [intros []|].
  specialize (IH (add_event false s t l)). destruct (pre_adds (add_event false s t l) pre) as [a xs].
  cbn [snd] in *. intros [E|H]; [discriminate|exact (IH H)].
Qed.

Lemma step_no_fuel P s o s' x : step repaired P s o = (Some s', x) -> x <> OFuel.
Proof.
  destruct o as [k|T|t l]; cbn [step].
  - destruct (dispatch_n_events repaired P s k); intros H; [injection H as _ <-; discriminate|discriminate].
  - destruct (dispatch_events_until repaired P s T); intros H; [injection H as _ <-; discriminate|discriminate].
  - intros H. injection H as _ <-. discriminate.
Qed.

Lemma sched_no_fuel P ops : forall s s' xs, exec_sched repaired P s ops = (Some s', xs) -> ~ In OFuel xs.
Proof.
  induction ops as [|o ops IH]; intros s s' xs H; cbn [exec_sched] in H.
  - injection H as _ <-. intros [].
  - destruct (step repaired P s o) as [[s1|] x] eqn:E; [|discriminate].
    destruct (exec_sched repaired P s1 ops) as [s2 ys] eqn:E2. injection H as -> <-.
    intros [Hx|Hin]; [exact (step_no_fuel _ _ _ _ _ E Hx)|exact (IH _ _ _ E2 Hin)].
Qed.

Lemma run_block_total sc L sched : ~ In OFuel (run_block repaired sc L sched).
Proof.
  unfold run_block. pose proof (pre_adds_no_fuel (sc_pre sc) (rt_new repaired (sc_start sc) (sc_budget sc) L)) as H0.
  destruct (pre_adds (rt_new repaired (sc_start sc) (sc_budget sc) L) (sc_pre sc)) as [s0 o0]. cbn [snd] in H0.
  destruct (sched_total (sc_prog sc) sched s0) as [s1 [o1 E1]]. rewrite E1.
  pose proof (sched_no_fuel _ _ _ _ _ E1) as H1.
  destruct (dispatch_all_total (sc_prog sc) s1) as [s2 [E2 _]]. rewrite E2.
  intros H. apply in_app_or in H. destruct H as [H|H]; [exact (H0 H)|].
  apply in_app_or in H. destruct H as [H|[H|[]]]; [exact (H1 H)|discriminate].
Qed.

Theorem run_total sc : ~ In OFuel (run_script repaired sc).
Proof.
  unfold run_script. intros H. apply in_app_or in H. destruct H as [H|H]; [exact (run_block_total _ _ _ H)|].
  apply in_app_or in H. destruct H as [H|H]; exact (run_block_total _ _ _ H).
Qed.

(* ---- the special limits, on whole runs ---- *)
Lemma unlimited_log_sorted P S B pre u :
  dispatch_all repaired P (boot S B LNone pre) = Some u -> StronglySorted N.le (times (log u)).
Proof. intros H. apply (limited_run_accounting P S B pre LNone u H). Qed.

Theorem count_limit_run P S B pre n :
  exists u a, dispatch_all repaired P (boot S B LNone pre) = Some u /\
              dispatch_all repaired P (boot S B (LCount n) pre) = Some a /\
              log a = firstn (N.to_nat n) (log u).
Proof.
  destruct (limited_log_is_longest_admissible_prefix P S B pre (LCount n)) as [u [a [Hu [Ha E]]]].
  exists u, a. repeat split; try assumption. rewrite E. rewrite <- (N.add_0_l n) at 1. apply lprefix_count.
Qed.

Theorem time_limit_run P S B pre T :
  exists u a, dispatch_all repaired P (boot S B LNone pre) = Some u /\
              dispatch_all repaired P (boot S B (LTime T) pre) = Some a /\
              log a = filter (fun e => snd e <=? T) (log u).
Proof.
  destruct (limited_log_is_longest_admissible_prefix P S B pre (LTime T)) as [u [a [Hu [Ha E]]]].
  exists u, a. repeat split; try assumption. rewrite E. apply lprefix_time. eapply unlimited_log_sorted; exact Hu.
Qed.

Theorem and_or_run P S B pre la lb :
  exists a b o n,
    dispatch_all repaired P (boot S B la pre) = Some a /\ dispatch_all repaired P (boot S B lb pre) = Some b /\
    dispatch_all repaired P (boot S B (LOr la lb) pre) = Some o /\
    dispatch_all repaired P (boot S B (LAnd la lb) pre) = Some n /\
    length (log o) = Nat.min (length (log a)) (length (log b)) /\
    length (log n) = Nat.max (length (log a)) (length (log b)).
Proof.
  destruct (limited_log_is_longest_admissible_prefix P S B pre la) as [u [a [Hu [Ha Ea]]]].
  destruct (limited_log_is_longest_admissible_prefix P S B pre lb) as [u1 [b [Hu1 [Hb Eb]]]].
  destruct (limited_log_is_longest_admissible_prefix P S B pre (LOr la lb)) as [u2 [o [Hu2 [Ho Eo]]]].
  destruct (limited_log_is_longest_admissible_prefix P S B pre (LAnd la lb)) as [u3 [n [Hu3 [Hn En]]]].
  assert (u1 = u) by congruence. assert (u2 = u) by congruence. assert (u3 = u) by congruence. subst u1 u2 u3.
  exists a, b, o, n. repeat split; try assumption.
  - rewrite Eo, Ea, Eb. apply lprefix_or.
  - rewrite En, Ea, Eb. apply lprefix_and. eapply unlimited_log_sorted; exact Hu.
Qed.
