(* The runtime model of Runtime/Model.v (repaired semantics: the code as it is)
   over an ABSTRACT future event set: a state type Q with new / add / peek_time /
   fetch_next / len, where fetch_next takes a hint of an abstract type (the
   oracle of a backend whose choice among equal timestamps is unspecified; a
   deterministic backend ignores it).  [orc i] is the hint used when the i-th
   event (counted from 0) is dispatched.  Runtime/GenericProps.v proves the
   runtime-level statements of C02 from five facts about the event set;
   Runtime/HeapRt.v instantiates it with the BinaryHeap backend.
   Limit, script, wire format and output types are those of Model.v.
   No proofs in this file. *)
From Coq Require Import List NArith PArith Bool.
From DesVerif Require Import Common.Fuel Common.Codec Runtime.Limit Runtime.Model.
Import ListNotations.
Open Scope N_scope.

Section Generic.
Variables Q Hint : Type.
Variable q_new : N -> Q.                                  (* FutureEventSet::new_with (start time) *)
Variable q_add : Q -> N -> N -> Q * bool.                 (* add(time, label); false = panicked *)
Variable q_peek : Q -> option N.                          (* peek_time *)
Variable q_fetch : Hint -> Q -> Q * option (N * N).       (* fetch_next -> (time, label); None = panicked *)
Variable q_len : Q -> N.                                  (* len; is_empty = (len == 0) *)
Variable orc : N -> Hint.

Record grt := {
  gfes : Q; gclock : N; gitr : N; glimit : lim; gbudget : N; glog : list (N * N); gadds : list add_rec }.

Definition gset_limit (s : grt) (l : lim) : grt :=
  {| gfes := gfes s; gclock := gclock s; gitr := gitr s; glimit := l; gbudget := gbudget s; glog := glog s; gadds := gadds s |}.
Definition gdec_budget (s : grt) : grt :=
  {| gfes := gfes s; gclock := gclock s; gitr := gitr s; glimit := glimit s; gbudget := gbudget s - 1; glog := glog s; gadds := gadds s |}.

Definition grt_new (start bud : N) (l : lim) : grt :=
  {| gfes := q_new start; gclock := start; gitr := 0; glimit := l; gbudget := bud; glog := []; gadds := [] |}.

Definition gadd_event (inh : bool) (s : grt) (time label : N) : grt :=
  let r := q_add (gfes s) time label in
  {| gfes := fst r; gclock := gclock s; gitr := gitr s; glimit := glimit s; gbudget := gbudget s; glog := glog s;
     gadds := gadds s ++ [{| a_time := time; a_label := label; a_now := gclock s;
                             a_ctx := if inh then gitr s else 0; a_ok := snd r |}] |}.

Definition glast_ok (s : grt) : bool := match rev (gadds s) with r :: _ => a_ok r | [] => false end.

Definition gadd_event_in (s : grt) (dur label : N) : grt := gadd_event true s (gclock s + dur) label.

Fixpoint gdo_actions (acts : list action) (s : grt) : grt :=
  match acts with
  | [] => s
  | (k, x, l) :: r =>
      if gbudget s =? 0 then s
      else gdo_actions r (if k =? 0 then gadd_event_in (gdec_budget s) x l else gadd_event true (gdec_budget s) x l)
  end.

Definition ghandle (P : prog) (label : N) (s : grt) : grt := gdo_actions (nth (N.to_nat label) P []) s.

(* itr += 1; SimTime::set_now(time); (the handler logs (label, now())) *)
Definition gfetched (s : grt) (q : Q) (label time : N) : grt :=
  {| gfes := q; gclock := time; gitr := gitr s + 1; glimit := glimit s; gbudget := gbudget s;
     glog := glog s ++ [(label, time)]; gadds := gadds s |}.

(* dispatch_event: peek_time; limit test; fetch_next; set_now; handle *)
Definition gdispatch_event (P : prog) (s : grt) : grt + grt :=
  match q_peek (gfes s) with
  | None => inr s
  | Some time =>
      if applies (glimit s) (gitr s + 1) time then inr s
      else match q_fetch (orc (gitr s)) (gfes s) with
           | (q, Some (tm, label)) => inl (ghandle P label (gfetched s q label tm))
           | _ => inr s
           end
  end.

Definition gloop_fuel (s : grt) : positive := N.succ_pos (gbudget s + q_len (gfes s)).

Definition gdispatch_all (P : prog) (s : grt) : option grt :=
  match iter_until (gloop_fuel s) (gdispatch_event P) s with
  | inr s' => Some s'
  | inl _ => None
  end.

Definition gwith_limit (P : prog) (l : lim) (s : grt) : option grt :=
  match gdispatch_all P (gset_limit s l) with
  | Some s' => Some (gset_limit s' (glimit s))
  | None => None
  end.
Definition gdispatch_n_events (P : prog) (s : grt) (k : N) : option grt := gwith_limit P (LCount (gitr s + k)) s.
Definition gdispatch_events_until (P : prog) (s : grt) (T : N) : option grt := gwith_limit P (LTime T) s.

(* finish: while !is_empty { remaining.push(fetch_next()) } *)
Fixpoint gdrain (h : Hint) (k : nat) (q : Q) : list (N * N) :=
  match k with
  | O => []
  | S k' => match q_fetch h q with
            | (q', Some e) => e :: gdrain h k' q'
            | _ => []
            end
  end.
Definition gremaining (s : grt) : list (N * N) := gdrain (orc (gitr s)) (N.to_nat (q_len (gfes s))) (gfes s).

Definition gstatus (s : grt) : sout := OStatus (gitr s) (q_len (gfes s)) (gclock s) (N.of_nat (length (gadds s))).

Definition gstep (P : prog) (s : grt) (o : sop) : option grt * sout :=
  match o with
  | SN k => match gdispatch_n_events P s k with Some s' => (Some s', gstatus s') | None => (None, OFuel) end
  | SUntil T => match gdispatch_events_until P s T with Some s' => (Some s', gstatus s') | None => (None, OFuel) end
  | SAdd t l => let s' := gadd_event false s t l in (Some s', OAddRes (glast_ok s'))
  end.

Definition gfinish (s : grt) : sout := OFinal (gitr s) (gclock s) (glog s) (gadds s) (isort (gremaining s)).

Fixpoint gexec_sched (P : prog) (s : grt) (ops : list sop) : option grt * list sout :=
  match ops with
  | [] => (Some s, [])
  | o :: r => match gstep P s o with
              | (Some s', x) => let '(s'', xs) := gexec_sched P s' r in (s'', x :: xs)
              | (None, x) => (None, [x])
              end
  end.

Fixpoint gpre_adds (s : grt) (pre : list (N * N)) : grt * list sout :=
  match pre with
  | [] => (s, [])
  | (t, l) :: r => let s' := gadd_event false s t l in
                   let '(s'', xs) := gpre_adds s' r in (s'', OAddRes (glast_ok s') :: xs)
  end.

Definition gboot (S B : N) (L : lim) (pre : list (N * N)) : grt := fst (gpre_adds (grt_new S B L) pre).

(* build; add_event*; start; schedule; dispatch_all; finish.  The final state is returned as well. *)
Definition grun_block (sc : script) (l : lim) (sched : list sop) : list sout * option grt :=
  let '(s0, o0) := gpre_adds (grt_new (sc_start sc) (sc_budget sc) l) (sc_pre sc) in
  match gexec_sched (sc_prog sc) s0 sched with
  | (Some s1, o1) => match gdispatch_all (sc_prog sc) s1 with
                     | Some s2 => (o0 ++ o1 ++ [gfinish s2], Some s2)
                     | None => (o0 ++ o1 ++ [OFuel], None)
                     end
  | (None, o1) => (o0 ++ o1, None)
  end.

End Generic.
