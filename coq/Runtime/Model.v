(* Executable model of des/src/runtime/mod.rs (Runtime<App>: add_event,
   add_event_in, dispatch_event, dispatch_all, dispatch_n_events,
   dispatch_events_until, run/start/finish) over the future event set.
   The event set is the two-list specification CQueue.Spec.sp, which
   C01_refines_spec proves the calendar queue agrees with for every bucket
   count and width; the payload of an event is its label.  User code is a
   script: a table label -> actions executed by the handler of an event with
   that label.  No proofs in this file.

   [variant] selects the semantics of the two places that were repaired:
     v_start = true : the event set's clock starts at Builder::start_time
                      (fix: commit d335396; false: at zero, whatever the start
                      time -- F2)
     v_peek  = true : dispatch_event decides the limit on the timestamp of the
                      next event without removing it (fix: commit f4552a6;
                      false: fetch it, and put it back with `add` when the
                      limit applies -- F7, F8)
   [run] is the code as it is now (both repairs); Refuted/C02.v and
   Refuted/C10.v instantiate the pinned behaviour. *)
From Coq Require Import List NArith PArith Bool.
From DesVerif Require Import Common.Fuel Common.Codec CQueue.Model CQueue.Spec Runtime.Limit.
Import ListNotations.
Open Scope N_scope.

Record variant := { v_start : bool; v_peek : bool }.
Definition repaired : variant := {| v_start := true; v_peek := true |}.
Definition pinned : variant := {| v_start := false; v_peek := false |}.

(* one attempt to schedule an event: requested time, label, SimTime::now() at
   the call, where the call was made (0 = from outside: before the run or
   while paused; i >= 1 = inside the handler of the i-th dispatched event),
   accepted (true) or rejected with a panic (false) *)
Record add_rec := { a_time : N; a_label : N; a_now : N; a_ctx : N; a_ok : bool }.

(* handler action: kind 0 = add_event_in(label, delay x); otherwise
   add_event(label, absolute time x) *)
Definition action := (N * N * N)%type.
Definition prog := list (list action).

Record rt := {
  fes : sp;                 (* future_event_set *)
  clock : N;                (* SIMTIME, what SimTime::now() / sim_time() return *)
  itr : N;                  (* num_events_dispatched *)
  limit : lim;
  budget : N;               (* scripted user code: handler actions still allowed *)
  log : list (N * N);       (* (label, SimTime::now()) written by each handler *)
  adds : list add_rec }.    (* every add_event / add_event_in attempt, in order *)

Definition set_limit (s : rt) (l : lim) : rt :=
  {| fes := fes s; clock := clock s; itr := itr s; limit := l; budget := budget s; log := log s; adds := adds s |}.
Definition set_fes (s : rt) (q : sp) : rt :=
  {| fes := q; clock := clock s; itr := itr s; limit := limit s; budget := budget s; log := log s; adds := adds s |}.
Definition dec_budget (s : rt) : rt :=
  {| fes := fes s; clock := clock s; itr := itr s; limit := limit s; budget := budget s - 1; log := log s; adds := adds s |}.

(* FutureEventSet::new_with: CQueue::new_at(n, t, start_time) -- an empty event
   set whose clock is [start] (Spec.sp_new_at) -- resp. CQueue::new *)
Definition new_fes (v : variant) (start : N) : sp := if v_start v then sp_new_at start else sp_new.

(* Builder::build *)
Definition rt_new (v : variant) (start bud : N) (l : lim) : rt :=
  {| fes := new_fes v start; clock := start; itr := 0; limit := l; budget := bud; log := []; adds := [] |}.

Definition added_ok (o : out) : bool := match o with OAdded => true | _ => false end.

(* Runtime::add_event(event, time), under catch_unwind: the event set asserts
   time >= its clock before it changes anything *)
Definition add_event (inh : bool) (s : rt) (time label : N) : rt :=
  let r := sp_add (fes s) time label in
  {| fes := fst (fst r); clock := clock s; itr := itr s; limit := limit s; budget := budget s; log := log s;
     adds := adds s ++ [{| a_time := time; a_label := label; a_now := clock s;
                           a_ctx := if inh then itr s else 0; a_ok := added_ok (snd r) |}] |}.

Definition last_ok (s : rt) : bool :=
  match rev (adds s) with r :: _ => a_ok r | [] => false end.

(* Runtime::add_event_in(event, dur) = add_event(event, sim_time() + dur) *)
Definition add_event_in (s : rt) (dur label : N) : rt := add_event true s (clock s + dur) label.

(* the scripted Event::handle: run the label's actions while the global action
   budget lasts (the budget makes every program finite) *)
Fixpoint do_actions (acts : list action) (s : rt) : rt :=
  match acts with
  | [] => s
  | (k, x, l) :: r =>
      if budget s =? 0 then s
      else do_actions r (if k =? 0 then add_event_in (dec_budget s) x l else add_event true (dec_budget s) x l)
  end.

Definition handle (P : prog) (label : N) (s : rt) : rt := do_actions (nth (N.to_nat label) P []) s.

(* FutureEventSet::peek_time: timestamp of the event fetch_next would return (Spec.sp_peek) *)
Definition peek (q : sp) : option N := match sp_peek q with OPeek o => o | _ => None end.

(* the part of dispatch_event after the limit test: itr += 1; set_now(time); event.handle(self) *)
Definition deliver (P : prog) (s : rt) (q : sp) (label time : N) : rt :=
  handle P label {| fes := q; clock := time; itr := itr s + 1; limit := limit s; budget := budget s;
                    log := log s ++ [(label, time)]; adds := adds s |}.

(* dispatch_event; inl = `false` (go on), inr = `true` (stop) *)
Definition dispatch_event_peek (P : prog) (s : rt) : rt + rt :=
  match peek (fes s) with
  | None => inr s
  | Some time =>
      if applies (limit s) (itr s + 1) time then inr s
      else match sp_fetch (fes s) with
           | (q, OFetched label tm) => inl (deliver P s q label tm)
           | _ => inr s
           end
  end.

Definition dispatch_event_putback (P : prog) (s : rt) : rt + rt :=
  if sp_len (fes s) =? 0 then inr s
  else match sp_fetch (fes s) with
       | (q, OFetched label tm) =>
           if applies (limit s) (itr s + 1) tm then inr (set_fes s (fst (fst (sp_add q tm label))))
           else inl (deliver P s q label tm)
       | _ => inr s
       end.

Definition dispatch_event (v : variant) (P : prog) (s : rt) : rt + rt :=
  if v_peek v then dispatch_event_peek P s else dispatch_event_putback P s.

(* every dispatched event removes one pending event and every event it
   schedules costs one unit of budget, so this many iterations always reach
   `true` (Runtime/Inv.v: dispatch_all_total) *)
Definition loop_fuel (s : rt) : positive := N.succ_pos (budget s + sp_len (fes s)).

(* dispatch_all: while !self.dispatch_event() {} ; None = out of fuel *)
Definition dispatch_all (v : variant) (P : prog) (s : rt) : option rt :=
  match iter_until (loop_fuel s) (dispatch_event v P) s with
  | inr s' => Some s'
  | inl _ => None
  end.

(* the step functions swap their own limit in and the configured one back *)
Definition with_limit (v : variant) (P : prog) (l : lim) (s : rt) : option rt :=
  match dispatch_all v P (set_limit s l) with
  | Some s' => Some (set_limit s' (limit s))
  | None => None
  end.
Definition dispatch_n_events (v : variant) (P : prog) (s : rt) (k : N) : option rt :=
  with_limit v P (LCount (itr s + k)) s.
Definition dispatch_events_until (v : variant) (P : prog) (s : rt) (T : N) : option rt :=
  with_limit v P (LTime T) s.

(* ---- canonical form of Profiler::remaining: sorted by (time, label) ---- *)
Definition ple (a b : N * N) : bool := (fst a <? fst b) || ((fst a =? fst b) && (snd a <=? snd b)).
Fixpoint pins (a : N * N) (l : list (N * N)) : list (N * N) :=
  match l with [] => [a] | x :: r => if ple a x then a :: x :: r else x :: pins a r end.
Definition isort (l : list (N * N)) : list (N * N) := fold_right pins [] l.

(* the undelivered events as (time, label), in the order finish drains them *)
Definition pend (q : sp) : list (N * N) := map (fun e => (etime e, epay e)) (s_zero q ++ s_rest q).

(* ---- scripts ---- *)
Inductive sop := SN (k : N) | SUntil (T : N) | SAdd (time label : N).

Inductive sout :=
| OAddRes (ok : bool)
| OStatus (dispatched remaining now nadds : N)
| OFinal (event_count end_time : N) (lg : list (N * N)) (ad : list add_rec) (rem : list (N * N))
| OFuel.

Definition status (s : rt) : sout := OStatus (itr s) (sp_len (fes s)) (clock s) (N.of_nat (length (adds s))).

Definition step (v : variant) (P : prog) (s : rt) (o : sop) : option rt * sout :=
  match o with
  | SN k => match dispatch_n_events v P s k with Some s' => (Some s', status s') | None => (None, OFuel) end
  | SUntil T => match dispatch_events_until v P s T with Some s' => (Some s', status s') | None => (None, OFuel) end
  | SAdd t l => let s' := add_event false s t l in (Some s', OAddRes (last_ok s'))
  end.

(* finish: (app, sim_time(), profiler{event_count = itr, remaining = drained set}) *)
Definition finish (s : rt) : sout := OFinal (itr s) (clock s) (log s) (adds s) (isort (pend (fes s))).

Fixpoint exec_sched (v : variant) (P : prog) (s : rt) (ops : list sop) : option rt * list sout :=
  match ops with
  | [] => (Some s, [])
  | o :: r => match step v P s o with
              | (Some s', x) => let '(s'', xs) := exec_sched v P s' r in (s'', x :: xs)
              | (None, x) => (None, [x])
              end
  end.

Fixpoint pre_adds (s : rt) (pre : list (N * N)) : rt * list sout :=
  match pre with
  | [] => (s, [])
  | (t, l) :: r => let s' := add_event false s t l in
                   let '(s'', xs) := pre_adds s' r in (s'', OAddRes (last_ok s') :: xs)
  end.

Record script := { sc_start : N; sc_budget : N; sc_calls : list bcall; sc_prog : prog;
                   sc_pre : list (N * N); sc_sched : list sop }.

(* build; add_event*; start; schedule; dispatch_all; finish *)
Definition run_block (v : variant) (sc : script) (l : lim) (sched : list sop) : list sout :=
  let '(s0, o0) := pre_adds (rt_new v (sc_start sc) (sc_budget sc) l) (sc_pre sc) in
  match exec_sched v (sc_prog sc) s0 sched with
  | (Some s1, o1) => match dispatch_all v (sc_prog sc) s1 with
                     | Some s2 => o0 ++ o1 ++ [finish s2]
                     | None => o0 ++ o1 ++ [OFuel]
                     end
  | (None, o1) => o0 ++ o1
  end.

(* three runs of the same program: without a limit; Runtime::run() with the
   configured limit; the stepped run with the configured limit *)
Definition run_script (v : variant) (sc : script) : list sout :=
  run_block v sc LNone [] ++ run_block v sc (build_limit (sc_calls sc)) []
  ++ run_block v sc (build_limit (sc_calls sc)) (sc_sched sc).

(* ---- wire format ----
   script: n t u start budget cbk cbt  nb {bcall}  K {na {action}}  np {time label}  {sop}
     bcall  = 1 n | 2 T | 3 tree      tree = 0 | 1 n | 2 T | 3 tree tree | 4 tree tree
     action = kind x label            sop  = 1 k | 2 T | 3 time label
   A missing number reads as 0 (Cur::next in harness/src/lib.rs). *)
Definition nx (l : list N) : N * list N := match l with [] => (0, []) | x :: r => (x, r) end.

Fixpoint dec_lim (fuel : nat) (l : list N) : lim * list N :=
  match fuel with
  | O => (LNone, l)
  | S f =>
      let '(tag, r) := nx l in
      match tag with
      | 1 => let '(n, r1) := nx r in (LCount n, r1)
      | 2 => let '(T, r1) := nx r in (LTime T, r1)
      | 3 => let '(a, r1) := dec_lim f r in let '(b, r2) := dec_lim f r1 in (LAnd a b, r2)
      | 4 => let '(a, r1) := dec_lim f r in let '(b, r2) := dec_lim f r1 in (LOr a b, r2)
      | _ => (LNone, r)
      end
  end.

Definition dec_bcall (l : list N) : bcall * list N :=
  let '(tag, r) := nx l in
  match tag with
  | 1 => let '(n, r1) := nx r in (MaxItr n, r1)
  | 2 => let '(T, r1) := nx r in (MaxTime T, r1)
  | _ => let '(a, r1) := dec_lim (S (length r)) r in (Limit a, r1)
  end.

(* up to k items, stopping at the end of the input *)
Fixpoint dec_many {A} (fuel : nat) (dec1 : list N -> A * list N) (k : N) (l : list N) : list A * list N :=
  match fuel with
  | O => ([], l)
  | S f =>
      if k =? 0 then ([], l)
      else match l with
           | [] => ([], [])
           | _ => let '(a, r) := dec1 l in
                  let '(xs, r') := dec_many f dec1 (k - 1) r in (a :: xs, r')
           end
  end.

Definition dec_counted {A} (dec1 : list N -> A * list N) (l : list N) : list A * list N :=
  let '(k, r) := nx l in dec_many (length r) dec1 k r.

Definition dec_action (l : list N) : action * list N :=
  let '(k, r) := nx l in let '(x, r1) := nx r in let '(lb, r2) := nx r1 in ((k, x, lb), r2).

Definition dec_pair (l : list N) : (N * N) * list N :=
  let '(a, r) := nx l in let '(b, r1) := nx r in ((a, b), r1).

Definition dec_sop (l : list N) : option (sop * list N) :=
  match l with
  | 1 :: r => let '(k, r1) := nx r in Some (SN k, r1)
  | 2 :: r => let '(T, r1) := nx r in Some (SUntil T, r1)
  | 3 :: r => let '(t, r1) := nx r in let '(lb, r2) := nx r1 in Some (SAdd t lb, r2)
  | _ => None
  end.

Definition dec_script (l : list N) : script :=
  let '(start, r) := nx l in
  let '(bud, r) := nx r in
  let '(_, r) := nx r in       (* cbk, cbt: the harness's "concurrent Builder::build" dimension; *)
  let '(_, r) := nx r in       (* nothing the runtime does depends on it *)
  let '(calls, r) := dec_counted dec_bcall r in
  let '(pr, r) := dec_counted (dec_counted dec_action) r in
  let '(pre, r) := dec_counted dec_pair r in
  {| sc_start := start; sc_budget := bud; sc_calls := calls; sc_prog := pr; sc_pre := pre;
     sc_sched := decode_all dec_sop r |}.

Definition enc_pairs (l : list (N * N)) : list N :=
  N.of_nat (length l) :: flat_map (fun p => [fst p; snd p]) l.
Definition enc_adds (l : list add_rec) : list N :=
  N.of_nat (length l) :: flat_map (fun r => [a_time r; a_label r; a_now r; a_ctx r; b2n (a_ok r)]) l.

Definition enc_sout (o : sout) : list N :=
  match o with
  | OAddRes true => [1]
  | OAddRes false => [9; 1]
  | OStatus d r t k => [3; d; r; t; k]
  | OFinal c e lg ad rm => [4; c; e] ++ enc_pairs lg ++ enc_adds ad ++ enc_pairs rm
  | OFuel => [8]
  end.

(* ---- time unit ----
   Every time on the wire (start time, limits, delays, absolute times, step
   arguments) is given in units of u nanoseconds (u = 0 means 1) and every
   printed time is divided by u again (all times of a run are multiples of u, so
   this is exact): scripts reach timestamps far beyond 2^64 ns although every
   number on the wire stays below 2^62.  The calendar-queue parameters n, t stay
   in plain nanoseconds. *)
Definition unit_of (u : N) : N := if u =? 0 then 1 else u.

Fixpoint scale_lim (u : N) (l : lim) : lim :=
  match l with
  | LTime T => LTime (T * u)
  | LAnd a b => LAnd (scale_lim u a) (scale_lim u b)
  | LOr a b => LOr (scale_lim u a) (scale_lim u b)
  | _ => l
  end.

Definition scale_bcall (u : N) (c : bcall) : bcall :=
  match c with MaxItr n => MaxItr n | MaxTime T => MaxTime (T * u) | Limit l => Limit (scale_lim u l) end.

Definition scale_sop (u : N) (o : sop) : sop :=
  match o with SN k => SN k | SUntil T => SUntil (T * u) | SAdd t l => SAdd (t * u) l end.

Definition scale_script (u : N) (sc : script) : script :=
  {| sc_start := sc_start sc * u; sc_budget := sc_budget sc;
     sc_calls := map (scale_bcall u) (sc_calls sc);
     sc_prog := map (map (fun a : action => let '(k, x, l) := a in (k, x * u, l))) (sc_prog sc);
     sc_pre := map (fun p => (fst p * u, snd p)) (sc_pre sc);
     sc_sched := map (scale_sop u) (sc_sched sc) |}.

Definition unscale_sout (u : N) (o : sout) : sout :=
  match o with
  | OStatus d r t k => OStatus d r (t / u) k
  | OFinal c e lg ad rm =>
      OFinal c (e / u) (map (fun p => (fst p, snd p / u)) lg)
             (map (fun r => {| a_time := a_time r / u; a_label := a_label r; a_now := a_now r / u;
                               a_ctx := a_ctx r; a_ok := a_ok r |}) ad)
             (map (fun p => (fst p / u, snd p)) rm)
  | _ => o
  end.

Definition run_gen (v : variant) (input : list N) : list N :=
  match input with
  | n :: t :: u0 :: r =>
      if (n =? 0) || (t =? 0) then [7]
      else let u := unit_of u0 in
           flat_map enc_sout (map (unscale_sout u) (run_script v (scale_script u (dec_script r))))
  | _ => [7]
  end.

(* n and t (the calendar-queue parameters) are read and ignored: by
   C01_refines_spec the event set does not depend on them *)
Definition run (input : list N) : list N := run_gen repaired input.
