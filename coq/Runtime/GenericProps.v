(* The runtime-level statements of C02 for the runtime over ANY future event
   set [E : evset] (Runtime/EvSet.v: the operations plus six facts).
   Runtime/Instances.v builds the three event sets: the specification, the
   calendar queue (every n, t >= 1) and the BinaryHeap backend (every oracle). *)
From Coq Require Import List Arith NArith PArith ZArith.Znat Lia Bool Sorting.Sorted Permutation ZifyBool.
From DesVerif Require Import Common.Fuel Common.Codec Runtime.Limit Runtime.Model Runtime.Queue Runtime.Inv Runtime.Generic Runtime.EvSet.
Import ListNotations.
Open Scope N_scope.

Section GenericProps.
Variable EV : evset.
Local Notation Q := (eQ EV).
Local Notation Hint := (eHint EV).
Local Notation q_new := (e_new EV).
Local Notation q_add := (e_add EV).
Local Notation q_peek := (e_peek EV).
Local Notation q_fetch := (e_fetch EV).
Local Notation q_len := (e_len EV).
Local Notation QI := (eI EV).
Local Notation q_clock := (e_clock EV).
Local Notation q_pend := (e_pend EV).
Local Notation H_new := (e_new_ok EV).
Local Notation H_add_lt := (e_add_lt EV).
Local Notation H_add_ge := (e_add_ge EV).
Local Notation H_len := (e_len_ok EV).
Local Notation H_peek_none := (e_peek_none EV).
Local Notation H_fetch := (e_fetch_ok EV).
Variable orc : N -> Hint.

Local Notation rt := (grt Q).
Local Notation gadd := (gadd_event Q q_add).
Local Notation gacts := (gdo_actions Q q_add).
Local Notation gD := (gdispatch_event Q Hint q_add q_peek q_fetch orc).
Local Notation gall := (gdispatch_all Q Hint q_add q_peek q_fetch q_len orc).
Local Notation gwith := (gwith_limit Q Hint q_add q_peek q_fetch q_len orc).
Local Notation gstp := (gstep Q Hint q_add q_peek q_fetch q_len orc).
Local Notation gsched := (gexec_sched Q Hint q_add q_peek q_fetch q_len orc).
Local Notation gpre := (gpre_adds Q q_add).
Local Notation gbt := (gboot Q q_new q_add).
Local Notation grem := (gremaining Q Hint q_fetch q_len orc).

Record GInv (S : N) (s : rt) : Prop := {
  G_qi : QI (gfes Q s);
  G_clk : q_clock (gfes Q s) = gclock Q s;
  G_sorted : StronglySorted N.le (times (glog Q s));
  G_bound : Forall (fun t => S <= t /\ t <= gclock Q s) (times (glog Q s));
  G_start : S <= gclock Q s;
  G_last : gclock Q s = last (times (glog Q s)) S;
  G_itr : gitr Q s = N.of_nat (length (glog Q s));
  G_adds : Forall rec_ok (gadds Q s);
  G_acct : Permutation (accepted (gadds Q s)) (handled (glog Q s) ++ q_pend (gfes Q s)) }.

Definition gmu (s : rt) : nat := (N.to_nat (gbudget Q s) + length (q_pend (gfes Q s)))%nat.

Lemma GInv_same S s s' :
  gfes Q s' = gfes Q s -> gclock Q s' = gclock Q s -> glog Q s' = glog Q s -> gadds Q s' = gadds Q s -> gitr Q s' = gitr Q s ->
  GInv S s -> GInv S s'.
Proof. intros E1 E2 E3 E4 E5 [H1 H2 H3 H4 H5 H6 H7 H8 H9]. constructor; rewrite ?E1, ?E2, ?E3, ?E4, ?E5; assumption. Qed.

Lemma GInv_set_limit S s L : GInv S s -> GInv S (gset_limit Q s L).
Proof. apply GInv_same; reflexivity. Qed.

Lemma GInv_new S B L : GInv S (grt_new Q q_new S B L).
Proof.
  destruct (H_new S) as [H1 [H2 H3]]. constructor; cbn.
  - exact H1. - exact H2. - constructor. - constructor. - lia. - reflexivity. - reflexivity. - constructor.
  - rewrite H3. constructor.
Qed.

(* add_event: the verdict, and what it does to the invariant and the measure *)
Lemma gadd_spec S inh s t l :
  GInv S s ->
  GInv S (gadd inh s t l) /\ (gmu (gadd inh s t l) <= gmu s + 1)%nat /\
  glast_ok Q (gadd inh s t l) = (gclock Q s <=? t) /\
  (t < gclock Q s -> gfes Q (gadd inh s t l) = gfes Q s).
Proof.
  intros [H1 H2 H3 H4 H5 H6 H7 H8 H9]. unfold gadd_event, glast_ok, gmu. cbn [gadds gfes gbudget].
  rewrite rev_app_distr. cbn [rev app a_ok].
  destruct (N.lt_ge_cases t (q_clock (gfes Q s))) as [Hlt|Hge].
  - rewrite (H_add_lt _ _ l H1 Hlt). cbn [fst snd]. split; [|split; [lia|split; [lia|reflexivity]]].
    constructor; cbn [gfes gclock gitr glog gadds]; try assumption.
    + apply Forall_app. split; [exact H8|]. constructor; [|constructor]. unfold rec_ok. cbn. lia.
    + rewrite accepted_snoc. cbn [a_ok]. rewrite app_nil_r. exact H9.
  - destruct (H_add_ge _ _ l H1 Hge) as [q' [Ea [I' [C' P']]]]. rewrite Ea. cbn [fst snd].
    split; [|split; [rewrite (Permutation_length P'); cbn [length]; lia|split; [lia|intros; lia]]].
    constructor; cbn [gfes gclock gitr glog gadds]; try assumption.
    + congruence.
    + apply Forall_app. split; [exact H8|]. constructor; [|constructor]. unfold rec_ok. cbn. lia.
    + rewrite accepted_snoc. cbn [a_ok a_time a_label]. rewrite P', H9.
      rewrite <- app_assoc. apply Permutation_app_head. symmetry. apply Permutation_cons_append.
Qed.

Lemma gacts_spec S acts : forall s,
  GInv S s ->
  GInv S (gacts acts s) /\ (gmu (gacts acts s) <= gmu s)%nat /\
  gclock Q (gacts acts s) = gclock Q s /\ gitr Q (gacts acts s) = gitr Q s /\
  glimit Q (gacts acts s) = glimit Q s /\ glog Q (gacts acts s) = glog Q s.
Proof.
  induction acts as [|[[k x] l] acts IH]; intros s HI; cbn [gdo_actions]; [split; [exact HI|]; split; [lia|]; repeat split|].
  destruct (gbudget Q s =? 0) eqn:B; [split; [exact HI|]; split; [lia|]; repeat split|].
  assert (HIb : GInv S (gdec_budget Q s)) by (revert HI; apply GInv_same; reflexivity).
  assert (Hstep : forall t, let s1 := gadd true (gdec_budget Q s) t l in
            GInv S s1 /\ (gmu s1 <= gmu s)%nat /\ gclock Q s1 = gclock Q s /\ gitr Q s1 = gitr Q s /\
            glimit Q s1 = glimit Q s /\ glog Q s1 = glog Q s).
  { intros t. destruct (gadd_spec S true (gdec_budget Q s) t l HIb) as [A1 [A2 _]]. cbn zeta.
    split; [exact A1|]. split; [|repeat split]. unfold gmu in *. cbn [gbudget gdec_budget gfes] in *. lia. }
  destruct (k =? 0).
  - unfold gadd_event_in. destruct (Hstep (gclock Q (gdec_budget Q s) + x)) as [A1 [A2 [A3 [A4 [A5 A6]]]]].
    destruct (IH _ A1) as [B1 [B2 [B3 [B4 [B5 B6]]]]]. split; [exact B1|]. split; [lia|]. repeat split; congruence.
  - destruct (Hstep x) as [A1 [A2 [A3 [A4 [A5 A6]]]]].
    destruct (IH _ A1) as [B1 [B2 [B3 [B4 [B5 B6]]]]]. split; [exact B1|]. split; [lia|]. repeat split; congruence.
Qed.

(* the state right after fetch_next; itr += 1; set_now(time) *)
Lemma GInv_fetched S s q' l t :
  GInv S s -> QI q' -> q_clock q' = t -> q_clock (gfes Q s) <= t -> Permutation (q_pend (gfes Q s)) ((t, l) :: q_pend q') ->
  GInv S (gfetched Q s q' l t) /\ (gmu (gfetched Q s q' l t) < gmu s)%nat.
Proof.
  intros [H1 H2 H3 H4 H5 H6 H7 H8 H9] I' C' Hle P'. split.
  - constructor; cbn [gfetched gfes gclock gitr glog gadds]; unfold times in *; rewrite ?map_app; cbn [map snd]; try assumption.
    + apply sorted_snoc; [exact H3|]. eapply Forall_impl; [|exact H4]. cbn. intros y Hy. lia.
    + apply Forall_app. split.
      * eapply Forall_impl; [|exact H4]. cbn. intros y Hy. lia.
      * constructor; [lia|constructor].
    + lia.
    + rewrite last_last. reflexivity.
    + rewrite app_length. cbn [length]. lia.
    + rewrite H9, P'. unfold handled. rewrite map_app, <- app_assoc. reflexivity.
  - unfold gmu. cbn [gfetched gfes gbudget]. rewrite (Permutation_length P'). cbn [length]. lia.
Qed.

(* dispatch_event: the three cases.  In the third the dispatched entry (t, l)
   was pending with exactly that time, the clock becomes t before the handler
   runs, and the handler logs (l, now() = t). *)
Lemma gD_cases S P s :
  GInv S s ->
  (q_peek (gfes Q s) = None /\ gD P s = inr s) \/
  (exists t, q_peek (gfes Q s) = Some t /\ applies (glimit Q s) (gitr Q s + 1) t = true /\ gD P s = inr s) \/
  (exists t l q', q_peek (gfes Q s) = Some t /\ applies (glimit Q s) (gitr Q s + 1) t = false /\
                  In (t, l) (q_pend (gfes Q s)) /\ gclock Q s <= t /\
                  gD P s = inl (ghandle Q q_add P l (gfetched Q s q' l t)) /\
                  GInv S (gfetched Q s q' l t) /\ (gmu (gfetched Q s q' l t) < gmu s)%nat).
Proof.
  intros HI. unfold gdispatch_event. destruct (q_peek (gfes Q s)) as [t|] eqn:Ep; [|left; split; reflexivity].
  right. destruct (applies (glimit Q s) (gitr Q s + 1) t) eqn:A; [left; exists t; split; [reflexivity|]; split; [exact A|reflexivity]|].
  right. destruct (H_fetch _ _ (orc (gitr Q s)) (G_qi _ _ HI) Ep) as [q' [l [F [I' [C' [Hle P']]]]]].
  exists t, l, q'. rewrite F. split; [reflexivity|]. split; [exact A|].
  split; [apply (Permutation_in _ (Permutation_sym P')); left; reflexivity|].
  split; [rewrite <- (G_clk _ _ HI); exact Hle|]. split; [reflexivity|].
  apply GInv_fetched; assumption.
Qed.

Lemma giter S P k : forall s, GInv S s -> (gmu s < k)%nat -> exists s', iter_nat k (gD P) s = inr s' /\ GInv S s'.
Proof.
  induction k as [|k IH]; intros s HI Hk; [lia|]. cbn [iter_nat].
  destruct (gD_cases S P s HI) as [[_ E]|[[t [_ [_ E]]]|[t [l [q' [_ [_ [_ [_ [E [HI' Hm]]]]]]]]]]]; rewrite E.
  - exists s. split; [reflexivity|exact HI].
  - exists s. split; [reflexivity|exact HI].
  - unfold ghandle. destruct (gacts_spec S (nth (N.to_nat l) P []) _ HI') as [A1 [A2 _]]. apply IH; [exact A1|lia].
Qed.

Lemma gloop_fuel_nat S s : GInv S s -> Pos.to_nat (gloop_fuel Q q_len s) = Datatypes.S (gmu s).
Proof.
  intros HI. unfold gloop_fuel, gmu. rewrite (H_len _ (G_qi _ _ HI)).
  rewrite <- positive_N_nat, N.succ_pos_spec, N2Nat.inj_succ, N2Nat.inj_add, Nat2N.id. reflexivity.
Qed.

(* the event loop terminates and keeps the invariant *)
Lemma gall_total S P s : GInv S s -> exists s', gall P s = Some s' /\ GInv S s'.
Proof.
  intros HI. unfold gdispatch_all. rewrite iter_until_nat, (gloop_fuel_nat S s HI).
  destruct (giter S P (Datatypes.S (gmu s)) s HI) as [s' [E HI']]; [lia|]. rewrite E. exists s'. split; [reflexivity|exact HI'].
Qed.

Lemma gwith_total S P L s : GInv S s -> exists s', gwith P L s = Some s' /\ GInv S s'.
Proof.
  intros HI. unfold gwith_limit. destruct (gall_total S P _ (GInv_set_limit S s L HI)) as [s1 [E HI1]]. rewrite E.
  eexists. split; [reflexivity|]. apply GInv_set_limit. exact HI1.
Qed.

Lemma gstep_total S P s o : GInv S s -> exists s' x, gstp P s o = (Some s', x) /\ GInv S s' /\ x <> OFuel.
Proof.
  intros HI. destruct o as [k|T|t l]; cbn [gstep]; unfold gdispatch_n_events, gdispatch_events_until.
  - destruct (gwith_total S P (LCount (gitr Q s + k)) s HI) as [s1 [-> HI1]]. eexists _, _. split; [reflexivity|]. split; [exact HI1|discriminate].
  - destruct (gwith_total S P (LTime T) s HI) as [s1 [-> HI1]]. eexists _, _. split; [reflexivity|]. split; [exact HI1|discriminate].
  - eexists _, _. split; [reflexivity|]. split; [apply (gadd_spec S false s t l HI)|discriminate].
Qed.

Lemma gsched_total S P ops : forall s, GInv S s -> exists s' xs, gsched P s ops = (Some s', xs) /\ GInv S s' /\ ~ In OFuel xs.
Proof.
  induction ops as [|o ops IH]; intros s HI; cbn [gexec_sched].
  - exists s, []. split; [reflexivity|]. split; [exact HI|intros []].
  - destruct (gstep_total S P s o HI) as [s1 [x [-> [HI1 Hx]]]]. destruct (IH s1 HI1) as [s2 [xs [-> [HI2 Hxs]]]].
    exists s2, (x :: xs). split; [reflexivity|]. split; [exact HI2|]. intros [E|Hin]; [exact (Hx E)|exact (Hxs Hin)].
Qed.

Lemma gpre_inv S pre : forall s, GInv S s -> GInv S (fst (gpre s pre)).
Proof.
  induction pre as [|[t l] pre IH]; intros s HI; cbn [gpre_adds]; [exact HI|].
  specialize (IH (gadd false s t l) (proj1 (gadd_spec S false s t l HI))).
  destruct (gpre_adds Q q_add (gadd false s t l) pre) as [s2 xs]. exact IH.
Qed.

Lemma gboot_inv S B L pre : GInv S (gbt S B L pre).
Proof. unfold gboot. apply gpre_inv. apply GInv_new. Qed.

(* finish drains exactly the pending entries *)
Lemma gdrain_perm h k : forall q, QI q -> length (q_pend q) = k -> Permutation (gdrain Q Hint q_fetch h k q) (q_pend q).
Proof.
  induction k as [|k IH]; intros q I E; cbn [gdrain].
  - destruct (q_pend q); [constructor|discriminate].
  - destruct (q_peek q) as [t|] eqn:Ep.
    + destruct (H_fetch _ _ h I Ep) as [q' [l [F [I' [_ [_ P']]]]]]. rewrite F, P'. constructor.
      apply IH; [exact I'|]. rewrite (Permutation_length P') in E. cbn [length] in E. lia.
    + rewrite (H_peek_none _ I Ep) in E. discriminate.
Qed.

Lemma grem_perm S s : GInv S s -> Permutation (grem s) (q_pend (gfes Q s)).
Proof.
  intros HI. unfold gremaining. apply gdrain_perm; [apply (G_qi _ _ HI)|].
  rewrite (H_len _ (G_qi _ _ HI)), Nat2N.id. reflexivity.
Qed.

(* ---- what C02 says about a state of the runtime ---- *)
Definition ggood (S : N) (s : rt) : Prop :=
  S <= gclock Q s /\
  StronglySorted N.le (S :: map snd (glog Q s)) /\
  gclock Q s = last (map snd (glog Q s)) S /\
  q_clock (gfes Q s) = gclock Q s /\
  gitr Q s = N.of_nat (length (glog Q s)) /\
  q_len (gfes Q s) = N.of_nat (length (grem s)) /\
  Forall (fun r => a_ok r = (a_now r <=? a_time r)) (gadds Q s) /\
  Permutation (accepted (gadds Q s)) (handled (glog Q s) ++ grem s) /\
  (forall inh tm l, glast_ok Q (gadd inh s tm l) = (gclock Q s <=? tm) /\
                    gclock Q (gadd inh s tm l) = gclock Q s /\
                    (tm < gclock Q s -> gfes Q (gadd inh s tm l) = gfes Q s)).

Lemma ggood_of_inv S s : GInv S s -> ggood S s.
Proof.
  intros HI. pose proof HI as [H1 H2 H3 H4 H5 H6 H7 H8 H9]. pose proof (grem_perm S s HI) as Pr.
  split; [exact H5|]. split.
  { constructor; [exact H3|]. eapply Forall_impl; [|exact H4]. cbn. intros y Hy. lia. }
  split; [exact H6|]. split; [exact H2|]. split; [exact H7|].
  split; [rewrite (H_len _ H1), (Permutation_length Pr); reflexivity|].
  split; [exact H8|]. split; [rewrite H9; apply Permutation_app_head; symmetry; exact Pr|].
  intros inh tm l. destruct (gadd_spec S inh s tm l HI) as [_ [_ [A3 A4]]]. split; [exact A3|]. split; [reflexivity|exact A4].
Qed.

(* every run of every script: all loops terminate, and the booted state, the
   paused state after any step schedule and the final state are good *)
Theorem grun_good S B L pre P ops :
  exists s1 xs sf,
    gsched P (gbt S B L pre) ops = (Some s1, xs) /\ ~ In OFuel xs /\ gall P s1 = Some sf /\
    ggood S (gbt S B L pre) /\ ggood S s1 /\ ggood S sf.
Proof.
  pose proof (gboot_inv S B L pre) as H0.
  destruct (gsched_total S P ops _ H0) as [s1 [xs [E1 [H1 Hx]]]].
  destruct (gall_total S P s1 H1) as [sf [Ef Hf]].
  exists s1, xs, sf. split; [exact E1|]. split; [exact Hx|]. split; [exact Ef|].
  split; [|split]; apply ggood_of_inv; assumption.
Qed.

(* one dispatch: now() inside the handler is the timestamp the event was pending with *)
Theorem gdispatch_now S B L pre P ops s1 xs s' :
  gsched P (gbt S B L pre) ops = (Some s1, xs) -> gD P s1 = inl s' ->
  exists t l, In (t, l) (q_pend (gfes Q s1)) /\ gclock Q s1 <= t /\ gclock Q s' = t /\ glog Q s' = glog Q s1 ++ [(l, t)].
Proof.
  intros H1 HD. pose proof (gboot_inv S B L pre) as H0.
  destruct (gsched_total S P ops _ H0) as [s1' [xs' [E1 [HI1 _]]]]. rewrite H1 in E1. injection E1 as <- _.
  destruct (gD_cases S P s1 HI1) as [[_ E]|[[t [_ [_ E]]]|[t [l [q' [_ [_ [Hin [Hle [E [HI' _]]]]]]]]]]]; rewrite E in HD; try discriminate.
  injection HD as <-. exists t, l. split; [exact Hin|]. split; [exact Hle|].
  unfold ghandle. destruct (gacts_spec S (nth (N.to_nat l) P []) _ HI') as [_ [_ [C [_ [_ Lg]]]]]. rewrite C, Lg. split; reflexivity.
Qed.

End GenericProps.
