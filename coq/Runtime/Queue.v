(* Facts about the event-set specification (CQueue.Spec) as the runtime uses
   it: add, peek, fetch, the pending list, and the sort of [remaining]. *)
From Coq Require Import List Arith NArith PArith Lia Bool Sorting.Sorted Permutation ZifyBool.
From DesVerif Require Import Common.Fuel Common.Codec CQueue.Model CQueue.Spec CQueue.ListX CQueue.SpecProps
  Runtime.Limit Runtime.Model.
Import ListNotations.
Open Scope N_scope.

Definition evp (e : ev) : N * N := (etime e, epay e).

Lemma pend_eq q : pend q = map evp (s_zero q ++ s_rest q).
Proof. reflexivity. Qed.

(* (label, time) of the event fetch_next would return *)
Definition nextev (q : sp) : option (N * N) :=
  match s_zero q with
  | x :: _ => Some (epay x, etime x)
  | [] => match s_rest q with x :: _ => Some (epay x, etime x) | [] => None end
  end.

Lemma peek_nextev q : peek q = option_map snd (nextev q).
Proof. unfold peek, sp_peek, nextev. destruct (s_zero q); [destruct (s_rest q)|]; reflexivity. Qed.

(* ---- add ---- *)
Lemma sp_add_past q t l : t < s_tcur q -> sp_add q t l = (q, None, OPanic 1).
Proof. intros H. unfold sp_add. apply N.ltb_lt in H. rewrite H. reflexivity. Qed.

Lemma sp_add_ok q t l :
  s_tcur q <= t ->
  let q' := fst (fst (sp_add q t l)) in
  snd (sp_add q t l) = OAdded /\ s_tcur q' = s_tcur q /\
  Permutation (pend q') ((t, l) :: pend q) /\ sp_len q' = sp_len q + 1.
Proof.
  intros H. unfold sp_add. apply N.ltb_ge in H. rewrite H.
  destruct (t =? s_tcur q); cbn [fst snd s_tcur]; (split; [reflexivity|]); (split; [reflexivity|]); split.
  - unfold pend. cbn [s_zero s_rest]. rewrite <- app_assoc, !map_app. cbn [app map].
    symmetry. apply Permutation_middle.
  - unfold sp_len. cbn [s_zero s_rest]. rewrite app_length. cbn [length]. lia.
  - unfold pend. cbn [s_zero s_rest]. rewrite !map_app.
    etransitivity; [apply Permutation_app_head; apply Permutation_map; apply sins_perm|].
    cbn [map]. symmetry. apply Permutation_middle.
  - unfold sp_len. cbn [s_zero s_rest]. rewrite (Permutation_length (sins_perm _ _)). cbn [length]. lia.
Qed.

Lemma sp_add_len_le q t l : sp_len (fst (fst (sp_add q t l))) <= sp_len q + 1.
Proof.
  destruct (N.lt_ge_cases t (s_tcur q)) as [H|H].
  - rewrite sp_add_past by exact H. cbn [fst]. lia.
  - destruct (sp_add_ok q t l H) as [_ [_ [_ E]]]. cbn zeta in E. lia.
Qed.

Lemma added_ok_iff q t l : added_ok (snd (sp_add q t l)) = (s_tcur q <=? t).
Proof.
  destruct (N.lt_ge_cases t (s_tcur q)) as [H|H].
  - rewrite sp_add_past by exact H. cbn. lia.
  - destruct (sp_add_ok q t l H) as [E _]. rewrite E. cbn. lia.
Qed.

(* ---- peek / fetch ---- *)
Lemma nextev_none q : nextev q = None -> pend q = [] /\ sp_len q = 0.
Proof.
  unfold nextev, pend, sp_len. destruct (s_zero q); [|discriminate]. destruct (s_rest q); [|discriminate].
  intros _. split; reflexivity.
Qed.

Lemma nextev_fetch q l t :
  nextev q = Some (l, t) ->
  exists q', sp_fetch q = (q', OFetched l t) /\ pend q = (t, l) :: pend q' /\ sp_len q = sp_len q' + 1 /\
             s_next q' = s_next q.
Proof.
  unfold nextev, sp_fetch, pend, sp_len. destruct (s_zero q) as [|x z].
  - destruct (s_rest q) as [|x r]; [discriminate|]. intros E. injection E as <- <-.
    eexists. split; [reflexivity|]. cbn [s_zero s_rest s_next app map length]. repeat split; try reflexivity. lia.
  - intros E. injection E as <- <-. eexists. split; [reflexivity|]. cbn [s_zero s_rest s_next app map length].
    repeat split; try reflexivity. lia.
Qed.

Lemma fetch_tcur q l t q' :
  SI q -> nextev q = Some (l, t) -> sp_fetch q = (q', OFetched l t) -> s_tcur q' = t /\ s_tcur q <= t.
Proof.
  intros [Hs Hz Hr Hi Hn]. unfold nextev, sp_fetch. destruct (s_zero q) as [|x z].
  - destruct (s_rest q) as [|x r]; [discriminate|]. intros E F. injection E as <- <-. injection F as <-.
    cbn [s_tcur]. split; [reflexivity|]. apply Hr. left; reflexivity.
  - intros E F. injection E as <- <-. injection F as <-. cbn [s_tcur].
    rewrite (Hz x (or_introl eq_refl)). split; [reflexivity|lia].
Qed.

(* the next event is an earliest pending one *)
Lemma nextev_min q l t : SI q -> nextev q = Some (l, t) -> Forall (fun p => t <= fst p) (pend q).
Proof.
  intros [Hs Hz Hr Hi Hn]. unfold nextev, pend. rewrite Forall_forall.
  destruct (s_zero q) as [|x z] eqn:Ez.
  - destruct (s_rest q) as [|x r] eqn:Er; [discriminate|]. intros E. injection E as <- <-.
    intros p Hp. cbn [app] in Hp. apply in_map_iff in Hp. destruct Hp as [y [<- Hy]]. cbn [fst].
    destruct Hy as [<-|Hy]; [lia|]. inversion Hs as [|? ? _ Hall]; subst. rewrite Forall_forall in Hall.
    specialize (Hall y Hy). unfold key_lt in Hall. lia.
  - intros E. injection E as <- <-. intros p Hp. apply in_map_iff in Hp. destruct Hp as [y [<- Hy]]. cbn [fst].
    rewrite (Hz x (or_introl eq_refl)). apply in_app_or in Hy. destruct Hy as [Hy|Hy].
    + rewrite (Hz y Hy). lia.
    + apply Hr. exact Hy.
Qed.

(* ---- isort ---- *)
Lemma pins_perm a l : Permutation (pins a l) (a :: l).
Proof.
  induction l as [|x l IH]; cbn [pins]; [reflexivity|].
  destruct (ple a x); [reflexivity|]. rewrite IH. apply perm_swap.
Qed.

Lemma isort_perm l : Permutation (isort l) l.
Proof.
  induction l as [|a l IH]; cbn [isort fold_right]; [reflexivity|].
  rewrite pins_perm. constructor. exact IH.
Qed.

Definition ple_sorted (l : list (N * N)) := StronglySorted (fun a b => ple a b = true) l.

Lemma ple_total a b : ple a b = false -> ple b a = true.
Proof. unfold ple. lia. Qed.
Lemma ple_trans a b c : ple a b = true -> ple b c = true -> ple a c = true.
Proof. unfold ple. lia. Qed.

Lemma pins_sorted a l : ple_sorted l -> ple_sorted (pins a l).
Proof.
  unfold ple_sorted. induction l as [|x l IH]; intros Hs; cbn [pins].
  - repeat constructor.
  - inversion Hs as [|? ? Hs' Hall]; subst. destruct (ple a x) eqn:E.
    + constructor; [exact Hs|]. constructor; [exact E|].
      eapply Forall_impl; [|exact Hall]. intros y Hy. eapply ple_trans; eassumption.
    + constructor; [apply IH; exact Hs'|]. rewrite Forall_forall in *. intros y Hy.
      apply (Permutation_in _ (pins_perm a l)) in Hy. destruct Hy as [<-|Hy]; [apply ple_total; exact E|auto].
Qed.

Lemma isort_sorted l : ple_sorted (isort l).
Proof. induction l as [|a l IH]; cbn [isort fold_right]; [constructor|apply pins_sorted; exact IH]. Qed.
