(* C10 for the runtime over ANY event set [EV : evset]: stepping is
   indistinguishable from running.  The oracle is keyed by the dispatch number
   and sees the candidates, and peek_time cannot change the event set (its type
   returns no state): the stepped run and the uninterrupted run therefore put
   the same question to the oracle when they dispatch the same event, which is
   what a deterministic backend whose peek takes &self does. *)
From Coq Require Import List Arith NArith PArith ZArith.Znat Lia Bool Sorting.Sorted Permutation ZifyBool.
From DesVerif Require Import Common.Fuel Common.Codec Runtime.Limit Runtime.Model Runtime.Queue Runtime.Inv Runtime.Prefix Runtime.Step
  Runtime.Generic Runtime.EvSet Runtime.GenericProps Runtime.GenericPrefix.
Import ListNotations.
Open Scope N_scope.

Section GenericStep.
Variable EV : evset.
Local Notation Q := (eQ EV).
Local Notation Hint := (eHint EV).
Local Notation q_new := (e_new EV).
Local Notation q_add := (e_add EV).
Local Notation q_peek := (e_peek EV).
Local Notation q_fetch := (e_fetch EV).
Local Notation q_len := (e_len EV).
Local Notation q_pend := (e_pend EV).
Local Notation q_clock := (e_clock EV).
Variable orc : N -> Hint.

Local Notation rt := (grt Q).
Local Notation gadd := (gadd_event Q q_add).
Local Notation gD := (gdispatch_event Q Hint q_add q_peek q_fetch orc).
Local Notation gall := (gdispatch_all Q Hint q_add q_peek q_fetch q_len orc).
Local Notation gwith := (gwith_limit Q Hint q_add q_peek q_fetch q_len orc).
Local Notation gstp := (gstep Q Hint q_add q_peek q_fetch q_len orc).
Local Notation gsched := (gexec_sched Q Hint q_add q_peek q_fetch q_len orc).
Local Notation gnsteps := (gdispatch_n_events Q Hint q_add q_peek q_fetch q_len orc).
Local Notation guntil := (gdispatch_events_until Q Hint q_add q_peek q_fetch q_len orc).
Local Notation gbt := (gboot Q q_new q_add).
Local Notation grem := (gremaining Q Hint q_fetch q_len orc).
Local Notation gblock := (grun_block Q Hint q_new q_add q_peek q_fetch q_len orc).
Local Notation Inv := (GInv EV).
Local Notation mu := (gmu EV).
Local Notation next := (gnext EV orc).
Local Notation useq := (guseq EV orc).

Definition gcompletes (P : prog) (s u : rt) : Prop := exists k, iter_nat k (gD P) (gset_limit Q s LNone) = inr u.

Lemma gset_limit_id (s : rt) : gset_limit Q s (glimit Q s) = s.
Proof. destruct s; reflexivity. Qed.

Lemma gset_limit_none (s : rt) : glimit Q s = LNone -> gset_limit Q s LNone = s.
Proof. intros E. rewrite <- E. apply gset_limit_id. Qed.

Lemma gD_none_go P s t s' :
  q_peek (gfes Q s) = Some t -> next P s = Some s' -> gD P (gset_limit Q s LNone) = inl (gset_limit Q s' LNone).
Proof.
  intros Ep En. rewrite gD_unfold. cbn [gfes glimit gitr gset_limit]. rewrite Ep. cbn [applies].
  rewrite gnext_set_limit, En. reflexivity.
Qed.

Lemma gcompletes_det P s u u' : gcompletes P s u -> gcompletes P s u' -> u = u'.
Proof.
  intros [k H] [k' H'].
  pose proof (iter_nat_mono (gD P) k (Nat.max k k') _ _ (Nat.le_max_l k k') H) as M.
  pose proof (iter_nat_mono (gD P) k' (Nat.max k k') _ _ (Nat.le_max_r k k') H') as M'.
  congruence.
Qed.

(* a limited run only walks along the unlimited one *)
Lemma gstep_fwd S P k : forall s s1 u,
  Inv S s -> iter_nat k (gD P) s = inr s1 -> gcompletes P s u -> gcompletes P s1 u /\ Inv S s1 /\ glimit Q s1 = glimit Q s.
Proof.
  induction k as [|k IH]; intros s s1 u HI H C; cbn [iter_nat] in H; [discriminate|].
  rewrite gD_unfold in H. destruct (q_peek (gfes Q s)) as [t|] eqn:Ep.
  - destruct (gnext_ok EV orc S P s t HI Ep) as [l [s' [_ [En [HI' [_ [_ [_ [Li _]]]]]]]]]. rewrite En in H.
    destruct (applies (glimit Q s) (gitr Q s + 1) t).
    + injection H as <-. split; [exact C|]. split; [exact HI|reflexivity].
    + destruct (IH s' s1 u HI' H) as [C1 [I1 L1]].
      * destruct C as [[|k'] C]; cbn [iter_nat] in C; [discriminate|].
        rewrite (gD_none_go P s t s' Ep En) in C. exists k'. exact C.
      * split; [exact C1|]. split; [exact I1|congruence].
  - injection H as <-. split; [exact C|]. split; [exact HI|reflexivity].
Qed.

Lemma gall_completes S P s u : Inv S s -> gall P (gset_limit Q s LNone) = Some u -> gcompletes P s u.
Proof.
  intros HI H. apply (gall_iter EV orc S P _ _ (GInv_set_limit EV S s LNone HI)) in H. eexists. exact H.
Qed.

Lemma gcompletes_set_limit P s L u : gcompletes P (gset_limit Q s L) u <-> gcompletes P s u.
Proof. unfold gcompletes. change (gset_limit Q (gset_limit Q s L) LNone) with (gset_limit Q s LNone). reflexivity. Qed.

Lemma gwith_spec S P L s s' :
  Inv S s -> gwith P L s = Some s' ->
  exists s1, iter_nat (Datatypes.S (mu s)) (gD P) (gset_limit Q s L) = inr s1 /\ s' = gset_limit Q s1 (glimit Q s).
Proof.
  intros HI. unfold gwith_limit. destruct (gall P (gset_limit Q s L)) as [s1|] eqn:E; [|discriminate].
  intros H. injection H as <-. exists s1. split; [|reflexivity].
  apply (gall_iter EV orc S P _ _ (GInv_set_limit EV S s L HI)) in E. exact E.
Qed.

Lemma gwith_completes S P L s s' u :
  Inv S s -> gwith P L s = Some s' -> gcompletes P s u -> gcompletes P s' u /\ Inv S s' /\ glimit Q s' = glimit Q s.
Proof.
  intros HI H C. destruct (gwith_spec S P L s s' HI H) as [s1 [I ->]].
  destruct (gstep_fwd S P _ _ _ u (GInv_set_limit EV S s L HI) I) as [C1 [I1 _]]; [apply gcompletes_set_limit; exact C|].
  split; [apply gcompletes_set_limit; exact C1|]. split; [apply GInv_set_limit; exact I1|reflexivity].
Qed.

Lemma gstp_completes S P s o s' x u :
  Inv S s -> is_dispatch o = true -> gstp P s o = (Some s', x) -> gcompletes P s u ->
  gcompletes P s' u /\ Inv S s' /\ glimit Q s' = glimit Q s.
Proof.
  intros HI. destruct o as [k|T|t l]; cbn [is_dispatch gstep]; unfold gdispatch_n_events, gdispatch_events_until; intros Hd H C.
  - destruct (gwith P (LCount (gitr Q s + k)) s) as [s1|] eqn:E; [|discriminate]. injection H as <- _.
    eapply gwith_completes; eassumption.
  - destruct (gwith P (LTime T) s) as [s1|] eqn:E; [|discriminate]. injection H as <- _.
    eapply gwith_completes; eassumption.
  - discriminate.
Qed.

Lemma gsched_completes S P ops : forall s s' xs u,
  Inv S s -> forallb is_dispatch ops = true -> gsched P s ops = (Some s', xs) -> gcompletes P s u ->
  gcompletes P s' u /\ Inv S s' /\ glimit Q s' = glimit Q s.
Proof.
  induction ops as [|o ops IH]; intros s s' xs u HI Hd H C; cbn [gexec_sched] in H.
  - injection H as <- _. split; [exact C|]. split; [exact HI|reflexivity].
  - cbn [forallb] in Hd. apply andb_true_iff in Hd. destruct Hd as [Ho Hr].
    destruct (gstp P s o) as [[s1|] x] eqn:E; [|discriminate].
    destruct (gsched P s1 ops) as [s2 ys] eqn:E2. injection H as -> _.
    destruct (gstp_completes S P _ _ _ _ u HI Ho E C) as [C1 [I1 L1]].
    destruct (IH _ _ _ u I1 Hr E2 C1) as [C2 [I2 L2]]. split; [exact C2|]. split; [exact I2|congruence].
Qed.

(* Any combination of dispatch_n_events and dispatch_events_until followed by
   dispatch_all ends in exactly the state in which the uninterrupted
   dispatch_all ends. *)
Theorem g_stepped_eq_run P S B pre ops :
  forallb is_dispatch ops = true ->
  exists s1 xs u,
    gsched P (gbt S B LNone pre) ops = (Some s1, xs) /\ gall P s1 = Some u /\ gall P (gbt S B LNone pre) = Some u.
Proof.
  intros Hd. pose proof (gboot_inv EV S B LNone pre) as H0.
  destruct (gboot_fields EV S B LNone pre) as [_ [_ HL]].
  destruct (gsched_total EV orc S P ops _ H0) as [s1 [xs [E1 [I1 _]]]].
  destruct (gall_total EV orc S P s1 I1) as [sf [Ef _]].
  destruct (gall_total EV orc S P _ H0) as [u [Eu _]].
  exists s1, xs, u. split; [exact E1|]. split; [|exact Eu]. rewrite Ef. f_equal.
  assert (C0 : gcompletes P (gbt S B LNone pre) u).
  { apply (gall_completes S P _ _ H0). rewrite (gset_limit_none _ HL). exact Eu. }
  destruct (gsched_completes S P ops _ _ _ u H0 Hd E1 C0) as [C1 [_ L1]].
  assert (Cf : gcompletes P s1 sf).
  { apply (gall_completes S P _ _ I1). rewrite gset_limit_none by congruence. exact Ef. }
  eapply gcompletes_det; eassumption.
Qed.

Theorem g_stepped_block sc sched :
  forallb is_dispatch sched = true ->
  exists o0 o1 u,
    fst (gblock sc LNone []) = o0 ++ [gfinish Q Hint q_fetch q_len orc u] /\
    fst (gblock sc LNone sched) = o0 ++ o1 ++ [gfinish Q Hint q_fetch q_len orc u].
Proof.
  intros Hd. destruct (g_stepped_eq_run (sc_prog sc) (sc_start sc) (sc_budget sc) (sc_pre sc) sched Hd) as [s1 [o1 [u [E1 [Ef Eu]]]]].
  unfold grun_block. unfold gboot in *.
  destruct (gpre_adds Q q_add (grt_new Q q_new (sc_start sc) (sc_budget sc) LNone) (sc_pre sc)) as [s0 o0]. cbn [fst] in *.
  cbn [gexec_sched]. rewrite Eu, E1, Ef. exists o0, o1, u. split; reflexivity.
Qed.

(* the configured limit plays no role in a step *)
Theorem g_step_ignores_configured_limit P L' L s :
  gwith P L' (gset_limit Q s L) = option_map (fun s' => gset_limit Q s' L) (gwith P L' s).
Proof.
  unfold gwith_limit. change (gset_limit Q (gset_limit Q s L) L') with (gset_limit Q s L').
  destruct (gall P (gset_limit Q s L')); reflexivity.
Qed.

(* ---- what one step dispatches ---- *)
Definition grest (P : prog) (s : rt) : list (N * N) := useq P (Datatypes.S (mu s)) s.

Lemma g_unlimited_rest S P s u : Inv S s -> gall P (gset_limit Q s LNone) = Some u -> glog Q u = glog Q s ++ grest P s.
Proof.
  intros HI H. pose proof (GInv_set_limit EV S s LNone HI) as HI'.
  apply (gall_iter EV orc S P _ _ HI') in H. apply (grun_log EV orc S P _ _ _ HI') in H.
  cbn [glimit gset_limit glog gitr] in H. rewrite lprefix_none, guseq_set_limit in H. exact H.
Qed.

Lemma gwith_log S P L s s' : Inv S s -> gwith P L s = Some s' -> glog Q s' = glog Q s ++ lprefix L (gitr Q s) (grest P s).
Proof.
  intros HI H. destruct (gwith_spec S P L s s' HI H) as [s1 [I ->]].
  apply (grun_log EV orc S P _ _ _ (GInv_set_limit EV S s L HI)) in I.
  cbn [glimit gset_limit glog gitr] in *. rewrite guseq_set_limit in I. exact I.
Qed.

Lemma g_rest_sorted S P s : Inv S s -> StronglySorted N.le (times (grest P s)).
Proof.
  intros HI. destruct (gall_total EV orc S P _ (GInv_set_limit EV S s LNone HI)) as [u [Eu HIu]].
  pose proof (G_sorted _ _ _ HIu) as Hs. rewrite (g_unlimited_rest S P s u HI Eu) in Hs.
  unfold times in *. rewrite map_app in Hs. eapply sorted_app_r; exact Hs.
Qed.

(* everything about a paused state: any program, configured limit and schedule
   so far, external adds included *)
Theorem g_paused P S B L pre ops s xs :
  gsched P (gbt S B L pre) ops = (Some s, xs) ->
  (* the reported values *)
  gstatus Q q_len s = OStatus (N.of_nat (length (glog Q s))) (N.of_nat (length (grem s)))
                              (last (map snd (glog Q s)) S) (N.of_nat (length (gadds Q s))) /\
  Permutation (accepted (gadds Q s)) (handled (glog Q s) ++ grem s) /\
  q_clock (gfes Q s) = gclock Q s /\
  (* add_event while paused *)
  (forall tm l, gstp P s (SAdd tm l) = (Some (gadd false s tm l), OAddRes (gclock Q s <=? tm))) /\
  (forall tm l, tm < gclock Q s -> gfes Q (gadd false s tm l) = gfes Q s) /\
  (* the remaining run, and the two step functions *)
  StronglySorted N.le (map snd (grest P s)) /\
  (exists u, gall P (gset_limit Q s LNone) = Some u /\ glog Q u = glog Q s ++ grest P s) /\
  (forall k, exists s', gnsteps P s k = Some s' /\
                        glog Q s' = glog Q s ++ firstn (N.to_nat k) (grest P s) /\
                        gitr Q s' = gitr Q s + N.min k (N.of_nat (length (grest P s)))) /\
  (forall T, exists s', guntil P s T = Some s' /\
                        glog Q s' = glog Q s ++ filter (fun e => snd e <=? T) (grest P s)).
Proof.
  intros H. destruct (gsched_total EV orc S P ops _ (gboot_inv EV S B L pre)) as [s' [xs' [E [HI _]]]].
  rewrite H in E. injection E as <- _.
  destruct (ggood_of_inv EV orc S s HI) as [_ [_ [G3 [G4 [G5 [G6 [_ [G8 G9]]]]]]]].
  split; [unfold gstatus; rewrite G5, G6, G3; reflexivity|]. split; [exact G8|]. split; [exact G4|].
  split; [intros tm l; cbn [gstep]; rewrite (proj1 (G9 false tm l)); reflexivity|].
  split; [intros tm l; apply (G9 false tm l)|].
  split; [apply (g_rest_sorted S P s HI)|]. split; [|split].
  - destruct (gall_total EV orc S P _ (GInv_set_limit EV S s LNone HI)) as [u [Eu _]]. exists u. split; [exact Eu|].
    apply (g_unlimited_rest S P s u HI Eu).
  - intros k. unfold gdispatch_n_events. destruct (gwith_total EV orc S P (LCount (gitr Q s + k)) s HI) as [s' [E HI']].
    exists s'. split; [exact E|]. apply (gwith_log S P _ _ _ HI) in E. rewrite lprefix_count in E. split; [exact E|].
    rewrite (G_itr _ _ _ HI'), (G_itr _ _ _ HI), E, app_length, firstn_length. lia.
  - intros T. unfold gdispatch_events_until. destruct (gwith_total EV orc S P (LTime T) s HI) as [s' [E _]].
    exists s'. split; [exact E|]. apply (gwith_log S P _ _ _ HI) in E.
    rewrite lprefix_time in E by (apply (g_rest_sorted S P s HI)). exact E.
Qed.

End GenericStep.
