(* The runtime over the calendar queue (ModelCq.v) prints exactly what the
   runtime over the event-set specification (Model.v) prints, for every bucket
   count n >= 1 and bucket width t >= 1: a forward simulation whose queue part
   is CQueue.Refine.R (R_add, R_fetch, R_peek, R_len, R_new_at). *)
From Coq Require Import List Arith NArith PArith Lia Bool Permutation ZifyBool.
From DesVerif Require Import Common.Fuel Common.Codec CQueue.Model CQueue.Spec CQueue.ListX CQueue.Refine CQueue.SpecProps
  Runtime.Limit Runtime.Model Runtime.ModelCq Runtime.Queue Runtime.Inv.
Import ListNotations.
Open Scope N_scope.

(* same runtime fields, queues related by the refinement relation of C01 (the
   runtime never cancels: the handle list is only carried along) *)
Definition Rel (c : rtc) (s : rt) : Prop :=
  (exists hs, R (cfes c) (fes s) hs) /\
  cclock c = clock s /\ citr c = itr s /\ climit c = limit s /\ cbudget c = budget s /\
  clog c = log s /\ cadds c = adds s.

Lemma len_sim q s hs : R q s hs -> qlen q = sp_len s.
Proof.
  intros HR. rewrite (R_len _ _ _ HR). unfold sp_len, Refine.pend.
  rewrite (R_zero _ _ _ HR), !app_length, (Permutation_length (R_perm _ _ _ HR)). reflexivity.
Qed.

Lemma Rel_new n t S B L : n <> 0 -> t <> 0 -> Rel (crt_new repaired n t S B L) (rt_new repaired S B L).
Proof.
  intros Hn Ht. split; [|repeat split]. exists []. cbn. apply R_new_at; assumption.
Qed.

Lemma Rel_set_limit c s L : Rel c s -> Rel (cset_limit c L) (set_limit s L).
Proof. intros [HR [E1 [E2 [E3 [E4 [E5 E6]]]]]]. split; [exact HR|]. cbn. repeat split; assumption. Qed.

Lemma Rel_dec_budget c s : Rel c s -> Rel (cdec_budget c) (dec_budget s).
Proof. intros [HR [E1 [E2 [E3 [E4 [E5 E6]]]]]]. split; [exact HR|]. cbn. rewrite E4. repeat split; assumption. Qed.

Lemma Rel_add inh c s t l : Rel c s -> Rel (cadd_event inh c t l) (add_event inh s t l).
Proof.
  intros [[hs HR] [E1 [E2 [E3 [E4 [E5 E6]]]]]]. unfold cadd_event, add_event.
  destruct (N.lt_ge_cases t (tcur (cfes c))) as [Hlt|Hge].
  - assert (Ea : add (cfes c) t l = (cfes c, None, OPanic 1)).
    { unfold add. apply N.ltb_lt in Hlt. rewrite Hlt. reflexivity. }
    rewrite Ea, sp_add_past by (rewrite <- (R_tcur _ _ _ HR); exact Hlt). cbn [fst snd].
    split; [exists hs; exact HR|]. cbn. rewrite E1, E2, E6. repeat split; assumption.
  - pose proof (R_add (cfes c) (fes s) hs t l HR Hge) as A.
    destruct (add (cfes c) t l) as [[q' h] o]. destruct (sp_add (fes s) t l) as [[s' h'] o'].
    destruct A as [-> [-> [hd [-> HR']]]]. cbn [fst snd].
    split; [exists (hs ++ [hd]); exact HR'|]. cbn. rewrite E1, E2, E6. repeat split; assumption.
Qed.

Lemma Rel_actions acts : forall c s, Rel c s -> Rel (cdo_actions acts c) (do_actions acts s).
Proof.
  induction acts as [|[[k x] l] acts IH]; intros c s HRel; cbn [cdo_actions do_actions]; [exact HRel|].
  pose proof HRel as [_ [E1 [_ [_ [E4 _]]]]]. rewrite E4. destruct (budget s =? 0); [exact HRel|].
  destruct (k =? 0); apply IH.
  - unfold cadd_event_in, add_event_in. cbn [cclock cdec_budget clock dec_budget]. rewrite E1.
    apply Rel_add. apply Rel_dec_budget. exact HRel.
  - apply Rel_add. apply Rel_dec_budget. exact HRel.
Qed.

Lemma peek_sim q s hs : R q s hs -> cpeek q = peek s.
Proof. intros HR. unfold cpeek, peek. rewrite (R_peek q s hs HR). reflexivity. Qed.

Definition Rel_sum (a : rtc + rtc) (b : rt + rt) : Prop :=
  match a, b with
  | inl c, inl s => Rel c s
  | inr c, inr s => Rel c s
  | _, _ => False
  end.

Lemma Rel_dispatch P c s : Rel c s -> Rel_sum (cdispatch_event_peek P c) (dispatch_event_peek P s).
Proof.
  intros HRel. pose proof HRel as [[hs HR] [E1 [E2 [E3 [E4 [E5 E6]]]]]].
  unfold cdispatch_event_peek, dispatch_event_peek. rewrite (peek_sim _ _ _ HR), E2, E3.
  destruct (peek (fes s)) as [time|]; [|exact HRel].
  destruct (applies (limit s) (itr s + 1) time); [exact HRel|].
  pose proof (R_fetch (cfes c) (fes s) hs HR) as F.
  destruct (fetch_next (cfes c)) as [q' o]. destruct (sp_fetch (fes s)) as [s' o'].
  destruct F as [-> HR']. destruct o'; try exact HRel.
  cbn [Rel_sum]. unfold cdeliver, deliver, chandle, handle. apply Rel_actions.
  split; [exists hs; exact HR'|]. cbn. rewrite E2, E5. repeat split; assumption.
Qed.

Lemma iter_sim P k : forall c s,
  Rel c s -> Rel_sum (iter_nat k (cdispatch_event_peek P) c) (iter_nat k (dispatch_event_peek P) s).
Proof.
  induction k as [|k IH]; intros c s HRel; cbn [iter_nat]; [exact HRel|].
  pose proof (Rel_dispatch P c s HRel) as H.
  destruct (cdispatch_event_peek P c) as [c'|c'], (dispatch_event_peek P s) as [s'|s']; cbn [Rel_sum] in H; try contradiction.
  - apply IH. exact H.
  - exact H.
Qed.

Definition Rel_opt (a : option rtc) (b : option rt) : Prop :=
  match a, b with
  | Some c, Some s => Rel c s
  | None, None => True
  | _, _ => False
  end.

Lemma Rel_dispatch_all P c s : Rel c s -> Rel_opt (cdispatch_all repaired P c) (dispatch_all repaired P s).
Proof.
  intros HRel. pose proof HRel as [[hs HR] [_ [_ [_ [E4 _]]]]].
  unfold cdispatch_all, dispatch_all, cdispatch_event, dispatch_event. cbn [v_peek repaired].
  assert (Ef : cloop_fuel c = loop_fuel s).
  { unfold cloop_fuel, loop_fuel. rewrite E4, (len_sim _ _ _ HR). reflexivity. }
  rewrite Ef, !iter_until_nat.
  pose proof (iter_sim P (Pos.to_nat (loop_fuel s)) c s HRel) as H.
  change (fun c0 : rtc => cdispatch_event_peek P c0) with (cdispatch_event_peek P).
  change (fun s0 : rt => dispatch_event_peek P s0) with (dispatch_event_peek P).
  destruct (iter_nat _ (cdispatch_event_peek P) c), (iter_nat _ (dispatch_event_peek P) s); cbn [Rel_sum] in H;
    try contradiction; cbn [Rel_opt]; [exact I|exact H].
Qed.

Lemma Rel_with_limit P L c s : Rel c s -> Rel_opt (cwith_limit repaired P L c) (with_limit repaired P L s).
Proof.
  intros HRel. pose proof HRel as [_ [_ [_ [E3 _]]]]. unfold cwith_limit, with_limit.
  pose proof (Rel_dispatch_all P _ _ (Rel_set_limit c s L HRel)) as H.
  destruct (cdispatch_all repaired P (cset_limit c L)), (dispatch_all repaired P (set_limit s L)); cbn [Rel_opt] in *;
    try contradiction; [|exact I].
  rewrite E3. apply Rel_set_limit. exact H.
Qed.

Lemma status_sim c s : Rel c s -> cstatus c = status s.
Proof.
  intros [[hs HR] [E1 [E2 [_ [_ [_ E6]]]]]]. unfold cstatus, status. rewrite E1, E2, E6, (len_sim _ _ _ HR). reflexivity.
Qed.

Lemma last_ok_sim c s : Rel c s -> clast_ok c = last_ok s.
Proof. intros [_ [_ [_ [_ [_ [_ E6]]]]]]. unfold clast_ok, last_ok. rewrite E6. reflexivity. Qed.

Lemma Rel_step P c s o :
  Rel c s -> Rel_opt (fst (cstep repaired P c o)) (fst (step repaired P s o)) /\
             snd (cstep repaired P c o) = snd (step repaired P s o).
Proof.
  intros HRel. pose proof HRel as [_ [_ [E2 _]]].
  destruct o as [k|T|t l]; cbn [cstep step]; unfold cdispatch_n_events, dispatch_n_events, cdispatch_events_until, dispatch_events_until.
  - rewrite E2. pose proof (Rel_with_limit P (LCount (itr s + k)) c s HRel) as H.
    destruct (cwith_limit repaired P (LCount (itr s + k)) c), (with_limit repaired P (LCount (itr s + k)) s);
      cbn [Rel_opt fst snd] in *; try contradiction; split; try exact H; try reflexivity. apply status_sim; exact H.
  - pose proof (Rel_with_limit P (LTime T) c s HRel) as H.
    destruct (cwith_limit repaired P (LTime T) c), (with_limit repaired P (LTime T) s);
      cbn [Rel_opt fst snd] in *; try contradiction; split; try exact H; try reflexivity. apply status_sim; exact H.
  - cbn [fst snd Rel_opt]. pose proof (Rel_add false c s t l HRel) as H. split; [exact H|].
    rewrite (last_ok_sim _ _ H). reflexivity.
Qed.

Lemma Rel_sched P ops : forall c s,
  Rel c s -> Rel_opt (fst (cexec_sched repaired P c ops)) (fst (exec_sched repaired P s ops)) /\
             snd (cexec_sched repaired P c ops) = snd (exec_sched repaired P s ops).
Proof.
  induction ops as [|o ops IH]; intros c s HRel; cbn [cexec_sched exec_sched].
  - split; [exact HRel|reflexivity].
  - destruct (Rel_step P c s o HRel) as [H1 H2].
    destruct (cstep repaired P c o) as [[c1|] x], (step repaired P s o) as [[s1|] y]; cbn [fst snd Rel_opt] in *;
      try contradiction; subst y.
    + destruct (IH c1 s1 H1) as [H3 H4].
      destruct (cexec_sched repaired P c1 ops) as [c2 xs], (exec_sched repaired P s1 ops) as [s2 ys]; cbn [fst snd] in *.
      split; [exact H3|]. rewrite H4. reflexivity.
    + split; [exact I|reflexivity].
Qed.

Lemma Rel_pre_adds pre : forall c s,
  Rel c s -> Rel (fst (cpre_adds c pre)) (fst (pre_adds s pre)) /\ snd (cpre_adds c pre) = snd (pre_adds s pre).
Proof.
  induction pre as [|[t l] pre IH]; intros c s HRel; cbn [cpre_adds pre_adds]; [split; [exact HRel|reflexivity]|].
  pose proof (Rel_add false c s t l HRel) as H. destruct (IH _ _ H) as [H1 H2].
  destruct (cpre_adds (cadd_event false c t l) pre) as [c2 xs], (pre_adds (add_event false s t l) pre) as [s2 ys]; cbn [fst snd] in *.
  split; [exact H1|]. rewrite H2, (last_ok_sim _ _ H). reflexivity.
Qed.

(* ---- finish: draining with fetch_next yields the pending list ---- *)
Lemma drain_sim k : forall q s hs, R q s hs -> length (pend s) = k -> cdrain k q = pend s.
Proof.
  induction k as [|k IH]; intros q s hs HR Hl; cbn [cdrain].
  - destruct (pend s); [reflexivity|discriminate].
  - destruct (nextev s) as [[l t]|] eqn:En.
    + destruct (nextev_fetch _ _ _ En) as [s' [F [Ep _]]].
      pose proof (R_fetch q s hs HR) as H. destruct (fetch_next q) as [q' o]. rewrite F in H. destruct H as [-> HR'].
      rewrite Ep in *. cbn [length] in Hl. rewrite (IH q' s' hs HR') by lia. reflexivity.
    + destruct (nextev_none _ En) as [Ep _]. rewrite Ep in Hl. discriminate.
Qed.

Lemma remaining_sim q s hs : R q s hs -> cremaining q = pend s.
Proof.
  intros HR. unfold cremaining. apply (drain_sim _ q s hs HR).
  rewrite (len_sim _ _ _ HR). unfold sp_len, pend. rewrite Nat2N.id, map_length, app_length. reflexivity.
Qed.

Lemma finish_sim c s : Rel c s -> cfinish c = finish s.
Proof.
  intros [[hs HR] [E1 [E2 [_ [_ [E5 E6]]]]]]. unfold cfinish, finish.
  rewrite E1, E2, E5, E6, (remaining_sim _ _ _ HR). reflexivity.
Qed.

(* ---- whole scripts ---- *)
Theorem run_block_over_cqueue n t sc L sched :
  n <> 0 -> t <> 0 -> crun_block repaired n t sc L sched = run_block repaired sc L sched.
Proof.
  intros Hn Ht. unfold crun_block, run_block.
  destruct (Rel_pre_adds (sc_pre sc) _ _ (Rel_new n t (sc_start sc) (sc_budget sc) L Hn Ht)) as [H0 O0].
  destruct (cpre_adds (crt_new repaired n t (sc_start sc) (sc_budget sc) L) (sc_pre sc)) as [c0 o0].
  destruct (pre_adds (rt_new repaired (sc_start sc) (sc_budget sc) L) (sc_pre sc)) as [s0 p0]. cbn [fst snd] in *. subst p0.
  destruct (Rel_sched (sc_prog sc) sched c0 s0 H0) as [H1 O1].
  destruct (cexec_sched repaired (sc_prog sc) c0 sched) as [[c1|] o1], (exec_sched repaired (sc_prog sc) s0 sched) as [[s1|] p1];
    cbn [fst snd Rel_opt] in *; try contradiction; subst p1; [|reflexivity].
  pose proof (Rel_dispatch_all (sc_prog sc) c1 s1 H1) as H2.
  destruct (cdispatch_all repaired (sc_prog sc) c1) as [c2|], (dispatch_all repaired (sc_prog sc) s1) as [s2|];
    cbn [Rel_opt] in H2; try contradiction; [|reflexivity].
  rewrite (finish_sim _ _ H2). reflexivity.
Qed.

Theorem run_script_over_cqueue n t sc : n <> 0 -> t <> 0 -> crun_script repaired n t sc = run_script repaired sc.
Proof. intros Hn Ht. unfold crun_script, run_script. rewrite !run_block_over_cqueue by assumption. reflexivity. Qed.

(* every output of every script: logs, step records, add verdicts, remaining,
   end time -- whatever calendar-queue parameters the script names *)
Theorem run_over_cqueue_eq_run_over_spec input : run_gen_cq repaired input = run_gen repaired input.
Proof.
  unfold run_gen_cq, run_gen. destruct input as [|n [|t [|u0 r]]]; try reflexivity.
  destruct (n =? 0) eqn:En; [reflexivity|]. destruct (t =? 0) eqn:Et; [reflexivity|]. cbn [orb].
  apply N.eqb_neq in En, Et. rewrite run_script_over_cqueue by assumption. reflexivity.
Qed.
