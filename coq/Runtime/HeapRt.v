(* The runtime (Runtime/Generic.v) over the BinaryHeap event set
   (Runtime/HeapSet.v): what a des built without the `cqueue` feature runs.
   [hrun] is the extracted runner of `check.py C01 --part heap`.  Its input is a
   script of the generic runtime (coq/Runtime/Model.v; n and t are read and
   ignored: this backend has no parameters) followed by the ORACLE, taken from
   the implementation's own output in a second pass:
       script  0  nU {label}  nA {label}  nB {label}
   the labels the implementation dispatched, in order, in its three runs.  When
   the heap is popped for the i-th dispatch the model picks the minimum-time
   entry carrying the i-th label; if there is none it picks the first candidate,
   the logs then differ, and the block is followed by the record `5 i`.
   No proofs in this file. *)
From Coq Require Import List NArith PArith Bool.
From DesVerif Require Import Common.Fuel Common.Codec Runtime.Limit Runtime.Model Runtime.HeapSet Runtime.Generic.
Import ListNotations.
Open Scope N_scope.

Definition hint := list (N * N) -> nat.

(* the runtime over the heap backend, for an arbitrary oracle *)
Definition hrt := grt hs.
Definition hboot (S B : N) (L : lim) (pre : list (N * N)) : hrt := gboot hs hp_new hp_add S B L pre.
Definition hdispatch_all (orc : N -> hint) (P : prog) (s : hrt) : option hrt :=
  gdispatch_all hs hint hp_add hp_peek hp_fetch hp_len orc P s.
Definition hexec_sched (orc : N -> hint) (P : prog) (s : hrt) (ops : list sop) : option hrt * list sout :=
  gexec_sched hs hint hp_add hp_peek hp_fetch hp_len orc P s ops.
Definition hrun_block (orc : N -> hint) (sc : script) (l : lim) (sched : list sop) : list sout * option hrt :=
  grun_block hs hint hp_new hp_add hp_peek hp_fetch hp_len orc sc l sched.

(* ---- the oracle read from the implementation's dispatch log ---- *)
Fixpoint pick_label (lbl : N) (cs : list (N * N)) : nat :=
  match cs with
  | [] => O
  | c :: r => if snd c =? lbl then O else S (pick_label lbl r)
  end.
(* index of the first candidate with that label; past the end (nth then takes the first) if there is none *)
Definition orc_of (lbls : list N) : N -> hint := fun i cs => pick_label (nth (N.to_nat i) lbls 0) cs.

(* first position at which the model dispatched another label than the hinted one *)
Fixpoint first_miss (i : N) (lg : list (N * N)) (lbls : list N) : option N :=
  match lg, lbls with
  | e :: lg', l :: lbls' => if fst e =? l then first_miss (i + 1) lg' lbls' else Some i
  | _, _ => None
  end.

Definition miss_record (lbls : list N) (fin : option hrt) : list N :=
  match fin with
  | Some s => match first_miss 0 (glog hs s) lbls with Some i => [5; i] | None => [] end
  | None => []
  end.

(* ---- wire format ---- *)
Fixpoint dec_sched (fuel : nat) (l : list N) : list sop * list N :=
  match fuel with
  | O => ([], l)
  | S f => match dec_sop l with
           | Some (o, r) => let '(os, r') := dec_sched f r in (o :: os, r')
           | None => ([], l)
           end
  end.

Definition dec_script_rest (l : list N) : script * list N :=
  let '(start, r) := nx l in
  let '(bud, r) := nx r in
  let '(_, r) := nx r in
  let '(_, r) := nx r in
  let '(calls, r) := dec_counted dec_bcall r in
  let '(pr, r) := dec_counted (dec_counted dec_action) r in
  let '(pre, r) := dec_counted dec_pair r in
  let '(sched, r) := dec_sched (length r) r in
  ({| sc_start := start; sc_budget := bud; sc_calls := calls; sc_prog := pr; sc_pre := pre; sc_sched := sched |}, r).

Definition block_out (u : N) (lbls : list N) (sc : script) (l : lim) (sched : list sop) : list N :=
  let '(outs, fin) := hrun_block (orc_of lbls) sc l sched in
  flat_map enc_sout (map (unscale_sout u) outs) ++ miss_record lbls fin.

Definition hrun (input : list N) : list N :=
  match input with
  | n :: t :: u0 :: r =>
      if (n =? 0) || (t =? 0) then [7]
      else let u := unit_of u0 in
           let '(sc0, rest) := dec_script_rest r in
           let sc := scale_script u sc0 in
           let '(_, rest) := nx rest in
           let '(lu, rest) := dec_counted nx rest in
           let '(la, rest) := dec_counted nx rest in
           let '(lb, _) := dec_counted nx rest in
           block_out u lu sc LNone [] ++ block_out u la sc (build_limit (sc_calls sc)) []
           ++ block_out u lb sc (build_limit (sc_calls sc)) (sc_sched sc)
  | _ => [7]
  end.

Definition run (input : list N) : list N := hrun input.
