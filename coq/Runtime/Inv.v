(* The invariant of the (repaired) runtime and the termination of its event
   loop.  Everything here is about [dispatch_event_peek]. *)
From Coq Require Import List Arith NArith PArith ZArith.Znat Lia Bool Sorting.Sorted Permutation ZifyBool.
From DesVerif Require Import Common.Fuel Common.Codec CQueue.Model CQueue.Spec CQueue.ListX CQueue.SpecProps
  Runtime.Limit Runtime.Model Runtime.Queue.
Import ListNotations.
Open Scope N_scope.

Definition D (P : prog) : rt -> rt + rt := dispatch_event_peek P.

(* the state after dispatching the next event (label l, time t), whatever the limit says *)
Definition ustep (P : prog) (s : rt) (l t : N) : rt := deliver P s (fst (sp_fetch (fes s))) l t.

Lemma D_empty P s : nextev (fes s) = None -> D P s = inr s.
Proof. intros E. unfold D, dispatch_event_peek. rewrite peek_nextev, E. reflexivity. Qed.

Lemma D_stop P s l t : nextev (fes s) = Some (l, t) -> applies (limit s) (itr s + 1) t = true -> D P s = inr s.
Proof. intros E A. unfold D, dispatch_event_peek. rewrite peek_nextev, E. cbn [option_map snd]. rewrite A. reflexivity. Qed.

Lemma D_go P s l t : nextev (fes s) = Some (l, t) -> applies (limit s) (itr s + 1) t = false -> D P s = inl (ustep P s l t).
Proof.
  intros E A. unfold D, dispatch_event_peek, ustep. rewrite peek_nextev, E. cbn [option_map snd]. rewrite A.
  destruct (nextev_fetch _ _ _ E) as [q' [F _]]. rewrite F. reflexivity.
Qed.

(* the three cases, as an inversion principle *)
Lemma D_cases P s :
  (nextev (fes s) = None /\ D P s = inr s) \/
  (exists l t, nextev (fes s) = Some (l, t) /\ applies (limit s) (itr s + 1) t = true /\ D P s = inr s) \/
  (exists l t, nextev (fes s) = Some (l, t) /\ applies (limit s) (itr s + 1) t = false /\ D P s = inl (ustep P s l t)).
Proof.
  destruct (nextev (fes s)) as [[l t]|] eqn:E.
  - destruct (applies (limit s) (itr s + 1) t) eqn:A.
    + right; left. exists l, t. repeat split; try assumption. eapply D_stop; eassumption.
    + right; right. exists l, t. repeat split; try assumption. eapply D_go; eassumption.
  - left. split; [reflexivity|apply D_empty; exact E].
Qed.

(* ---- fields that handlers and adds leave alone ---- *)
Lemma add_event_fields inh s t l :
  clock (add_event inh s t l) = clock s /\ itr (add_event inh s t l) = itr s /\
  limit (add_event inh s t l) = limit s /\ budget (add_event inh s t l) = budget s /\
  log (add_event inh s t l) = log s.
Proof. repeat split. Qed.

Lemma do_actions_fields acts : forall s,
  clock (do_actions acts s) = clock s /\ itr (do_actions acts s) = itr s /\
  limit (do_actions acts s) = limit s /\ log (do_actions acts s) = log s.
Proof.
  induction acts as [|[[k x] l] acts IH]; intros s; cbn [do_actions]; [repeat split|].
  destruct (budget s =? 0); [repeat split|]. destruct (k =? 0).
  - destruct (IH (add_event_in (dec_budget s) x l)) as [H1 [H2 [H3 H4]]]. rewrite H1, H2, H3, H4. repeat split.
  - destruct (IH (add_event true (dec_budget s) x l)) as [H1 [H2 [H3 H4]]]. rewrite H1, H2, H3, H4. repeat split.
Qed.

Lemma ustep_fields P s l t :
  clock (ustep P s l t) = t /\ itr (ustep P s l t) = itr s + 1 /\ limit (ustep P s l t) = limit s /\
  log (ustep P s l t) = log s ++ [(l, t)].
Proof.
  unfold ustep, deliver, handle.
  match goal with |- context [do_actions ?a ?x] => destruct (do_actions_fields a x) as [H1 [H2 [H3 H4]]] end.
  rewrite H1, H2, H3, H4. repeat split.
Qed.

(* ---- termination ---- *)
Definition mu (s : rt) : nat := N.to_nat (budget s + sp_len (fes s)).

Lemma mu_actions acts : forall s, (mu (do_actions acts s) <= mu s)%nat.
Proof.
  induction acts as [|[[k x] l] acts IH]; intros s; cbn [do_actions]; [lia|].
  destruct (budget s =? 0) eqn:B; [lia|].
  assert (H : forall t, (mu (add_event true (dec_budget s) t l) <= mu s)%nat).
  { intros t. unfold mu, add_event, dec_budget. cbn [budget fes].
    pose proof (sp_add_len_le (fes s) t l). lia. }
  destruct (k =? 0); (etransitivity; [apply IH|]); [unfold add_event_in|]; apply H.
Qed.

Lemma mu_ustep P s l t : nextev (fes s) = Some (l, t) -> (mu (ustep P s l t) < mu s)%nat.
Proof.
  intros E. destruct (nextev_fetch _ _ _ E) as [q' [F [_ [Hl _]]]].
  unfold ustep, deliver, handle. rewrite F. cbn [fst].
  eapply Nat.le_lt_trans; [apply mu_actions|]. unfold mu. cbn [budget fes]. lia.
Qed.

Lemma iter_total P k : forall s, (mu s < k)%nat -> exists s', iter_nat k (D P) s = inr s'.
Proof.
  induction k as [|k IH]; intros s Hk; [lia|]. cbn [iter_nat].
  destruct (D_cases P s) as [[_ ->]|[[l [t [_ [_ ->]]]]|[l [t [E [_ ->]]]]]]; try (eexists; reflexivity).
  apply IH. pose proof (mu_ustep P s l t E). lia.
Qed.

Lemma loop_fuel_nat s : Pos.to_nat (loop_fuel s) = S (mu s).
Proof.
  unfold loop_fuel, mu. rewrite <- positive_N_nat, N.succ_pos_spec, N2Nat.inj_succ. reflexivity.
Qed.

Lemma dispatch_all_iter P s :
  dispatch_all repaired P s = match iter_nat (S (mu s)) (D P) s with inr s' => Some s' | inl _ => None end.
Proof.
  unfold dispatch_all, dispatch_event. cbn [v_peek repaired].
  change (fun s0 => dispatch_event_peek P s0) with (D P).
  rewrite iter_until_nat, loop_fuel_nat. reflexivity.
Qed.

(* the event loop always reaches `true`: the fuel is never exhausted *)
Theorem dispatch_all_total P s : exists s', dispatch_all repaired P s = Some s' /\ iter_nat (S (mu s)) (D P) s = inr s'.
Proof.
  destruct (iter_total P (S (mu s)) s) as [s' E]; [lia|]. exists s'. rewrite dispatch_all_iter, E. split; reflexivity.
Qed.

Lemma dispatch_all_inv P s s' : dispatch_all repaired P s = Some s' -> iter_nat (S (mu s)) (D P) s = inr s'.
Proof. rewrite dispatch_all_iter. destruct (iter_nat (S (mu s)) (D P) s); congruence. Qed.

(* ---- the invariant ---- *)
Definition times (lg : list (N * N)) : list N := map snd lg.
Definition handled (lg : list (N * N)) : list (N * N) := map (fun x => (snd x, fst x)) lg.
Definition accepted (a : list add_rec) : list (N * N) := map (fun r => (a_time r, a_label r)) (filter a_ok a).
Definition rec_ok (r : add_rec) : Prop := a_ok r = (a_now r <=? a_time r).

Record Inv (S : N) (s : rt) : Prop := {
  I_si : SI (fes s);
  I_clk : s_tcur (fes s) = clock s;                    (* the event set's clock is the reported time *)
  I_sorted : StronglySorted N.le (times (log s));
  I_bound : Forall (fun t => S <= t /\ t <= clock s) (times (log s));
  I_start : S <= clock s;
  I_last : clock s = last (times (log s)) S;
  I_itr : itr s = N.of_nat (length (log s));
  I_adds : Forall rec_ok (adds s);
  I_acct : Permutation (accepted (adds s)) (handled (log s) ++ pend (fes s)) }.

Lemma Inv_same S s s' :
  fes s' = fes s -> clock s' = clock s -> log s' = log s -> adds s' = adds s -> itr s' = itr s ->
  Inv S s -> Inv S s'.
Proof. intros E1 E2 E3 E4 E5 [H1 H2 H3 H4 H5 H6 H7 H8 H9]. constructor; rewrite ?E1, ?E2, ?E3, ?E4, ?E5; assumption. Qed.

Lemma Inv_set_limit S s L : Inv S s -> Inv S (set_limit s L).
Proof. apply Inv_same; reflexivity. Qed.
Lemma Inv_dec_budget S s : Inv S s -> Inv S (dec_budget s).
Proof. apply Inv_same; reflexivity. Qed.

Lemma Inv_new S B L : Inv S (rt_new repaired S B L).
Proof.
  constructor; cbn.
  - apply SI_new_at.
  - reflexivity.
  - constructor.
  - constructor.
  - lia.
  - reflexivity.
  - reflexivity.
  - constructor.
  - constructor.
Qed.

Lemma accepted_snoc a r :
  accepted (a ++ [r]) = accepted a ++ (if a_ok r then [(a_time r, a_label r)] else []).
Proof.
  unfold accepted. rewrite filter_app, map_app. cbn [filter]. destruct (a_ok r); reflexivity.
Qed.

Lemma Inv_add S inh s t l : Inv S s -> Inv S (add_event inh s t l).
Proof.
  intros [H1 H2 H3 H4 H5 H6 H7 H8 H9]. unfold add_event.
  destruct (N.lt_ge_cases t (s_tcur (fes s))) as [Hlt|Hge].
  - rewrite sp_add_past by exact Hlt. cbn [fst snd added_ok].
    constructor; cbn [fes clock itr log adds]; try assumption.
    + apply Forall_app. split; [exact H8|]. constructor; [|constructor]. unfold rec_ok. cbn. lia.
    + rewrite accepted_snoc. cbn [a_ok]. rewrite app_nil_r. exact H9.
  - destruct (sp_add_ok (fes s) t l Hge) as [Eo [Et [Ep _]]]. cbn zeta in *. rewrite Eo. cbn [added_ok].
    constructor; cbn [fes clock itr log adds]; try assumption.
    + apply SI_add. exact H1.
    + congruence.
    + apply Forall_app. split; [exact H8|]. constructor; [|constructor]. unfold rec_ok. cbn. lia.
    + rewrite accepted_snoc. cbn [a_ok a_time a_label]. rewrite Ep, H9.
      rewrite <- app_assoc. apply Permutation_app_head. symmetry. apply Permutation_cons_append.
Qed.

Lemma Inv_actions S acts : forall s, Inv S s -> Inv S (do_actions acts s).
Proof.
  induction acts as [|[[k x] l] acts IH]; intros s HI; cbn [do_actions]; [exact HI|].
  destruct (budget s =? 0); [exact HI|]. destruct (k =? 0); apply IH; [unfold add_event_in|];
    apply Inv_add; apply Inv_dec_budget; exact HI.
Qed.

Lemma sorted_snoc l x : StronglySorted N.le l -> Forall (fun y => y <= x) l -> StronglySorted N.le (l ++ [x]).
Proof.
  induction 1 as [|y l Hs IH Hall]; intros Hle; cbn [app]; [repeat constructor|].
  inversion Hle as [|? ? Hy Hl]; subst. constructor; [apply IH; exact Hl|].
  apply Forall_app. split; [exact Hall|]. constructor; [exact Hy|constructor].
Qed.

(* the state right after `itr += 1; SimTime::set_now(time)`, before the handler runs *)
Definition fetched (s : rt) (l t : N) : rt :=
  {| fes := fst (sp_fetch (fes s)); clock := t; itr := itr s + 1; limit := limit s; budget := budget s;
     log := log s ++ [(l, t)]; adds := adds s |}.

Lemma ustep_fetched P s l t : ustep P s l t = handle P l (fetched s l t).
Proof. reflexivity. Qed.

Lemma Inv_fetched S s l t : Inv S s -> nextev (fes s) = Some (l, t) -> Inv S (fetched s l t).
Proof.
  intros [H1 H2 H3 H4 H5 H6 H7 H8 H9] E.
  destruct (nextev_fetch _ _ _ E) as [q' [F [Ep _]]].
  destruct (fetch_tcur _ _ _ _ H1 E F) as [Et Hle].
  unfold fetched. rewrite F. cbn [fst].
  constructor; cbn [fes clock itr log adds]; unfold times in *; rewrite ?map_app; cbn [map snd]; try assumption.
  - pose proof (SI_fetch (fes s) H1) as HS. rewrite F in HS. exact HS.
  - apply sorted_snoc; [exact H3|]. eapply Forall_impl; [|exact H4]. cbn. intros y Hy. lia.
  - apply Forall_app. split.
    + eapply Forall_impl; [|exact H4]. cbn. intros y Hy. lia.
    + constructor; [lia|constructor].
  - lia.
  - rewrite last_last. reflexivity.
  - rewrite app_length. cbn [length]. lia.
  - rewrite H9, Ep. unfold handled. rewrite map_app, <- app_assoc. reflexivity.
Qed.

Lemma Inv_ustep S P s l t : Inv S s -> nextev (fes s) = Some (l, t) -> Inv S (ustep P s l t).
Proof. intros HI E. rewrite ustep_fetched. unfold handle. apply Inv_actions. apply Inv_fetched; assumption. Qed.

Lemma Inv_iter S P k : forall s s', Inv S s -> iter_nat k (D P) s = inr s' -> Inv S s'.
Proof.
  induction k as [|k IH]; intros s s' HI H; cbn [iter_nat] in H; [discriminate|].
  destruct (D_cases P s) as [[_ E]|[[l [t [_ [_ E]]]]|[l [t [En [_ E]]]]]]; rewrite E in H.
  - injection H as <-. exact HI.
  - injection H as <-. exact HI.
  - eapply IH; [|exact H]. apply Inv_ustep; assumption.
Qed.

Lemma Inv_dispatch_all S P s s' : Inv S s -> dispatch_all repaired P s = Some s' -> Inv S s'.
Proof. intros HI H. apply dispatch_all_inv in H. eapply Inv_iter; eassumption. Qed.

Lemma Inv_with_limit S P L s s' : Inv S s -> with_limit repaired P L s = Some s' -> Inv S s'.
Proof.
  unfold with_limit. intros HI H. destruct (dispatch_all repaired P (set_limit s L)) as [s1|] eqn:E; [|discriminate].
  injection H as <-. apply Inv_set_limit. eapply Inv_dispatch_all; [|exact E]. apply Inv_set_limit. exact HI.
Qed.

Lemma Inv_step S P s o s' x : Inv S s -> step repaired P s o = (Some s', x) -> Inv S s'.
Proof.
  intros HI. destruct o as [k|T|t l]; cbn [step]; unfold dispatch_n_events, dispatch_events_until.
  - destruct (with_limit repaired P (LCount (itr s + k)) s) as [s1|] eqn:E; intros H; [|discriminate].
    injection H as <- _. eapply Inv_with_limit; eassumption.
  - destruct (with_limit repaired P (LTime T) s) as [s1|] eqn:E; intros H; [|discriminate].
    injection H as <- _. eapply Inv_with_limit; eassumption.
  - intros H. injection H as <- _. apply Inv_add. exact HI.
Qed.

Lemma Inv_sched S P ops : forall s s' xs, Inv S s -> exec_sched repaired P s ops = (Some s', xs) -> Inv S s'.
Proof.
  induction ops as [|o ops IH]; intros s s' xs HI H; cbn [exec_sched] in H.
  - injection H as <- _. exact HI.
  - destruct (step repaired P s o) as [[s1|] x] eqn:E; [|discriminate].
    destruct (exec_sched repaired P s1 ops) as [s2 ys] eqn:E2. injection H as -> _.
    eapply IH; [|exact E2]. eapply Inv_step; eassumption.
Qed.

Lemma Inv_pre_adds S pre : forall s, Inv S s -> Inv S (fst (pre_adds s pre)).
Proof.
  induction pre as [|[t l] pre IH]; intros s HI; cbn [pre_adds]; [exact HI|].
  specialize (IH (add_event false s t l) (Inv_add S false s t l HI)).
  destruct (pre_adds (add_event false s t l) pre) as [s2 xs]. exact IH.
Qed.

(* steps and the whole pipeline are total as well *)
Lemma with_limit_total P L s : exists s', with_limit repaired P L s = Some s'.
Proof.
  unfold with_limit. destruct (dispatch_all_total P (set_limit s L)) as [s1 [E _]]. rewrite E. eexists; reflexivity.
Qed.

Lemma step_total P s o : exists s' x, step repaired P s o = (Some s', x).
Proof.
  destruct o as [k|T|t l]; cbn [step]; unfold dispatch_n_events, dispatch_events_until.
  - destruct (with_limit_total P (LCount (itr s + k)) s) as [s1 ->]. eexists _, _; reflexivity.
  - destruct (with_limit_total P (LTime T) s) as [s1 ->]. eexists _, _; reflexivity.
  - eexists _, _; reflexivity.
Qed.

Lemma sched_total P ops : forall s, exists s' xs, exec_sched repaired P s ops = (Some s', xs).
Proof.
  induction ops as [|o ops IH]; intros s; cbn [exec_sched]; [eexists _, _; reflexivity|].
  destruct (step_total P s o) as [s1 [x ->]]. destruct (IH s1) as [s2 [xs ->]]. eexists _, _; reflexivity.
Qed.
