(* The headline statements of C02 / C10 / C11 for the runtime over the calendar
   queue, for every bucket count n >= 1 and width t >= 1: corollaries of the
   theorems about Model.v through the simulation of Compose.v. *)
From Coq Require Import List Arith NArith PArith Lia Bool Sorting.Sorted Permutation ZifyBool.
From DesVerif Require Import Common.Fuel Common.Codec CQueue.Model CQueue.Spec CQueue.ListX CQueue.Refine CQueue.SpecProps
  Runtime.Limit Runtime.Model Runtime.ModelCq Runtime.Queue Runtime.Inv Runtime.Prefix Runtime.Step Runtime.Mono Runtime.Compose.
Import ListNotations.
Open Scope N_scope.

(* Builder::cqueue_options(n, t)...build(), then the pre-run add_event calls *)
Definition cboot (n t S B : N) (L : lim) (pre : list (N * N)) : rtc := fst (cpre_adds (crt_new repaired n t S B L) pre).

Lemma Rel_boot n t S B L pre : n <> 0 -> t <> 0 -> Rel (cboot n t S B L pre) (boot S B L pre).
Proof. intros Hn Ht. apply Rel_pre_adds. apply Rel_new; assumption. Qed.

(* transport of results in both directions *)
Lemma dispatch_all_down P c s s' :
  Rel c s -> dispatch_all repaired P s = Some s' -> exists c', cdispatch_all repaired P c = Some c' /\ Rel c' s'.
Proof.
  intros HRel H. pose proof (Rel_dispatch_all P c s HRel) as X. rewrite H in X.
  destruct (cdispatch_all repaired P c) as [c'|]; cbn [Rel_opt] in X; [|contradiction]. exists c'. split; [reflexivity|exact X].
Qed.

Lemma dispatch_all_up P c s c' :
  Rel c s -> cdispatch_all repaired P c = Some c' -> exists s', dispatch_all repaired P s = Some s' /\ Rel c' s'.
Proof.
  intros HRel H. pose proof (Rel_dispatch_all P c s HRel) as X. rewrite H in X.
  destruct (dispatch_all repaired P s) as [s'|]; cbn [Rel_opt] in X; [|contradiction]. exists s'. split; [reflexivity|exact X].
Qed.

Lemma with_limit_up P L c s c' :
  Rel c s -> cwith_limit repaired P L c = Some c' -> exists s', with_limit repaired P L s = Some s' /\ Rel c' s'.
Proof.
  intros HRel H. pose proof (Rel_with_limit P L c s HRel) as X. rewrite H in X.
  destruct (with_limit repaired P L s) as [s'|]; cbn [Rel_opt] in X; [|contradiction]. exists s'. split; [reflexivity|exact X].
Qed.

Lemma sched_up P ops c s c1 xs :
  Rel c s -> cexec_sched repaired P c ops = (Some c1, xs) -> exists s1, exec_sched repaired P s ops = (Some s1, xs) /\ Rel c1 s1.
Proof.
  intros HRel H. destruct (Rel_sched P ops c s HRel) as [X Y]. rewrite H in X, Y. cbn [fst snd] in X, Y.
  destruct (exec_sched repaired P s ops) as [[s1|] ys]; cbn [fst snd Rel_opt] in *; [|contradiction].
  subst ys. exists s1. split; [reflexivity|exact X].
Qed.

Lemma sched_down P ops c s s1 xs :
  Rel c s -> exec_sched repaired P s ops = (Some s1, xs) -> exists c1, cexec_sched repaired P c ops = (Some c1, xs) /\ Rel c1 s1.
Proof.
  intros HRel H. destruct (Rel_sched P ops c s HRel) as [X Y]. rewrite H in X, Y. cbn [fst snd] in X, Y.
  destruct (cexec_sched repaired P c ops) as [[c1|] ys]; cbn [fst snd Rel_opt] in *; [|contradiction].
  subst ys. exists c1. split; [reflexivity|exact X].
Qed.

Lemma Rel_log c s : Rel c s -> clog c = log s.
Proof. intros H. apply H. Qed.

(* ---------------------------------------------------------------- C11 *)
Theorem limited_log_cq n t P S B pre L : n <> 0 -> t <> 0 ->
  exists u a,
    cdispatch_all repaired P (cboot n t S B LNone pre) = Some u /\
    cdispatch_all repaired P (cboot n t S B L pre) = Some a /\
    clog a = lprefix L 0 (clog u).
Proof.
  intros Hn Ht. destruct (limited_log_is_longest_admissible_prefix P S B pre L) as [u' [a' [Hu [Ha E]]]].
  destruct (dispatch_all_down P _ _ _ (Rel_boot n t S B LNone pre Hn Ht) Hu) as [u [Eu Ru]].
  destruct (dispatch_all_down P _ _ _ (Rel_boot n t S B L pre Hn Ht) Ha) as [a [Ea Ra]].
  exists u, a. split; [exact Eu|]. split; [exact Ea|]. rewrite (Rel_log _ _ Ru), (Rel_log _ _ Ra). exact E.
Qed.

Theorem nothing_lost_cq n t P S B pre L a : n <> 0 -> t <> 0 ->
  cdispatch_all repaired P (cboot n t S B L pre) = Some a ->
  Permutation (accepted (cadds a)) (handled (clog a) ++ isort (cremaining (cfes a))) /\
  ple_sorted (isort (cremaining (cfes a))) /\
  cfinish a = OFinal (N.of_nat (length (clog a))) (last (map snd (clog a)) S) (clog a) (cadds a) (isort (cremaining (cfes a))).
Proof.
  intros Hn Ht H. destruct (dispatch_all_up P _ _ _ (Rel_boot n t S B L pre Hn Ht) H) as [a' [Ha Ra]].
  destruct (limited_run_accounting P S B pre L a' Ha) as [H1 [H2 [H3 [H4 _]]]].
  pose proof Ra as [[hs HR] [E1 [E2 [_ [_ [E5 E6]]]]]].
  rewrite (remaining_sim _ _ _ HR), E5, E6. split; [exact H1|]. split; [exact H2|].
  unfold cfinish. rewrite (remaining_sim _ _ _ HR), E1, E2, E5, E6, H3, H4. reflexivity.
Qed.

Theorem count_limit_cq n t P S B pre k : n <> 0 -> t <> 0 ->
  exists u a, cdispatch_all repaired P (cboot n t S B LNone pre) = Some u /\
              cdispatch_all repaired P (cboot n t S B (LCount k) pre) = Some a /\
              clog a = firstn (N.to_nat k) (clog u).
Proof.
  intros Hn Ht. destruct (count_limit_run P S B pre k) as [u' [a' [Hu [Ha E]]]].
  destruct (dispatch_all_down P _ _ _ (Rel_boot n t S B LNone pre Hn Ht) Hu) as [u [Eu Ru]].
  destruct (dispatch_all_down P _ _ _ (Rel_boot n t S B (LCount k) pre Hn Ht) Ha) as [a [Ea Ra]].
  exists u, a. split; [exact Eu|]. split; [exact Ea|]. rewrite (Rel_log _ _ Ru), (Rel_log _ _ Ra). exact E.
Qed.

Theorem time_limit_cq n t P S B pre T : n <> 0 -> t <> 0 ->
  exists u a, cdispatch_all repaired P (cboot n t S B LNone pre) = Some u /\
              cdispatch_all repaired P (cboot n t S B (LTime T) pre) = Some a /\
              clog a = filter (fun e => snd e <=? T) (clog u).
Proof.
  intros Hn Ht. destruct (time_limit_run P S B pre T) as [u' [a' [Hu [Ha E]]]].
  destruct (dispatch_all_down P _ _ _ (Rel_boot n t S B LNone pre Hn Ht) Hu) as [u [Eu Ru]].
  destruct (dispatch_all_down P _ _ _ (Rel_boot n t S B (LTime T) pre Hn Ht) Ha) as [a [Ea Ra]].
  exists u, a. split; [exact Eu|]. split; [exact Ea|]. rewrite (Rel_log _ _ Ru), (Rel_log _ _ Ra). exact E.
Qed.

(* ---------------------------------------------------------------- C10 *)
Theorem stepped_eq_run_cq n t P S B pre ops : n <> 0 -> t <> 0 ->
  forallb is_dispatch ops = true ->
  exists c1 xs cf u,
    cexec_sched repaired P (cboot n t S B LNone pre) ops = (Some c1, xs) /\
    cdispatch_all repaired P c1 = Some cf /\
    cdispatch_all repaired P (cboot n t S B LNone pre) = Some u /\
    cfinish cf = cfinish u /\ clog cf = clog u.
Proof.
  intros Hn Ht Hd. pose proof (Rel_boot n t S B LNone pre Hn Ht) as R0.
  destruct (sched_total P ops (boot S B LNone pre)) as [s1 [xs E1]].
  destruct (dispatch_all_total P s1) as [sf [Ef _]].
  destruct (dispatch_all_total P (boot S B LNone pre)) as [u' [Eu _]].
  assert (sf = u') as -> by (eapply stepped_eq_run; try eassumption; apply boot_fields).
  destruct (sched_down P ops _ _ _ _ R0 E1) as [c1 [C1 R1]].
  destruct (dispatch_all_down P _ _ _ R1 Ef) as [cf [Cf Rf]].
  destruct (dispatch_all_down P _ _ _ R0 Eu) as [u [Cu Ru]].
  exists c1, xs, cf, u. repeat split; try assumption.
  - rewrite (finish_sim _ _ Rf), (finish_sim _ _ Ru). reflexivity.
  - rewrite (Rel_log _ _ Rf), (Rel_log _ _ Ru). reflexivity.
Qed.

Theorem stepped_block_cq n t sc sched : n <> 0 -> t <> 0 ->
  forallb is_dispatch sched = true ->
  exists o0 o1 u,
    crun_block repaired n t sc LNone [] = o0 ++ [finish u] /\
    crun_block repaired n t sc LNone sched = o0 ++ o1 ++ [finish u].
Proof.
  intros Hn Ht Hd. rewrite !run_block_over_cqueue by assumption. apply stepped_block_eq_run_block. exact Hd.
Qed.

Lemma skipn_app_exact {A} (l r : list A) : skipn (length l) (l ++ r) = r.
Proof. induction l as [|x l IH]; cbn; auto. Qed.

(* a paused runtime over the calendar queue: reported values, the two step
   functions, add_event *)
Theorem paused_cq n t P S B L pre ops c xs : n <> 0 -> t <> 0 ->
  cexec_sched repaired P (cboot n t S B L pre) ops = (Some c, xs) ->
  cstatus c = OStatus (N.of_nat (length (clog c))) (N.of_nat (length (cremaining (cfes c))))
                      (last (map snd (clog c)) S) (N.of_nat (length (cadds c))) /\
  Permutation (accepted (cadds c)) (handled (clog c) ++ cremaining (cfes c)) /\
  tcur (cfes c) = cclock c /\
  (forall tm l, cstep repaired P c (SAdd tm l) = (Some (cadd_event false c tm l), OAddRes (cclock c <=? tm))) /\
  (forall k, exists c' u,
     cdispatch_n_events repaired P c k = Some c' /\ cdispatch_all repaired P (cset_limit c LNone) = Some u /\
     clog c' = clog c ++ firstn (N.to_nat k) (skipn (length (clog c)) (clog u))) /\
  (forall T, exists c' u,
     cdispatch_events_until repaired P c T = Some c' /\ cdispatch_all repaired P (cset_limit c LNone) = Some u /\
     clog c' = clog c ++ filter (fun e => snd e <=? T) (skipn (length (clog c)) (clog u))).
Proof.
  intros Hn Ht H. destruct (sched_up P ops _ _ _ _ (Rel_boot n t S B L pre Hn Ht) H) as [s [Hs Rs]].
  pose proof (Inv_paused _ _ _ _ _ _ _ _ Hs) as HI. pose proof Rs as [[hs HR] [E1 [E2 [E3 [E4 [E5 E6]]]]]].
  destruct (paused_state S s HI) as [P1 [P2 [P3 [P4 [P5 _]]]]].
  destruct (dispatch_all_total P (set_limit s LNone)) as [u' [Eu' _]].
  destruct (dispatch_all_down P _ _ _ (Rel_set_limit c s LNone Rs) Eu') as [u [Eu Ru]].
  pose proof (unlimited_rest P s u' Eu') as Erest.
  assert (Eskip : skipn (length (clog c)) (clog u) = rest_of P s).
  { rewrite (Rel_log _ _ Ru), E5, Erest. apply skipn_app_exact. }
  split; [|split; [|split; [|split; [|split]]]].
  - rewrite (status_sim _ _ Rs), (remaining_sim _ _ _ HR), E5, E6. unfold status. rewrite P2, P3, P1. reflexivity.
  - rewrite (remaining_sim _ _ _ HR), E5, E6. exact P4.
  - rewrite (R_tcur _ _ _ HR), (I_clk _ _ HI). symmetry. exact E1.
  - intros tm l. cbn [cstep]. rewrite (last_ok_sim _ _ (Rel_add false c s tm l Rs)), P5, E1. reflexivity.
  - intros k. destruct (with_limit_total P (LCount (itr s + k)) s) as [s' Es'].
    pose proof (Rel_with_limit P (LCount (itr s + k)) c s Rs) as X. rewrite Es' in X.
    unfold cdispatch_n_events. rewrite E2.
    destruct (cwith_limit repaired P (LCount (itr s + k)) c) as [c'|]; cbn [Rel_opt] in X; [|contradiction].
    exists c', u. split; [reflexivity|]. split; [exact Eu|].
    rewrite (Rel_log _ _ X), Eskip, E5. apply (n_step_exact S P s k s' HI Es').
  - intros T. destruct (with_limit_total P (LTime T) s) as [s' Es'].
    pose proof (Rel_with_limit P (LTime T) c s Rs) as X. rewrite Es' in X.
    unfold cdispatch_events_until.
    destruct (cwith_limit repaired P (LTime T) c) as [c'|]; cbn [Rel_opt] in X; [|contradiction].
    exists c', u. split; [reflexivity|]. split; [exact Eu|].
    rewrite (Rel_log _ _ X), Eskip, E5. apply (until_step_exact S P s T s' HI Es').
Qed.

(* ---------------------------------------------------------------- C02 *)
(* what C02 says about a state of the runtime over the calendar queue *)
Definition good (S : N) (c : rtc) : Prop :=
  S <= cclock c /\
  StronglySorted N.le (S :: map snd (clog c)) /\
  cclock c = last (map snd (clog c)) S /\
  tcur (cfes c) = cclock c /\
  Forall (fun r => a_ok r = (a_now r <=? a_time r)) (cadds c) /\
  Permutation (accepted (cadds c)) (handled (clog c) ++ cremaining (cfes c)) /\
  (forall inh tm l, clast_ok (cadd_event inh c tm l) = (cclock c <=? tm) /\
                    cclock (cadd_event inh c tm l) = cclock c /\
                    (tm < cclock c -> cfes (cadd_event inh c tm l) = cfes c)).

Lemma good_of_Rel S B c s : Rel c s -> reachable S B s -> good S c.
Proof.
  intros Rs HR. pose proof (reachable_Inv S B s HR) as HI. pose proof Rs as [[hs HQ] [E1 [E2 [E3 [E4 [E5 E6]]]]]].
  destruct (clock_monotone S B s HR) as [C1 [_ [C3 C4]]].
  unfold good. rewrite (remaining_sim _ _ _ HQ), E1, E5, E6.
  split; [exact C1|]. split; [exact C3|]. split; [exact C4|].
  split; [rewrite (R_tcur _ _ _ HQ); apply (I_clk _ _ HI)|].
  split; [apply (I_adds _ _ HI)|]. split; [apply (I_acct _ _ HI)|].
  intros inh tm l. split; [|split].
  - rewrite (last_ok_sim _ _ (Rel_add inh c s tm l Rs)), last_ok_add, (I_clk _ _ HI). reflexivity.
  - cbn. exact E1.
  - intros Hlt. unfold cadd_event. cbn [cfes]. unfold add.
    assert (tm <? tcur (cfes c) = true) as -> by (rewrite (R_tcur _ _ _ HQ), (I_clk _ _ HI); lia). reflexivity.
Qed.

(* every paused state and the final state of every (stepped) run of every
   program, for every start time and every calendar-queue parameterisation *)
Theorem run_good_cq n t S B L pre P ops c1 xs cf : n <> 0 -> t <> 0 ->
  cexec_sched repaired P (cboot n t S B L pre) ops = (Some c1, xs) ->
  cdispatch_all repaired P c1 = Some cf ->
  good S (cboot n t S B L pre) /\ good S c1 /\ good S cf.
Proof.
  intros Hn Ht H1 H2. pose proof (Rel_boot n t S B L pre Hn Ht) as R0.
  destruct (sched_up P ops _ _ _ _ R0 H1) as [s1 [Hs1 R1]].
  destruct (dispatch_all_up P _ _ _ R1 H2) as [sf [Hsf Rf]].
  destruct (run_reachable S B L pre P ops s1 xs sf Hs1 Hsf) as [A0 [A1 Af]].
  split; [|split]; eapply good_of_Rel; eassumption.
Qed.

(* the loops of the runtime over the calendar queue terminate as well (this
   includes the bucket scan of fetch_next / peek_time) *)
Theorem run_total_cq n t sc : n <> 0 -> t <> 0 -> ~ In OFuel (crun_script repaired n t sc).
Proof. intros Hn Ht. rewrite run_script_over_cqueue by assumption. apply run_total. Qed.
