(* The interface of a future event set, as the runtime uses it, packaged with
   the facts the runtime theorems need (Runtime/GenericProps.v, GenericPrefix.v,
   GenericStep.v prove every runtime-level statement of C02 / C10 / C11 for an
   arbitrary [E : evset]).
     state eQ, hint type eHint (the oracle of a backend whose choice among equal
     timestamps is unspecified; deterministic backends use unit),
     new / add / peek_time / fetch_next / len,
     an invariant eI, the set's own clock e_clock, its pending multiset e_pend,
   and six facts:
     e_new_ok    a new set is empty and its clock is the start time
     e_add_lt    add before the set's clock is rejected and changes nothing
     e_add_ge    add at/after it is accepted, keeps the clock, adds exactly that entry
     e_len_ok    len counts the pending entries
     e_peek_none peek_time = None only when nothing is pending
     e_fetch_ok  when peek_time = Some t, fetch_next (whatever the hint) returns an
                 entry with exactly that time, t is not before the set's clock, the
                 clock becomes t and exactly that entry leaves the pending multiset
   A seventh fact, "peek_time does not change the event set", is built into the
   TYPE of e_peek (it returns no state); the stepping theorems depend on it.  Both
   real backends have it since fix: commit f4552a6 (peek_time takes &self). *)
From Coq Require Import List NArith Permutation.
Import ListNotations.
Open Scope N_scope.

Record evset := {
  eQ : Type;
  eHint : Type;
  e_new : N -> eQ;
  e_add : eQ -> N -> N -> eQ * bool;
  e_peek : eQ -> option N;
  e_fetch : eHint -> eQ -> eQ * option (N * N);
  e_len : eQ -> N;
  eI : eQ -> Prop;
  e_clock : eQ -> N;
  e_pend : eQ -> list (N * N);
  e_new_ok : forall S, eI (e_new S) /\ e_clock (e_new S) = S /\ e_pend (e_new S) = [];
  e_add_lt : forall q t l, eI q -> t < e_clock q -> e_add q t l = (q, false);
  e_add_ge : forall q t l, eI q -> e_clock q <= t ->
    exists q', e_add q t l = (q', true) /\ eI q' /\ e_clock q' = e_clock q /\ Permutation (e_pend q') ((t, l) :: e_pend q);
  e_len_ok : forall q, eI q -> e_len q = N.of_nat (length (e_pend q));
  e_peek_none : forall q, eI q -> e_peek q = None -> e_pend q = [];
  e_fetch_ok : forall q t h, eI q -> e_peek q = Some t ->
    exists q' l, e_fetch h q = (q', Some (t, l)) /\ eI q' /\ e_clock q' = t /\ e_clock q <= t /\
                 Permutation (e_pend q) ((t, l) :: e_pend q')
}.
